import Tuc.Model.Text
/-!
# Tuc.Model.TextLoops — LITERAL models of the loops of `cut_str.rs`

`Tuc.Model.Text` models the helpers of `cut_str.rs` in *normal form* over the list of offsets of
`find_iter`.  This file follows the Rust text of the same four functions statement by statement:

* `fill_with_fields_locations`          (cut_str.rs:19-42)   → `fillWithFieldsLocationsLoop`
* `fill_with_fields_locations_greedy`   (cut_str.rs:50-90)   → `fillWithFieldsLocationsGreedyLoop`
* `compress_delimiter`                  (cut_str.rs:117-137) → `compressDelimiterLoop`
* `trim`                                (cut_str.rs:176-216) → `trimLoop`

Conventions:

* local variables keep their Rust names (camelCase); a `let mut` that is assigned again becomes a
  parameter of the loop function or a shadowing `let`;
* every operation that can panic in Rust is *checked* and yields `Outcome.panic`:
  `&l[a..]` (`a > len`), `&l[..b]` (`b > len`), `&l[a..b]` (`a > b` or `b > len`),
  `x -= y` on `usize` (`x < y`: panics in the debug build, wraps in the release build — the
  refinement theorems show it never happens);  `x += y` is unbounded (project convention);
* a `while` loop takes fuel and yields `Outcome.hang` when it runs out; the entry points give
  `len + 1` units of fuel and `Tuc.Props.TextLoops` proves that this is never used up (with the
  guard for the empty delimiter removed the loops really would not terminate: the model then
  says `hang`);
* `for idx in line.find_iter(d)` iterates over `findIter d line`, the project's model of the
  library iterator; `memmem::FindIter::next` itself (memchr 2.7.4, src/memmem/mod.rs:276-286,
  which `bstr::Find` wraps) is modelled literally as `TextLoops.findIterLoop`, and proved equal to
  `findIter` for every needle, the empty one included;
* `haystack.find(needle)` (first occurrence, relative to the sub-slice) is `TextLoops.find`;
  `starts_with` is `List.isPrefixOf`, `ends_with` is `List.isSuffixOf`;
* `buffer.clear()` is `TextLoops.clear`, `buffer.push(x)` is `TextLoops.push`, `output.extend(s)`
  is `TextLoops.extend`.
-/

namespace Tuc

/-- How the execution of a piece of straight-line-and-loops Rust code ends: with a value, with a
    panic (checked slicing / arithmetic), or never (`hang`: the fuel of a `while` ran out). -/
inductive Outcome (α : Type) where
  | ok (a : α)
  | panic
  | hang
  deriving Repr, DecidableEq

namespace Outcome

def bind {α β : Type} (r : Outcome α) (f : α → Outcome β) : Outcome β :=
  match r with
  | .ok a => f a
  | .panic => .panic
  | .hang => .hang

def toOption {α : Type} : Outcome α → Option α
  | .ok a => Option.some a
  | _ => Option.none

def isOk {α : Type} : Outcome α → Bool
  | .ok _ => true
  | _ => false

end Outcome

namespace TextLoops

/-! ## the vocabulary of the Rust text -/

/-- `v.clear()` -/
def clear {α : Type} (_v : List α) : List α := []

/-- `v.push(x)` -/
def push {α : Type} (v : List α) (x : α) : List α := v ++ [x]

/-- `v.extend(s)` -/
def extend {α : Type} (v s : List α) : List α := v ++ s

/-- `&l[a..]`: panics when `a > l.len()` -/
def sliceFrom {α : Type} (l : List α) (a : Nat) : Outcome (List α) :=
  if a ≤ l.length then .ok (l.drop a) else .panic

/-- `&l[..b]`: panics when `b > l.len()` -/
def sliceTo {α : Type} (l : List α) (b : Nat) : Outcome (List α) :=
  if b ≤ l.length then .ok (l.take b) else .panic

/-- `&l[a..b]`: panics when `a > b` or `b > l.len()` -/
def sliceRange {α : Type} (l : List α) (a b : Nat) : Outcome (List α) :=
  if a ≤ b ∧ b ≤ l.length then .ok (slice l a b) else .panic

/-- `x - y` on `usize` (`x -= y`): overflow check of the debug build -/
def checkedSub (x y : Nat) : Outcome Nat :=
  if y ≤ x then .ok (x - y) else .panic

/-- `haystack.find(needle)` (bstr → `memmem::find`): offset of the first occurrence; the empty
    needle is found at 0.  `pos` counts the bytes already passed. -/
def findAux (needle : Bytes) : Nat → Bytes → Option Nat
  | pos, [] => if needle.isEmpty then Option.some pos else Option.none
  | pos, c :: t =>
    if needle.isPrefixOf (c :: t) then Option.some pos else findAux needle (pos + 1) t

def find (haystack needle : Bytes) : Option Nat := findAux needle 0 haystack

/-- first occurrence of `needle` in `line` at or after `from`, as an offset into `line`
    (`line[from..].find(needle)` followed by `idx += from`); `none` also when `from > len` -/
def findFrom (line needle : Bytes) (frm : Nat) : Option Nat :=
  if frm ≤ line.length then (find (line.drop frm) needle).map (· + frm) else Option.none

/-! ## `memmem::FindIter` (memchr 2.7.4, src/memmem/mod.rs:273-286), which `bstr::Find` wraps

```rust
fn next(&mut self) -> Option<usize> {
    let needle = self.finder.needle();
    let haystack = self.haystack.get(self.pos..)?;                                  // 278
    let idx = self.finder.searcher.find(&mut self.prestate, haystack, needle)?;     // 279-280
    let pos = self.pos + idx;                                                       // 282
    self.pos = pos + needle.len().max(1);                                           // 283
    Some(pos)                                                                       // 285
}
```
Collecting the iterator: `fuel` bounds the number of calls of `next`. -/
def findIterLoop (needle haystack : Bytes) : Nat → Nat → List Nat
  | 0, _ => []
  | fuel + 1, selfPos =>
    -- 278: `self.haystack.get(self.pos..)?`  (`get` gives `None` instead of panicking)
    match (sliceFrom haystack selfPos).toOption with
    | Option.none => []
    | Option.some hay =>
      -- 279-280
      match find hay needle with
      | Option.none => []
      | Option.some idx =>
        let pos := selfPos + idx                                   -- 282
        pos :: findIterLoop needle haystack fuel (pos + max needle.length 1)   -- 283, 285

/-! ## `fill_with_fields_locations` (cut_str.rs:19-42) -/

/-- the body of `for idx in line.find_iter(&delimiter)` (cut_str.rs:29-36); the state is
    `(buffer, prev_part_start)` -/
def fillStep (delimiterLength : Nat) (st : List Range × Nat) (idx : Nat) : List Range × Nat :=
  let (buffer, prevPartStart) := st
  let buffer := push buffer ⟨prevPartStart, idx⟩       -- 30-33
  let prevPartStart := idx + delimiterLength            -- 35
  (buffer, prevPartStart)

/-- the `for` loop (cut_str.rs:29-36) over the items the iterator yields -/
def fillFor (delimiterLength : Nat) (items : List Nat) (buffer : List Range) (prevPartStart : Nat) :
    List Range × Nat :=
  items.foldl (fillStep delimiterLength) (buffer, prevPartStart)

end TextLoops

open TextLoops

/-- `fill_with_fields_locations` (cut_str.rs:19-42), statement by statement -/
def fillWithFieldsLocationsLoop (buffer : List Range) (line delimiter : Bytes) :
    Outcome (List Range) :=
  let buffer := clear buffer                                            -- 20
  if line.isEmpty then                                                  -- 22
    .ok buffer                                                          -- 23 return
  else
    let delimiterLength := delimiter.length                             -- 26
    let prevPartStart := 0                                              -- 27
    let (buffer, prevPartStart) :=                                      -- 29-36
      fillFor delimiterLength (findIter delimiter line) buffer prevPartStart
    let buffer := push buffer ⟨prevPartStart, line.length⟩              -- 38-41
    .ok buffer

namespace TextLoops

/-! ## `fill_with_fields_locations_greedy` (cut_str.rs:50-90) -/

/-- `while line[prev_part_start..].starts_with(delimiter) { prev_part_start += delimiter_length; }`
    (cut_str.rs:81-83); gives the final `prev_part_start` -/
def greedySkip (line delimiter : Bytes) (delimiterLength : Nat) : Nat → Nat → Outcome Nat
  | 0, _ => .hang
  | fuel + 1, prevPartStart =>
    (sliceFrom line prevPartStart).bind fun rest =>                     -- 81 line[prev_part_start..]
      if delimiter.isPrefixOf rest then                                 -- 81 .starts_with(delimiter)
        greedySkip line delimiter delimiterLength fuel (prevPartStart + delimiterLength)  -- 82
      else
        .ok prevPartStart

/-- `while let Some(mut idx) = &line[prev_part_start..].find(delimiter) { … }`
    (cut_str.rs:70-84); the state is `(buffer, prev_part_start)` -/
def greedyWhile (line delimiter : Bytes) (delimiterLength : Nat) :
    Nat → List Range → Nat → Outcome (List Range × Nat)
  | 0, _, _ => .hang
  | fuel + 1, buffer, prevPartStart =>
    (sliceFrom line prevPartStart).bind fun rest =>                     -- 70 line[prev_part_start..]
      match find rest delimiter with                                    -- 70 .find(delimiter)
      | Option.none => .ok (buffer, prevPartStart)                      -- loop ends
      | Option.some idx =>
        let idx := idx + prevPartStart                                  -- 71
        let buffer := push buffer ⟨prevPartStart, idx⟩                  -- 73-76
        let prevPartStart := idx + delimiterLength                      -- 78
        -- 80-83: greedy, so we skip any next occurrence
        (greedySkip line delimiter delimiterLength (line.length + 1) prevPartStart).bind
          fun prevPartStart =>
            greedyWhile line delimiter delimiterLength fuel buffer prevPartStart

/-- cut_str.rs:86-89, after the loop -/
def greedyFinish (line : Bytes) (st : List Range × Nat) : Outcome (List Range) :=
  let (buffer, prevPartStart) := st
  .ok (push buffer ⟨prevPartStart, line.length⟩)

end TextLoops

/-- `fill_with_fields_locations_greedy` (cut_str.rs:50-90), statement by statement -/
def fillWithFieldsLocationsGreedyLoop (buffer : List Range) (line delimiter : Bytes) :
    Outcome (List Range) :=
  if delimiter.isEmpty then                                             -- 55
    fillWithFieldsLocationsLoop buffer line delimiter                   -- 58 return …
  else
    let buffer := clear buffer                                          -- 61
    if line.isEmpty then                                                -- 63
      .ok buffer                                                        -- 64 return
    else
      let delimiterLength := delimiter.length                           -- 67
      let prevPartStart := 0                                            -- 68
      (greedyWhile line delimiter delimiterLength (line.length + 1) buffer prevPartStart).bind  -- 70-84
        (greedyFinish line)                                             -- 86-89

namespace TextLoops

/-! ## `compress_delimiter` (cut_str.rs:117-137) -/

/-- the `for idx in line.find_iter(delimiter)` loop (cut_str.rs:121-132) over the items the
    iterator yields; the state is `(output, prev_idx)` -/
def compressFor (line delimiter : Bytes) : List Nat → Bytes → Nat → Outcome (Bytes × Nat)
  | [], output, prevIdx => .ok (output, prevIdx)
  | idx :: items, output, prevIdx =>
    (sliceRange line prevIdx idx).bind fun prevPart =>                  -- 122 &line[prev_idx..idx]
      let output :=
        if idx = 0 then                                                 -- 124
          extend output delimiter                                       -- 125
        else if !prevPart.isEmpty then                                  -- 126
          extend (extend output prevPart) delimiter                     -- 127-128
        else output
      let prevIdx := idx + delimiter.length                             -- 131
      compressFor line delimiter items output prevIdx

/-- cut_str.rs:134-136, after the loop -/
def compressFinish (line : Bytes) (st : Bytes × Nat) : Outcome Bytes :=
  let (output, prevIdx) := st
  if prevIdx < line.length then                                         -- 134
    (sliceFrom line prevIdx).bind fun rest =>                           -- 135 &line[prev_idx..]
      .ok (extend output rest)
  else
    .ok output

end TextLoops

/-- `compress_delimiter` (cut_str.rs:117-137), statement by statement -/
def compressDelimiterLoop (line delimiter output : Bytes) : Outcome Bytes :=
  let output := clear output                                            -- 118
  let prevIdx := 0                                                      -- 119
  (compressFor line delimiter (findIter delimiter line) output prevIdx).bind   -- 121-132
    (compressFinish line)                                               -- 134-136

namespace TextLoops

/-! ## `trim` (cut_str.rs:176-216) -/

/-- `while buffer[idx..].starts_with(delimiter) { idx += delimiter.len(); }`
    (cut_str.rs:187-189 and 200-202); gives the final `idx` -/
def trimLeftWhile (buffer delimiter : Bytes) : Nat → Nat → Outcome Nat
  | 0, _ => .hang
  | fuel + 1, idx =>
    (sliceFrom buffer idx).bind fun rest =>                             -- buffer[idx..]
      if delimiter.isPrefixOf rest then                                 -- .starts_with(delimiter)
        trimLeftWhile buffer delimiter fuel (idx + delimiter.length)    -- idx += delimiter.len()
      else
        .ok idx

/-- `while buffer[idx..r_idx].ends_with(delimiter) { r_idx -= delimiter.len(); }`
    (cut_str.rs:191-193, the `Both` arm: `idx` is where the left loop stopped) -/
def trimBothRightWhile (buffer delimiter : Bytes) (idx : Nat) : Nat → Nat → Outcome Nat
  | 0, _ => .hang
  | fuel + 1, rIdx =>
    (sliceRange buffer idx rIdx).bind fun part =>                       -- 191 buffer[idx..r_idx]
      if delimiter.isSuffixOf part then                                 -- 191 .ends_with(delimiter)
        (checkedSub rIdx delimiter.length).bind fun rIdx =>             -- 192 r_idx -= delimiter.len()
          trimBothRightWhile buffer delimiter idx fuel rIdx
      else
        .ok rIdx

/-- `while buffer[..r_idx].ends_with(delimiter) { r_idx -= delimiter.len(); }`
    (cut_str.rs:209-211, the `Right` arm) -/
def trimRightWhile (buffer delimiter : Bytes) : Nat → Nat → Outcome Nat
  | 0, _ => .hang
  | fuel + 1, rIdx =>
    (sliceTo buffer rIdx).bind fun part =>                              -- 209 buffer[..r_idx]
      if delimiter.isSuffixOf part then                                 -- 209 .ends_with(delimiter)
        (checkedSub rIdx delimiter.length).bind fun rIdx =>             -- 210 r_idx -= delimiter.len()
          trimRightWhile buffer delimiter fuel rIdx
      else
        .ok rIdx

/-- the `Trim::Both` arm (cut_str.rs:183-196) -/
def trimBothArm (buffer delimiter : Bytes) : Outcome Bytes :=
  let idx := 0                                                          -- 184
  let rIdx := buffer.length                                             -- 185
  (trimLeftWhile buffer delimiter (buffer.length + 1) idx).bind fun idx =>            -- 187-189
    (trimBothRightWhile buffer delimiter idx (buffer.length + 1) rIdx).bind fun rIdx =>  -- 191-193
      sliceRange buffer idx rIdx                                        -- 195 &buffer[idx..r_idx]

/-- the `Trim::Left` arm (cut_str.rs:197-205) -/
def trimLeftArm (buffer delimiter : Bytes) : Outcome Bytes :=
  let idx := 0                                                          -- 198
  (trimLeftWhile buffer delimiter (buffer.length + 1) idx).bind fun idx =>   -- 200-202
    sliceFrom buffer idx                                                -- 204 &buffer[idx..]

/-- the `Trim::Right` arm (cut_str.rs:206-214) -/
def trimRightArm (buffer delimiter : Bytes) : Outcome Bytes :=
  let rIdx := buffer.length                                             -- 207
  (trimRightWhile buffer delimiter (buffer.length + 1) rIdx).bind fun rIdx =>   -- 209-211
    sliceTo buffer rIdx                                                 -- 213 &buffer[..r_idx]

end TextLoops

/-- `trim` (cut_str.rs:176-216), statement by statement -/
def trimLoop (buffer : Bytes) (trimKind : TrimKind) (delimiter : Bytes) : Outcome Bytes :=
  if delimiter.isEmpty then                                             -- 177
    .ok buffer                                                          -- 179 return buffer
  else
    match trimKind with                                                 -- 182
    | .both => trimBothArm buffer delimiter                             -- 183-196
    | .left => trimLeftArm buffer delimiter                             -- 197-205
    | .right => trimRightArm buffer delimiter                           -- 206-214

end Tuc
