import Tuc.Model.Utf8
/-!
# Tuc.Model.LibLit — the TEXT of the two library routines the model trusts "by what they compute"

`Tuc.Model.Utf8` states what two library routines compute: `jsonString` / `jsonEscapeByte`
(= `serde_json::to_string(&str)`, used by `--json`, /repo/src/cut_str.rs:253) and `validUtf8`
(= `std::str::from_utf8(..).is_ok()`, /repo/src/cut_lines.rs:132, cut_str.rs:253; the same routine
is behind `String::from_utf8`, /repo/src/read_utils.rs:31, and `BufRead::read_line`,
read_utils.rs:25).  This file follows the text of the library code itself, statement by statement
(the numbers in the trailing comments are the lines of the files named here), and
`Tuc.Props.LibLit` proves the transcriptions equal to the model functions.

## Part 1 — serde_json 1.0.140 (the version in /repo/Cargo.lock), `src/ser.rs`

* `ESCAPE`, `BB` … `UU`, `__`                      (ser.rs:2127-2157)  → `ESCAPE`, `BB` … `UU`, `__`
* `CharEscape`, `CharEscape::from_escape_table`    (ser.rs:1515-1553)  → `CharEscape`, `CharEscape.fromEscapeTable`
* `Formatter::begin_string` / `end_string` / `write_string_fragment` / `write_char_escape`
  (the default methods, which `CompactFormatter` keeps; ser.rs:1752-1811)
                                                                      → `beginString`, `endString`, `writeStringFragment`, `writeCharEscape`
* `format_escaped_str`                             (ser.rs:2081-2089)  → `formatEscapedStrLit`
* `format_escaped_str_contents`                    (ser.rs:2091-2125)  → `formatEscapedStrContents`, `contentsLoop`
* `Serializer::serialize_str`                      (ser.rs:188-190)    → `serializeStr`
  (`<str as Serialize>::serialize` is `serializer.serialize_str(self)`, serde `ser/impls.rs`)
* `to_writer`, `to_vec`, `to_string`               (ser.rs:2169-2177, 2205-2213, 2237-2247) → `toWriter`, `toVecLit`, `toStringLit`

## Part 2 — core, `library/core/src/str/validations.rs` and `converts.rs`
(the `rust-src` component installed in this sandbox: toolchain nightly 1.97.0, ad3a598ca 2026-05-03;
the stable toolchain that builds /repo ships no source, so the text followed here is that of the
installed nightly)

* `UTF8_CHAR_WIDTH`, `utf8_char_width`             (validations.rs:254-280) → `UTF8_CHAR_WIDTH`, `utf8CharWidth`
* `contains_nonascii`, `NONASCII_MASK`             (validations.rs:114-120) → `containsNonascii`
* `run_utf8_validation`                            (validations.rs:126-251) → `runUtf8ValidationLit`
  (`mainLoop`, `next`, `charStep`, `blockLoop`, `asciiTail`)
* `from_utf8`                                      (converts.rs:89-98)      → `fromUtf8Lit`, `fromUtf8IsOk`

and, putting the two together, the one place where /repo calls both (cut_str.rs:249-253, the
`--json` branch of `write_maybe_as_json!`) → `writeAsJsonLit`.

Conventions (those of `Tuc.Model.TextLoops` / `Tuc.Model.BoundsLit` / `Tuc.Model.ReadLoops`)

* the local variables keep their Rust names (camelCase); a `let mut` that is assigned again is a
  parameter of the loop function or a shadowing `let`;
* `&str` / `&[u8]` / `Vec<u8>` / `String` are `Bytes`; that a `&str` holds UTF-8 is NOT built into
  the type: it is the explicit hypothesis `validUtf8 s = true` of the theorems that need it;
* `usize` is `Nat` (project convention), `u8` is `UInt8`, `byte as usize` is `UInt8.toNat`,
  `b as i8` is `UInt8.toInt8` (two's complement reading), `byte >> 4` / `byte & 0xF` are `>>>` / `&&&`;
* every operation that can panic is CHECKED and yields `panic`:
  - `ESCAPE[byte as usize]`, `HEX_DIGITS[..]`, `UTF8_CHAR_WIDTH[b as usize]`, `v[index]`:
    `indexThen` / `V.index` (out of range: panic);
  - `&value[start..i]`, `&value[start..]` on a **`str`**: `strSliceRange` / `strSliceFrom` — as
    `core::str::traits` has it (`get`, l.161-172 and 507-515, which `index` calls, l.236-243 and
    539-545), they panic (`slice_error_fail`) unless `start <= end` and BOTH ends satisfy
    `is_char_boundary` (`isCharBoundary`, str/mod.rs:373-396,
    with `u8::is_utf8_char_boundary` = `(self as i8) >= -0x40`, num/mod.rs:1182-1185);
  - `unreachable!()` of `from_escape_table` (ser.rs:1549): `fromEscapeTable` yields `none`, which
    `unwrapThen` turns into a panic;
  - the two `unsafe` sites are checked as well, their violation (undefined behaviour) is `panic`:
    `String::from_utf8_unchecked(vec)` (ser.rs:2243-2246) requires `vec` to be UTF-8
    (`fromUtf8Unchecked`); `*block`, `*block.add(1)` (validations.rs:230-233) require the two
    words to lie inside the slice (`readUsize`; that the address is ALIGNED is not modelled — the
    address is not);
* the writer of part 1 (`W: io::Write`; `&mut Vec<u8>` in `to_vec`) is fault-free: a statement
  that writes yields the `Run` of what it wrote, `a.seq b` is "`a`, then — unless `a` ended the
  run — `b`" (`tri!` = `?`);
* `for (i, &byte) in bytes.iter().enumerate()` (ser.rs:2104) is the structural walk `contentsLoop`
  over the remaining bytes, with `i` counted alongside;
* the `while` loops of part 2 take fuel and yield `hang` when it runs out (`mainLoop`, `blockLoop`,
  `asciiTail`, each entered with `len + 1` units); `Tuc.Props.LibLit` proves they never do;
* **the address of the slice** is not modelled.  It enters `run_utf8_validation` only through
  `align = v.as_ptr().align_offset(USIZE_BYTES)` (validations.rs:136-143; `usize::MAX` in const
  evaluation, and `align_offset` may return `usize::MAX` at run time too): `align` is a PARAMETER of
  `runUtf8ValidationLit`, and the theorems hold for every value of it (any `Nat`).  A `usize` read
  through `*block` is the list of the `USIZE_BYTES` bytes at that offset (`readUsize`), and
  `contains_nonascii(x) = (x & NONASCII_MASK) != 0` with `NONASCII_MASK = 0x8080…80` is taken lane by
  lane: some byte `b` of the word has `b & 0x80 != 0` (`containsNonascii`; `&` acts on each byte
  lane separately, so this does not depend on the byte order);
* `Result<(), Utf8Error>` with panics and fuel is `V Unit`: `.ok ()`, `.err validUpTo errorLen`
  (the two fields of `Utf8Error`), `.panic`, `.hang`.
-/

namespace Tuc
namespace LibLit

/-! ## shared vocabulary -/

/-- `table[i]` (bounds-checked index into an array), then the rest; out of range panics -/
def indexThen (table : List UInt8) (i : Nat) (k : UInt8 → Run) : Run :=
  match table[i]? with
  | some x => k x
  | none => Run.panic

/-- an `Option` that the Rust code knows to be `Some` (here: the value of a `match` whose last
    arm is `unreachable!()`), then the rest; `none` panics -/
def unwrapThen {α : Type} (o : Option α) (k : α → Run) : Run :=
  match o with
  | some x => k x
  | none => Run.panic

/-- `writer.write_all(buf)` on a fault-free writer -/
def writeAll (buf : Bytes) : Run := Run.ok buf

/-! ## `str` slicing (core `str/mod.rs:373-396`, `num/mod.rs:1182-1185`, `str/traits.rs`) -/

/-- `u8::is_utf8_char_boundary`: `(self as i8) >= -0x40` -/
def isUtf8CharBoundary (b : UInt8) : Bool := decide (b.toInt8 ≥ -0x40)        -- num/mod.rs:1184

/-- `str::is_char_boundary` -/
def isCharBoundary (s : Bytes) (index : Nat) : Bool :=
  if index = 0 then true                                                      -- mod.rs:378-380
  else if index ≥ s.length then decide (index = s.length)                     -- mod.rs:382-392
  else
    match s[index]? with                                                      -- mod.rs:394
    | some b => isUtf8CharBoundary b
    | none => false

/-- `&s[a..b]` on a `str` (traits.rs:162-164): panics unless `a <= b` and both are char boundaries -/
def strSliceRange (s : Bytes) (a b : Nat) (k : Bytes → Run) : Run :=
  if a ≤ b ∧ isCharBoundary s a = true ∧ isCharBoundary s b = true then k (slice s a b) else Run.panic

/-- `&s[a..]` on a `str` (traits.rs:508): panics unless `a` is a char boundary -/
def strSliceFrom (s : Bytes) (a : Nat) (k : Bytes → Run) : Run :=
  if isCharBoundary s a = true then k (s.drop a) else Run.panic

/-! ## Part 1 — serde_json 1.0.140, `src/ser.rs` -/

def BB : UInt8 := 0x62  -- b'b'   \x08                                          -- 2127
def TT : UInt8 := 0x74  -- b't'   \x09                                          -- 2128
def NN : UInt8 := 0x6E  -- b'n'   \x0A                                          -- 2129
def FF : UInt8 := 0x66  -- b'f'   \x0C                                          -- 2130
def RR : UInt8 := 0x72  -- b'r'   \x0D                                          -- 2131
def QU : UInt8 := 0x22  -- b'"'   \x22                                          -- 2132
def BS : UInt8 := 0x5C  -- b'\\'  \x5C                                          -- 2133
def UU : UInt8 := 0x75  -- b'u'   \x00...\x1F except the ones above             -- 2134
def __ : UInt8 := 0                                                             -- 2135

/-- `static ESCAPE: [u8; 256]` (ser.rs:2139-2157), literally: "A value of b'x' at index i means
    that byte i is escaped as "\x" in JSON. A value of 0 means that byte i is not escaped." -/
def ESCAPE : List UInt8 := [
  --   1   2   3   4   5   6   7   8   9   A   B   C   D   E   F
  UU, UU, UU, UU, UU, UU, UU, UU, BB, TT, NN, UU, FF, RR, UU, UU, -- 0
  UU, UU, UU, UU, UU, UU, UU, UU, UU, UU, UU, UU, UU, UU, UU, UU, -- 1
  __, __, QU, __, __, __, __, __, __, __, __, __, __, __, __, __, -- 2
  __, __, __, __, __, __, __, __, __, __, __, __, __, __, __, __, -- 3
  __, __, __, __, __, __, __, __, __, __, __, __, __, __, __, __, -- 4
  __, __, __, __, __, __, __, __, __, __, __, __, BS, __, __, __, -- 5
  __, __, __, __, __, __, __, __, __, __, __, __, __, __, __, __, -- 6
  __, __, __, __, __, __, __, __, __, __, __, __, __, __, __, __, -- 7
  __, __, __, __, __, __, __, __, __, __, __, __, __, __, __, __, -- 8
  __, __, __, __, __, __, __, __, __, __, __, __, __, __, __, __, -- 9
  __, __, __, __, __, __, __, __, __, __, __, __, __, __, __, __, -- A
  __, __, __, __, __, __, __, __, __, __, __, __, __, __, __, __, -- B
  __, __, __, __, __, __, __, __, __, __, __, __, __, __, __, __, -- C
  __, __, __, __, __, __, __, __, __, __, __, __, __, __, __, __, -- D
  __, __, __, __, __, __, __, __, __, __, __, __, __, __, __, __, -- E
  __, __, __, __, __, __, __, __, __, __, __, __, __, __, __, __  -- F
]

/-- `pub enum CharEscape` (ser.rs:1515-1536) -/
inductive CharEscape where
  | quote
  | reverseSolidus
  | solidus
  | backspace
  | formFeed
  | lineFeed
  | carriageReturn
  | tab
  | asciiControl (byte : UInt8)
  deriving Repr, DecidableEq

/-- `CharEscape::from_escape_table` (ser.rs:1539-1551); `none` is the arm `_ => unreachable!()` -/
def CharEscape.fromEscapeTable (escape byte : UInt8) : Option CharEscape :=
  if escape = BB then some .backspace                                           -- 1541
  else if escape = TT then some .tab                                            -- 1542
  else if escape = NN then some .lineFeed                                       -- 1543
  else if escape = FF then some .formFeed                                       -- 1544
  else if escape = RR then some .carriageReturn                                 -- 1545
  else if escape = QU then some .quote                                          -- 1546
  else if escape = BS then some .reverseSolidus                                 -- 1547
  else if escape = UU then some (.asciiControl byte)                            -- 1548
  else none                                                                     -- 1549

/-- `Formatter::begin_string` (ser.rs:1752-1757) -/
def beginString : Run := writeAll [0x22]                                        -- 1756

/-- `Formatter::end_string` (ser.rs:1762-1767) -/
def endString : Run := writeAll [0x22]                                          -- 1766

/-- `Formatter::write_string_fragment` (ser.rs:1772-1777) -/
def writeStringFragment (fragment : Bytes) : Run := writeAll fragment           -- 1776

/-- `static HEX_DIGITS: [u8; 16] = *b"0123456789abcdef"` (ser.rs:1797) -/
def HEX_DIGITS : List UInt8 :=
  [0x30, 0x31, 0x32, 0x33, 0x34, 0x35, 0x36, 0x37, 0x38, 0x39, 0x61, 0x62, 0x63, 0x64, 0x65, 0x66]

/-- `Formatter::write_char_escape` (ser.rs:1781-1811) -/
def writeCharEscape (charEscape : CharEscape) : Run :=
  match charEscape with                                                         -- 1787
  | .quote => writeAll [0x5C, 0x22]                  -- b"\\\""                 -- 1788, 1810
  | .reverseSolidus => writeAll [0x5C, 0x5C]         -- b"\\\\"                 -- 1789, 1810
  | .solidus => writeAll [0x5C, 0x2F]                -- b"\\/"                  -- 1790, 1810
  | .backspace => writeAll [0x5C, 0x62]              -- b"\\b"                  -- 1791, 1810
  | .formFeed => writeAll [0x5C, 0x66]               -- b"\\f"                  -- 1792, 1810
  | .lineFeed => writeAll [0x5C, 0x6E]               -- b"\\n"                  -- 1793, 1810
  | .carriageReturn => writeAll [0x5C, 0x72]         -- b"\\r"                  -- 1794, 1810
  | .tab => writeAll [0x5C, 0x74]                    -- b"\\t"                  -- 1795, 1810
  | .asciiControl byte =>                                                       -- 1796
    indexThen HEX_DIGITS (byte >>> 4).toNat fun hi =>                           -- 1803
    indexThen HEX_DIGITS (byte &&& 0xF).toNat fun lo =>                         -- 1804
    let bytes : Bytes := [0x5C, 0x75, 0x30, 0x30, hi, lo]                       -- 1798-1805
    writeAll bytes                                                              -- 1806

/-- the `for (i, &byte) in bytes.iter().enumerate()` loop of `format_escaped_str_contents`
    (ser.rs:2104-2118) and what follows it (2120-2124).  `value` is the whole string
    (`bytes = value.as_bytes()`, l.2100), the list is what the iterator still has to yield, `i` the
    index of its head, `start` the local `let mut start`. -/
def contentsLoop (value : Bytes) : Bytes → Nat → Nat → Run
  | [], _, start =>
    if start = value.length then Run.ok []                                      -- 2120-2122
    else strSliceFrom value start fun fragment => writeStringFragment fragment  -- 2124
  | byte :: rest, i, start =>
    indexThen ESCAPE byte.toNat fun escape =>                                   -- 2105
    if escape = 0 then contentsLoop value rest (i + 1) start                    -- 2106-2108
    else
      Run.seq
        (if start < i then                                                      -- 2110
          strSliceRange value start i fun fragment => writeStringFragment fragment  -- 2111
         else Run.ok [])
        (unwrapThen (CharEscape.fromEscapeTable escape byte) fun charEscape =>  -- 2114
          Run.seq (writeCharEscape charEscape)                                  -- 2115
            (contentsLoop value rest (i + 1) (i + 1)))                          -- 2117

/-- `format_escaped_str_contents` (ser.rs:2091-2125) -/
def formatEscapedStrContents (value : Bytes) : Run :=
  let bytes := value                                                            -- 2100
  let start := 0                                                                -- 2102
  contentsLoop value bytes 0 start                                              -- 2104-2124

/-- `format_escaped_str` (ser.rs:2081-2089) -/
def formatEscapedStrLit (value : Bytes) : Run :=
  Run.seq beginString                                                           -- 2086
    (Run.seq (formatEscapedStrContents value)                                   -- 2087
      endString)                                                                -- 2088

/-- `Serializer::serialize_str` (ser.rs:188-190); `.map_err(Error::io)` keeps `Ok`/`Err` -/
def serializeStr (value : Bytes) : Run := formatEscapedStrLit value             -- 189

/-- `to_writer(writer, value)` for `value: &str` (ser.rs:2169-2177):
    `value.serialize(&mut ser)` is `ser.serialize_str(value)` -/
def toWriter (value : Bytes) : Run := serializeStr value                        -- 2174-2175

/-- `to_vec` for `value: &str` (ser.rs:2205-2213): the writer is a fresh `Vec`, whose `write_all`
    appends and cannot fail; `tri!` hands an `Err` on.  (`hang` does not occur in part 1: there
    is no fuel.) -/
def toVecLit (value : Bytes) : Res Bytes :=
  let writer : Bytes := []                                                      -- 2209
  let r := toWriter value                                                       -- 2210
  match r.status with
  | .ok => .ok (writer ++ r.out)                                                -- 2211
  | .fail => .fail                                                              -- 2210 tri!
  | _ => .panic

/-- `String::from_utf8_unchecked(vec)`: `unsafe`, sound only if `vec` is UTF-8; checked here
    (undefined behaviour is `panic`, the never-acceptable outcome) -/
def fromUtf8Unchecked (vec : Bytes) : Res Bytes :=
  if validUtf8 vec = true then .ok vec else .panic

/-- `to_string` for `value: &str` (ser.rs:2237-2247) -/
def toStringLit (value : Bytes) : Res Bytes :=
  (toVecLit value).bind fun vec =>                                              -- 2241
  (fromUtf8Unchecked vec).bind fun string =>                                    -- 2242-2245
  .ok string                                                                    -- 2246

/-! ## Part 2 — core, `str/validations.rs` -/

/-- `Result<T, Utf8Error>` with panics and fuel: `err validUpTo errorLen` carries the two fields
    of `Utf8Error` -/
inductive V (α : Type) where
  | ok (a : α)
  | err (validUpTo : Nat) (errorLen : Option Nat)
  | panic
  | hang
  deriving Repr, DecidableEq

namespace V

def bind {α β : Type} (r : V α) (f : α → V β) : V β :=
  match r with
  | .ok a => f a
  | .err n e => .err n e
  | .panic => .panic
  | .hang => .hang

def isOk {α : Type} : V α → Bool
  | .ok _ => true
  | _ => false

/-- `v[i]` (bounds-checked) -/
def index (v : Bytes) (i : Nat) : V UInt8 :=
  match v[i]? with
  | some b => .ok b
  | none => .panic

end V

/-- `const UTF8_CHAR_WIDTH: &[u8; 256]` (validations.rs:254-272), literally -/
def UTF8_CHAR_WIDTH : List UInt8 := [
  -- 1  2  3  4  5  6  7  8  9  A  B  C  D  E  F
  1, 1, 1, 1, 1, 1, 1, 1, 1, 1, 1, 1, 1, 1, 1, 1, -- 0
  1, 1, 1, 1, 1, 1, 1, 1, 1, 1, 1, 1, 1, 1, 1, 1, -- 1
  1, 1, 1, 1, 1, 1, 1, 1, 1, 1, 1, 1, 1, 1, 1, 1, -- 2
  1, 1, 1, 1, 1, 1, 1, 1, 1, 1, 1, 1, 1, 1, 1, 1, -- 3
  1, 1, 1, 1, 1, 1, 1, 1, 1, 1, 1, 1, 1, 1, 1, 1, -- 4
  1, 1, 1, 1, 1, 1, 1, 1, 1, 1, 1, 1, 1, 1, 1, 1, -- 5
  1, 1, 1, 1, 1, 1, 1, 1, 1, 1, 1, 1, 1, 1, 1, 1, -- 6
  1, 1, 1, 1, 1, 1, 1, 1, 1, 1, 1, 1, 1, 1, 1, 1, -- 7
  0, 0, 0, 0, 0, 0, 0, 0, 0, 0, 0, 0, 0, 0, 0, 0, -- 8
  0, 0, 0, 0, 0, 0, 0, 0, 0, 0, 0, 0, 0, 0, 0, 0, -- 9
  0, 0, 0, 0, 0, 0, 0, 0, 0, 0, 0, 0, 0, 0, 0, 0, -- A
  0, 0, 0, 0, 0, 0, 0, 0, 0, 0, 0, 0, 0, 0, 0, 0, -- B
  0, 0, 2, 2, 2, 2, 2, 2, 2, 2, 2, 2, 2, 2, 2, 2, -- C
  2, 2, 2, 2, 2, 2, 2, 2, 2, 2, 2, 2, 2, 2, 2, 2, -- D
  3, 3, 3, 3, 3, 3, 3, 3, 3, 3, 3, 3, 3, 3, 3, 3, -- E
  4, 4, 4, 4, 4, 0, 0, 0, 0, 0, 0, 0, 0, 0, 0, 0  -- F
]

/-- `utf8_char_width` (validations.rs:278-280) -/
def utf8CharWidth (b : UInt8) : V Nat :=
  match UTF8_CHAR_WIDTH[b.toNat]? with                                          -- 279
  | some w => .ok w.toNat
  | none => .panic

/-- `size_of::<usize>()` on the 64-bit targets (validations.rs:130) -/
def USIZE_BYTES : Nat := 8

/-- `usize::MAX` -/
def usizeMax : Nat := 18446744073709551615

/-- `a.wrapping_sub(b)` on `usize` -/
def wrappingSub (a b : Nat) : Nat := (a % (usizeMax + 1) + (usizeMax + 1) - b % (usizeMax + 1)) % (usizeMax + 1)

/-- the test of validations.rs:222:
    `align != usize::MAX && align.wrapping_sub(index).is_multiple_of(USIZE_BYTES)` -/
def fastPathAligned (align index : Nat) : Bool :=
  decide (align ≠ usizeMax) && decide (wrappingSub align index % USIZE_BYTES = 0)

/-- the `usize` at byte offset `index` of the slice (`*(ptr.add(index) as *const usize)`): its
    `USIZE_BYTES` bytes; reading beyond the slice is undefined behaviour (`panic`) -/
def readUsize (v : Bytes) (index : Nat) : V Bytes :=
  if index + USIZE_BYTES ≤ v.length then .ok (slice v index (index + USIZE_BYTES)) else .panic

/-- `contains_nonascii(x)`: `(x & NONASCII_MASK) != 0`, `NONASCII_MASK = usize::repeat_u8(0x80)`
    (validations.rs:114-120), lane by lane -/
def containsNonascii (x : Bytes) : Bool := x.any fun b => b &&& 0x80 != 0       -- 119

/-- the macro `next!()` (validations.rs:153-162), then the rest (which gets the new `index` and
    the byte) -/
def next {α : Type} (v : Bytes) (len oldOffset index : Nat) (k : Nat → UInt8 → V α) : V α :=
  let index := index + 1                                                        -- 155
  if index ≥ len then .err oldOffset none                                       -- 157-159 err!(None)
  else (V.index v index).bind fun b => k index b                                -- 160

/-- `lo..=hi` as a pattern -/
def inRange (lo hi x : UInt8) : Bool := decide (lo ≤ x) && decide (x ≤ hi)

/-- the patterns of validations.rs:193-196 -/
def secondOf3 (first b : UInt8) : Bool :=
  (first == 0xE0 && inRange 0xA0 0xBF b)                                        -- 193
  || (inRange 0xE1 0xEC first && inRange 0x80 0xBF b)                           -- 194
  || (first == 0xED && inRange 0x80 0x9F b)                                     -- 195
  || (inRange 0xEE 0xEF first && inRange 0x80 0xBF b)                           -- 196

/-- the patterns of validations.rs:205 -/
def secondOf4 (first b : UInt8) : Bool :=
  (first == 0xF0 && inRange 0x90 0xBF b) || (inRange 0xF1 0xF3 first && inRange 0x80 0xBF b)
  || (first == 0xF4 && inRange 0x80 0x8F b)                                     -- 205

/-- `next!() as i8 >= -64` -/
def notCont (b : UInt8) : Bool := decide (b.toInt8 ≥ -64)

/-- the non-ASCII branch of the loop body (validations.rs:166-216): `let w = …; match w { … }`;
    yields `index` as it stands before the `index += 1` of l.217 -/
def charStep (v : Bytes) (len oldOffset index : Nat) (first : UInt8) : V Nat :=
  (utf8CharWidth first).bind fun w =>                                           -- 166
  match w with                                                                  -- 185
  | 2 =>                                                                        -- 186
    next v len oldOffset index fun index b =>
    if notCont b then .err oldOffset (some 1)                                   -- 187-189
    else .ok index
  | 3 =>                                                                        -- 191
    next v len oldOffset index fun index b =>                                   -- 192
    if secondOf3 first b then                                                   -- 193-196
      next v len oldOffset index fun index b =>
      if notCont b then .err oldOffset (some 2)                                 -- 199-201
      else .ok index
    else .err oldOffset (some 1)                                                -- 197
  | 4 =>                                                                        -- 203
    next v len oldOffset index fun index b =>                                   -- 204
    if secondOf4 first b then                                                   -- 205
      next v len oldOffset index fun index b =>
      if notCont b then .err oldOffset (some 2)                                 -- 208-210
      else
        next v len oldOffset index fun index b =>
        if notCont b then .err oldOffset (some 3)                               -- 211-213
        else .ok index
    else .err oldOffset (some 1)                                                -- 206
  | _ => .err oldOffset (some 1)                                                -- 215

/-- `while index < blocks_end { … }` (validations.rs:224-239); yields `index` -/
def blockLoop (v : Bytes) (blocksEnd asciiBlockSize : Nat) : Nat → Nat → V Nat
  | 0, _ => .hang
  | fuel + 1, index =>
    if index < blocksEnd then                                                   -- 224
      (readUsize v index).bind fun block0 =>                                    -- 230, 232 `*block`
      (readUsize v (index + USIZE_BYTES)).bind fun block1 =>                    -- 233 `*block.add(1)`
      let zu := containsNonascii block0                                         -- 232
      let zv := containsNonascii block1                                         -- 233
      if zu || zv then .ok index                                                -- 234-236 break
      else blockLoop v blocksEnd asciiBlockSize fuel (index + asciiBlockSize)   -- 238
    else .ok index

/-- `while index < len && v[index] < 128 { index += 1; }` (validations.rs:241-243); yields `index` -/
def asciiTail (v : Bytes) (len : Nat) : Nat → Nat → V Nat
  | 0, _ => .hang
  | fuel + 1, index =>
    if index < len then                                                         -- 241
      (V.index v index).bind fun b =>
      if b < 128 then asciiTail v len fuel (index + 1)                          -- 241-242
      else .ok index
    else .ok index

/-- `while index < len { … }` (validations.rs:145-248) and the `Ok(())` after it (l.250) -/
def mainLoop (v : Bytes) (len asciiBlockSize blocksEnd align : Nat) : Nat → Nat → V Unit
  | 0, _ => .hang
  | fuel + 1, index =>
    if index < len then                                                         -- 145
      let oldOffset := index                                                    -- 146
      (V.index v index).bind fun first =>                                       -- 164
      if first ≥ 128 then                                                       -- 165
        (charStep v len oldOffset index first).bind fun index =>                -- 166-216
        let index := index + 1                                                  -- 217
        mainLoop v len asciiBlockSize blocksEnd align fuel index
      else
        (if fastPathAligned align index = true then                             -- 222
          (blockLoop v blocksEnd asciiBlockSize (len + 1) index).bind fun index =>  -- 224-239
          asciiTail v len (len + 1) index                                       -- 241-243
         else .ok (index + 1)).bind fun index =>                                -- 245
        mainLoop v len asciiBlockSize blocksEnd align fuel index
    else .ok ()                                                                 -- 250

/-- `run_utf8_validation` (validations.rs:126-251); `align` stands for the value of
    `v.as_ptr().align_offset(USIZE_BYTES)` (or `usize::MAX`, l.136-143) -/
def runUtf8ValidationLit (v : Bytes) (align : Nat) : V Unit :=
  let index := 0                                                                -- 127
  let len := v.length                                                           -- 128
  let asciiBlockSize := 2 * USIZE_BYTES                                         -- 132
  let blocksEnd := if len ≥ asciiBlockSize then len - asciiBlockSize + 1 else 0 -- 133
  mainLoop v len asciiBlockSize blocksEnd align (len + 1) index                 -- 145-250

/-- `from_utf8` (converts.rs:89-98): `Ok(_) => Ok(..)`, `Err(err) => Err(err)`; the `&str` it
    returns is the slice itself -/
def fromUtf8Lit (v : Bytes) (align : Nat) : V Bytes :=
  match runUtf8ValidationLit v align with                                       -- 91
  | .ok _ => .ok v                                                              -- 92-95
  | .err n e => .err n e                                                        -- 96
  | .panic => .panic
  | .hang => .hang

/-- `from_utf8(v).is_ok()` -/
def fromUtf8IsOk (v : Bytes) (align : Nat) : Bool := (fromUtf8Lit v align).isOk

/-! ## the two routines together, as /repo uses them -/

/-- the `--json` branch of the macro `write_maybe_as_json!` (/repo/src/cut_str.rs:249-253):
    `$writer.write_all(serde_json::to_string(std::str::from_utf8(&$to_print)?)?.as_bytes())?`
    over the library text above (`Tuc.Model.CutStr` l.33 and `Tuc.Model.CutStrLit` l.114-115 have
    `if validUtf8 toPrint then Run.ok (jsonString toPrint) else Run.fail` here) -/
def writeAsJsonLit (toPrint : Bytes) (align : Nat) : Run :=
  match fromUtf8Lit toPrint align with                          -- 253 std::str::from_utf8(&$to_print)?
  | .err _ _ => Run.fail
  | .panic => Run.panic
  | .hang => Run.hang
  | .ok s =>
    match toStringLit s with                                    -- 253 serde_json::to_string(..)?
    | .fail => Run.fail
    | .panic => Run.panic
    | .ok string => writeAll string                             -- 252-253 $writer.write_all(..as_bytes())?

end LibLit
end Tuc
