import Tuc.Model.Options
/-!
# Tuc.Model.FastLane — model of `src/fast_lane.rs`

`fields` holds the *start offset* of every field seen (plus one fake start past the end of the
record when the scan was not stopped early), exactly as the Rust code does.
-/

namespace Tuc

/-- `struct FastOpt` -/
structure FastOpt where
  delimiter : UInt8
  join : Bool
  eol : EOL
  bounds : UserBoundsList
  onlyDelimited : Bool
  trim : Option Trim
  fallbackOob : Option Bytes
  deriving Repr

/-- `impl TryFrom<&Opt> for FastOpt` (fast_lane.rs:139) -/
def fastOptOf (o : Opt) : Option FastOpt :=
  match o.delimiter with
  | [d] =>
    if o.complement || o.greedyDelimiter || o.compressDelimiter || o.json
        || o.boundsType != .fields || o.replaceDelimiter.isSome || o.regexBag.isSome then none
    else some
      { delimiter := d, join := o.join, eol := o.eol, bounds := o.bounds,
        onlyDelimited := o.onlyDelimited, trim := o.trim, fallbackOob := o.fallbackOob }
  | _ => none

/-- `trim_start_with(|x| x == d as char)` for an ASCII delimiter byte -/
def dropWhileEq (d : UInt8) : Bytes → Bytes
  | [] => []
  | c :: t => if c = d then dropWhileEq d t else c :: t

/-- `fast_lane::trim` (fast_lane.rs:11) -/
def fastTrim (buffer : Bytes) (k : Trim) (d : UInt8) : Bytes :=
  match k with
  | .both => (dropWhileEq d (dropWhileEq d buffer).reverse).reverse
  | .left => dropWhileEq d buffer
  | .right => (dropWhileEq d buffer.reverse).reverse

/-- the `memchr_iter` loop (fast_lane.rs:53): start offsets pushed after the initial `0`, and the
    final value of `curr_field`; stops right after the `last_interesting_field`-th delimiter -/
def fastScan (d : UInt8) (lif : Side) : Nat → Int → Bytes → List Nat × Int
  | _, curr, [] => ([], curr)
  | pos, curr, c :: t =>
    if c = d then
      if Side.some (curr + 1) = lif then ([pos + 1], curr + 1)
      else
        let (fs, k) := fastScan d lif (pos + 1) (curr + 1) t
        ((pos + 1) :: fs, k)
    else fastScan d lif (pos + 1) curr t

/-- `output_parts` (fast_lane.rs:94) -/
def outputParts (line : Bytes) (b : UserBounds) (fields : List Nat) (opt : FastOpt) : Run :=
  let joiner : Run := if opt.join && !b.isLast then Run.ok [opt.delimiter] else Run.empty
  if fields.isEmpty then Run.panic   -- `fields.len() - 1`
  else
    match b.tryIntoRange (fields.length - 1) with
    | some (s, e) =>
      match fields[s]?, fields[e]? with
      | some idxStart, some idxEndPlus1 =>
        if 1 ≤ idxEndPlus1 ∧ idxStart ≤ idxEndPlus1 - 1 ∧ idxEndPlus1 - 1 ≤ line.length then
          (Run.ok (slice line idxStart (idxEndPlus1 - 1))).seq joiner
        else Run.panic
      | _, _ => Run.panic
    | none =>
      match b.fallback with
      | some f => (Run.ok f).seq joiner
      | none =>
        match opt.fallbackOob with
        | some f => (Run.ok f).seq joiner
        | none => Run.fail

def fastOutputLoop (line : Bytes) (fields : List Nat) (opt : FastOpt) : List BoF → Run
  | [] => Run.empty
  | .filler f :: t => (Run.ok f).seq (fastOutputLoop line fields opt t)
  | .bound b :: t => (outputParts line b fields opt).seq (fastOutputLoop line fields opt t)

/-- `cut_str_fast_lane` (fast_lane.rs:22) without its scratch vector: the run and what is left in
    `fields` (`none` = untouched; the function does `fields.clear()` before filling it) -/
def cutStrFastLaneCore (initialBuffer : Bytes) (opt : FastOpt) (lastInterestingField : Side) :
    Run × Option (List Nat) :=
  let buffer := match opt.trim with
    | some k => fastTrim initialBuffer k opt.delimiter
    | none => initialBuffer
  if buffer.isEmpty then
    ((if !opt.onlyDelimited then Run.ok [opt.eol.byte] else Run.empty), none)
  else
    let (pushed, currField) := fastScan opt.delimiter lastInterestingField 0 0 buffer
    let fields := 0 :: pushed
    if currField == 0 && opt.onlyDelimited then (Run.empty, some fields)
    else
      let fields :=
        if Side.some currField ≠ lastInterestingField then fields ++ [buffer.length + 1] else fields
      ((fastOutputLoop buffer fields opt opt.bounds.list).seq (Run.ok [opt.eol.byte]), some fields)

/-- `cut_str_fast_lane` (fast_lane.rs:22) -/
def cutStrFastLane (initialBuffer : Bytes) (opt : FastOpt) (fields₀ : List Nat)
    (lastInterestingField : Side) : Run × List Nat :=
  let r := cutStrFastLaneCore initialBuffer opt lastInterestingField
  (r.1, r.2.getD fields₀)

def fastRecords (opt : FastOpt) (lif : Side) : List Bytes → List Nat → Run
  | [], _ => Run.empty
  | rec :: t, fields =>
    let (run, fields') := cutStrFastLane rec opt fields lif
    run.seq (fastRecords opt lif t fields')

/-- `read_and_cut_text_as_bytes` (fast_lane.rs:173) on a fault-free reader -/
def readAndCutFast (opt : FastOpt) (input : Bytes) : Run :=
  fastRecords opt opt.bounds.lastInteresting (records opt.eol.byte input) []

end Tuc
