/-!
# Tuc.Model.Basic — shared vocabulary of the model (import-free, core Lean only)

Conventions (DESIGN.md §2.1):
* bytes are `UInt8`, byte strings `List UInt8`; argv text is `List Char`;
* indexes are `Int`, counts `Nat` (unbounded; the i32 width is handled where the code parses);
* every Rust site that can panic (`[]`, slicing, `unwrap`, `expect`) is a *checked* operation in
  the model and yields `Status.panic`; loops whose progress depends on a precondition take fuel
  and yield `Status.hang` when it runs out.  C12 is then a theorem, not an artefact.
-/

namespace Tuc

abbrev Bytes := List UInt8

/-- Outcome class of a run: what the exit status / signal of the process would be. -/
inductive Status where
  | ok      -- exit 0
  | fail    -- exit 1 (an `Err` reached `main`)
  | panic   -- a Rust panic / abort (never acceptable)
  | hang    -- a loop that does not terminate (never acceptable)
  deriving DecidableEq, Repr, Inhabited

/-- What an engine delivered to its writer and how it ended. -/
structure Run where
  out : Bytes
  status : Status
  deriving DecidableEq, Repr, Inhabited

namespace Run

def ok (out : Bytes) : Run := ⟨out, .ok⟩
def empty : Run := ⟨[], .ok⟩
def fail : Run := ⟨[], .fail⟩
def panic : Run := ⟨[], .panic⟩
def hang : Run := ⟨[], .hang⟩

/-- Sequential composition: `b` runs only if `a` ended well (`?` in the Rust code). -/
def seq (a b : Run) : Run :=
  match a.status with
  | .ok => ⟨a.out ++ b.out, b.status⟩
  | _ => a

/-- prepend already-written bytes to a run -/
def pre (w : Bytes) (r : Run) : Run := ⟨w ++ r.out, r.status⟩

end Run

/-- A value or a failure/panic, for the non-writing parts of the code (parsers, conversions). -/
inductive Res (α : Type) where
  | ok (a : α)
  | fail
  | panic
  deriving Repr, DecidableEq

namespace Res
def bind {α β : Type} (r : Res α) (f : α → Res β) : Res β :=
  match r with
  | .ok a => f a
  | .fail => .fail
  | .panic => .panic

def isOk {α : Type} : Res α → Bool
  | .ok _ => true
  | _ => false

def toOption {α : Type} : Res α → Option α
  | .ok a => some a
  | _ => none
end Res

/-- `&l[s..e]` for `s ≤ e ≤ len` (the callers check the precondition). -/
def slice (l : List α) (s e : Nat) : List α := (l.drop s).take (e - s)

/-- UTF-8 encoding of argv text (`String::into_bytes`). -/
def utf8 (cs : List Char) : Bytes := cs.flatMap String.utf8EncodeChar

end Tuc
