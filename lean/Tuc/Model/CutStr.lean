import Tuc.Model.Options
import Tuc.Model.Utf8
/-!
# Tuc.Model.CutStr — model of `src/cut_str.rs` (`cut_str`, `read_and_cut_str`)

Same passes in the same order as the Rust function:
`trim → compress → split (plain | greedy | regex) → (chars: pop/drain) → -s → '[' →
complement → unpack → output loop → ']' → eol`.
The two scratch buffers (`fields`, `compressed_line_buf`) are inputs *and* outputs, because C10
is about exactly that state.
-/

namespace Tuc

/-- `maybe_replace_delimiter` (cut_str.rs:143).  `compressedWithRegex`: the record has already
    been rewritten by `compress_delimiter_with_regex`, so its separators are the replacement
    text already and must not be matched again. -/
def maybeReplaceDelimiter (text : Bytes) (opt : Opt) (compressedWithRegex : Bool) : Bytes :=
  if opt.boundsType = .characters then text
  else
    match opt.replaceDelimiter with
    | some newDelimiter =>
      match opt.regexBag with
      | some bag =>
        if compressedWithRegex then text
        else replaceMatches text newDelimiter 0 (bag.normal text)
      | none => replaceAll text opt.delimiter newDelimiter
    | none => text

/-- `write_maybe_as_json!` (cut_str.rs:230): text that is not UTF-8 cannot be a JSON string -/
def writeMaybeAsJson (toPrint : Bytes) (asJson : Bool) : Run :=
  if asJson then
    if validUtf8 toPrint then Run.ok (jsonString toPrint) else Run.fail
  else Run.ok toPrint

/-- the bound → range-ish test that triggers `unpack` (cut_str.rs:369) -/
def needsUnpack : BoF → Bool
  | .bound b => decide (b.l ≠ b.r) || decide (b.l = .cont)
  | .filler _ => false

/-- one iteration of the output loop (cut_str.rs:387-424) -/
def outputBof (line : Bytes) (fields : List Range) (numFields : Nat) (opt : Opt)
    (compressedWithRegex : Bool) : BoF → Run
  | .filler f => Run.ok f
  | .bound b =>
    let joiner : Run :=
      if opt.join && !b.isLast then Run.ok (opt.replaceDelimiter.getD opt.delimiter) else Run.empty
    match b.tryIntoRange numFields with
    | some (s, e) =>
      match fields[s]?, fields[e - 1]? with
      | some fs, some fe =>
        if fs.start ≤ fe.stop ∧ fe.stop ≤ line.length then
          (writeMaybeAsJson
            (maybeReplaceDelimiter (slice line fs.start fe.stop) opt compressedWithRegex)
            opt.json).seq joiner
        else Run.panic
      | _, _ => Run.panic
    | none =>
      match b.fallback with
      | some f => (writeMaybeAsJson f opt.json).seq joiner
      | none =>
        match opt.fallbackOob with
        | some f => (writeMaybeAsJson f opt.json).seq joiner
        | none => Run.fail

/-- `bounds.iter().try_for_each(...)` -/
def outputLoop (line : Bytes) (fields : List Range) (numFields : Nat) (opt : Opt)
    (compressedWithRegex : Bool) : List BoF → Run
  | [] => Run.empty
  | bof :: t =>
    (outputBof line fields numFields opt compressedWithRegex bof).seq
      (outputLoop line fields numFields opt compressedWithRegex t)

/-- everything after the fields are known (cut_str.rs:337-432) -/
def emitRecord (line : Bytes) (fields : List Range) (opt : Opt) (compressedWithRegex : Bool)
    (eol : Bytes) : Run :=
  let numFields := fields.length
  if opt.onlyDelimited && numFields == 1 then Run.empty
  else
    let openBracket : Run := if opt.json then Run.ok [0x5B] else Run.empty
    let closeBracket : Run := if opt.json then Run.ok [0x5D] else Run.empty
    let afterComplement : Res UserBoundsList :=
      if opt.complement then complementList opt.bounds.list numFields else .ok opt.bounds
    let body : Run :=
      match afterComplement with
      | .fail => Run.fail
      | .panic => Run.panic
      | .ok bounds =>
        let unpacked : Res UserBoundsList :=
          if (opt.json || (opt.boundsType = .characters && opt.replaceDelimiter.isSome))
              && bounds.list.any needsUnpack
          then unpackList bounds.list numFields else .ok bounds
        match unpacked with
        | .fail => Run.fail
        | .panic => Run.panic
        | .ok bounds =>
          ((outputLoop line fields numFields opt compressedWithRegex bounds.list).seq closeBracket).seq
            (Run.ok eol)
    openBracket.seq body

/-- `cut_str` (cut_str.rs:244) without its two scratch buffers: the run, and what the function
    leaves in `fields` / `compressed_line_buf` (`none` = the buffer is not touched).  Both buffers
    are cleared by whoever fills them (`buffer.clear()`, `output.clear()`), so nothing that was
    in them can be read. -/
def cutStrCore (line : Bytes) (opt : Opt) (eol : Bytes) : Run × Option (List Range) × Option Bytes :=
  if opt.regexBag.isSome && opt.compressDelimiter && opt.replaceDelimiter.isNone then
    (Run.fail, none, none)
  else if opt.regexBag.isSome && opt.join && opt.replaceDelimiter.isNone then
    (Run.fail, none, none)
  else
    let line : Bytes :=
      match opt.trim with
      | some kind =>
        match opt.regexBag with
        | some bag => trimRegex line kind (bag.greedy line)
        | none => trimLiteral line kind opt.delimiter
      | none => line
    if line.isEmpty then
      ((if !opt.onlyDelimited then Run.ok eol else Run.empty), none, none)
    else
      let shouldCompress :=
        opt.compressDelimiter && (opt.boundsType = .fields || opt.boundsType = .lines)
      -- (line, delimiter, build ranges with the regex?, compressed_line_buf, compressed with regex?)
      let st : Option (Bytes × Bytes × Bool × Option Bytes × Bool) :=
        if shouldCompress then
          match opt.regexBag with
          | some bag =>
            match opt.replaceDelimiter with
            | some nd => some (replaceMatches line nd 0 (bag.greedy line), nd, false, none, true)
            | none => none   -- the `unwrap()`; excluded by the first test of the function
          | none =>
            let c := compressDelimiter line opt.delimiter []
            some (c, opt.delimiter, false, some c, false)
        else some (line, opt.delimiter, opt.regexBag.isSome, none, false)
      match st with
      | none => (Run.panic, none, none)
      | some (line, delimiter, useRegex, buf, compressedWithRegex) =>
        let fields : List Range :=
          match useRegex, opt.regexBag with
          | true, some bag =>
            fillWithFieldsLocationsUsingRegex [] line
              ((if opt.greedyDelimiter then bag.greedy else bag.normal) line)
          | _, _ =>
            if opt.greedyDelimiter then fillWithFieldsLocationsGreedy [] line delimiter
            else fillWithFieldsLocations [] line delimiter
        let fields :=
          if opt.boundsType = .characters && fields.length > 2 then fields.dropLast.drop 1 else fields
        (emitRecord line fields opt compressedWithRegex eol, some fields, buf)

/-- `cut_str` (cut_str.rs:244): `fields₀` / `buf₀` are the scratch buffers as the previous record
    left them; the result carries them as this record leaves them. -/
def cutStr (line : Bytes) (opt : Opt) (fields₀ : List Range) (buf₀ : Bytes) (eol : Bytes) :
    Run × List Range × Bytes :=
  let r := cutStrCore line opt eol
  (r.1, r.2.1.getD fields₀, r.2.2.getD buf₀)

/-- the record loop of `read_and_cut_str`: stop at the first record that fails -/
def cutRecords (opt : Opt) : List Bytes → List Range → Bytes → Run
  | [], _, _ => Run.empty
  | rec :: t, fields, buf =>
    let (run, fields', buf') := cutStr rec opt fields buf [opt.eol.byte]
    run.seq (cutRecords opt t fields' buf')

/-- `read_and_cut_str` (cut_str.rs:435) on a fault-free reader -/
def readAndCutStr (opt : Opt) (input : Bytes) : Run :=
  cutRecords opt (records opt.eol.byte input) [] []

end Tuc
