import Tuc.Model.Options
/-!
# Tuc.Model.Argv — model of argv parsing: `pico_args` 0.5.0 (features `short-space-opt`,
`combined-flags`, `eq-separator`) and `parse_args` of `src/bin/tuc.rs`

Part 1 models the subset of `pico_args::Arguments` the tool uses, one definition per crate
function (references are to `pico-args-0.5.0/src/lib.rs`).  Arguments are `List Char`
(argv that is not UTF-8 is out of scope, so `Error::NonUtf8Argument` never arises).  All keys the
tool passes are ASCII, so the crate's byte offsets (`key.len()`, `s.get(0..prefix.len())`,
`as_bytes().get(i)`) coincide with character offsets at the places where they are used.

Part 2 is `parse_args` step by step, in the order of the Rust function (every `contains` /
`opt_value_from_str` consumes arguments, later calls see what is left; in particular the values of
`-f -c -b -l` are consumed BEFORE `-h` / `--help` is looked for).  It is written once,
over an interface `Ops σ` of the three `Arguments` operations, and instantiated with the
`pico_args` model (`picoOps`); the theorems of `Tuc.Props.C19Argv` instantiate the same text with
an abstract table of option groups and prove the two agree on canonical command lines.
-/

namespace Tuc

abbrev Arg := List Char

/-! ## Part 1: `pico_args` -/

/-- `struct Keys([&'static str; 2])` (lib.rs:763); a single key is `Keys([v, ""])` (lib.rs:806) -/
structure Keys where
  first : Arg
  second : Arg := []
  deriving DecidableEq, Repr

/-- `enum Error` (lib.rs:43), the variants that can arise for UTF-8 argv -/
inductive PicoErr where
  | optionWithoutAValue
  | parsingFailed          -- `Utf8ArgumentParsingFailed`
  deriving DecidableEq, Repr

/-- `enum PairKind` (lib.rs:98) -/
inductive PairKind where
  | singleArgument
  | twoArguments
  deriving DecidableEq, Repr

/-- one key of `index_of` (lib.rs:539–545): the position of the first argument EQUAL to the key -/
def indexOfKey (args : List Arg) (key : Arg) : Option (Nat × Arg) :=
  if key.isEmpty then none
  else
    match args.findIdx? (fun v => v == key) with
    | some i => some (i, key)
    | none => none

/-- `index_of` (lib.rs:535): the first key is searched through ALL arguments before the second -/
def indexOf (args : List Arg) (keys : Keys) : Option (Nat × Arg) :=
  match indexOfKey args keys.first with
  | some r => some r
  | none => indexOfKey args keys.second

/-- `starts_with_plus_eq` (lib.rs:699): `prefix` followed by `=` -/
def startsWithPlusEq (text pre : Arg) : Bool :=
  pre.isPrefixOf text && (text.drop pre.length).head? == some '='

/-- `starts_with_short_prefix` (lib.rs:713): only for short keys -/
def startsWithShortPrefix (text pre : Arg) : Bool :=
  if ['-', '-'].isPrefixOf pre then false else pre.isPrefixOf text

/-- `index_predicate` with both `eq-separator` and `short-space-opt` (lib.rs:728) -/
def indexPredicate (text pre : Arg) : Bool :=
  startsWithPlusEq text pre || startsWithShortPrefix text pre

def indexOf2Key (args : List Arg) (key : Arg) : Option (Nat × Arg) :=
  if key.isEmpty then none
  else
    match args.findIdx? (fun v => indexPredicate v key) with
    | some i => some (i, key)
    | none => none

/-- `index_of2` (lib.rs:552) -/
def indexOf2 (args : List Arg) (keys : Keys) : Option (Nat × Arg) :=
  match indexOf2Key args keys.first with
  | some r => some r
  | none => indexOf2Key args keys.second

/-- the value of a `--key=value` / `-Kvalue` argument (lib.rs:318–364): skip the key, skip one `=`
    (`eq-separator`), strip one pair of matching quotes, refuse the empty value -/
def singleArgValue (arg key : Arg) : Except PicoErr Arg :=
  let rest := arg.drop key.length
  let rest := if rest.head? == some '=' then rest.drop 1 else rest
  let quoted : Except PicoErr Arg :=
    match rest with
    | c :: t =>
      if c = '"' || c = '\'' then
        -- a closing quote must be the same as the opening one (`ends_with`, lib.rs:744)
        if t.getLast? == some c then .ok t.dropLast else .error .optionWithoutAValue
      else .ok rest
    | [] => .ok rest
  match quoted with
  | .error e => .error e
  | .ok v => if v.isEmpty then .error .optionWithoutAValue else .ok v

/-- `find_value` (lib.rs:301) -/
def findValue (args : List Arg) (keys : Keys) : Except PicoErr (Option (Arg × PairKind × Nat)) :=
  match indexOf args keys with
  | some (idx, _key) =>
    -- a `--key value` pair: the NEXT argument is the value, whatever it looks like
    match args[idx + 1]? with
    | none => .error .optionWithoutAValue
    | some v => .ok (some (v, .twoArguments, idx))
  | none =>
    match indexOf2 args keys with
    | some (idx, key) =>
      match singleArgValue (args.getD idx []) key with
      | .error e => .error e
      | .ok v => .ok (some (v, .singleArgument, idx))
    | none => .ok none

/-- what `opt_value_from_fn_impl` removes once the value parsed (lib.rs:279–282) -/
def removeFound (args : List Arg) (kind : PairKind) (idx : Nat) : List Arg :=
  let args := args.eraseIdx idx
  if kind = .twoArguments then args.eraseIdx idx else args

/-- `find_value` together with the arguments that remain if the value is accepted -/
def picoOptValue (keys : Keys) (args : List Arg) : Except PicoErr (Option (Arg × List Arg)) :=
  match findValue args keys with
  | .error e => .error e
  | .ok none => .ok none
  | .ok (some (v, kind, idx)) => .ok (some (v, removeFound args kind idx))

/-- `s.starts_with('-') && !s.starts_with("--") && s.contains(short_flag)` (lib.rs:182) -/
def isClusterWith (flag : Char) (s : Arg) : Bool :=
  ['-'].isPrefixOf s && !(['-', '-'].isPrefixOf s) && s.contains flag

/-- `contains_impl` (lib.rs:170).  With `combined-flags`, when no argument equals a key and the
    first key is two bytes long, the first argument that starts with one `-` and contains the flag
    letter ANYWHERE loses the first occurrence of that letter. -/
def picoContains (keys : Keys) (args : List Arg) : Bool × List Arg :=
  match indexOf args keys with
  | some (idx, _) => (true, args.eraseIdx idx)
  | none =>
    match keys.first with
    | [_, flag] =>
      match args.findIdx? (isClusterWith flag) with
      | some n =>
        let s := args.getD n []
        if (utf8 s).length = 2 then (true, args.eraseIdx n)          -- "last flag" (unreachable: it would be an exact match)
        else (true, args.set n (s.erase flag))                       -- `s.replacen(short_flag, "", 1)`
      | none => (false, args)
    | _ => (false, args)

/-! ## Part 2: `parse_args` -/

/-- what `parse_args` + the head of `main` make of an argument vector -/
inductive ArgvResult where
  | help                       -- the (short) help on stdout, exit 0
  | version                    -- `tuc <version>` on stdout, exit 0
  | reject                     -- exit 1, nothing on stdout
  | panic                      -- an `unwrap`/`expect` fails (never: `parseArgv_total`)
  | run (opt : Opt) (fixedMemory : Bool) (regexText : Option Arg)
  deriving Repr

/-- the three operations of `pico_args::Arguments` that `parse_args` uses, over a state `σ` -/
structure Ops (σ : Type) where
  /-- `args().len() == 1` at the start, `remaining.is_empty()` at the end -/
  isEmpty : σ → Bool
  /-- `contains(keys)` -/
  contains : Keys → σ → Bool × σ
  /-- `find_value(keys)`, with the state after the removal -/
  optValue : Keys → σ → Except PicoErr (Option (Arg × σ))

def picoOps : Ops (List Arg) where
  isEmpty := List.isEmpty
  contains := picoContains
  optValue := picoOptValue

/-- a step of `parse_args`: it left the function (`std::process::exit`, `?`), or goes on -/
inductive Step (σ α : Type) where
  | done (r : ArgvResult)
  | next (a : α) (s : σ)

def P (σ α : Type) : Type := σ → Step σ α

def P.pure {σ α : Type} (a : α) : P σ α := fun s => .next a s

def P.bind {σ α β : Type} (m : P σ α) (f : α → P σ β) : P σ β := fun s =>
  match m s with
  | .done r => .done r
  | .next a s' => f a s'

instance {σ : Type} : Monad (P σ) where
  pure := P.pure
  bind := P.bind

/-- `std::process::exit(..)` / `return Err(..)` -/
def P.exit {σ α : Type} (r : ArgvResult) : P σ α := fun _ => .done r

/-- `if c { …; std::process::exit(..) }` -/
def P.exitIf {σ : Type} (c : Bool) (r : ArgvResult) : P σ Unit := fun s =>
  if c then .done r else .next () s

/-- `.unwrap()` of an `Option` -/
def P.unwrap {σ α : Type} (o : Option α) : P σ α := fun s =>
  match o with
  | some a => .next a s
  | none => .done .panic

def P.test {σ : Type} (f : σ → Bool) : P σ Bool := fun s => .next (f s) s

/-- `pargs.contains(keys)` -/
def Ops.flag {σ : Type} (ops : Ops σ) (keys : Keys) : P σ Bool := fun s =>
  let r := ops.contains keys s
  .next r.1 r.2

/-- `pargs.opt_value_from_str(keys)?` (lib.rs:269): the arguments are removed only when the
    value parsed; any error leaves `parse_args` (`main` prints it, exit 1) -/
def Ops.value {σ α : Type} (ops : Ops σ) (keys : Keys) (f : Arg → Res α) : P σ (Option α) := fun s =>
  match ops.optValue keys s with
  | .error _ => .done .reject
  | .ok none => .next none s
  | .ok (some (v, s')) =>
    match f v with
    | .ok a => .next (some a) s'
    | .fail => .done .reject
    | .panic => .done .panic

def kHelp : Keys := ⟨['-', 'h'], ['-', '-', 'h', 'e', 'l', 'p']⟩
def kFields : Keys := ⟨['-', 'f'], ['-', '-', 'f', 'i', 'e', 'l', 'd', 's']⟩
def kCharacters : Keys := ⟨['-', 'c'], ['-', '-', 'c', 'h', 'a', 'r', 'a', 'c', 't', 'e', 'r', 's']⟩
def kBytes : Keys := ⟨['-', 'b'], ['-', '-', 'b', 'y', 't', 'e', 's']⟩
def kLines : Keys := ⟨['-', 'l'], ['-', '-', 'l', 'i', 'n', 'e', 's']⟩
def kDelimiter : Keys := ⟨['-', 'd'], ['-', '-', 'd', 'e', 'l', 'i', 'm', 'i', 't', 'e', 'r']⟩
def kGreedy : Keys :=
  ⟨['-', 'g'], ['-', '-', 'g', 'r', 'e', 'e', 'd', 'y', '-', 'd', 'e', 'l', 'i', 'm', 'i', 't', 'e', 'r']⟩
def kReplace : Keys :=
  ⟨['-', 'r'], ['-', '-', 'r', 'e', 'p', 'l', 'a', 'c', 'e', '-', 'd', 'e', 'l', 'i', 'm', 'i', 't', 'e', 'r']⟩
def kFixedMemory : Keys := ⟨['-', 'M'], ['-', '-', 'f', 'i', 'x', 'e', 'd', '-', 'm', 'e', 'm', 'o', 'r', 'y']⟩
def kJson : Keys := ⟨['-', '-', 'j', 's', 'o', 'n'], []⟩
def kJoin : Keys := ⟨['-', 'j'], ['-', '-', 'j', 'o', 'i', 'n']⟩
def kNoJoin : Keys := ⟨['-', '-', 'n', 'o', '-', 'j', 'o', 'i', 'n'], []⟩
def kRegex : Keys := ⟨['-', 'e'], ['-', '-', 'r', 'e', 'g', 'e', 'x']⟩
def kComplement : Keys := ⟨['-', 'm'], ['-', '-', 'c', 'o', 'm', 'p', 'l', 'e', 'm', 'e', 'n', 't']⟩
def kOnlyDelimited : Keys :=
  ⟨['-', 's'], ['-', '-', 'o', 'n', 'l', 'y', '-', 'd', 'e', 'l', 'i', 'm', 'i', 't', 'e', 'd']⟩
def kCompress : Keys :=
  ⟨['-', 'p'], ['-', '-', 'c', 'o', 'm', 'p', 'r', 'e', 's', 's', '-', 'd', 'e', 'l', 'i', 'm', 'i', 't', 'e', 'r']⟩
def kVersion : Keys := ⟨['-', 'V'], ['-', '-', 'v', 'e', 'r', 's', 'i', 'o', 'n']⟩
def kZero : Keys :=
  ⟨['-', 'z'], ['-', '-', 'z', 'e', 'r', 'o', '-', 't', 'e', 'r', 'm', 'i', 'n', 'a', 't', 'e', 'd']⟩
def kTrim : Keys := ⟨['-', 't'], ['-', '-', 't', 'r', 'i', 'm']⟩
def kFallback : Keys := ⟨['-', '-', 'f', 'a', 'l', 'l', 'b', 'a', 'c', 'k', '-', 'o', 'o', 'b'], []⟩
def kFallbackEq : Keys := ⟨['-', '-', 'f', 'a', 'l', 'l', 'b', 'a', 'c', 'k', '-', 'o', 'o', 'b', '='], []⟩

/-- `fallback_oob: pargs.opt_value_from_str("--fallback-oob").or_else(..)?` (tuc.rs:223): an
    `OptionWithoutAValue` error means the empty fallback, after a `contains("--fallback-oob=")`
    that is meant to consume the argument (it only does when the argument is exactly that). -/
def Ops.fallbackOob {σ : Type} (ops : Ops σ) : P σ (Option Arg) := fun s =>
  match ops.optValue kFallback s with
  | .ok none => .next none s
  | .ok (some (v, s')) => .next (some v) s'            -- `String::from_str` cannot fail
  | .error .optionWithoutAValue => .next (some []) (ops.contains kFallbackEq s).2
  | .error _ => .done .reject

/-- `<String as FromStr>::from_str` -/
def strArg (a : Arg) : Res Arg := .ok a

/-- `<UserBoundsList as FromStr>::from_str` -/
def boundsArg (a : Arg) : Res UserBoundsList := boundsListOfString a

def usizeMax : Nat := 18446744073709551615

/-- `str::parse::<usize>` (64-bit): an optional `+`, then ASCII digits only, value ≤ `usize::MAX`;
    the empty string, a lone sign and `-…` are errors -/
def parseUsize (s : Arg) : Option Nat :=
  match s with
  | [] => none
  | ['+'] => none
  | ['-'] => none
  | _ =>
    let ds := match s with
      | '+' :: t => t
      | _ => s
    match parseDigits ds 0 with
    | some n => if n ≤ usizeMax then some n else none
    | none => none

def usizeArg (a : Arg) : Res Nat :=
  match parseUsize a with
  | some n => .ok n
  | none => .fail

/-- `Trim::from_str` (options.rs:87) -/
def trimArg (a : Arg) : Res Trim :=
  match a with
  | ['l'] | ['L'] => .ok .left
  | ['r'] | ['R'] => .ok .right
  | ['b'] | ['B'] => .ok .both
  | _ => .fail

def isFiller : BoF → Bool
  | .filler _ => true
  | .bound _ => false

/-- `usize::saturating_mul(1024)` -/
def saturatingMul1024 (x : Nat) : Nat := min (x * 1024) usizeMax

/-- the text of the regex `parse_args` compiles for `-c` -/
def charsRegexText : Arg := ['\\', 'b', '|', '\\', 'B']

/-- `parse_args` (tuc.rs:48), followed by nothing: the result is what `main` starts from.
    `regexOk t` = both `Regex::new(t)` and `Regex::new("(t)+")` succeed.
    (Written as one linear chain of binds — `P.exitIf c r` is `if c { exit }` — so that the
    theorems of `Tuc.Props.C19Argv` can walk it.) -/
def parseWith {σ : Type} (ops : Ops σ) (regexOk : Arg → Bool) : P σ ArgvResult := do
  let noArgs ← P.test ops.isEmpty
  P.exitIf noArgs .help                                          -- `args().len() == 1`: short help
  -- the bounds values first: with `combined-flags` a value such as `-1=hello` would otherwise be
  -- searched for the `h` of `-h` (so a bounds value that does not parse, or a `-f` without value,
  -- is reported — exit 1 — even when `-h` is also given)
  let maybeFields ← ops.value kFields boundsArg
  let maybeCharacters ← ops.value kCharacters boundsArg
  let maybeBytes ← ops.value kBytes boundsArg
  let maybeLines ← ops.value kLines boundsArg
  let hasHelp ← ops.flag kHelp                                   -- `contains(["-h", "--help"])`: the help
  P.exitIf hasHelp .help
  let defaultBounds : Bool :=
    !maybeFields.isSome && !maybeBytes.isSome && !maybeCharacters.isSome && !maybeLines.isSome
  let boundsType : BoundsType :=
    if maybeFields.isSome then .fields
    else if maybeBytes.isSome then .bytes
    else if maybeCharacters.isSome then .characters
    else if maybeLines.isSome then .lines
    else .fields
  -- `maybe_fields = Some(UserBoundsList::from_str("1:").unwrap())`
  let maybeFields ← (if defaultBounds then P.unwrap ((boundsListOfString ['1', ':']).toOption.map some)
                     else pure maybeFields)
  P.exitIf (boundsType = .fields && (match maybeFields with | none => true | some l => l.list.isEmpty))
    .reject                                                     -- "invariant error"
  -- `-d` is looked for only in field mode
  let d ← (if boundsType = .fields then ops.value kDelimiter strArg else pure none)
  let delimiter : Bytes :=
    if boundsType = .fields then (match d with | some x => utf8 x | none => [9])
    else if boundsType = .lines then [10]
    else []
  let greedyDelimiter ← ops.flag kGreedy
  let tmpReplace ← ops.value kReplace strArg
  let replaceDelimiter : Option Bytes := tmpReplace.map utf8
  let fixedMemoryKb ← ops.value kFixedMemory usizeArg
  P.exitIf (fixedMemoryKb = some 0) .reject                     -- "--fixed-memory cannot be 0"
  let hasJson ← ops.flag kJson
  let hasJoin ← ops.flag kJoin
  let hasNoJoin ← ops.flag kNoJoin
  P.exitIf (hasJoin && hasNoJoin) .reject
  P.exitIf (hasJson && hasNoJoin) .reject
  P.exitIf (replaceDelimiter.isSome && (hasNoJoin || hasJson)) .reject
  P.exitIf (boundsType = .characters && hasNoJoin) .reject
  let replaceDelimiter := if boundsType = .characters then some [] else replaceDelimiter
  let replaceDelimiter := if hasJson then some [44] else replaceDelimiter
  let join : Bool :=
    hasJoin || hasJson || replaceDelimiter.isSome || (boundsType = .lines && !hasNoJoin)
      || boundsType = .characters
  P.exitIf (hasJson && boundsType ≠ .characters && boundsType ≠ .fields) .reject
  -- `-e` is looked for only when the mode is not `-c`
  let regexText : Option Arg ←
    (if boundsType = .characters then pure (some charsRegexText) else ops.value kRegex strArg)
  P.exitIf (match regexText with | some t => !regexOk t | none => false)
    .reject                                                     -- "The regular expression is malformed"
  -- `maybe_fields.or(maybe_characters).or(maybe_bytes).or(maybe_lines).unwrap()`
  let bounds ← P.unwrap (maybeFields.or (maybeCharacters.or (maybeBytes.or maybeLines)))
  P.exitIf (hasJson && bounds.list.any isFiller) .reject         -- "Cannot format fields when using --json"
  -- the `Opt { .. }` literal: the fields are evaluated in the order they are written
  let complement ← ops.flag kComplement
  let onlyDelimited ← ops.flag kOnlyDelimited
  let compressDelimiter ← ops.flag kCompress
  let version ← ops.flag kVersion
  let zero ← ops.flag kZero
  let eol : EOL := if zero then .zero else .newline
  let trim ← ops.value kTrim trimArg
  let fallbackOob ← ops.fallbackOob
  -- `if args.bounds_type == BoundsType::Lines { args.delimiter = vec![args.eol.into()] }`
  let delimiter := if boundsType = .lines then [eol.byte] else delimiter
  let remainingEmpty ← P.test ops.isEmpty                        -- `pargs.finish()`
  P.exitIf version .version
  P.exitIf (!remainingEmpty) .reject                             -- "unexpected arguments"
  pure (.run
    { delimiter := delimiter
      eol := eol
      bounds := bounds
      boundsType := boundsType
      onlyDelimited := onlyDelimited
      greedyDelimiter := greedyDelimiter
      compressDelimiter := compressDelimiter
      replaceDelimiter := replaceDelimiter
      trim := trim
      complement := complement
      join := join
      json := hasJson
      fixedMemory := fixedMemoryKb.map saturatingMul1024
      fallbackOob := fallbackOob.map utf8
      regexBag := none }
    fixedMemoryKb.isSome
    regexText)

def Step.result {σ : Type} : Step σ ArgvResult → ArgvResult
  | .done r => r
  | .next r _ => r

/-- argv (without the program name) → what `main` starts from -/
def parseArgv (regexOk : Arg → Bool) (argv : List Arg) : ArgvResult :=
  (parseWith picoOps regexOk argv).result

end Tuc
