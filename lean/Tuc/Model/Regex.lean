import Tuc.Model.Options
/-!
# Tuc.Model.Regex — an executable instance of `RegexBag` for the family of expressions C16 names

Single characters, classes `[...]` of literal characters, alternations `|` of sequences of
different lengths, groups `( )`, `+`, multi-byte literals.  Semantics: leftmost-first
(backtracking order: left alternative first, `+` greedy), as the `regex` crate defines it for
this family; `find_iter` = successive non-overlapping leftmost matches.  The real engine is
outside the model: this instance is what the correspondence check of C16 validates against it
(match positions compared case by case).  Expressions that can match the empty string are
outside the family.
-/
namespace Tuc

inductive Re where
  | byte (b : UInt8)
  | cls (bs : List UInt8)          -- one byte out of a set (ASCII class)
  | seq (a b : Re)
  | alt (a b : Re)
  | plus (a : Re)
  | eps
  | never
  deriving Repr, Inhabited

/-- match `r` at the head of `s`, then continue with `k` on what is left; returns what is left
    after the whole match.  `fuel` bounds the iterations of `+`. -/
def Re.run : Nat → Re → Bytes → (Bytes → Option Bytes) → Option Bytes
  | _, .eps, s, k => k s
  | _, .never, _, _ => none
  | _, .byte b, s, k =>
    match s with
    | c :: t => if c = b then k t else none
    | [] => none
  | _, .cls bs, s, k =>
    match s with
    | c :: t => if bs.contains c then k t else none
    | [] => none
  | f, .seq a b, s, k => Re.run f a s (fun s' => Re.run f b s' k)
  | f, .alt a b, s, k =>
    match Re.run f a s k with
    | some r => some r
    | none => Re.run f b s k
  | 0, .plus _, _, _ => none
  | f + 1, .plus a, s, k =>
    Re.run (f + 1) a s (fun s' =>
      if s'.length < s.length then
        match Re.run f (.plus a) s' k with
        | some r => some r
        | none => k s'
      else none)
termination_by f r => (f, r)

/-- length of the leftmost-first match of `r` at the head of `s` -/
def Re.matchLen (r : Re) (s : Bytes) : Option Nat :=
  (Re.run (s.length + 1) r s some).map fun rest => s.length - rest.length

/-- `Regex::find_iter`: successive leftmost non-overlapping non-empty matches -/
def Re.findIterAux (r : Re) : Nat → Nat → Bytes → List (Nat × Nat)
  | _, _, [] => []
  | skip + 1, pos, _ :: t => Re.findIterAux r skip (pos + 1) t
  | 0, pos, c :: t =>
    match r.matchLen (c :: t) with
    | some (n + 1) => (pos, pos + n + 1) :: Re.findIterAux r n (pos + 1) t
    | _ => Re.findIterAux r 0 (pos + 1) t

def Re.findIter (r : Re) (s : Bytes) : List (Nat × Nat) := Re.findIterAux r 0 0 s

/-- the bag `parse_args` builds from `-e RE`: `RE` and `(RE)+` -/
def Re.bag (r : Re) : RegexBag := { normal := r.findIter, greedy := (Re.plus r).findIter }

/-! ## concrete syntax of the family -/

def Re.ofBytes : Bytes → Re
  | [] => .eps
  | [b] => .byte b
  | b :: t => .seq (.byte b) (Re.ofBytes t)

/-- a character as a regex: its UTF-8 bytes in sequence -/
def Re.ofChar (c : Char) : Re := Re.ofBytes (String.utf8EncodeChar c)

def Re.altOfChars : List Char → Re
  | [] => .never
  | [c] => Re.ofChar c
  | c :: t => .alt (Re.ofChar c) (Re.altOfChars t)

mutual
/-- recursive-descent parser: `alt := seq ('|' seq)*`, `seq := (atom '+'?)*`,
    `atom := char | '\\' char | '[' chars ']' | '(' alt ')'`; `none` = outside the family -/
partial def Re.parseAlt (cs : List Char) : Option (Re × List Char) := do
  let (a, rest) ← Re.parseSeq cs
  match rest with
  | '|' :: t =>
    let (b, rest') ← Re.parseAlt t
    pure (.alt a b, rest')
  | _ => pure (a, rest)

partial def Re.parseSeq (cs : List Char) : Option (Re × List Char) :=
  match cs with
  | [] => some (.eps, [])
  | '|' :: _ => some (.eps, cs)
  | ')' :: _ => some (.eps, cs)
  | _ => do
    let (a, rest) ← Re.parseAtom cs
    let (a, rest) := match rest with
      | '+' :: t => (Re.plus a, t)
      | _ => (a, rest)
    match rest with
    | '*' :: _ => none
    | '?' :: _ => none
    | '{' :: _ => none
    | '+' :: _ => none
    | _ =>
      let (b, rest') ← Re.parseSeq rest
      pure ((match b with | .eps => a | _ => .seq a b), rest')

partial def Re.parseAtom (cs : List Char) : Option (Re × List Char) :=
  match cs with
  | '\\' :: c :: t => if c.isAlphanum then none else some (Re.ofChar c, t)
  | '[' :: t =>
    let body := t.takeWhile (· ≠ ']')
    let rest := t.dropWhile (· ≠ ']')
    match rest with
    | ']' :: rest' =>
      if body.isEmpty || body.head? = some '^' || body.contains '\\' || body.contains '[' then none
      else if (body.drop 1).dropLast.contains '-' then none      -- ranges are outside the family
      else some (Re.altOfChars body, rest')
    | _ => none
  | '(' :: t => do
    let (a, rest) ← Re.parseAlt t
    match rest with
    | ')' :: rest' => pure (a, rest')
    | _ => none
  | c :: t =>
    if c = '.' || c = '^' || c = '$' || c = '*' || c = '+' || c = '?' || c = ']' || c = '}' || c = '{' then none
    else some (Re.ofChar c, t)
  | [] => none
end

def Re.parse (cs : List Char) : Option Re :=
  match Re.parseAlt cs with
  | some (r, []) => some r
  | _ => none

end Tuc
