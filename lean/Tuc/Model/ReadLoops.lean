import Tuc.Model.StreamLoop
import Tuc.Model.TextLoops
import Tuc.Model.CutStr
/-!
# Tuc.Model.ReadLoops — the record reader of the general engine and the reader of byte mode,
statement by statement

`Tuc.Model.CutStr.readAndCutStr` splits the WHOLE input into records up front (`records`) and
folds `cutStr` over them; `Tuc.Model.Lines.readAndCutBytes` is given the whole data.  The Rust
code drives a `BufRead` / `Read` that hands the input out in arbitrary pieces.  This file follows
the text of

* `read_and_cut_str`                         (/repo/src/cut_str.rs:458-503)     → `readAndCutStrLoop`
* `BufReadExt::for_byte_record`              (bstr 1.11.3, src/io.rs:186-198)   → `forByteRecordLoop`
* `BufReadExt::for_byte_record_with_terminator` (bstr 1.11.3, src/io.rs:289-344) → `forByteRecordWithTerminatorLoop`
* `trim_record_slice`                        (bstr 1.11.3, src/io.rs:437-442)   → `trimRecordSlice`
* `std::io::read_until` (what `BufRead::read_until` calls; library/std/src/io/mod.rs:2244-2270) → `readUntilLoop`
* `read_bytes_to_end`                        (/repo/src/read_utils.rs:4-14)     → `readBytesToEndLit`
* `cut_bytes`, `read_and_cut_bytes`          (/repo/src/cut_bytes.rs:8-36, 38-49) → `cutBytesLit`, `readAndCutBytesLoop`

statement by statement (the numbers in the trailing comments are the lines of these files; `/repo`
at commit 9782769).  `Tuc.Props.ReadLoops` proves that for EVERY segmentation of the input into
non-empty reads the literal functions are the abstract ones applied to the concatenation.

Conventions (those of `Tuc.Model.StreamLoop` / `Tuc.Model.LinesLoop`)

* the reader (`stdin: &mut B`, `B: BufRead`) is **exactly the reader of `Tuc.Model.StreamLoop`**:
  the list `stdin : List Bytes` of the chunks the successive `fill_buf()` calls still have to hand
  out; `StreamLoop.fillBuf` returns the head without removing anything, `StreamLoop.consume n`
  removes `n` bytes from the head and drops the head once it is used up (`SegReader` of
  `/verif/harness/src/main.rs`, `BufReader`).  An empty `fill_buf()` is EOF for every loop below
  (io.rs:305, mod.rs:2266 `used == 0`, `read` returning 0); under the hypothesis of the theorems
  (no empty chunk in the list) this happens only when the list is exhausted.  Read faults are
  outside this model (as they are outside `readAndCutStr` / `readAndCutBytes`): every `fill_buf()?`,
  `read_until(..)?`, `read_to_end(..)` is `Ok`;
* the local variables keep their Rust names (camelCase): `bytes`, `res`, `consumed`, `buf`,
  `record`, `rest`, `index`, `available`, `done`, `used`, `read`, `buffer`, `boundsAsRanges`,
  `compressedLineBuf`, `output`;
* `stdout` is a fault-free writer: a statement that writes yields the `Run` of what it wrote;
  `a.seq b` is "`a`, then — unless `a` ended the run — `b`" (the `?` operator); an `Err` is status
  `fail`, a Rust panic status `panic`;
* the closure `F: FnMut(&[u8]) -> io::Result<bool>` is a function `Closure σ` of the record and of
  the state `σ` it captured by `&mut` (for `read_and_cut_str`: the two scratch buffers
  `bounds_as_ranges`, `compressed_line_buf`); it yields the `Run` of what it wrote — status `ok` =
  `Ok(b)`, `fail` = `Err(_)`, `panic` = it panicked —, the `b` of `Ok(b)`, and the state afterwards.
  The local `res` of `for_byte_record_with_terminator` (`Ok(())` until a call returns `Err`, l.315)
  is the status of the accumulated run: the function returns `res` (l.343), which is what the
  `Run` says;
* every index / slice / `split_at` / `usize` subtraction of the Rust text is a *checked* operation
  here (`panic` when out of range): `buf.split_at(index + 1)` (io.rs:309), `&record[..len - 1]`
  (io.rs:439), `&available[..=i]` (mod.rs:2255), `&data[r.start..r.end]` (cut_bytes.rs:16);
* the loops take fuel and yield `hang` when it runs out: `whileFindByte` (io.rs:308; entered with
  `buf.len() + 1` units), `readUntilLoop` (mod.rs:2246; entered with
  `StreamLoop.totalBytes stdin + 1` units), the `'outer` loop (io.rs:301) and `readToEndLoop`
  (entered with `StreamLoop.fuelFor stdin = 2 · bytes + 2` units).  `Tuc.Props.ReadLoops` proves
  that the fuel is never used up (and that any larger amount gives the same result);
* library / callee models: `buf.find_byte(t)` and `memchr::memchr(t, ..)` → `StreamLoop.memchr`;
  `cut_str` → `cutStr` of `Tuc.Model.CutStr` (tied to the Rust text by `Tuc.Props.TextLoops` /
  `Tuc.Model.CutStrLit`); `UserBounds::try_into_range` → `UserBounds.tryIntoRange` of
  `Tuc.Model.Bounds`; `slice::strip_suffix` → `stripSuffix`;
* `Read::read_to_end` (cut_bytes.rs is generic over `R: Read`): std's `default_read_to_end`
  (library/std/src/io/mod.rs:409-519) is a loop "`read` into the spare capacity; `0` bytes → return
  the total; else go on" around capacity management (probe reads, `try_reserve`,
  `max_read_size`).  `readToEndLoop` keeps the loop and drops the capacity management: a `read`
  on the segmented reader is `fill_buf` + copy + `consume` (`SegReader::read`, `BufReader::read`)
  and hands out the current chunk.  A `read` into a *smaller* spare buffer hands out a prefix of
  the chunk — which is the same run on a finer segmentation, and the theorem covers all of them.
-/

namespace Tuc
namespace ReadLoops

open StreamLoop (fillBuf consume memchr totalBytes fuelFor)

/-! ## slices -/

/-- `buf.split_at(mid)`: panics (`none`) when `mid > len` -/
def splitAt? (buf : Bytes) (mid : Nat) : Option (Bytes × Bytes) :=
  if mid ≤ buf.length then some (buf.take mid, buf.drop mid) else none

/-- `line.strip_suffix(suffix)` -/
def stripSuffix (line suffix : Bytes) : Option Bytes :=
  if suffix.isSuffixOf line then some (line.take (line.length - suffix.length)) else none

/-- `trim_record_slice(record, terminator)` (bstr io.rs:437-442); `none` = a panic -/
def trimRecordSlice (record : Bytes) (terminator : UInt8) : Option Bytes :=
  if record.getLast? = some terminator then                             -- 438 record.last_byte() == Some(terminator)
    if 1 ≤ record.length then some (record.take (record.length - 1))    -- 439 &record[..record.len() - 1]
    else none
  else some record                                                      -- 441

/-! ## the closure -/

/-- `F: FnMut(&[u8]) -> io::Result<bool>` with captured state `σ`: what the call wrote and how it
    ended (`ok` = `Ok(b)`, `fail` = `Err(_)`, `panic`), `b`, the captured state afterwards -/
abbrev Closure (σ : Type) := Bytes → σ → Run × Bool × σ

/-! ## `std::io::read_until` (library/std/src/io/mod.rs:2244-2270) -/

/-- the loop of `read_until(r, delim, buf)`: `Ok(read)`, `buf` and the reader afterwards -/
def readUntilLoop (delim : UInt8) : Nat → List Bytes → Bytes → Nat → Outcome (Nat × Bytes × List Bytes)
  | 0, _, _, _ => .hang
  | fuel + 1, r, buf, read =>                                           -- 2246 loop {
    let available := fillBuf r                                          -- 2248 r.fill_buf() (never Err here)
    let m : Option (Bool × Nat × Bytes) :=                              -- (done, used, buf); none = panic
      match memchr delim available with                                 -- 2253
      | some i =>
        if i < available.length then
          some (true, i + 1, buf ++ available.take (i + 1))             -- 2255 buf.extend_from_slice(&available[..=i]); 2256
        else none
      | none => some (false, available.length, buf ++ available)        -- 2259-2260
    match m with
    | none => .panic
    | some (done, used, buf) =>
      let r := consume used r                                           -- 2264 r.consume(used)
      let read := read + used                                           -- 2265
      if done || used == 0 then .ok (read, buf, r)                      -- 2266-2267 return Ok(read)
      else readUntilLoop delim fuel r buf read                          -- 2269 }

/-! ## `for_byte_record_with_terminator` (bstr io.rs:289-344) -/

/-- the state after `while let Some(index) = buf.find_byte(terminator) { … }` (io.rs:308-320) -/
structure WhileOut (σ : Type) where
  /-- what the calls of the closure wrote; status `fail` = `res = Err(err)` (l.315) -/
  run : Run
  /-- the loop was left by `break 'outer` (l.313, l.316) or by a panic -/
  breakOuter : Bool
  buf : Bytes
  consumed : Nat
  /-- the state captured by the closure -/
  st : σ

/-- io.rs:308-320 -/
def whileFindByte {σ : Type} (terminator : UInt8) (forEachRecord : Closure σ) :
    Nat → Bytes → Nat → σ → WhileOut σ
  | 0, buf, consumed, st => ⟨Run.hang, true, buf, consumed, st⟩
  | fuel + 1, buf, consumed, st =>
    match memchr terminator buf with                                    -- 308 while let Some(index) = buf.find_byte(terminator)
    | none => ⟨Run.empty, false, buf, consumed, st⟩
    | some index =>
      match splitAt? buf (index + 1) with                               -- 309 let (record, rest) = buf.split_at(index + 1)
      | none => ⟨Run.panic, true, buf, consumed, st⟩
      | some (record, rest) =>
        let buf := rest                                                 -- 310
        let consumed := consumed + record.length                        -- 311
        let c := forEachRecord record st                                -- 312 match for_each_record(record)
        if c.1.status = .ok then
          if c.2.1 then                                                 -- 318 _ => ()
            let w := whileFindByte terminator forEachRecord fuel buf consumed c.2.2
            { w with run := c.1.seq w.run }
          else ⟨c.1, true, buf, consumed, c.2.2⟩                        -- 313 Ok(false) => break 'outer
        else ⟨c.1, true, buf, consumed, c.2.2⟩                          -- 314-317 res = Err(err); break 'outer

/-- the `'outer` loop (io.rs:301-341) followed by l.342-343: the run (its status is `res`) and the
    reader afterwards -/
def outerLoop {σ : Type} (terminator : UInt8) (forEachRecord : Closure σ) :
    Nat → List Bytes → Bytes → Nat → σ → Run × List Bytes
  | 0, stdin, _, _, _ => (Run.hang, stdin)
  | fuel + 1, stdin, bytes, consumed, st =>                             -- 301 'outer: loop {
    let buf := fillBuf stdin                                            -- 304 let mut buf = self.fill_buf()?
    if buf.isEmpty then                                                 -- 305
      (Run.empty, consume consumed stdin)                               -- 306 break; 342 self.consume(consumed); 343 res
    else
      let w := whileFindByte terminator forEachRecord (buf.length + 1) buf consumed st   -- 308-320
      if w.breakOuter then
        (w.run, consume w.consumed stdin)                               -- 313/316 break 'outer; 342; 343 res
      else
        let buf := w.buf
        let consumed := w.consumed
        let bytes := bytes ++ buf                                       -- 325 bytes.extend_from_slice(buf)
        let consumed := consumed + buf.length                           -- 326
        let stdin := consume consumed stdin                             -- 329 self.consume(consumed)
        let consumed := 0                                               -- 330
        match readUntilLoop terminator (totalBytes stdin + 1) stdin bytes 0 with   -- 336 self.read_until(terminator, &mut bytes)?
        | .hang => (w.run.seq Run.hang, stdin)
        | .panic => (w.run.seq Run.panic, stdin)
        | .ok (_, bytes, stdin) =>
          if bytes.isEmpty then                                         -- 337 bytes.is_empty() ||
            (w.run, consume consumed stdin)                             -- 338 break; 342; 343 res
          else
            let c := forEachRecord bytes w.st                           -- 337 for_each_record(&bytes)?
            if c.1.status = .ok then
              if !c.2.1 then                                            -- 337 !…
                (w.run.seq c.1, consume consumed stdin)                 -- 338 break; 342; 343 res
              else
                let bytes : Bytes := TextLoops.clear bytes                -- 340 bytes.clear()
                let l := outerLoop terminator forEachRecord fuel stdin bytes consumed c.2.2   -- 341 }
                ((w.run.seq c.1).seq l.1, l.2)
            else (w.run.seq c.1, stdin)                                 -- 337 `?`: return Err(..)

/-- `self.for_byte_record_with_terminator(terminator, for_each_record)` (io.rs:289-344) -/
def forByteRecordWithTerminatorLoop {σ : Type} (terminator : UInt8) (forEachRecord : Closure σ)
    (stdin : List Bytes) (st : σ) : Run × List Bytes :=
  let bytes : Bytes := []                                               -- 298 let mut bytes = vec![]
  -- 299 let mut res = Ok(())   (the status of the run)
  let consumed := 0                                                     -- 300
  outerLoop terminator forEachRecord (fuelFor stdin) stdin bytes consumed st   -- 301-343

/-- `self.for_byte_record(terminator, for_each_record)` (io.rs:186-198) -/
def forByteRecordLoop {σ : Type} (terminator : UInt8) (forEachRecord : Closure σ)
    (stdin : List Bytes) (st : σ) : Run × List Bytes :=
  forByteRecordWithTerminatorLoop terminator                            -- 195
    (fun chunk st =>
      match trimRecordSlice chunk terminator with                       -- 196 trim_record_slice(chunk, terminator)
      | none => (Run.panic, false, st)
      | some record => forEachRecord record st)                         -- 196 for_each_record(…)
    stdin st

/-! ## `read_and_cut_str` (cut_str.rs:458-503) -/

/-- the closure of l.472-485 (and, word for word, of l.486-499); it captured `bounds_as_ranges`
    and `compressed_line_buf` by `&mut` -/
def cutStrClosure (opt : Opt) : Closure (List Range × Bytes) := fun line st =>
  let line := (stripSuffix line [opt.eol.byte]).getD line               -- 473 line.strip_suffix(&[opt.eol as u8]).unwrap_or(line)
  let r := cutStr line opt st.1 st.2 [opt.eol.byte]                     -- 474-481 cut_str(line, &opt, stdout, &mut …, &mut …, &[opt.eol as u8])
  (r.1, true, (r.2.1, r.2.2))                                           -- 483 .map_err(…) 484 .and(Ok(true))

/-- `read_and_cut_str(stdin, stdout, opt)` (cut_str.rs:458-503) on a fault-free reader that hands
    out the chunks `stdin` -/
def readAndCutStrLoop (opt : Opt) (stdin : List Bytes) : Run :=
  -- 463 line_buf is only asked for its capacity
  let boundsAsRanges : List Range := []                                 -- 464
  let compressedLineBuf : Bytes := []                                   -- 465-469 (both arms: an empty Vec)
  -- 471 match opt.eol: the two arms have the same text
  let r := forByteRecordLoop opt.eol.byte (cutStrClosure opt) stdin     -- 472 / 486 stdin.for_byte_record(opt.eol.into(), |line| …)
             (boundsAsRanges, compressedLineBuf)
  r.1.seq Run.empty                                                     -- 485 / 499 `?`; 502 Ok(())

/-! ## `read_bytes_to_end` (read_utils.rs:4-14) -/

/-- `reader.read_to_end(buffer)`: the loop of `default_read_to_end` (mod.rs:450-518) without the
    capacity management (see the header): `Ok(read)`, `buffer` and the reader afterwards -/
def readToEndLoop : Nat → List Bytes → Bytes → Nat → Outcome (Nat × Bytes × List Bytes)
  | 0, _, _, _ => .hang
  | fuel + 1, r, buf, read =>                                           -- 450 loop {
    let available := fillBuf r                                          -- 477 r.read_buf(…): fill_buf,
    let bytesRead := available.length                                   -- 485
    let buf := buf ++ available                                         -- 489-492 copy, set_len
    let r := consume bytesRead r                                        --     consume
    if bytesRead == 0 then .ok (read, buf, r)                           -- 497-498 return Ok(buf.len() - start_len)
    else readToEndLoop fuel r buf (read + bytesRead)                    -- 518 }

/-- `read_bytes_to_end(reader, buffer)` (read_utils.rs:4-14): `Option<io::Result<&mut Vec<u8>>>` is
    `none` / `some ()` (never `Some(Err(_))`: no read faults) — the `Some` borrows `buffer`, which
    is returned as the second component in both cases (the caller keeps using it, cut_bytes.rs:47);
    third component: the reader afterwards -/
def readBytesToEndLit (reader : List Bytes) (buffer : Bytes) : Outcome (Option Unit × Bytes × List Bytes) :=
  let buffer : Bytes := TextLoops.clear buffer                           -- 8 buffer.clear()
  match readToEndLoop (fuelFor reader) reader buffer 0 with             -- 10-11 reader.read_to_end(buffer)
  | .hang => .hang
  | .panic => .panic
  | .ok (u, buffer, reader) =>
    .ok ((if u == 0 then none else some ()), buffer, reader)            -- 12 .map(|u| if u == 0 { None } else { Some(buffer) }) 13 .transpose()

/-! ## `cut_bytes`, `read_and_cut_bytes` (cut_bytes.rs) -/

/-- the closure of `try_for_each` (cut_bytes.rs:13-33) -/
def cutBytesBody (data : Bytes) (opt : Opt) (bof : BoF) : Run :=
  let output : Res Bytes :=                                             -- 14 let output = match bof {
    match bof with
    | .bound b =>                                                       -- 15 BoundOrFiller::Bound(b) => match b.try_into_range(data.len())
      match b.tryIntoRange data.length with
      | some r =>                                                       -- 16 Ok(r) => &data[r.start..r.end]
        if r.1 ≤ r.2 ∧ r.2 ≤ data.length then .ok (slice data r.1 r.2) else .panic
      | none =>                                                         -- 17 Err(e) =>
        match b.fallback with
        | some fallback => .ok fallback                                 -- 18-19
        | none =>
          match opt.fallbackOob with
          | some genericFallback => .ok genericFallback                 -- 20-21
          | none => .fail                                               -- 23 return Err(e)
    | .filler f => .ok f                                                -- 27
  match output with
  | .ok output => (Run.ok output).seq Run.empty                         -- 30 stdout.write_all(output)?; 32 Ok(())
  | .fail => Run.fail
  | .panic => Run.panic

/-- `iter.try_for_each(f)`: stop at the first `Err` -/
def tryForEach (f : BoF → Run) : List BoF → Run
  | [] => Run.empty
  | bof :: iter => (f bof).seq (tryForEach f iter)

/-- `cut_bytes(data, opt, stdout)` (cut_bytes.rs:8-36) -/
def cutBytesLit (data : Bytes) (opt : Opt) : Run :=
  if data.isEmpty then Run.empty                                        -- 9-11 return Ok(())
  else
    (tryForEach (cutBytesBody data opt) opt.bounds.list).seq            -- 13 opt.bounds.iter().try_for_each(…) 33 `?`
      Run.empty                                                         -- 35 Ok(())

/-- `read_and_cut_bytes(stdin, stdout, opt)` (cut_bytes.rs:38-49) on a fault-free reader that
    hands out the chunks `stdin` -/
def readAndCutBytesLoop (opt : Opt) (stdin : List Bytes) : Run :=
  let buffer : Bytes := []                                              -- 43 Vec::with_capacity(32 * 1024)
  match readBytesToEndLit stdin buffer with                             -- 44 if let Some(res) = read_bytes_to_end(stdin, &mut buffer)
  | .hang => Run.hang
  | .panic => Run.panic
  | .ok (_, buffer, _) =>                                               -- 45 res?  (never Err here)
    (cutBytesLit buffer opt).seq Run.empty                              -- 47 cut_bytes(&buffer, opt, stdout)?; 48 Ok(())

end ReadLoops
end Tuc
