import Tuc.Model.Options
import Tuc.Model.Utf8
/-!
# Tuc.Model.Chars — the `RegexBag` that `parse_args` builds for `-c` (`\b|\B`)

Over valid UTF-8 the regex `\b|\B` (and `(\b|\B)+`) has exactly one empty match at every
scalar-value boundary, `0` and `len` included.  (Over text that is not UTF-8 the model says
"no match"; the driver reports such cases as unmodelled.)  This is validated against the real
regex engine by the correspondence check of C07.
-/
namespace Tuc

def charMatches (line : Bytes) : List (Nat × Nat) :=
  match utf8Chars line with
  | some cs => (boundariesFrom 0 cs).map fun p => (p, p)
  | none => []

def charsBag : RegexBag := { normal := charMatches, greedy := charMatches }

end Tuc
