import Tuc.Model.Bounds
/-!
# Tuc.Model.BoundsLit — `src/bounds/side.rs` and `src/bounds/userbounds.rs` with MACHINE INTEGERS

`Tuc.Model.Bounds` models the bounds code over the unbounded integers (`Int` indexes, `Nat`
counts).  This file follows the Rust text of the same functions statement by statement with the
Rust integer types made explicit (the numbers in the comments are the lines of `side.rs` /
`userbounds.rs` at commit 9782769 of `/repo`, EXCEPT the body of `try_into_range`, which is the
REPAIRED text — the arithmetic in `i64` instead of `parts_length as i32` — numbered from its
unchanged first line 220 as `rustfmt` lays it out: 220-264, four lines more than before; the numbers
quoted for the items after it are still those of commit 9782769):

* `<i32 as FromStr>::from_str`  (core `from_ascii_radix`, radix 10)        → `parseI32Lit`
* `Side::from_str`              (side.rs:15-23)                            → `SideL.fromStr`
* `impl PartialOrd for Side`    (side.rs:36-49)                            → `SideL.partialCmp`, `SideL.gt`
* `UserBounds::from_str`        (userbounds.rs:37-86)                      → `UserBoundsL.fromStr`
* `From<Range<usize>>`          (userbounds.rs:90-102)                     → `UserBoundsL.ofRange`
* `impl PartialOrd for UserBounds` (userbounds.rs:110-117)                 → `UserBoundsL.partialCmp`
* `UserBounds::matches`         (userbounds.rs:170-192)                    → `UserBoundsL.matches`
* `UserBounds::try_into_range`  (userbounds.rs:220-264, repaired text)     → `UserBoundsL.tryIntoRange`
* `UserBounds::unpack`          (userbounds.rs:264-281)                    → `UserBoundsL.unpack`
* `UserBounds::complement`      (userbounds.rs:284-288)                    → `UserBoundsL.complement`
* `complement_std_range`        (userbounds.rs:291-304)                    → `complementStdRangeLit`

`Tuc.Props.BoundsLit` proves that each of them agrees with `Tuc.Model.Bounds` — for every argument
where no width is involved; `try_into_range` for every `parts_length ≤ i64::MAX` (every length a
Rust slice can have) and "the left side is not the literal 0" (which the parser guarantees: `-1 as
usize`); `unpack` / `complement`, which still go through `i as i32 + 1` and
`usize::try_into::<i32>().expect(..)`, under `num_fields < 2³¹` — and shows by concrete values that
these hypotheses cannot be dropped.

History: until the repair `try_into_range` began with `let parts_length = parts_length as i32;` and
computed in `i32`; the transcription of that text (`usizeAsI32 partsLength`, `I32` arithmetic,
`i32AsUsize`) and the witnesses of the defect it had (`tuc -b 1:3` on a 2 GiB input: "Out of
bounds: 1") are in the commit history of this file and of `Tuc.Props.BoundsLit`.

Conventions

* **`i32`** is `I32`: an `Int` TOGETHER WITH the proof that it lies in `[-2³¹, 2³¹ - 1]`.  A value
  outside the range cannot be written down, exactly as in Rust.
* every `+`, `-`, `*` and unary `-` on `i32` is a CHECKED operation (`I32.add`, `I32.sub`,
  `I32.mul`, `I32.neg`): when the mathematical result does not fit, the outcome is `Res.panic` —
  the behaviour of the debug build and of the test harness, which are compiled with overflow checks
  (`attempt to add with overflow`).  (The release build wraps instead; it is not modelled here.)
  `checked_add` / `checked_sub` / `checked_mul` (used by the number parser of `core`) yield `None`.
* **`i64`** is `I64`, in the same way (`[-2⁶³, 2⁶³ - 1]`); `+`, `-` and unary `-` on it are checked
  (`I64.add`, `I64.sub`, `I64.neg`).  `Tuc.Props.BoundsLit` PROVES that none of them can overflow in
  `try_into_range` (`tryIntoRange_no_panic`: sides are `i32` values, `parts_length ≤ i64::MAX`).
* every cast is a named function that does what `as` does: `usizeAsI32` (`x as i32`: the low 32 bits,
  read as two's complement), `i64AsUsize` (`x as usize`: the same 64 bits read as unsigned, so
  `-1 as usize = 2⁶⁴ - 1`), `u32AsI32`; `i64::from(v)` for `v: i32`
  is `i64FromI32` (lossless); `usize::try_into::<i32>()` is `usizeTryIntoI32` (`None` above
  `i32::MAX`), its `.expect(..)` is checked (`Res.panic`); `usize::try_into::<i64>()` is
  `usizeTryIntoI64` (`None` above `i64::MAX`), `.unwrap_or(d)` is `unwrapOr`.
* **`usize`** is `Nat` (project convention: a slice of 2⁶⁴ bytes does not exist, so `usize`
  arithmetic is unbounded; the only places where the width of `usize` shows are `i64AsUsize` and
  `usizeTryIntoI64`).
  `s.len() - 1` is checked all the same (`usizeSub`).
* `Result<T>` is `Res T`: `.ok`, `.fail` (= `Err`, every `bail!` and every `?`), `.panic`
  (overflow, `expect`, slicing out of range).  `a.bind f` is "`a?`, then `f`";
  `someOrFail o k` is `match o { Some(v) => k(v), None => return Err(..) }` (the macro
  `unwrap_or_PIE!` of `core`), `someOrPanic o k` is `o.expect(..)` followed by `k`.  (Combinators
  rather than nested `match`es: their equations are propositional lemmas, so that no proof step
  asks the kernel to evaluate a `match` on `I32.wrap ↑n` — see the note in `Tuc.Props.BoundsLit`.)
* `&&` and `||` evaluate their right operand only when needed, as in Rust: an operand that can
  overflow is sequenced accordingly (`v > parts_length || v < -parts_length`, l.229/244: the
  negation is computed only if the first test is false).
* a `match` with guards is an `if` chain in the order of the arms.
* `&str` is `List Char` (argv text, as everywhere in the model) and offsets into it count
  characters: `s.find(':')`, `s.len()`, `&s[a..]`, `&s[..b]` are `findChar`, `List.length`,
  `strFrom`, `strTo` (checked: `Res.panic` beyond the end).  The Rust offsets count bytes; the only
  characters whose offsets are used are `:` and `=` (ASCII), and the only arithmetic on them is
  `idx_colon + 1` and `s.len() - 1`.  `str::parse::<i32>` walks over `src.as_bytes()`: here it
  walks over the characters (`*c as char` is the character itself; a non-ASCII character is one
  non-digit instead of two to four non-digit bytes — what differs is the length seen by
  `can_not_overflow`, which only chooses between two loops that agree:
  `uncheckedLoop_eq_checkedLoop` in `Tuc.Props.BoundsLit`, and both fail on a non-digit).
  `char::to_digit` computes in `u32` = `UInt32` (`wrapping_sub`).
* `Vec<u8>` fallbacks: `fallback.into()` is `utf8`.
* `Range<usize>` is `Nat × Nat` (`start`, `end`), as in `Tuc.Model.Bounds`; iterating over it
  (`r.map(..).collect()`, l.266-271) is a walk over `List.range' start (end - start)` — empty when
  `end ≤ start`, as `Range::next` is.
-/

namespace Tuc
namespace BoundsLit

/-! ## `Result` plumbing -/

/-- `r.map(f)` on `Result` (a panic stays a panic) -/
def resMap {α β : Type} (f : α → β) : Res α → Res β
  | .ok a => .ok (f a)
  | .fail => .fail
  | .panic => .panic

/-- `Option` read as `Result`: `None` is `Err` -/
def resOfOption {α : Type} : Option α → Res α
  | Option.some a => .ok a
  | Option.none => .fail

/-- `iter.map(f).collect()` where `f` can fail or panic: stops at the first one that does -/
def resMapM {α β : Type} (f : α → Res β) : List α → Res (List β)
  | [] => .ok []
  | a :: t => (f a).bind fun b => (resMapM f t).bind fun bs => .ok (b :: bs)

/-- `match option { Some(value) => …, None => return Err(..) }` — the macro `unwrap_or_PIE!` of
    the number parser, `ok_or(..)?` -/
def someOrFail {α β : Type} (o : Option α) (k : α → Res β) : Res β :=
  match o with
  | Option.some a => k a
  | Option.none => .fail

/-- `option.expect(..)` / `.unwrap()`, then the rest: `None` panics -/
def someOrPanic {α β : Type} (o : Option α) (k : α → Res β) : Res β :=
  match o with
  | Option.some a => k a
  | Option.none => .panic

/-! ## `i32` -/

/-- `i32`: an integer together with the proof that it fits -/
structure I32 where
  val : Int
  lo : -2147483648 ≤ val
  hi : val ≤ 2147483647
  deriving DecidableEq

instance : Repr I32 := ⟨fun x n => reprPrec x.val n⟩

/-- an `i32` literal -/
def i32 (v : Int) (lo : -2147483648 ≤ v := by decide) (hi : v ≤ 2147483647 := by decide) : I32 :=
  ⟨v, lo, hi⟩

namespace I32

/-- `i32::MIN` -/
def MIN : I32 := i32 (-2147483648)
/-- `i32::MAX` -/
def MAX : I32 := i32 2147483647

instance : Inhabited I32 := ⟨i32 0⟩

/-- the low 32 bits of an integer, read as two's complement: every `as i32` from a wider type -/
def wrap (v : Int) : I32 :=
  ⟨(v + 2147483648) % 4294967296 - 2147483648, by omega, by omega⟩

/-- the result of an arithmetic operation with the overflow check of the debug build -/
def checked (v : Int) : Res I32 :=
  if h : -2147483648 ≤ v ∧ v ≤ 2147483647 then .ok ⟨v, h.1, h.2⟩ else .panic

/-- the result of a `checked_*` operation -/
def checkedOpt (v : Int) : Option I32 :=
  if h : -2147483648 ≤ v ∧ v ≤ 2147483647 then Option.some ⟨v, h.1, h.2⟩ else Option.none

/-- `a + b` -/
def add (a b : I32) : Res I32 := checked (a.val + b.val)
/-- `a - b` -/
def sub (a b : I32) : Res I32 := checked (a.val - b.val)
/-- `a * b` -/
def mul (a b : I32) : Res I32 := checked (a.val * b.val)
/-- `-a` -/
def neg (a : I32) : Res I32 := checked (-a.val)

/-- `a.checked_add(b)` -/
def checkedAdd (a b : I32) : Option I32 := checkedOpt (a.val + b.val)
/-- `a.checked_sub(b)` -/
def checkedSub (a b : I32) : Option I32 := checkedOpt (a.val - b.val)
/-- `a.checked_mul(b)` -/
def checkedMul (a b : I32) : Option I32 := checkedOpt (a.val * b.val)

/-- `a.signum()`: `three_way_compare(a, 0) as i32` -/
def signum (a : I32) : I32 :=
  if a.val < 0 then i32 (-1) else if a.val = 0 then i32 0 else i32 1

instance : LT I32 := ⟨fun a b => a.val < b.val⟩
instance : LE I32 := ⟨fun a b => a.val ≤ b.val⟩
instance (a b : I32) : Decidable (a < b) := inferInstanceAs (Decidable (a.val < b.val))
instance (a b : I32) : Decidable (a ≤ b) := inferInstanceAs (Decidable (a.val ≤ b.val))

/-- `a.cmp(&b)` -/
def cmp (a b : I32) : Ordering := compare a.val b.val

end I32

/-! ## `i64` -/

/-- `i64`: an integer together with the proof that it fits -/
structure I64 where
  val : Int
  lo : -9223372036854775808 ≤ val
  hi : val ≤ 9223372036854775807
  deriving DecidableEq

instance : Repr I64 := ⟨fun x n => reprPrec x.val n⟩

/-- an `i64` literal -/
def i64 (v : Int) (lo : -9223372036854775808 ≤ v := by decide) (hi : v ≤ 9223372036854775807 := by decide) :
    I64 :=
  ⟨v, lo, hi⟩

namespace I64

/-- `i64::MIN` -/
def MIN : I64 := i64 (-9223372036854775808)
/-- `i64::MAX` -/
def MAX : I64 := i64 9223372036854775807

instance : Inhabited I64 := ⟨i64 0⟩

/-- the result of an arithmetic operation with the overflow check of the debug build -/
def checked (v : Int) : Res I64 :=
  if h : -9223372036854775808 ≤ v ∧ v ≤ 9223372036854775807 then .ok ⟨v, h.1, h.2⟩ else .panic

/-- `a + b` -/
def add (a b : I64) : Res I64 := checked (a.val + b.val)
/-- `a - b` -/
def sub (a b : I64) : Res I64 := checked (a.val - b.val)
/-- `-a` -/
def neg (a : I64) : Res I64 := checked (-a.val)

instance : LT I64 := ⟨fun a b => a.val < b.val⟩
instance : LE I64 := ⟨fun a b => a.val ≤ b.val⟩
instance (a b : I64) : Decidable (a < b) := inferInstanceAs (Decidable (a.val < b.val))
instance (a b : I64) : Decidable (a ≤ b) := inferInstanceAs (Decidable (a.val ≤ b.val))

end I64

/-! ## casts -/

/-- `x as i32` for `x: usize`: truncation to 32 bits, two's complement -/
def usizeAsI32 (x : Nat) : I32 := I32.wrap x

/-- `x as i32` for `x: u32` -/
def u32AsI32 (x : UInt32) : I32 := I32.wrap x.toNat

/-- `usize::try_into::<i32>()`: `None` (= `Err(TryFromIntError)`) above `i32::MAX` -/
def usizeTryIntoI32 (x : Nat) : Option I32 :=
  if h : (x : Int) ≤ 2147483647 then Option.some ⟨x, by omega, h⟩ else Option.none

/-- `i64::from(x)` for `x: i32`: every `i32` is an `i64` -/
def i64FromI32 (x : I32) : I64 :=
  ⟨x.val, by have := x.lo; omega, by have := x.hi; omega⟩

/-- `usize::try_into::<i64>()`: `None` (= `Err(TryFromIntError)`) above `i64::MAX` -/
def usizeTryIntoI64 (x : Nat) : Option I64 :=
  if h : (x : Int) ≤ 9223372036854775807 then Option.some ⟨x, by omega, h⟩ else Option.none

/-- `r.unwrap_or(d)` (on the `Result` of `try_into`, read as an `Option`) -/
def unwrapOr {α : Type} (o : Option α) (d : α) : α :=
  match o with
  | Option.some a => a
  | Option.none => d

/-- `x as usize` for `x: i64` on a 64-bit target: the same 64 bits read as unsigned -/
def i64AsUsize (x : I64) : Nat := (x.val % 18446744073709551616).toNat

/-- `x - y` on `usize` with the overflow check of the debug build -/
def usizeSub (x y : Nat) : Res Nat := if y ≤ x then .ok (x - y) else .panic

/-! ## `str` -/

/-- `&s[a..]`: panics when `a` is beyond the end -/
def strFrom (s : List Char) (a : Nat) : Res (List Char) :=
  if a ≤ s.length then .ok (s.drop a) else .panic

/-- `&s[..b]`: panics when `b` is beyond the end -/
def strTo (s : List Char) (b : Nat) : Res (List Char) :=
  if b ≤ s.length then .ok (s.take b) else .panic

/-! ## `str::parse::<i32>()`

`<i32 as FromStr>::from_str(src)` is `i32::from_str_radix(src, 10)`, which is
`i32::from_ascii_radix(src.as_bytes(), 10)` (library/core/src/num/mod.rs, macro
`from_str_int_impl!`).  The line numbers below are those of the macro body, counted from
`pub const fn from_ascii_radix` = 1. -/

/-- `(c as char).to_digit(10)`: `let value = (self as u32).wrapping_sub('0' as u32);
    if value < radix { Some(value) } else { None }` (the letter branch needs `radix > 10`).
    `UInt32` subtraction wraps. -/
def toDigit10 (c : Char) : Option UInt32 :=
  let value : UInt32 := c.val - 48                            -- (self as u32).wrapping_sub('0' as u32)
  if value < 10 then Option.some value else Option.none

/-- `radix as i32`, for `radix = 10` -/
def radixAsI32 : I32 := i32 10

/-- the body of the `while let` of `run_unchecked_loop!` (l.48-50): plain `*`, `+` / `-`.  The
    plain operators are modelled as checked ones: `Tuc.Props.BoundsLit` proves that they cannot
    overflow on at most 7 digits (`.fail` = `return Err(InvalidDigit)`). -/
def uncheckedBody (isPositive : Bool) (c : Char) (result : I32) : Res I32 :=
  (I32.mul result radixAsI32).bind fun result =>                       -- 48 result = result * (radix as i32)
  someOrFail (toDigit10 c) fun x =>                                    -- 49 unwrap_or_PIE!(to_digit, InvalidDigit)
  if isPositive then I32.add result (u32AsI32 x)                       -- 50 result = result + (x as i32)
  else I32.sub result (u32AsI32 x)                                     --    result = result - (x as i32)

/-- `run_unchecked_loop!` (l.46-53) -/
def uncheckedLoop (isPositive : Bool) : List Char → I32 → Res I32
  | [], result => .ok result                                           -- the `while let` ends
  | c :: rest, result =>                                               -- 47 while let [c, rest @ ..] = digits
    (uncheckedBody isPositive c result).bind fun result =>             -- 48-50
    uncheckedLoop isPositive rest result                               -- 51 digits = rest

/-- the body of the `while let` of `run_checked_loop!` (l.76-79); `.fail` = `return Err(..)`
    (`InvalidDigit`, `PosOverflow` or `NegOverflow`) -/
def checkedBody (isPositive : Bool) (c : Char) (result : I32) : Res I32 :=
  let mul := I32.checkedMul result radixAsI32                          -- 76 result.checked_mul(radix as i32)
  someOrFail (toDigit10 c) fun x =>                                    -- 77 unwrap_or_PIE!(to_digit, InvalidDigit)
  let x := u32AsI32 x                                                  -- 77 as i32
  someOrFail mul fun result =>                                         -- 78 unwrap_or_PIE!(mul, overflow)
  someOrFail (if isPositive then I32.checkedAdd result x               -- 79 checked_add / checked_sub
              else I32.checkedSub result x) fun result =>
  .ok result

/-- `run_checked_loop!` (l.62-82) -/
def checkedLoop (isPositive : Bool) : List Char → I32 → Res I32
  | [], result => .ok result
  | c :: rest, result =>                                               -- 64 while let [c, rest @ ..] = digits
    (checkedBody isPositive c result).bind fun result =>               -- 76-79
    checkedLoop isPositive rest result                                 -- 80 digits = rest

/-- l.18-26: the sign.  `Option.none` = `return Err(InvalidDigit)` -/
def splitSign (src : List Char) : Option (Bool × List Char) :=
  match src with
  | ['+'] => Option.none                                               -- 19-21 [b'+' | b'-'] => Err
  | ['-'] => Option.none
  | '+' :: rest => Option.some (true, rest)                            -- 22
  | '-' :: rest => Option.some (false, rest)                           -- 23 (is_signed_ty)
  | _ => Option.some (true, src)                                       -- 24

/-- `can_not_overflow::<i32>(10, true, digits)`: `radix <= 16 && digits.len() <= size_of::<i32>() * 2
    - is_signed_ty as usize` -/
def canNotOverflow (digits : List Char) : Bool := decide (digits.length ≤ 4 * 2 - 1)

/-- `src.parse::<i32>()`.  `.fail` = `Err(ParseIntError)`. -/
def parseI32Lit (src : List Char) : Res I32 :=
  if src.isEmpty then .fail                                            -- 10-12 Err(Empty)
  else
    someOrFail (splitSign src) fun p =>                                -- 18-26 (is_positive, digits)
    let isPositive := p.1
    let digits := p.2
    let result := i32 0                                                -- 28
    if canNotOverflow digits then                                      -- 39
      uncheckedLoop isPositive digits result                           -- 54-58
    else
      checkedLoop isPositive digits result                             -- 84-88
                                                                       -- 90 Ok(result)

/-! ## `side.rs` -/

/-- `enum Side { Some(i32), Continue }` (side.rs:7-10) -/
inductive SideL where
  | some (v : I32)
  | cont
  deriving DecidableEq, Repr, Inhabited

/-- `Side::from_str` (side.rs:15-23) -/
def SideL.fromStr (s : List Char) : Res SideL :=
  match s with                                                         -- 16
  | [] => .ok SideL.cont                                               -- 17 "" => Side::Continue
  | _ => (parseI32Lit s).bind fun v => .ok (SideL.some v)              -- 18-21 parse::<i32>().or_else(bail!)?

/-- `impl PartialOrd for Side`: `partial_cmp` (side.rs:36-49) -/
def SideL.partialCmp (self other : SideL) : Res (Option Ordering) :=
  match self, other with                                               -- 37
  | .some s, .some o =>                                                -- 38
    (I32.mul s.signum o.signum).bind fun p =>                          -- 39 s.signum() * o.signum()
    if p ≠ i32 1 then                                                  -- 39 != 1
      -- We can't compare two sides with different sign
      .ok Option.none                                                  -- 41
    else .ok (Option.some (I32.cmp s o))                               -- 43 Some(s.cmp(o))
  | .cont, .some _ => .ok (Option.some Ordering.gt)                    -- 45
  | .some _, .cont => .ok (Option.some Ordering.lt)                    -- 46
  | .cont, .cont => .ok (Option.some Ordering.eq)                      -- 47

/-- `a > b` on sides: the provided method `PartialOrd::gt`, `partial_cmp == Some(Greater)` -/
def SideL.gt (a b : SideL) : Res Bool :=
  (a.partialCmp b).bind fun o => .ok (o == Option.some Ordering.gt)

/-! ## `userbounds.rs` -/

/-- `struct UserBounds` (userbounds.rs:11-16) -/
structure UserBoundsL where
  l : SideL
  r : SideL
  isLast : Bool
  fallbackOob : Option Bytes
  deriving DecidableEq, Repr, Inhabited

/-- `UserBounds::new` (userbounds.rs:142-149) -/
def UserBoundsL.new (l r : SideL) : UserBoundsL :=
  { l := l, r := r, isLast := false, fallbackOob := Option.none }

/-- `UserBounds::with_fallback` (userbounds.rs:151-158) -/
def UserBoundsL.withFallback (l r : SideL) (fallbackOob : Option Bytes) : UserBoundsL :=
  { l := l, r := r, isLast := false, fallbackOob := fallbackOob }

/-- l.51-66: the two sides -/
def fromStrSides (s : List Char) : Res (SideL × SideL) :=
  match findChar ':' s with                                            -- 51 s.find(':')
  | Option.none =>                                                     -- 52
    (SideL.fromStr s).bind fun side =>                                 -- 53
    .ok (side, side)                                                   -- 54
  | Option.some idxColon =>
    if idxColon == 0 then                                              -- 56
      (strFrom s (idxColon + 1)).bind fun t =>                         -- 57 &s[idx_colon + 1..]
      (SideL.fromStr t).bind fun r => .ok (SideL.cont, r)
    else
      (usizeSub s.length 1).bind fun lenM1 =>                          -- 59 s.len() - 1
      if idxColon == lenM1 then
        (strTo s idxColon).bind fun t =>                               -- 60 &s[..idx_colon]
        (SideL.fromStr t).bind fun l => .ok (l, SideL.cont)
      else                                                             -- 62
        (strTo s idxColon).bind fun t =>                               -- 63
        (SideL.fromStr t).bind fun l =>
        (strFrom s (idxColon + 1)).bind fun t =>                       -- 64
        (SideL.fromStr t).bind fun r => .ok (l, r)

/-- l.68-81: `Ok(())` when the pair of sides is accepted -/
def fromStrCheck (l r : SideL) : Res Unit :=
  if l = SideL.some (i32 0) then .fail                                 -- 69-71 (Side::Some(0), _)
  else if r = SideL.some (i32 0) then .fail                            -- 72-74 (_, Side::Some(0))
  else
    match l, r with
    | .some left, .some right =>                                       -- 75
      -- 76 if right < left && right.signum() * left.signum() == 1
      (if right < left then
        (I32.mul right.signum left.signum).bind fun p => .ok (decide (p = i32 1))
       else .ok false).bind fun guard =>
      if guard then .fail                                              -- 78
      else .ok ()                                                      -- 80 _ => ()
    | _, _ => .ok ()                                                   -- 80

/-- `UserBounds::from_str` (userbounds.rs:37-86) -/
def UserBoundsL.fromStr (s : List Char) : Res UserBoundsL :=
  let fallbackOob : Option Bytes := Option.none                        -- 38
  let p : List Char × Option Bytes :=
    match splitOnce '=' s with                                         -- 40 s.split_once('=')
    | Option.some (rangePart, fallback) =>
      (rangePart, Option.some (utf8 fallback))                         -- 41-42
    | Option.none => (s, fallbackOob)
  let s := p.1
  let fallbackOob := p.2
  if s.isEmpty then .fail                                              -- 45-46
  else if s = [':'] then .fail                                         -- 47-48
  else
    (fromStrSides s).bind fun lr =>                                    -- 51-66
    (fromStrCheck lr.1 lr.2).bind fun _ =>                             -- 68-81
    let b := UserBoundsL.new lr.1 lr.2                                 -- 83
    let b := { b with fallbackOob := fallbackOob }                     -- 84
    .ok b                                                              -- 85

/-- `impl From<Range<usize>> for UserBounds` (userbounds.rs:90-102) -/
def UserBoundsL.ofRange (value : Nat × Nat) : Res UserBoundsL :=
  someOrPanic (usizeTryIntoI32 value.1) fun start =>                   -- 91-94 start.try_into().expect(..)
  someOrPanic (usizeTryIntoI32 value.2) fun end_ =>                    -- 96-99 end.try_into().expect(..)
  (I32.add start (i32 1)).bind fun startP1 =>                          -- 101 start + 1
  .ok (UserBoundsL.new (SideL.some startP1) (SideL.some end_))

/-- `impl PartialOrd for UserBounds`: `partial_cmp` (userbounds.rs:110-117) -/
def UserBoundsL.partialCmp (self other : UserBoundsL) : Res (Option Ordering) :=
  -- an open left side starts from the first part
  let otherL : SideL :=
    match other.l with                                                 -- 112
    | .cont => SideL.some (i32 1)                                      -- 113
    | l => l                                                           -- 114
  self.r.partialCmp otherL                                             -- 116

/-- the guard of l.172 / l.179: `x.signum() * idx.signum() == -1` for a written side -/
def signMismatch (side : SideL) (idx : I32) : Res Bool :=
  match side with
  | .some x => (I32.mul x.signum idx.signum).bind fun p => .ok (decide (p = i32 (-1)))
  | .cont => .ok false

/-- `UserBounds::matches` (userbounds.rs:170-192).  `.fail` = "sign mismatch". -/
def UserBoundsL.matches (self : UserBoundsL) (idx : I32) : Res Bool :=
  (signMismatch self.l idx).bind fun g1 =>                             -- 172 (Side::Some(left), _) if …
  if g1 then .fail                                                     -- 173-177 bail!
  else
    (signMismatch self.r idx).bind fun g2 =>                           -- 179 (_, Side::Some(right)) if …
    if g2 then .fail                                                   -- 180-184 bail!
    else
      match self.l, self.r with
      | .cont, .cont => .ok true                                       -- 186
      | .some left, .some right =>
        if left ≤ idx && idx ≤ right then .ok true                     -- 187
        else .ok false                                                 -- 190
      | .cont, .some right =>
        if idx ≤ right then .ok true                                   -- 188
        else .ok false                                                 -- 190
      | .some left, .cont =>
        if left ≤ idx then .ok true                                    -- 189
        else .ok false                                                 -- 190

/-- l.229 / l.244: `v > parts_length || v < -parts_length` -/
def outOfBounds (v partsLength : I64) : Res Bool :=
  if v > partsLength then .ok true                                     -- `||`: the rest is not evaluated
  else (I64.neg partsLength).bind fun m => .ok (decide (v < m))

/-- l.225-238: `let start: i64 = match self.l { … }` -/
def rangeStartLit (l : SideL) (partsLength : I64) : Res I64 :=
  match l with                                                         -- 225
  | .cont => .ok (i64 0)                                               -- 226
  | .some v =>                                                         -- 227
    let v : I64 := i64FromI32 v                                        -- 228 let v = i64::from(v);
    (outOfBounds v partsLength).bind fun oob =>                        -- 229
    if oob then .fail                                                  -- 230 bail!("Out of bounds: {}", v)
    else if v < i64 0 then                                             -- 232
      I64.add partsLength v                                            -- 233 parts_length + v
    else
      I64.sub v (i64 1)                                                -- 235 v - 1

/-- l.240-253: `let end: i64 = match self.r { … }` -/
def rangeEndLit (r : SideL) (partsLength : I64) : Res I64 :=
  match r with                                                         -- 240
  | .cont => .ok partsLength                                           -- 241
  | .some v =>                                                         -- 242
    let v : I64 := i64FromI32 v                                        -- 243 let v = i64::from(v);
    (outOfBounds v partsLength).bind fun oob =>                        -- 244
    if oob then .fail                                                  -- 245 bail!("Out of bounds: {}", v)
    else if v < i64 0 then                                             -- 247
      (I64.add partsLength v).bind fun t => I64.add t (i64 1)          -- 248 parts_length + v + 1
    else
      .ok v                                                            -- 250

/-- `UserBounds::try_into_range` (userbounds.rs:220-264, the repaired text) -/
def UserBoundsL.tryIntoRange (self : UserBoundsL) (partsLength : Nat) : Res (Nat × Nat) :=
  -- The number of parts is a byte count in --bytes mode: an input of 2 GiB
  -- does not fit an i32 (indexes do, lengths do not)
  let partsLength : I64 :=                                             -- 223 parts_length.try_into()
    unwrapOr (usizeTryIntoI64 partsLength) I64.MAX                     --       .unwrap_or(i64::MAX)
  (rangeStartLit self.l partsLength).bind fun start =>                 -- 225-238
  (rangeEndLit self.r partsLength).bind fun end_ =>                    -- 240-253
  if end_ ≤ start then                                                 -- 255
    -- `end` must always be 1 or more greater than start
    .fail                                                              -- 257 bail!
  else
    .ok (i64AsUsize start, i64AsUsize end_)                            -- 260-263 start as usize, end as usize

/-- the closure of l.267-270 -/
def unpackSlot (i : Nat) : Res UserBoundsL :=
  (I32.add (usizeAsI32 i) (i32 1)).bind fun x =>                       -- 268 i as i32 + 1
  let idx := SideL.some x
  .ok (UserBoundsL.new idx idx)                                        -- 269

/-- `UserBounds::unpack` (userbounds.rs:264-281) -/
def UserBoundsL.unpack (self : UserBoundsL) (numFields : Nat) : Res (List UserBoundsL) :=
  match self.tryIntoRange numFields with                               -- 265
  | .ok r => resMapM unpackSlot (List.range' r.1 (r.2 - r.1))          -- 266-271 r.map(|i| …).collect()
  -- A bound that can't be resolved has no slots to enumerate: it is kept as it is
  | .fail => .ok [UserBoundsL.withFallback self.l self.r self.fallbackOob]  -- 275-279
  | .panic => .panic

/-- `complement_std_range` (userbounds.rs:291-304) -/
def complementStdRangeLit (partsLength : Nat) (r : Nat × Nat) : List (Nat × Nat) :=
  if r.1 = 0 ∧ r.2 = partsLength then []                               -- 294 (0, end) if end == parts_length
  else if r.1 = 0 then [(r.2, partsLength)]                            -- 297 (0, right)
  else if r.2 = partsLength then [(0, r.1)]                            -- 300 (left, end) if end == parts_length
  else [(0, r.1), (r.2, partsLength)]                                  -- 302 (left, right)

/-- `UserBounds::complement` (userbounds.rs:284-288) -/
def UserBoundsL.complement (self : UserBoundsL) (numFields : Nat) : Res (List UserBoundsL) :=
  (self.tryIntoRange numFields).bind fun r =>                          -- 285 …?
  let rComplement := complementStdRangeLit numFields r                 -- 286
  resMapM UserBoundsL.ofRange rComplement                              -- 287 .map(|x| x.into()).collect()

/-! ## literal values ↔ model values -/

def SideL.toModel : SideL → Side
  | .some v => Side.some v.val
  | .cont => Side.cont

def UserBoundsL.toModel (b : UserBoundsL) : UserBounds :=
  { l := b.l.toModel, r := b.r.toModel, isLast := b.isLast, fallback := b.fallbackOob }

/-- a model side as a Rust value: an index that does not fit is truncated (there is no other way
    to store it), so this is faithful exactly on `Side.InI32` -/
def sideOfModel : Side → SideL
  | .some v => SideL.some (I32.wrap v)
  | .cont => SideL.cont

def boundsOfModel (b : UserBounds) : UserBoundsL :=
  { l := sideOfModel b.l, r := sideOfModel b.r, isLast := b.isLast, fallbackOob := b.fallback }

end BoundsLit
end Tuc
