import Tuc.Model.Main
import Tuc.Model.StreamLoop
import Tuc.Model.BoundsLit
/-!
# Tuc.Model.OptLit — the option records of the engines and the dispatch of `main`, statement by statement

`Tuc.Model.Stream` / `Tuc.Model.FastLane` / `Tuc.Model.Args` model the construction of the engine
option records (`streamOptOf`, `forwardBoundsOf`, `fastOptOf`), the helpers of the `-M` engine
(`printBof`) and the dispatch of `main` (`dispatch`) in *normal form*.  This file follows the Rust
text of

* `impl From<EOL> for u8`                         (options.rs:22-29)    → `eolIntoU8`
* `impl Default for Opt`                          (options.rs:54-75)    → `optDefaultLit`
* `impl FromStr for Trim`                         (options.rs:84-95)    → `trimFromStrLit`
* `struct ForwardBounds`                          (stream.rs:13-17)     → `ForwardBoundsLit`
* `impl TryFrom<&UserBoundsList> for ForwardBounds` (stream.rs:19-68)   → `ForwardBoundsLit.tryFrom`
* `impl FromStr for ForwardBounds`                (stream.rs:70-80)     → `ForwardBoundsLit.fromStr`
* `impl Deref for ForwardBounds`                  (stream.rs:82-88)     → `ForwardBoundsLit.get` / `.len`
* `ForwardBounds::get_last_bound`                 (stream.rs:90-98)     → `ForwardBoundsLit.getLastBound`
* `struct StreamOpt`                              (stream.rs:100-116)   → `StreamOptLit`
* `impl TryFrom<&Opt> for StreamOpt`              (stream.rs:118-159)   → `StreamOptLit.tryFrom`
* `read_and_cut_bytes_stream`                     (stream.rs:161-169)   → `readAndCutBytesStreamLit`
* `print_field`                                   (stream.rs:171-183)   → `printFieldLit`
* `print_bof`                                     (stream.rs:185-233)   → `printBofLit`
* `print_filler_or_fallbacks`                     (stream.rs:240-276)   → `printFillerOrFallbacksOf`
                                                    (= `StreamLoop.printFillerOrFallbacksCall`, which is literal already)
* `struct FastOpt`, `impl TryFrom<&Opt> for FastOpt` (fast_lane.rs:128-171) → `FastOptLit.tryFrom`
* `main` after `parse_args`                       (tuc.rs:258-290)      → `dispatchLit`, `tucRunLit`, `tucMainLit`

statement by statement (the numbers in the trailing comments are the lines of the Rust file named
in the section title, commit 9782769 of `/repo`).  `Tuc.Props.OptLit` proves that each of them is
its model counterpart, finds the one hypothesis that is needed ("the bounds list is empty or
contains a bound") and shows that `parse_args` establishes it.

Conventions (those of `Tuc.Model.StreamLoop`, `Tuc.Model.FastLoop`, `Tuc.Model.BoundsLit`)

* Rust locals keep their names (camelCase); `value` / `self` / `opt` are the Rust parameters;
* a function that does not write returns `Res`: `.ok`, `.fail` (= `Err`: every `return Err(..)`,
  `bail!`, `?`), `.panic` (a failed `unwrap` / `expect` / `panic!`).  `someOrPanic o k` is
  `o.unwrap()` followed by `k`;
* a function that writes (`stdout: &mut W`, fault-free) returns the `Run` of what it wrote;
  `a.seq b` is "`a`, then — unless `a` ended the run — `b`" (the `?` operator); a function that
  also returns a value (`print_bof -> Result<usize>`) returns the pair (run, value), the value
  being of no interest when the run did not end well;
* every operation that can panic is *checked*: `.unwrap()` on `Option` (`someOrPanic`),
  `.unwrap()` on the `Result` of `matches` (l.208; `none` of `UserBounds.matches` is the `Err`),
  `&chunk[a..b]` (l.217: `a > b` or `b > len`), the `expect` inside `From<Vec<BoundOrFiller>>`
  (`fromVec`, reached from l.44-45), the `panic!` of `get_last_bound` (l.95);
* `||` and `&&` evaluate their right operand only when needed: the one operand that contains an
  `unwrap()` (stream.rs:131) is sequenced after the operands on its left;
* field counters / indexes of type `i32` (`curr_field`, `prev_right_idx`, `left_idx`, the payload of
  `Side::Some`) are `Int`, as in `Tuc.Model.StreamLoop`: the functions transcribed here only COMPARE
  them (`<=`, `>`, `==`, `!=`), there is no `+ - *` on an `i32` in their text, so there is no
  overflow to check (the arithmetic on `curr_field` is l.364 of `cut_bytes_stream`, the products of
  signums are inside `UserBounds::matches`, which `Tuc.Model.BoundsLit.UserBoundsL.matches`
  transcribes with `I32` and `Tuc.Props.BoundsLit.matches_eq` proves equal to the function called
  here for every `i32` argument);
* callees that live in other Rust files are the definitions of the model (they have their own
  literal transcriptions): `UserBoundsList::is_forward_only` → `isForwardOnly`,
  `From<Vec<BoundOrFiller>>` → `fromVec`, `UserBoundsList::from_str` → `boundsListOfString`,
  `UserBounds::matches` → `UserBounds.matches`; the engines that `main` calls are
  `cutBytesStream`, `readAndCutBytes`, `readAndCutLines`, `readAndCutFast`, `readAndCutStr`
  (literal counterparts: `Tuc.Model.StreamLoop`, `LinesLoop`, `FastLoop`, `TextLoops`);
* `Vec<u8>` is `Bytes`, `&str` is `List Char`; `s.trim().is_empty()` is `s.all isWhitespace` (as in
  `boundsListOfString`); iterator adaptors are recursions over the list (`try_for_each` stops at
  the first `Err`, `any` at the first `true`);
* the model's `StreamOpt` has one field more than the Rust struct (`lastInterestingField`, the
  fourth argument of `cut_bytes_stream`): `StreamOptLit.toModel` takes it as an argument.
-/

namespace Tuc
namespace OptLit
open BoundsLit (someOrPanic)

/-! ## `options.rs` -/

/-- `impl From<EOL> for u8` (options.rs:22-29) -/
def eolIntoU8 (value : EOL) : UInt8 :=
  match value with                                                     -- 24
  | .zero => 0                                                         -- 25 b'\0'
  | .newline => 10                                                     -- 26 b'\n'

/-- `r.unwrap()` on a `Result`: an `Err` panics -/
def unwrapRes {α : Type} : Res α → Res α
  | .ok a => .ok a
  | .fail => .panic
  | .panic => .panic

/-- `impl Default for Opt` (options.rs:54-75); `.panic` = the `unwrap()` of l.59 -/
def optDefaultLit : Res Opt :=
  (unwrapRes (boundsListOfString ['1', ':'])).bind fun bounds =>       -- 59 UserBoundsList::from_str("1:").unwrap()
  .ok { delimiter := utf8 ['-']                                        -- 57 "-".into()
        eol := .newline                                                -- 58
        bounds := bounds                                               -- 59
        boundsType := .fields                                          -- 60
        onlyDelimited := false                                         -- 61
        greedyDelimiter := false                                       -- 62
        compressDelimiter := false                                     -- 63
        replaceDelimiter := none                                       -- 64
        trim := none                                                   -- 65
        complement := false                                            -- 67 (66 `version` is not in the model's record)
        join := false                                                  -- 68
        json := false                                                  -- 69
        fixedMemory := none                                            -- 70
        fallbackOob := none                                            -- 71
        regexBag := none }                                             -- 72

/-- `impl FromStr for Trim` (options.rs:84-95): the arms of the `match s`, in order -/
def trimFromStrLit (s : List Char) : Res Trim :=
  if s = ['l'] ∨ s = ['L'] then .ok .left                              -- 89 "l" | "L" => Trim::Left
  else if s = ['r'] ∨ s = ['R'] then .ok .right                        -- 90 "r" | "R" => Trim::Right
  else if s = ['b'] ∨ s = ['B'] then .ok .both                         -- 91 "b" | "B" => Trim::Both
  else .fail                                                           -- 92 _ => return Err(..)

/-! ## `stream.rs`: `ForwardBounds` -/

/-- `struct ForwardBounds` (stream.rs:13-17) -/
structure ForwardBoundsLit where
  list : UserBoundsList                                                -- 15
  lastBoundIdx : Nat                                                   -- 16
  deriving DecidableEq, Repr, Inhabited

/-- the closure of l.28-42 on one element: `Option.some p` = `Ok(())` with `prev_right_idx = p`
    afterwards, `Option.none` = `Err("Bounds are sorted, but can't be repeated")` -/
def tryForEachBody (prevRightIdx : Int) (bof : BoF) : Option Int :=
  match bof with
  | .bound b =>                                                        -- 29 if let BoundOrFiller::Bound(b) = bof
    let leftIdx : Int :=
      match b.l with                                                   -- 30
      | .some l => l                                                   -- 31
      | .cont => 1                                                     -- 32
    if leftIdx ≤ prevRightIdx then Option.none                         -- 34-35 return Err(..)
    else
      match b.r with                                                   -- 37 if let Side::Some(r) = b.r
      | .some r => Option.some r                                       -- 38 prev_right_idx = r
      | .cont => Option.some prevRightIdx                              -- 41 Ok(())
  | .filler _ => Option.some prevRightIdx                              -- 41 Ok(())

/-- l.28 `value.iter().try_for_each(closure)`: `true` = `Ok(())`, `false` = the first `Err` -/
def tryForEach : Int → List BoF → Bool
  | _, [] => true
  | prevRightIdx, bof :: rest =>
    match tryForEachBody prevRightIdx bof with
    | Option.none => false
    | Option.some prevRightIdx => tryForEach prevRightIdx rest

/-- l.47-54 `….enumerate().rev().any(closure)` over the (element, index) pairs that the reversed
    iterator still has to yield: the value of `maybe_last_bound` afterwards (`any` stops at the
    first `true`; its own result is discarded) -/
def anyRev (maybeLastBound : Option Nat) : List (BoF × Nat) → Option Nat
  | [] => maybeLastBound
  | (bof, idx) :: rest =>
    match bof with
    | .bound _ => Option.some idx                                      -- 48-50 maybe_last_bound = Some(idx); true
    | .filler _ => anyRev maybeLastBound rest                          -- 52 false

/-- `impl TryFrom<&UserBoundsList> for ForwardBounds` (stream.rs:19-68).  `.panic` = the `expect`
    of `From<Vec<BoundOrFiller>>` (userboundslist.rs:49-50), reached through the `.into()` of l.45. -/
def ForwardBoundsLit.tryFrom (value : UserBoundsList) : Res ForwardBoundsLit :=
  if value.list.isEmpty then                                           -- 23 value.is_empty() (Deref to the Vec)
    .fail                                                              -- 24 Err("… from an empty UserBoundsList")
  else if isForwardOnly value.list then                                -- 25 value.is_forward_only()
    -- rightmost field requested so far: a field can't be used twice
    let prevRightIdx : Int := 0                                        -- 27
    if !tryForEach prevRightIdx value.list then .fail                  -- 28-42 try_for_each(..)?
    else
      (fromVec value.list).bind fun value =>                           -- 44-45 value.iter().cloned().collect::<Vec<_>>().into()
      let maybeLastBound : Option Nat := Option.none                   -- 46
      let maybeLastBound := anyRev maybeLastBound value.list.zipIdx.reverse   -- 47-54
      match maybeLastBound with                                        -- 56 if let Some(last_bound_idx) = maybe_last_bound
      | Option.some lastBoundIdx =>
        .ok { list := value, lastBoundIdx := lastBoundIdx }            -- 57-60
      | Option.none => .fail                                           -- 62 Err("… without bounds")
  else .fail                                                           -- 65 Err("… is not forward only")

/-- `impl FromStr for ForwardBounds` (stream.rs:70-80) -/
def ForwardBoundsLit.fromStr (s : List Char) : Res ForwardBoundsLit :=
  if s.all isWhitespace then .fail                                     -- 74-76 s.trim().is_empty() → bail!
  else
    (boundsListOfString s).bind fun bounds =>                          -- 77 UserBoundsList::from_str(s)?
    ForwardBoundsLit.tryFrom bounds                                    -- 78 ForwardBounds::try_from(&bounds).map_err(..)

/-- `opt.bounds.get(i)`: `Deref for ForwardBounds` (stream.rs:82-88) to the `UserBoundsList`,
    `Deref for UserBoundsList` (userboundslist.rs:15-21) to the `Vec`, then `slice::get` -/
def ForwardBoundsLit.get (self : ForwardBoundsLit) (i : Nat) : Option BoF := self.list.list[i]?

/-- `opt.bounds.len()` through the same two `Deref`s -/
def ForwardBoundsLit.len (self : ForwardBoundsLit) : Nat := self.list.list.length

/-- `ForwardBounds::get_last_bound` (stream.rs:90-98); `Option.none` = the `panic!` of l.95 -/
def ForwardBoundsLit.getLastBound (self : ForwardBoundsLit) : Option UserBounds :=
  match self.list.list[self.lastBoundIdx]? with                        -- 92 self.list.get(self.last_bound_idx)
  | Option.some (.bound b) => Option.some b                            -- 92-93 if let Some(BoundOrFiller::Bound(b))
  | _ => Option.none                                                   -- 95 panic!("Invariant error: …")

/-! ## `stream.rs`: `StreamOpt` -/

/-- `struct StreamOpt` (stream.rs:100-116) -/
structure StreamOptLit where
  delimiter : UInt8                                                    -- 102
  replaceDelimiter : Option UInt8                                      -- 103
  join : Bool                                                          -- 104
  eol : EOL                                                            -- 105
  fallbackOob : Option Bytes                                           -- 106
  bounds : ForwardBoundsLit                                            -- 107
  deriving DecidableEq, Repr, Inhabited

/-- the record of `Tuc.Model.Stream`: the same fields plus the fourth argument of
    `cut_bytes_stream` -/
def StreamOptLit.toModel (self : StreamOptLit) (lastInterestingField : Side) : StreamOpt :=
  { delimiter := self.delimiter, replaceDelimiter := self.replaceDelimiter, join := self.join,
    eol := self.eol, fallbackOob := self.fallbackOob, bounds := self.bounds.list.list,
    lastInterestingField := lastInterestingField }

/-- l.131 `value.replace_delimiter.is_some() && value.replace_delimiter.as_ref().unwrap().len() != 1` -/
def replaceDelimiterNotOneByte (replaceDelimiter : Option Bytes) : Res Bool :=
  if replaceDelimiter.isSome then                                      -- `&&`: the rest only after `is_some()`
    someOrPanic replaceDelimiter fun s => .ok (s.length != 1)          -- .as_ref().unwrap().len() != 1
  else .ok false

/-- l.146-149 `value.replace_delimiter.as_ref().map(|s| s.as_bytes().first().unwrap().to_owned())` -/
def replaceDelimiterFirst (replaceDelimiter : Option Bytes) : Res (Option UInt8) :=
  match replaceDelimiter with
  | Option.none => .ok Option.none
  | Option.some s => someOrPanic s.head? fun c => .ok (Option.some c)  -- 149 .first().unwrap()

/-- `impl TryFrom<&Opt> for StreamOpt` (stream.rs:118-159) -/
def StreamOptLit.tryFrom (value : Opt) : Res StreamOptLit :=
  if value.delimiter.length ≠ 1 then                                   -- 122 value.delimiter.as_bytes().len() != 1
    .fail                                                              -- 123 Err("Delimiter must be 1 byte wide …")
  else if value.complement                                             -- 126
      || value.greedyDelimiter                                         -- 127
      || value.compressDelimiter                                       -- 128
      || value.json                                                    -- 129
      || value.boundsType != .fields then                              -- 130
    .fail                                                              -- 138-140 (`||`: l.131 is not evaluated)
  else
    (replaceDelimiterNotOneByte value.replaceDelimiter).bind fun c131 =>   -- 131
    if c131
        || value.trim.isSome                                           -- 132
        || value.regexBag.isSome                                       -- 133
        -- only_delimited can't be supported without reading the full line first
        || value.onlyDelimited then                                    -- 136
      .fail                                                            -- 138-140 Err("StreamOpt supports solely …")
    else
      match ForwardBoundsLit.tryFrom value.bounds with                 -- 143 if let Ok(forward_bounds) = …
      | .ok forwardBounds =>
        someOrPanic value.delimiter.head? fun delimiter =>             -- 145 .as_bytes().first().unwrap().to_owned()
        (replaceDelimiterFirst value.replaceDelimiter).bind fun replaceDelimiter =>   -- 146-149
        .ok { delimiter := delimiter                                   -- 145
              replaceDelimiter := replaceDelimiter                     -- 146
              join := value.join                                       -- 150
              eol := value.eol                                         -- 151
              bounds := forwardBounds                                  -- 152
              fallbackOob := value.fallbackOob }                       -- 153 .clone()
      | .fail => .fail                                                 -- 155-156 Err("Bounds cannot be converted …")
      | .panic => .panic                                               -- a panic inside `try_from` is not an `Err`

/-! ## `stream.rs`: the helpers of `cut_bytes_stream` -/

/-- `print_field(stdin, buffer, delim, prepend_delimiter)` (stream.rs:171-183; the writer is called
    `stdin` in the Rust text) -/
def printFieldLit (buffer : Bytes) (delim : UInt8) (prependDelimiter : Bool) : Run :=
  (if prependDelimiter then                                            -- 178
     Run.ok [delim]                                                    -- 179 stdin.write_all(&[delim])?
   else Run.empty).seq
  (Run.ok buffer)                                                      -- 181 stdin.write_all(buffer)?; 182 Ok(())

/-- l.200-203 of `print_bof`: what is written, and `bof_idx` afterwards -/
def printBofFiller (opt : StreamOptLit) (bofIdx : Nat) : Run × Nat :=
  match opt.bounds.get bofIdx with                                     -- 200 if let Some(BoundOrFiller::Filler(f)) = opt.bounds.get(bof_idx)
  | Option.some (.filler f) =>
    (Run.ok f,                                                         -- 201 stdout.write_all(f)?
     bofIdx + 1)                                                       -- 202 bof_idx += 1
  | _ => (Run.empty, bofIdx)

/-- l.205-230 of `print_bof`: what is written, and `bof_idx` afterwards -/
def printBofBound (opt : StreamOptLit) (bofIdx : Nat) (currField : Int) (chunk : Bytes)
    (prevChunkIdx chunkIdx : Nat) (prevChunkMayBeTruncated fieldComplete : Bool) : Run × Nat :=
  match opt.bounds.get bofIdx with                                     -- 205 if let Some(BoundOrFiller::Bound(b)) = opt.bounds.get(bof_idx)
  | Option.some (.bound b) =>
    -- Bound may not match when, at example, we are waiting to print field 4 but we are at field 2.
    match b.matches currField with                                     -- 208 b.matches(curr_field).unwrap()
    | Option.none => (Run.panic, bofIdx)                               -- 208 the `unwrap()` of an `Err`
    | Option.some false => (Run.empty, bofIdx)
    | Option.some true =>
      let prependDelimiter := !prevChunkMayBeTruncated                 -- 209
        && decide (currField > 1)                                      -- 210
        && decide (b.l ≠ Side.some currField)                          -- 211
      let delimiter := opt.replaceDelimiter.getD opt.delimiter         -- 213 opt.replace_delimiter.unwrap_or(opt.delimiter)
      if prevChunkIdx ≤ chunkIdx ∧ chunkIdx ≤ chunk.length then        -- 217 &chunk[prev_chunk_idx..chunk_idx]
        let pf := printFieldLit (slice chunk prevChunkIdx chunkIdx) delimiter prependDelimiter   -- 215-220 print_field(..)?
        if fieldComplete && decide (b.r = Side.some currField) then    -- 222
          (pf.seq (if opt.join && !b.isLast then                       -- 225
                     Run.ok [delimiter]                                -- 226 stdout.write_all(&[delimiter])?
                   else Run.empty),
           bofIdx + 1)                                                 -- 223 bof_idx += 1
        else (pf, bofIdx)
      else (Run.panic, bofIdx)                                         -- 217 slice index out of range
  | _ => (Run.empty, bofIdx)

/-- `print_bof(stdout, opt, bof_idx, curr_field, chunk, prev_chunk_idx, chunk_idx,
    prev_chunk_may_be_truncated, field_complete)` (stream.rs:185-233): what is written, and the
    `bof_idx` returned (l.232) -/
def printBofLit (opt : StreamOptLit) (bofIdx : Nat) (currField : Int) (chunk : Bytes)
    (prevChunkIdx chunkIdx : Nat) (prevChunkMayBeTruncated fieldComplete : Bool) : Run × Nat :=
  -- 198 let mut bof_idx = bof_idx
  let s := printBofFiller opt bofIdx                                   -- 200-203
  let bofIdx := s.2
  let t := printBofBound opt bofIdx currField chunk prevChunkIdx chunkIdx
             prevChunkMayBeTruncated fieldComplete                     -- 205-230
  let bofIdx := t.2
  (s.1.seq t.1, bofIdx)                                                -- 232 Ok(bof_idx)

/-- `print_filler_or_fallbacks(stdout, bof_idx, opt, num_fields)` (stream.rs:240-276):
    `Tuc.Model.StreamLoop` has the statement-by-statement transcription already -/
def printFillerOrFallbacksOf (opt : StreamOptLit) (bofIdx : Nat) (numFields : Int) : Run × Nat :=
  StreamLoop.printFillerOrFallbacksCall (opt.toModel .cont) bofIdx numFields

/-- `read_and_cut_bytes_stream(stdin, stdout, opt)` (stream.rs:161-169) on a reader that serves
    `segs`; the callee `cut_bytes_stream` is the machine of `Tuc.Model.Stream`
    (`Tuc.Model.StreamLoop.cutBytesStreamLoop` is its transcription) -/
def readAndCutBytesStreamLit (opt : StreamOptLit) (segs : List Bytes) : Run :=
  match opt.bounds.getLastBound with                                   -- 166 opt.bounds.get_last_bound()
  | Option.none => Run.panic                                           -- l.95
  | Option.some b =>
    let lastInterestingField := b.r                                    -- 166 .r
    cutBytesStream (opt.toModel lastInterestingField) segs             -- 167 cut_bytes_stream(..)?; 168 Ok(())

/-! ## `fast_lane.rs`: `FastOpt` -/

/-- `impl TryFrom<&Opt> for FastOpt` (fast_lane.rs:139-171); `struct FastOpt` (l.128-137) is the
    record of `Tuc.Model.FastLane`, field by field -/
def FastOptLit.tryFrom (value : Opt) : Res FastOpt :=
  if value.delimiter.length ≠ 1 then                                   -- 143 value.delimiter.as_bytes().len() != 1
    .fail                                                              -- 144 Err("Delimiter must be 1 byte wide for FastOpt")
  else if value.complement                                             -- 147
      || value.greedyDelimiter                                         -- 148
      || value.compressDelimiter                                       -- 149
      || value.json                                                    -- 150
      || value.boundsType != .fields                                   -- 151
      || value.replaceDelimiter.isSome                                 -- 152
      || value.regexBag.isSome then                                    -- 153
    .fail                                                              -- 155-157 Err("FastOpt supports solely …")
  else
    someOrPanic value.delimiter.head? fun delimiter =>                 -- 160 *value.delimiter.as_bytes().first().unwrap()
    .ok { delimiter := delimiter                                       -- 162
          join := value.join                                           -- 163
          eol := value.eol                                             -- 164
          bounds := value.bounds                                       -- 165 &value.bounds
          onlyDelimited := value.onlyDelimited                         -- 166
          trim := value.trim                                           -- 167
          fallbackOob := value.fallbackOob }                           -- 168 .as_deref()

/-! ## `bin/tuc.rs`: `main` -/

/-- `main` from l.261 on (tuc.rs:258-290), `opt` being what `parse_args()?` returned; stdin serves
    `segs`, stdout is fault-free (the `flush()?` of l.272 / l.287 delivers everything written, the
    sizes of the two buffers are not observable).  `Option.none` = the `std::process::exit(1)` of
    l.267 (nothing read, nothing written); a panic is `Option.some Run.panic`. -/
def dispatchLit (opt : Opt) (segs : List Bytes) : Option Run :=
  let input := segs.flatten
  if opt.fixedMemory.isSome then                                       -- 264
    match StreamOptLit.tryFrom opt with                                -- 265 StreamOpt::try_from(&opt).unwrap_or_else(..)
    | .fail => Option.none                                             -- 266-267 eprintln!(..); exit(1)
    | .panic => Option.some Run.panic
    | .ok streamOpt =>
      Option.some (readAndCutBytesStreamLit streamOpt segs)            -- 270 read_and_cut_bytes_stream(..)?; 272; 274
  else if opt.boundsType = .bytes then                                 -- 277
    Option.some (readAndCutBytes opt input)                            -- 278 read_and_cut_bytes(..)?
  else if opt.boundsType = .lines then                                 -- 279
    Option.some (readAndCutLines opt input)                            -- 280 read_and_cut_lines(..)?
  else
    match FastOptLit.tryFrom opt with                                  -- 281 else if let Ok(fast_opt) = FastOpt::try_from(&opt)
    | .ok fastOpt => Option.some (readAndCutFast fastOpt input)        -- 282 read_and_cut_text_as_bytes(..)?
    | .fail => Option.some (readAndCutStr opt input)                   -- 283-284 read_and_cut_str(..)?
    | .panic => Option.some Run.panic
                                                                       -- 287 stdout.flush()?; 289 Ok(())

/-- `tucRun` of `Tuc.Model.Main` with the literal dispatch: the test of l.264 reads
    `opt.fixed_memory` (the model passes the flag separately) -/
def tucRunLit (o : Opt) (regexText : Option Arg) (segs : List Bytes) : MainResult :=
  match compileBag o regexText with
  | Option.none => .unmodelled
  | Option.some bag =>
    let o := { o with regexBag := bag }
    if o.boundsType = .characters && !validUtf8 segs.flatten then .unmodelled
    else MainResult.ofDispatch (dispatchLit o segs)

/-- `main` (tuc.rs:258-290): `parse_args()?` (l.259, `parseArgv`), then the rest -/
def tucMainLit (regexOk : Arg → Bool) (argv : List Arg) (segs : List Bytes) : MainResult :=
  match parseArgv regexOk argv with                                    -- 259
  | .help => .help
  | .version => .version
  | .reject => .reject
  | .panic => .panic
  | .run o _ regexText => tucRunLit o regexText segs                   -- 261-289

end OptLit
end Tuc
