import Tuc.Model.TextLoops
import Tuc.Model.CutStrLit
/-!
# Tuc.Model.RegexLit — LITERAL models of the regex twins of the helpers of `cut_str.rs`

`Tuc.Model.Text` models the three functions that CONSUME the match list of a compiled regex in
*normal form* (`fillWithFieldsLocationsUsingRegex`, `trimRegex`, `replaceMatches`).  This file
follows the Rust text of the same functions statement by statement:

* `fill_with_fields_locations_using_regex` (cut_str.rs:93-115)  → `fillWithFieldsLocationsUsingRegexLit`
* `compress_delimiter_with_regex`          (cut_str.rs:140-146) → `compressDelimiterWithRegexLit`
* `trim_regex`                             (cut_str.rs:219-245) → `trimRegexLit`
* `regex::bytes::Regex::replace_all`       (regex 1.11.1, src/regex/bytes.rs:855-861) → `replaceAll`
* `regex::bytes::Regex::replacen`, the `NoExpand` (fast) path (bytes.rs:920-952) → `replacen`
* `maybe_replace_delimiter`                (cut_str.rs:149-163) → `maybeReplaceDelimiterLit`, the
  transcription of `Tuc.Model.CutStrLit` with the call of `replace_all` (l.154-156) going through
  the literal `replaceAll` of this file instead of the normal form.

(the line numbers of `cut_str.rs` are those of /repo at 5a3e570; the version of `regex` is the one
`Cargo.lock` pins, 1.11.1.)  `Tuc.Props.RegexLit` proves each equal to its normal form and says
exactly which part of the contract of `find_iter` each one needs.

Conventions (those of `Tuc.Model.TextLoops`)

* a compiled `Regex` is what the project's `RegexBag` stores of it: the function `re : Bytes →
  List (Nat × Nat)` giving the `(m.start(), m.end())` of the items `re.find_iter(haystack)` yields,
  in the order it yields them.  NOTHING is assumed of that list here: the models are total over
  arbitrary lists, so that the theorems can say what the functions need of the regex crate;
* an iterator is the list of the items it has still to yield: `iter.next()` is `iterNext`,
  `iter.last()` is `iterLast`, `.enumerate()` is `enumerate`, `.peekable()` + `peek()` look at the
  head without consuming it, `for x in it` is a recursion over the list;
* local variables keep their Rust names (camelCase); a `let mut` that is assigned again becomes a
  parameter of the loop function or a shadowing `let`;
* every operation that can panic in Rust is *checked* and yields `Outcome.panic`: `&l[a..b]`
  (`TextLoops.sliceRange`: `a > b` or `b > len`), `&l[a..]` (`TextLoops.sliceFrom`: `a > len`),
  `limit - 1` on `usize` (`TextLoops.checkedSub`);
* `Vec::with_capacity(n)` is `[]`, `v.extend_from_slice(s)` is `TextLoops.extend`,
  `buffer.clear()` is `TextLoops.clear`, `buffer.push(x)` is `TextLoops.push`;
* `Cow<[u8]>` keeps its two constructors (`Cow.borrowed` / `Cow.owned`); `Cow.deref` is what the
  callers read (`&line_holder`, `&*cow`).
-/

namespace Tuc
namespace RegexLit
open TextLoops

/-! ## the vocabulary of the Rust text -/

/-- `m.start()` of a `regex::bytes::Match` -/
abbrev mStart (m : Nat × Nat) : Nat := m.1

/-- `m.end()` of a `regex::bytes::Match` -/
abbrev mEnd (m : Nat × Nat) : Nat := m.2

/-- `iter.next()`: the item (if any) and the iterator afterwards (`Matches` is fused: once
    exhausted it stays exhausted) -/
def iterNext {α : Type} : List α → Option α × List α
  | [] => (Option.none, [])
  | x :: t => (Option.some x, t)

/-- `iter.last()` (consumes the iterator): the last item it still had to yield -/
def iterLast {α : Type} (iter : List α) : Option α := iter.getLast?

/-- `iter.enumerate()`, counting from `i` -/
def enumerateFrom {α : Type} : Nat → List α → List (Nat × α)
  | _, [] => []
  | i, x :: t => (i, x) :: enumerateFrom (i + 1) t

def enumerate {α : Type} (iter : List α) : List (Nat × α) := enumerateFrom 0 iter

/-- `std::borrow::Cow<'_, [u8]>` -/
inductive Cow where
  | borrowed (b : Bytes)
  | owned (b : Bytes)
  deriving Repr, DecidableEq

/-- `&*cow` -/
def Cow.deref : Cow → Bytes
  | .borrowed b => b
  | .owned b => b

/-- mapping the value of an `Outcome` -/
def omap {α β : Type} (f : α → β) (r : Outcome α) : Outcome β := r.bind fun a => .ok (f a)

/-! ## `fill_with_fields_locations_using_regex` (cut_str.rs:93-115) -/

/-- the body of `for mat in re.find_iter(line)` (cut_str.rs:102-109); the state is
    `(buffer, next_part_start)` -/
def fillReStep (st : List Range × Nat) (mat : Nat × Nat) : List Range × Nat :=
  let (buffer, nextPartStart) := st
  let buffer := push buffer ⟨nextPartStart, mStart mat⟩      -- 103-106 Range { start: next_part_start, end: mat.start() }
  let nextPartStart := mEnd mat                               -- 108
  (buffer, nextPartStart)

/-- the `for` loop (cut_str.rs:102-109) over the items the iterator yields -/
def fillReFor (items : List (Nat × Nat)) (buffer : List Range) (nextPartStart : Nat) :
    List Range × Nat :=
  items.foldl fillReStep (buffer, nextPartStart)

/-- `fill_with_fields_locations_using_regex` (cut_str.rs:93-115), statement by statement -/
def fillWithFieldsLocationsUsingRegexLit (buffer : List Range) (line : Bytes)
    (re : Bytes → List (Nat × Nat)) : Outcome (List Range) :=
  let buffer := clear buffer                                            -- 94
  if line.isEmpty then                                                  -- 96
    .ok buffer                                                          -- 97 return
  else
    let nextPartStart := 0                                              -- 100
    let (buffer, nextPartStart) :=                                      -- 102-109 for mat in re.find_iter(line)
      fillReFor (re line) buffer nextPartStart
    let buffer := push buffer ⟨nextPartStart, line.length⟩              -- 111-114
    .ok buffer

/-! ## `Regex::replacen` / `Regex::replace_all` with `NoExpand` (regex 1.11.1, src/regex/bytes.rs)

```rust
pub fn replace_all<'h, R: Replacer>(&self, haystack: &'h [u8], rep: R) -> Cow<'h, [u8]> {   // 855
    self.replacen(haystack, 0, rep)                                                           // 860
}
pub fn replacen<'h, R: Replacer>(&self, haystack: &'h [u8], limit: usize, mut rep: R)        // 920
    -> Cow<'h, [u8]> {
    if let Some(rep) = rep.no_expansion() {                                                   // 935
        let mut it = self.find_iter(haystack).enumerate().peekable();                         // 936
        if it.peek().is_none() {                                                              // 937
            return Cow::Borrowed(haystack);                                                   // 938
        }
        let mut new = Vec::with_capacity(haystack.len());                                     // 940
        let mut last_match = 0;                                                               // 941
        for (i, m) in it {                                                                    // 942
            new.extend_from_slice(&haystack[last_match..m.start()]);                          // 943
            new.extend_from_slice(&rep);                                                      // 944
            last_match = m.end();                                                             // 945
            if limit > 0 && i >= limit - 1 {                                                  // 946
                break;                                                                        // 947
            }
        }
        new.extend_from_slice(&haystack[last_match..]);                                       // 950
        return Cow::Owned(new);                                                               // 951
    }
    …  // the path with capture groups: not taken, see `noExpansion`
```
-/

/-- `<NoExpand as Replacer>::no_expansion` (bytes.rs:2598-2600): `Some(Cow::Borrowed(self.0))`,
    always — so `replacen` takes the fast path of l.935-952 and the path with capture groups
    (l.954-973) is dead code for `NoExpand` -/
def noExpansion (rep : Bytes) : Option Bytes := Option.some rep

/-- the `for (i, m) in it` loop (bytes.rs:942-949) over the items the iterator yields; the state is
    `(new, last_match)` -/
def replacenFor (haystack rep : Bytes) (limit : Nat) :
    List (Nat × (Nat × Nat)) → Bytes → Nat → Outcome (Bytes × Nat)
  | [], new, lastMatch => .ok (new, lastMatch)
  | (i, m) :: it, new, lastMatch =>
    (sliceRange haystack lastMatch (mStart m)).bind fun piece =>        -- 943 &haystack[last_match..m.start()]
      let new := extend new piece                                       -- 943 new.extend_from_slice(..)
      let new := extend new rep                                         -- 944
      let lastMatch := mEnd m                                           -- 945
      -- 946 `limit > 0 && i >= limit - 1`: `limit - 1` is evaluated only when `limit > 0`
      (if limit > 0 then (checkedSub limit 1).bind fun limitM1 => .ok (decide (i ≥ limitM1))
       else .ok false).bind fun cond =>
        if cond then .ok (new, lastMatch)                               -- 947 break
        else replacenFor haystack rep limit it new lastMatch

/-- bytes.rs:950-951, after the loop -/
def replacenFinish (haystack : Bytes) (st : Bytes × Nat) : Outcome Cow :=
  let (new, lastMatch) := st
  (sliceFrom haystack lastMatch).bind fun rest =>                       -- 950 &haystack[last_match..]
    .ok (Cow.owned (extend new rest))                                   -- 950-951 Cow::Owned(new)

/-- `re.replacen(haystack, limit, NoExpand(rep))` (bytes.rs:920-952), statement by statement -/
def replacen (re : Bytes → List (Nat × Nat)) (haystack : Bytes) (limit : Nat) (rep : Bytes) :
    Outcome Cow :=
  match noExpansion rep with                                            -- 935 if let Some(rep) = rep.no_expansion()
  | Option.none => .hang                                                -- unreachable for `NoExpand` (`noExpansion` is `some`)
  | Option.some rep =>
    let it := enumerate (re haystack)                                   -- 936 self.find_iter(haystack).enumerate().peekable()
    match it with                                                       -- 937 if it.peek().is_none()
    | [] => .ok (Cow.borrowed haystack)                                 -- 938 return Cow::Borrowed(haystack)
    | _ :: _ =>
      let new : Bytes := []                                             -- 940 Vec::with_capacity(haystack.len())
      let lastMatch := 0                                                -- 941
      (replacenFor haystack rep limit it new lastMatch).bind            -- 942-949
        (replacenFinish haystack)                                       -- 950-951

/-- `re.replace_all(haystack, NoExpand(rep))` (bytes.rs:855-861) -/
def replaceAll (re : Bytes → List (Nat × Nat)) (haystack rep : Bytes) : Outcome Cow :=
  replacen re haystack 0 rep                                            -- 860

/-! ## `compress_delimiter_with_regex` (cut_str.rs:140-146) -/

/-- `compress_delimiter_with_regex(line, re, new_delimiter)` (cut_str.rs:140-146) -/
def compressDelimiterWithRegexLit (line : Bytes) (re : Bytes → List (Nat × Nat))
    (newDelimiter : Bytes) : Outcome Cow :=
  replaceAll re line newDelimiter                                       -- 145 re.replace_all(line, NoExpand(new_delimiter))

/-! ## `maybe_replace_delimiter` (cut_str.rs:149-163, feature "regex") -/

/-- `maybe_replace_delimiter(text, opt)`: `CutStrLit.maybeReplaceDelimiterLit` with the library call
    of l.154-156 transcribed too -/
def maybeReplaceDelimiterLit (text : Bytes) (opt : Opt) : Outcome Cow :=
  if opt.boundsType = .characters then                                 -- 150
    .ok (Cow.borrowed text)                                            -- 151
  else
    match opt.replaceDelimiter with                                    -- 152 if let Some(new_delimiter)
    | Option.some newDelimiter =>
      match opt.regexBag with                                          -- 153 if let Some(re_bag)
      | Option.some reBag =>
        replaceAll reBag.normal text newDelimiter                      -- 154-156 re_bag.normal.replace_all(text, NoExpand(..))
      | Option.none =>
        .ok (Cow.owned (Tuc.replaceAll text opt.delimiter newDelimiter))   -- 158 Cow::Owned(text.replace(..))
    | Option.none => .ok (Cow.borrowed text)                           -- 161

/-! ## `trim_regex` (cut_str.rs:219-245) -/

/-- `trim_regex(line, trim_kind, re)` (cut_str.rs:219-245), statement by statement -/
def trimRegexLit (line : Bytes) (trimKind : TrimKind) (re : Bytes → List (Nat × Nat)) :
    Outcome Bytes :=
  let iter := re line                                                   -- 220 let mut iter = re.find_iter(line);
  let idxStart := 0                                                     -- 221
  let idxEnd := line.length                                             -- 222
  -- when there is only one match, the first is also the last
  let firstMatch : Option (Nat × Nat) := Option.none                    -- 225
  let (iter, idxStart, firstMatch) :=
    if trimKind = .both ∨ trimKind = .left then                         -- 227
      match iterNext iter with                                          -- 228 if let Some(m) = iter.next()
      | (Option.some m, iter) =>
        let idxStart := if mStart m = 0 then mEnd m else idxStart       -- 229-231
        (iter, idxStart, Option.some m)                                 -- 232 first_match = Some(m)
      | (Option.none, iter) => (iter, idxStart, firstMatch)
    else (iter, idxStart, firstMatch)
  let idxEnd :=
    if trimKind = .both ∨ trimKind = .right then                        -- 236
      match (iterLast iter).or firstMatch with                          -- 237 if let Some(m) = iter.last().or(first_match)
      | Option.some m =>
        if mEnd m = line.length then max (mStart m) idxStart            -- 238-239 idx_end = m.start().max(idx_start)
        else idxEnd
      | Option.none => idxEnd
    else idxEnd
  sliceRange line idxStart idxEnd                                       -- 244 &line[idx_start..idx_end]

end RegexLit
end Tuc
