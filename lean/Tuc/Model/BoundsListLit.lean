import Tuc.Model.BoundsLit
/-!
# Tuc.Model.BoundsListLit — `src/bounds/userboundslist.rs`, statement by statement

`Tuc.Model.Bounds` models the list code of `userboundslist.rs` in normal form over unbounded integers and
over strings seen as lists of characters (`fromVec`, `markLast`, `rightmostBound`, `isSortable`, `isSorted`,
`hasNegativeIndices`, `isForwardOnly`, `unpackList`, `complementList`, `parseBoundsList` with `scan` /
`scanStep` / `scanEnd`, `boundsListOfString`).  This file follows the Rust text of the same functions
statement by statement (the numbers in the comments are the lines of `userboundslist.rs` at commit 9782769
of `/repo`):

* `impl From<Vec<BoundOrFiller>> for UserBoundsList` (l.23-56)  → `fromVecLit` (`fromLoop`, `setIsLast`)
* `UserBoundsList::from_str`                     (l.58-70)   → `fromStrLit`
* `UserBoundsList::is_sortable`                  (l.76-98)   → `UserBoundsListL.isSortable` (`isSortableLoop`)
* `UserBoundsList::get_userbounds_only`          (l.100-105) → `UserBoundsListL.getUserboundsOnly`
* `UserBoundsList::is_sorted`                    (l.107-118) → `UserBoundsListL.isSorted` (`isSortedLoop`)
* `UserBoundsList::has_negative_indices`         (l.120-136) → `UserBoundsListL.hasNegativeIndices`
* `UserBoundsList::is_forward_only`              (l.142-144) → `UserBoundsListL.isForwardOnly`
* `UserBoundsList::unpack`                       (l.160-176) → `UserBoundsListL.unpack`
* `UserBoundsList::complement`                   (l.179-204) → `UserBoundsListL.complement`
* `parse_bounds_list`                            (l.216-289) → `parseBoundsListLit` (`scanLoop`, `scanBody`,
                                                                `pushBoundsLoop`)

`Tuc.Props.BoundsListLit` proves each of them equal to its counterpart of `Tuc.Model.Bounds`.

Conventions (those of `Tuc.Model.BoundsLit`, plus what the string scanner needs)

* the per-bound callees are the MACHINE-INTEGER transcriptions of `Tuc.Model.BoundsLit`:
  `UserBounds::from_str` → `UserBoundsL.fromStr`, `UserBounds::unpack` → `UserBoundsL.unpack`,
  `UserBounds::complement` → `UserBoundsL.complement`, `PartialOrd for UserBounds` →
  `UserBoundsL.partialCmp`, `PartialOrd for Side` → `SideL.partialCmp` / `SideL.gt`; `i32` is `I32`;
  `i32::is_positive` / `is_negative` are `self > 0` / `self < 0`;
* `Result<T>` is `Res T`: `.ok`, `.fail` (every `bail!` and `?`), `.panic` (every `unwrap` / `expect` on
  `None`, every slice out of range or off a char boundary, every `usize` subtraction below 0, every `i32`
  overflow inside a callee); `a.bind f` is "`a?`, then `f`"; `someOrPanic o k` is `o.unwrap()` /
  `o.expect(..)` followed by `k`;
* **`&str` is `List Char` and every offset into it is a BYTE offset**, as in Rust: `s.len()` is `strLen`
  (the sum of `Char.utf8Size`), `s.char_indices()` is `charIndices` (each character with the byte offset of
  its first byte).  A `str` is valid UTF-8 by its type invariant, so `s.is_char_boundary(n)` — "`n` is 0,
  `n` is `len`, or the byte at `n` is not a continuation byte" — holds exactly when `n` is the byte length
  of a prefix of whole characters: `isCharBoundary`.  **`&s[a..b]` and `&s[a..]` are CHECKED** (`strSlice`,
  `strSliceFrom`): `a > b`, an offset beyond the end or an offset inside a multi-byte character is
  `Res.panic` (`str::slice_error_fail`);
* `idx - part_start` and `s.len() - part_start` are checked `usize` subtractions (`BoundsLit.usizeSub`);
  `idx + 1` is unbounded (project convention for `usize` sums);
* `let mut iter = s.char_indices().peekable()` is the list of the items still to come: `iter.next()` takes
  the head (`while let Some((idx, w0)) = iter.next()` is the match on the list; a `next()` whose result is
  dropped is `List.drop 1`), `iter.peek()` is `List.head?`.  The loop function recurses on that list (each
  round consumes one or two items);
* `for … in iter`, `iter.for_each(..)`, `iter.any(..)`, `iter.map(..).collect()`, `iter.flat_map(..).collect()`
  are structural recursions over the list behind the iterator (`resMapM`, `resFlatMapM` when the closure can
  fail or panic: the first item that does ends the walk); a variable captured `mut` by a closure is a
  parameter of the loop function;
* `let mut last_bound: Option<&mut UserBounds>` (l.31) is the POSITION of that bound in `ubl.list`; writing
  through the reference (l.49-51) is `setIsLast`, which is checked (the position must hold a
  `BoundOrFiller::Bound`);
* `Vec::push(x)` is `++ [x]`; `f.clone()` is `f`;
* library functions are modelled by what they compute, with the project's existing definitions:
  `str::split(',')` is `splitOnChar ','`, `str::replace(p, r)` for a two-character pattern and a
  one-character replacement is `replace2`, `String::into_bytes` is `utf8`, `char::is_whitespace` is
  `isWhitespace`, `str::trim` removes the white space at both ends (`strTrim`),
  `s.contains(['{', '}'])` is `List.any`.
-/

namespace Tuc
namespace BoundsListLit
open BoundsLit

/-! ## the types -/

/-- `enum BoundOrFiller` (mod.rs) over the machine-integer `UserBounds` -/
inductive BoFL where
  | bound (b : UserBoundsL)
  | filler (f : Bytes)
  deriving DecidableEq, Repr, Inhabited

/-- `struct UserBoundsList` (l.7-13) -/
structure UserBoundsListL where
  list : List BoFL
  lastInterestingField : SideL
  deriving DecidableEq, Repr, Inhabited

/-- `matches!(bof, BoundOrFiller::Bound(_))` -/
def BoFL.isBound : BoFL → Bool
  | .bound _ => true
  | .filler _ => false

/-! ## `str`: byte offsets -/

/-- `s.len()`: the number of BYTES of the UTF-8 encoding -/
def strLen : List Char → Nat
  | [] => 0
  | c :: t => c.utf8Size + strLen t

/-- `s.char_indices()` from the byte offset `off` on: each character with the offset of its first byte -/
def charIndicesFrom : Nat → List Char → List (Nat × Char)
  | _, [] => []
  | off, c :: t => (off, c) :: charIndicesFrom (off + c.utf8Size) t

/-- `s.char_indices()` -/
def charIndices (s : List Char) : List (Nat × Char) := charIndicesFrom 0 s

/-- `s.is_char_boundary(n)`: `n` is the byte length of a prefix of whole characters (`0` and `s.len()`
    included; `false` beyond the end and inside a multi-byte character) -/
def isCharBoundary : List Char → Nat → Bool
  | [], n => n == 0
  | c :: t, n => n == 0 || (decide (c.utf8Size ≤ n) && isCharBoundary t (n - c.utf8Size))

/-- the characters that lie before the byte offset `n` (a char boundary) -/
def takeBytes : List Char → Nat → List Char
  | [], _ => []
  | c :: t, n => if n = 0 then [] else c :: takeBytes t (n - c.utf8Size)

/-- the characters that lie at or after the byte offset `n` (a char boundary) -/
def dropBytes : List Char → Nat → List Char
  | [], _ => []
  | c :: t, n => if n = 0 then c :: t else dropBytes t (n - c.utf8Size)

/-- `&s[a..b]`: panics (`slice_error_fail`) unless `a ≤ b` and both are char boundaries of `s` -/
def strSlice (s : List Char) (a b : Nat) : Res (List Char) :=
  if a ≤ b && isCharBoundary s a && isCharBoundary s b then .ok (dropBytes (takeBytes s b) a)
  else .panic

/-- `&s[a..]`: panics unless `a` is a char boundary of `s` -/
def strSliceFrom (s : List Char) (a : Nat) : Res (List Char) :=
  if isCharBoundary s a then .ok (dropBytes s a) else .panic

/-- `s.trim()`: `trim_matches(char::is_whitespace)` — white space removed at both ends -/
def strTrim (s : List Char) : List Char :=
  ((s.dropWhile isWhitespace).reverse.dropWhile isWhitespace).reverse

/-- `iter.flat_map(f).collect()` where `f` can fail or panic: stops at the first item that does -/
def resFlatMapM {α β : Type} (f : α → Res (List β)) : List α → Res (List β)
  | [] => .ok []
  | a :: t => (f a).bind fun bs => (resFlatMapM f t).bind fun r => .ok (bs ++ r)

/-- `i32::is_positive`: `self > 0` -/
def isPositive (x : I32) : Bool := decide (x > i32 0)

/-- `i32::is_negative`: `self < 0` -/
def isNegative (x : I32) : Bool := decide (x < i32 0)

/-! ## `impl UserBoundsList` (l.72-205), first part -/

/-- `get_userbounds_only` (l.100-105): `self.list.iter().flat_map(|b| match b { Bound(x) => Some(x), _ => None })` -/
def UserBoundsListL.getUserboundsOnly (self : UserBoundsListL) : List UserBoundsL :=
  self.list.flatMap fun b =>                                           -- 101
    match b with
    | .bound x => (Option.some x).toList                               -- 102
    | _ => (Option.none : Option UserBoundsL).toList                   -- 103

/-- the closure of `for_each` in `is_sortable` (l.79-95), walked over the bounds; the two captured
    `mut` flags are the parameters.  Returns `(has_positive_idx, has_negative_idx)`. -/
def isSortableLoop : List UserBoundsL → Bool → Bool → Bool × Bool
  | [], hasPositiveIdx, hasNegativeIdx => (hasPositiveIdx, hasNegativeIdx)
  | b :: rest, hasPositiveIdx, hasNegativeIdx =>
    let p : Bool × Bool :=
      match b.l with                                                   -- 80 if let Side::Some(left) = b.l
      | .some left =>
        if isPositive left then (true, hasNegativeIdx)                 -- 81-82
        else (hasPositiveIdx, true)                                    -- 83-84
      | .cont => (hasPositiveIdx, hasNegativeIdx)
    let hasPositiveIdx := p.1
    let hasNegativeIdx := p.2
    let p : Bool × Bool :=
      match b.r with                                                   -- 88 if let Side::Some(right) = b.r
      | .some right =>
        if isPositive right then (true, hasNegativeIdx)                -- 89-90
        else (hasPositiveIdx, true)                                    -- 91-92
      | .cont => (hasPositiveIdx, hasNegativeIdx)
    isSortableLoop rest p.1 p.2

/-- `is_sortable` (l.76-98) -/
def UserBoundsListL.isSortable (self : UserBoundsListL) : Bool :=
  let hasPositiveIdx := false                                          -- 77
  let hasNegativeIdx := false                                          -- 78
  let p := isSortableLoop self.getUserboundsOnly hasPositiveIdx hasNegativeIdx   -- 79-95
  let hasPositiveIdx := p.1
  let hasNegativeIdx := p.2
  !(hasNegativeIdx && hasPositiveIdx)                                  -- 97

/-- `partial_cmp` of `Option<&UserBounds>` (the derived `PartialOrd` of `Option`: `None < Some(_)`,
    two `Some`s compare their contents; `&A: PartialOrd<&B>` compares the referents) -/
def optionPartialCmp : Option UserBoundsL → Option UserBoundsL → Res (Option Ordering)
  | Option.none, Option.none => .ok (Option.some Ordering.eq)
  | Option.none, Option.some _ => .ok (Option.some Ordering.lt)
  | Option.some _, Option.none => .ok (Option.some Ordering.gt)
  | Option.some a, Option.some b => a.partialCmp b

/-- `a <= b` on `Option<&UserBounds>`: the provided method `PartialOrd::le`,
    `partial_cmp` is `Some(Less | Equal)` -/
def optionLe (a b : Option UserBoundsL) : Res Bool :=
  (optionPartialCmp a b).bind fun o =>
  .ok (o == Option.some Ordering.lt || o == Option.some Ordering.eq)

/-- the `for` loop of `is_sorted` (l.109-115); `prev_b` is the parameter -/
def isSortedLoop : List UserBoundsL → Option UserBoundsL → Res Bool
  | [], _ => .ok true                                                  -- 117 true
  | b :: rest, prevB =>                                                -- 109 for b in self.get_userbounds_only()
    (if prevB.isNone then .ok true                                     -- 110 prev_b.is_none() ||
     else optionLe prevB (Option.some b)).bind fun c =>                -- 110 prev_b <= Some(b)
    if c then
      let prevB := Option.some b                                       -- 111
      isSortedLoop rest prevB
    else .ok false                                                     -- 113 return false

/-- `is_sorted` (l.107-118).  (`Res`: the comparison of two `Side`s multiplies two signums with the
    overflow check of the debug build.) -/
def UserBoundsListL.isSorted (self : UserBoundsListL) : Res Bool :=
  let prevB : Option UserBoundsL := Option.none                        -- 108
  isSortedLoop self.getUserboundsOnly prevB                            -- 109-117

/-- the closure of `any` in `has_negative_indices` (l.121-135) -/
def hasNegativeClosure (b : UserBoundsL) : Bool :=
  if (match b.l with                                                   -- 122 if let Side::Some(left) = b.l
      | .some left => isNegative left                                  -- 123
      | .cont => false) then true                                      -- 124 return true
  else if (match b.r with                                              -- 128 if let Side::Some(right) = b.r
      | .some right => isNegative right                                -- 129
      | .cont => false) then true                                      -- 130 return true
  else false                                                           -- 134

/-- `has_negative_indices` (l.120-136) -/
def UserBoundsListL.hasNegativeIndices (self : UserBoundsListL) : Bool :=
  self.getUserboundsOnly.any hasNegativeClosure                        -- 121

/-- `is_forward_only` (l.142-144): `&&` evaluates its right operand only when needed -/
def UserBoundsListL.isForwardOnly (self : UserBoundsListL) : Res Bool :=
  if self.isSortable then                                              -- 143 self.is_sortable() &&
    self.isSorted.bind fun sorted =>                                   -- 143 self.is_sorted() &&
    if sorted then .ok (!self.hasNegativeIndices)                      -- 143 !self.has_negative_indices()
    else .ok false
  else .ok false

/-! ## `impl From<Vec<BoundOrFiller>> for UserBoundsList` (l.23-56) -/

/-- the closure of `for_each` (l.35-43) walked over `ubl.list.iter_mut()`; `i` is the position of `bof`
    in the list, the captured `rightmost_bound` and `last_bound` are the parameters -/
def fromLoop : List BoFL → Nat → Option SideL → Option Nat → Res (Option SideL × Option Nat)
  | [], _, rightmostBound, lastBound => .ok (rightmostBound, lastBound)
  | bof :: rest, i, rightmostBound, lastBound =>
    match bof with
    | .bound b =>                                                      -- 36 if let BoundOrFiller::Bound(b) = bof
      (if rightmostBound.isNone then .ok true                          -- 37 rightmost_bound.is_none() ||
       else someOrPanic rightmostBound fun m =>                        -- 37 rightmost_bound.unwrap()
         SideL.gt b.r m).bind fun c =>                                 -- 37 b.r > …
      let rightmostBound := if c then Option.some b.r else rightmostBound  -- 38
      let lastBound := Option.some i                                   -- 41 last_bound = Some(b)
      fromLoop rest (i + 1) rightmostBound lastBound
    | .filler _ => fromLoop rest (i + 1) rightmostBound lastBound

/-- `(*last_bound).is_last = true` (l.49-51) through the `&mut UserBounds` taken at position `i` -/
def setIsLast (list : List BoFL) (i : Nat) : Res (List BoFL) :=
  match list[i]? with
  | Option.some (.bound b) => .ok (list.set i (.bound { b with isLast := true }))
  | _ => .panic

/-- `impl From<Vec<BoundOrFiller>> for UserBoundsList` (l.23-56) -/
def fromVecLit (list : List BoFL) : Res UserBoundsListL :=
  let ubl : UserBoundsListL :=                                         -- 25-28
    { list := list, lastInterestingField := SideL.cont }
  let rightmostBound : Option SideL := Option.none                     -- 30
  let lastBound : Option Nat := Option.none                            -- 31
  let isSortable := ubl.isSortable                                     -- 33
  (fromLoop ubl.list 0 rightmostBound lastBound).bind fun p =>         -- 35-43
  let rightmostBound := p.1
  let lastBound := p.2
  let rightmostBound := if !isSortable then Option.none else rightmostBound  -- 45-47
  someOrPanic lastBound fun i =>                                       -- 49-50 last_bound.expect(..)
  (setIsLast ubl.list i).bind fun list =>                              -- 51 .is_last = true
  let ubl := { ubl with list := list }
  let ubl := { ubl with lastInterestingField := rightmostBound.getD SideL.cont }  -- 53 unwrap_or(Side::Continue)
  .ok ubl                                                              -- 54

/-! ## `impl UserBoundsList`, second part: `unpack`, `complement` -/

/-- the closure of `flat_map` in `unpack` (l.164-172) -/
def unpackClosure (numFields : Nat) (bof : BoFL) : Res (List BoFL) :=
  match bof with
  | .bound b =>                                                        -- 166
    (b.unpack numFields).bind fun v =>                                 -- 167
    .ok (v.map BoFL.bound)                                             -- 168-170 .into_iter().map(Bound).collect()
  | .filler f => .ok [BoFL.filler f]                                   -- 171

/-- `UserBoundsList::unpack` (l.160-176).  `.panic`: the `expect` of `into()`, or an overflow in
    `UserBounds::unpack`. -/
def UserBoundsListL.unpack (self : UserBoundsListL) (numFields : Nat) : Res UserBoundsListL :=
  (resFlatMapM (unpackClosure numFields) self.list).bind fun list =>   -- 161-173
  fromVecLit list                                                      -- 175 list.into()

/-- the closure of `flat_map` in `complement` (l.183-196) -/
def complementClosure (numFields : Nat) (bof : BoFL) : Res (List BoFL) :=
  match bof with
  | .bound b =>
    match b.complement numFields with                                  -- 185
    | .ok v => .ok (v.map BoFL.bound)                                  -- 186
    -- A bound that can't be resolved is kept as it is
    | .fail => .ok [BoFL.bound (UserBoundsL.withFallback b.l b.r b.fallbackOob)]  -- 189-193
    | .panic => .panic
  | .filler f => .ok [BoFL.filler f]                                   -- 195

/-- `UserBoundsList::complement` (l.179-204) -/
def UserBoundsListL.complement (self : UserBoundsListL) (numFields : Nat) : Res UserBoundsListL :=
  (resFlatMapM (complementClosure numFields) self.list).bind fun list =>  -- 180-197
  if !list.any BoFL.isBound then .fail                                 -- 199-201 bail!("the complement is empty")
  else fromVecLit list                                                 -- 203 Ok(list.into())

/-! ## `parse_bounds_list` (l.216-289) -/

/-- the text of a filler: the four chained `replace` calls and `into_bytes` (l.246-250, 273-277) -/
def fillerOf (t : List Char) : Bytes :=
  let t := replace2 '{' '{' '{' t                                      -- 246 .replace("{{", "{")
  let t := replace2 '}' '}' '}' t                                      -- 247 .replace("}}", "}")
  let t := replace2 '\\' 'n' '\n' t                                    -- 248 .replace("\\n", "\n")
  let t := replace2 '\\' 't' '\t' t                                    -- 249 .replace("\\t", "\t")
  utf8 t                                                               -- 250 .into_bytes()

/-- `for maybe_bounds in s[part_start..idx].split(',')` (l.260-262) -/
def pushBoundsLoop : List (List Char) → List BoFL → Res (List BoFL)
  | [], bof => .ok bof
  | maybeBounds :: rest, bof =>                                        -- 260
    (UserBoundsL.fromStr maybeBounds).bind fun b =>                    -- 261 UserBounds::from_str(maybe_bounds)?
    pushBoundsLoop rest (bof ++ [BoFL.bound b])                        -- 261 bof.push(BoundOrFiller::Bound(..))

/-- the `else if` chain of the loop body (l.233-265) for a character that is not half of an escaped
    bracket; yields the new `(bof, inside_bound, part_start)` -/
def scanBody (s : List Char) (idx : Nat) (w0 : Char) (bof : List BoFL) (insideBound : Bool)
    (partStart : Nat) : Res (List BoFL × Bool × Nat) :=
  if w0 == '}' && !insideBound then                                    -- 233
    .fail                                                              -- 234 bail!(missing opening parenthesis)
  else if w0 == '{' then                                               -- 235
    if insideBound then                                                -- 236
      .fail                                                            -- 237 bail!(opening parenthesis inside a bound)
    else
      -- starting a new bound
      let insideBound := true                                          -- 241
      (usizeSub idx partStart).bind fun d =>                           -- 243 idx - part_start
      (if d > 0 then                                                   -- 243 > 0
        (strSlice s partStart idx).bind fun t =>                       -- 245 s[part_start..idx]
        .ok (bof ++ [BoFL.filler (fillerOf t)])                        -- 244-251 bof.push(Filler(..))
       else .ok bof).bind fun bof =>
      let partStart := idx + 1                                         -- 254
      .ok (bof, insideBound, partStart)
  else if w0 == '}' then                                               -- 255
    -- ending a bound
    let insideBound := false                                           -- 257
    -- consider also comma separated bounds
    (strSlice s partStart idx).bind fun t =>                           -- 260 s[part_start..idx]
    (pushBoundsLoop (splitOnChar ',' t) bof).bind fun bof =>           -- 260-262
    let partStart := idx + 1                                           -- 264
    .ok (bof, insideBound, partStart)
  else .ok (bof, insideBound, partStart)

/-- the `while let` loop (l.227-266); `iter` is what `s.char_indices().peekable()` still has to yield.
    Yields `(bof, inside_bound, part_start)` as the loop leaves them. -/
def scanLoop (s : List Char) (iter : List (Nat × Char)) (bof : List BoFL) (insideBound : Bool)
    (partStart : Nat) : Res (List BoFL × Bool × Nat) :=
  match iter with
  | [] => .ok (bof, insideBound, partStart)                            -- 227 iter.next() is None
  | (idx, w0) :: iter =>                                               -- 227 while let Some((idx, w0)) = iter.next()
    let w1 := (iter.head?.getD (0, 'x')).2                             -- 228 iter.peek().unwrap_or(&(0, 'x')).1
    if w0 == w1 && (w0 == '{' || w0 == '}') then                       -- 230
      -- escaped bracket, ignore it, we will replace it later
      scanLoop s (iter.drop 1) bof insideBound partStart               -- 232 iter.next();
    else
      (scanBody s idx w0 bof insideBound partStart).bind fun st =>     -- 233-265
      scanLoop s iter st.1 st.2.1 st.2.2
termination_by iter.length
decreasing_by
  · simp only [List.length_drop, List.length_cons]; omega
  · simp only [List.length_cons]; omega

/-- `parse_bounds_list` (l.216-289) -/
def parseBoundsListLit (s : List Char) : Res (List BoFL) :=
  if s.isEmpty then                                                    -- 217
    .ok []                                                             -- 218
  else if s.any (fun c => c == '{' || c == '}') then                   -- 221 s.contains(['{', '}'])
    let bof : List BoFL := []                                          -- 222
    let insideBound := false                                           -- 223
    let partStart := 0                                                 -- 224
    let iter := charIndices s                                          -- 226
    (scanLoop s iter bof insideBound partStart).bind fun st =>         -- 227-266
    let bof := st.1
    let insideBound := st.2.1
    let partStart := st.2.2
    if insideBound then                                                -- 268
      .fail                                                            -- 269 bail!(missing closing parenthesis)
    else
      (usizeSub (strLen s) partStart).bind fun d =>                    -- 270 s.len() - part_start
      (if d > 0 then                                                   -- 270 > 0
        (strSliceFrom s partStart).bind fun t =>                       -- 272 s[part_start..]
        .ok (bof ++ [BoFL.filler (fillerOf t)])                        -- 271-278
       else .ok bof).bind fun bof =>
      .ok bof                                                          -- 281
  else
    resMapM (fun x => resMap BoFL.bound (UserBoundsL.fromStr x))       -- 285
      (splitOnChar ',' s)                                              -- 284, 286 .collect(); 287 Ok(k?)

/-! ## `impl FromStr for UserBoundsList` (l.58-70) -/

/-- `UserBoundsList::from_str` (l.60-69) -/
def fromStrLit (s : List Char) : Res UserBoundsListL :=
  if (strTrim s).isEmpty then                                          -- 61 s.trim().is_empty()
    .fail                                                              -- 62
  else
    (parseBoundsListLit s).bind fun list =>                            -- 64 parse_bounds_list(s)?
    if !list.any BoFL.isBound then                                     -- 65
      .fail                                                            -- 66
    else fromVecLit list                                               -- 68 Ok(list.into())

/-! ## literal values ↔ model values -/

def BoFL.toModel : BoFL → BoF
  | .bound b => BoF.bound b.toModel
  | .filler f => BoF.filler f

def UserBoundsListL.toModel (u : UserBoundsListL) : UserBoundsList :=
  { list := u.list.map BoFL.toModel, lastInteresting := u.lastInterestingField.toModel }

/-- a model item as a Rust value (faithful exactly when the sides fit an `i32`: `boundsOfModel`) -/
def bofOfModel : BoF → BoFL
  | .bound b => BoFL.bound (boundsOfModel b)
  | .filler f => BoFL.filler f

def listOfModel (u : UserBoundsList) : UserBoundsListL :=
  { list := u.list.map bofOfModel, lastInterestingField := sideOfModel u.lastInteresting }

end BoundsListLit
end Tuc
