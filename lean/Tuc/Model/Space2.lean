import Tuc.Model.WholeLit
/-!
# Tuc.Model.Space2 — ghost instrumentation of the GENERAL engine with a space measure (C17)

C17: "… with `-f` or `-c` (no `-M`) [peak memory] is bounded in terms of the longest record, not the
number of records …".  `Tuc.Model.Space` / `Tuc.Props.Space` cover `-l` forward-only, the fast lane
and `-M`, and leave the general engine (`read_and_cut_str` / `cut_str`: `-f` off the fast lane, `-c`,
`--json`, `-e`, `-g`, `-p`, `-r`, `-m`, `-t`) out.  This file is the same treatment for it: it copies the
statement-level functions

* `ReadLoops.readUntilLoop` / `outerLoop` / `forByteRecordWithTerminatorLoop` / `forByteRecordLoop`
  (std `read_until`, library/std/src/io/mod.rs:2244-2270; bstr 1.11.3 `for_byte_record_with_terminator`,
  src/io.rs:289-344, `for_byte_record` io.rs:186-198)               → `readUntilLoopI`, `outerLoopI`, …
* `CutStrLit.maybeReplaceDelimiterLit`, `fieldToPrint`, `outputClosure`, `tryForEach`,
  `compressStage`, `fieldsStage`, `emitStage`, `cutStrLit` (cut_str.rs:149-163, 260-456) → `…I`
* `WholeLit.cutStrLitClosure`, `readAndCutStrWhole` (cut_str.rs:458-503)  → `cutStrLitClosureI`,
  `readAndCutStrWholeI`

and adds GHOST results that observe — and never influence — the execution (`Tuc.Props.Space2`:
dropping the ghost components gives back the frozen functions, for all arguments and all fuel).

**The space measure** is the number of elements held in the OWNED, GROWABLE buffers:

| buffer | where | ghost |
|---|---|---|
| `bytes: Vec<u8>` of `for_byte_record_with_terminator` (io.rs:298): the record that straddles two reads, resp. the first record of every read after the first one, is assembled here (l.325 `extend_from_slice`, l.336 `read_until`), `clear`ed at l.340 | `outerLoopI`, `readUntilLoopI` | `Peak.bytes` — an ACCUMULATOR threaded through the loops; taken after every statement that changes `bytes` |
| `fields: &mut Vec<Range<usize>>` = `bounds_as_ranges` (cut_str.rs:464), lives across records | `cutStrLitI` (as it arrives), `fieldsStageI` (after `fill_with_fields_locations*`, i.e. BEFORE l.353-354 pop / drain) | `RecPeak.fields` (entries) |
| `compressed_line_buf: &mut Vec<u8>` (cut_str.rs:465), lives across records | `cutStrLitI` (as it arrives), `compressStageI` (after `compress_delimiter`, l.327) | `RecPeak.compressedLineBuf` (bytes) |
| `line_holder: Cow<[u8]>` (l.301, 317-321 `compress_delimiter_with_regex` = `Regex::replace_all`), per record | `compressStageI` | `RecPeak.lineHolder` (bytes) |
| `_bounds: UserBoundsList` after `bounds.complement(num_fields)?` (l.373; the `Vec` built at userboundslist.rs:176-195), per record | `emitStageI` | `RecPeak.complemented` (entries) |
| `_bounds` after `bounds.unpack(num_fields)` (l.402; userboundslist.rs:160-173).  While it is built the complemented list is still alive (`bounds` borrows it): the two ghosts ADD UP | `emitStageI` | `RecPeak.unpacked` (entries) |
| `field_to_print: Cow<[u8]>` when it is `maybe_replace_delimiter(..)` with a replacement (l.425; cut_str.rs:154-158 `replace_all` / bstr `replace`), per printed field | `maybeReplaceDelimiterLitI` … `tryForEachI` | `RecPeak.fieldToPrint` (bytes; one at a time: the `Cow` dies at the end of the closure) |

`fill_with_fields_locations*` and `compress_delimiter` `clear()` their vector and then only `push` /
`extend`: the largest length during the call is the larger of the length on entry and the length on
exit, which is what the ghost takes.  (They are called through their normal-form models, as in
`Tuc.Model.CutStrLit`; `Tuc.Props.TextLoops` ties those to the loops.)

Inside `cut_str` the ghost is a RESULT (the peak of this call alone, the vectors as they arrive
included); the closure of `read_and_cut_str` folds it into the accumulator it carries next to the
two vectors (`RecPeak.sup`).  A ghost counts only if the statement is executed: where the frozen
models compute `a.seq b` for the Rust `a?; b`, the ghost of `b` is dropped when `a` ended the run
(`tryForEachI`).

NOT covered (by this file or by `Tuc.Props.Space2`): the allocator; the growth policy of `Vec`
(amortised doubling: capacity < 2 × peak length, ≥ the initial capacity; an entry of `fields` is 16
bytes, a `BoundOrFiller` 40-48 bytes plus, for fillers / fallbacks, a clone of a string of the
OPTION record — userboundslist.rs:171, 184-191); the `BufReader` / `BufWriter` of `main` (fixed
capacities; a complete record is lent as a slice of the `BufReader`'s buffer); the regex crate
(its caches, the `Captures`/`Matches` iterators); `serde_json::to_string`'s output `String` per
printed field (at most 6 × field + 2 bytes, freed at the end of the statement); the intermediate
per-bound `Vec`s inside `flat_map` (each at most as long as what it contributes); the stack.
-/

namespace Tuc
namespace Space2

open StreamLoop (fillBuf consume memchr totalBytes fuelFor)
open ReadLoops (Closure WhileOut whileFindByte stripSuffix trimRecordSlice)
open CutStrLit
open BoundsLit

/-! ## 1. the reader: bstr's `bytes` -/

/-- number of bytes held in `bytes: Vec<u8>` (io.rs:298; `buf` of `read_until`) -/
def bytesSpace (bytes : Bytes) : Nat := bytes.length

/-- `std::io::read_until` (mod.rs:2244-2270) = `ReadLoops.readUntilLoop` with the accumulator `peak`
    of `bytesSpace buf` -/
def readUntilLoopI (delim : UInt8) :
    Nat → List Bytes → Bytes → Nat → Nat → Outcome (Nat × Bytes × List Bytes) × Nat
  | 0, _, _, _, peak => (.hang, peak)
  | fuel + 1, r, buf, read, peak =>                                     -- 2246 loop {
    let available := fillBuf r                                          -- 2248 r.fill_buf()
    let m : Option (Bool × Nat × Bytes) :=                              -- (done, used, buf); none = panic
      match memchr delim available with                                 -- 2253
      | some i =>
        if i < available.length then
          some (true, i + 1, buf ++ available.take (i + 1))             -- 2255 buf.extend_from_slice(&available[..=i]); 2256
        else none
      | none => some (false, available.length, buf ++ available)        -- 2259-2260
    match m with
    | none => (.panic, peak)
    | some (done, used, buf) =>
      let peak := max peak (bytesSpace buf)                             -- ghost: after extend_from_slice
      let r := consume used r                                           -- 2264 r.consume(used)
      let read := read + used                                           -- 2265
      if done || used == 0 then (.ok (read, buf, r), peak)              -- 2266-2267 return Ok(read)
      else readUntilLoopI delim fuel r buf read peak                    -- 2269 }

/-- the `'outer` loop (io.rs:301-341) and l.342-343 = `ReadLoops.outerLoop`, with two more results:
    the state captured by the closure as the loop leaves it, and the accumulator `peak` of
    `bytesSpace bytes`.  (`whileFindByte`, io.rs:308-320, does not touch `bytes`: it is the frozen
    function.) -/
def outerLoopI {σ : Type} (terminator : UInt8) (forEachRecord : Closure σ) :
    Nat → List Bytes → Bytes → Nat → σ → Nat → Run × List Bytes × σ × Nat
  | 0, stdin, _, _, st, peak => (Run.hang, stdin, st, peak)
  | fuel + 1, stdin, bytes, consumed, st, peak =>                       -- 301 'outer: loop {
    let buf := fillBuf stdin                                            -- 304 let mut buf = self.fill_buf()?
    if buf.isEmpty then                                                 -- 305
      (Run.empty, consume consumed stdin, st, peak)                     -- 306 break; 342; 343 res
    else
      let w := whileFindByte terminator forEachRecord (buf.length + 1) buf consumed st   -- 308-320
      if w.breakOuter then
        (w.run, consume w.consumed stdin, w.st, peak)                   -- 313/316 break 'outer; 342; 343 res
      else
        let buf := w.buf
        let consumed := w.consumed
        let bytes := bytes ++ buf                                       -- 325 bytes.extend_from_slice(buf)
        let peak := max peak (bytesSpace bytes)                         -- ghost
        let consumed := consumed + buf.length                           -- 326
        let stdin := consume consumed stdin                             -- 329 self.consume(consumed)
        let consumed := 0                                               -- 330
        match readUntilLoopI terminator (totalBytes stdin + 1) stdin bytes 0 peak with   -- 336 self.read_until(terminator, &mut bytes)?
        | (.hang, peak) => (w.run.seq Run.hang, stdin, w.st, peak)
        | (.panic, peak) => (w.run.seq Run.panic, stdin, w.st, peak)
        | (.ok (_, bytes, stdin), peak) =>
          if bytes.isEmpty then                                         -- 337 bytes.is_empty() ||
            (w.run, consume consumed stdin, w.st, peak)                 -- 338 break; 342; 343 res
          else
            let c := forEachRecord bytes w.st                           -- 337 for_each_record(&bytes)?
            if c.1.status = .ok then
              if !c.2.1 then                                            -- 337 !…
                (w.run.seq c.1, consume consumed stdin, c.2.2, peak)    -- 338 break; 342; 343 res
              else
                let bytes : Bytes := TextLoops.clear bytes              -- 340 bytes.clear()
                let peak := max peak (bytesSpace bytes)                 -- ghost
                let l := outerLoopI terminator forEachRecord fuel stdin bytes consumed c.2.2 peak   -- 341 }
                ((w.run.seq c.1).seq l.1, l.2.1, l.2.2.1, l.2.2.2)
            else (w.run.seq c.1, stdin, c.2.2, peak)                    -- 337 `?`: return Err(..)

/-- `for_byte_record_with_terminator` (io.rs:289-344) = `ReadLoops.forByteRecordWithTerminatorLoop`;
    results: the run, the reader, the captured state afterwards, the peak of `bytesSpace bytes` -/
def forByteRecordWithTerminatorLoopI {σ : Type} (terminator : UInt8) (forEachRecord : Closure σ)
    (stdin : List Bytes) (st : σ) : Run × List Bytes × σ × Nat :=
  let bytes : Bytes := []                                               -- 298 let mut bytes = vec![]
  let peak : Nat := bytesSpace bytes                                    -- ghost
  let consumed := 0                                                     -- 300
  outerLoopI terminator forEachRecord (fuelFor stdin) stdin bytes consumed st peak   -- 301-343

/-- `for_byte_record` (io.rs:186-198) = `ReadLoops.forByteRecordLoop` -/
def forByteRecordLoopI {σ : Type} (terminator : UInt8) (forEachRecord : Closure σ)
    (stdin : List Bytes) (st : σ) : Run × List Bytes × σ × Nat :=
  forByteRecordWithTerminatorLoopI terminator                           -- 195
    (fun chunk st =>
      match trimRecordSlice chunk terminator with                       -- 196 trim_record_slice(chunk, terminator)
      | none => (Run.panic, false, st)
      | some record => forEachRecord record st)                         -- 196 for_each_record(…)
    stdin st

/-! ## 2. `cut_str`: the two scratch vectors and the per-record temporaries -/

/-- the ghost state of `cut_str` / of the closure of `read_and_cut_str`: the largest length seen of … -/
structure RecPeak where
  /-- … `fields: Vec<Range<usize>>` (entries) -/
  fields : Nat := 0
  /-- … `compressed_line_buf: Vec<u8>` (bytes) -/
  compressedLineBuf : Nat := 0
  /-- … `line_holder` (l.317-321; bytes) -/
  lineHolder : Nat := 0
  /-- … the list `bounds.complement(num_fields)` builds (l.373; entries) -/
  complemented : Nat := 0
  /-- … the list `bounds.unpack(num_fields)` builds (l.402; entries) -/
  unpacked : Nat := 0
  /-- … an owned `field_to_print` (l.425; bytes) -/
  fieldToPrint : Nat := 0
  deriving DecidableEq, Repr, Inhabited

/-- componentwise maximum -/
def RecPeak.sup (a b : RecPeak) : RecPeak :=
  { fields := max a.fields b.fields,
    compressedLineBuf := max a.compressedLineBuf b.compressedLineBuf,
    lineHolder := max a.lineHolder b.lineHolder,
    complemented := max a.complemented b.complemented,
    unpacked := max a.unpacked b.unpacked,
    fieldToPrint := max a.fieldToPrint b.fieldToPrint }

/-- `maybe_replace_delimiter(text, opt)` (cut_str.rs:149-163) = `maybeReplaceDelimiterLit`, and the
    number of bytes of the `Cow` when it is not `Cow::Borrowed(text)` (`replace_all` hands the text
    back borrowed when nothing matches; it is counted all the same) -/
def maybeReplaceDelimiterLitI (text : Bytes) (opt : Opt) : Bytes × Nat :=
  if opt.boundsType = .characters then                                 -- 150
    (text, 0)                                                          -- 151 Cow::Borrowed(text)
  else
    match opt.replaceDelimiter with                                    -- 152 if let Some(new_delimiter)
    | Option.some newDelimiter =>
      match opt.regexBag with                                          -- 153 if let Some(re_bag)
      | Option.some reBag =>
        let s := replaceMatches text newDelimiter 0 (reBag.normal text)   -- 154-156 .normal.replace_all(text, NoExpand(..))
        (s, s.length)                                                  -- ghost
      | Option.none =>
        let s := replaceAll text opt.delimiter newDelimiter            -- 158 text.replace(&opt.delimiter, new_delimiter)
        (s, s.length)                                                  -- ghost
    | Option.none => (text, 0)                                         -- 161 Cow::Borrowed(text)

/-- l.416-434 = `fieldToPrint`, and the bytes owned by `field_to_print` -/
def fieldToPrintI (line : Bytes) (fields : List Range) (numFields : Nat) (opt : Opt)
    (delimiterAlreadyReplaced : Bool) (b : UserBounds) : Res Bytes × Nat :=
  match resolve b numFields with                                       -- 416 let r = b.try_into_range(num_fields);
  | .panic => (.panic, 0)
  | .ok r =>                                                           -- 418-419
    match indexRange fields r.1 with                                   -- 420 fields[r.start]
    | .fail => (.fail, 0) | .panic => (.panic, 0)
    | .ok fStart =>
    let idxStart := fStart.start                                       -- 420 .start
    match usizeSub r.2 1 with                                          -- 421 r.end - 1
    | .fail => (.fail, 0) | .panic => (.panic, 0)
    | .ok rEndM1 =>
    match indexRange fields rEndM1 with                                -- 421 fields[..]
    | .fail => (.fail, 0) | .panic => (.panic, 0)
    | .ok fEnd =>
    let idxEnd := fEnd.stop                                            -- 421 .end
    match sliceBytes line idxStart idxEnd with                         -- 423 / 425 &line[idx_start..idx_end]
    | .fail => (.fail, 0) | .panic => (.panic, 0)
    | .ok s =>
    if delimiterAlreadyReplaced then                                   -- 422
      (.ok s, 0)                                                       -- 423 Cow::Borrowed(..)
    else
      let m := maybeReplaceDelimiterLitI s opt                         -- 425
      (.ok m.1, m.2)
  | .fail =>
    if b.fallback.isSome then                                          -- 427
      (unwrap b.fallback, 0)                                           -- 429 Cow::Borrowed(..)
    else
      match opt.fallbackOob with                                       -- 430
      | Option.some genericFallback => (.ok genericFallback, 0)        -- 431 Cow::Borrowed(..)
      | Option.none => (.fail, 0)                                      -- 433 return Err(r.unwrap_err())

/-- the closure (l.407-446) = `outputClosure`, and the bytes owned by its `field_to_print` -/
def outputClosureI (line : Bytes) (fields : List Range) (numFields : Nat) (opt : Opt)
    (delimiterAlreadyReplaced : Bool) (bof : BoF) : Run × Nat :=
  match bof with                                                       -- 408
  | .filler f =>                                                       -- 409
    ((Run.ok f).seq Run.empty, 0)                                      -- 410-411
  | .bound b =>                                                        -- 413
    let p := fieldToPrintI line fields numFields opt delimiterAlreadyReplaced b   -- 416-434
    (orStop p.1 fun fieldToPrint =>
      (writeMaybeAsJsonLit fieldToPrint opt.json).seq <|               -- 435
      (if opt.join && !b.isLast then                                   -- 437
        Run.ok (opt.replaceDelimiter.getD opt.delimiter)               -- 438-443
       else Run.empty).seq
      Run.empty,                                                       -- 446 Ok(())
     p.2)

/-- `bounds.iter().try_for_each(closure)` = `tryForEach`, and the largest owned `field_to_print` of
    the EXECUTED calls of the closure (all up to and including the first one that returns `Err`) -/
def tryForEachI (line : Bytes) (fields : List Range) (numFields : Nat) (opt : Opt)
    (delimiterAlreadyReplaced : Bool) : List BoF → Run × Nat
  | [] => (Run.empty, 0)
  | bof :: rest =>
    let c := outputClosureI line fields numFields opt delimiterAlreadyReplaced bof
    let r := tryForEachI line fields numFields opt delimiterAlreadyReplaced rest
    (c.1.seq r.1, if c.1.status = .ok then max c.2 r.2 else c.2)

/-- l.300-330 = `compressStage`, and the ghost of the two buffers it may fill -/
def compressStageI (line : Bytes) (opt : Opt) (compressedLineBuf : Bytes) : Res Locals × RecPeak :=
  let shouldBuildRangesUsingRegex := opt.regexBag.isSome && true       -- 303
  let delimiter := opt.delimiter                                       -- 305
  let shouldCompressDelimiter := opt.compressDelimiter                 -- 306-307
    && (opt.boundsType = .fields || opt.boundsType = .lines)
  let delimiterAlreadyReplaced := false                                -- 310
  if shouldCompressDelimiter then                                      -- 312
    if opt.regexBag.isSome && true then                                -- 313
      match unwrap opt.replaceDelimiter with                           -- 316
      | .fail => (.fail, {}) | .panic => (.panic, {})
      | .ok delimiter =>
      match unwrap opt.regexBag with                                   -- 319
      | .fail => (.fail, {}) | .panic => (.panic, {})
      | .ok bag =>
      let lineHolder := replaceMatches line delimiter 0 (bag.greedy line)   -- 317-321 compress_delimiter_with_regex
      (.ok { line := lineHolder,                                       -- 322 line = &line_holder
             delimiter := delimiter,
             shouldBuildRangesUsingRegex := false,                     -- 323
             delimiterAlreadyReplaced := true,                         -- 324
             compressedLineBuf := compressedLineBuf },
       { lineHolder := lineHolder.length })                            -- ghost
    else
      let compressedLineBuf :=
        compressDelimiter line opt.delimiter compressedLineBuf         -- 327 compress_delimiter(line, &opt.delimiter, buf)
      (.ok { line := compressedLineBuf,                                -- 328 line = compressed_line_buf
             delimiter := delimiter,
             shouldBuildRangesUsingRegex := shouldBuildRangesUsingRegex,
             delimiterAlreadyReplaced := delimiterAlreadyReplaced,
             compressedLineBuf := compressedLineBuf },
       { compressedLineBuf := compressedLineBuf.length })              -- ghost: cleared, then extended
  else
    (.ok { line := line, delimiter := delimiter,
           shouldBuildRangesUsingRegex := shouldBuildRangesUsingRegex,
           delimiterAlreadyReplaced := delimiterAlreadyReplaced,
           compressedLineBuf := compressedLineBuf },
     {})

/-- l.332-355 = `fieldsStage`, and the number of entries of `fields` after the split (before the
    pop / drain of l.353-354) -/
def fieldsStageI (loc : Locals) (opt : Opt) (fields : List Range) : Res (List Range) × RecPeak :=
  let filled : Res (List Range) :=
    if loc.shouldBuildRangesUsingRegex then                            -- 332
      (unwrap opt.regexBag).bind fun bag =>                            -- 338 / 340
      .ok (fillWithFieldsLocationsUsingRegex fields loc.line           -- 334-342
        ((if opt.greedyDelimiter then bag.greedy else bag.normal) loc.line))
    else if opt.greedyDelimiter then                                   -- 343
      .ok (fillWithFieldsLocationsGreedy fields loc.line loc.delimiter)   -- 344
    else
      .ok (fillWithFieldsLocations fields loc.line loc.delimiter)      -- 346
  match filled with
  | .fail => (.fail, {}) | .panic => (.panic, {})
  | .ok fields =>
    let g : RecPeak := { fields := fields.length }                     -- ghost: cleared, then pushed
    if opt.boundsType = .characters && decide (fields.length > 2) then -- 349
      let fields := fields.dropLast                                    -- 353 fields.pop()
      (drainTo fields 1, g)                                            -- 354 fields.drain(..1)
    else (.ok fields, g)

/-- l.357-455 = `emitStage`, and the ghost of the lists `complement` / `unpack` build and of the
    owned `field_to_print`s -/
def emitStageI (line : Bytes) (fields : List Range) (opt : Opt) (delimiterAlreadyReplaced : Bool)
    (eol : Bytes) : Run × RecPeak :=
  let numFields := fields.length                                       -- 357
  if opt.onlyDelimited && numFields == 1 then                          -- 359
    (Run.empty, {})                                                    -- 362 return Ok(())
  else
    let open_ : Run := if opt.json then Run.ok [0x5B] else Run.empty   -- 365-367 (a write of a fault-free writer: Ok)
    let bounds := opt.bounds                                           -- 370
    let g1 : RecPeak :=                                                -- ghost: the Vec of userboundslist.rs:176-195
      if opt.complement then { complemented := (bounds.list.flatMap (complementBof numFields)).length } else {}
    match (if opt.complement then                                      -- 372
             complementList bounds.list numFields                      -- 373 bounds.complement(num_fields)?
           else .ok bounds) with
    | .fail => (open_.seq Run.fail, g1)
    | .panic => (open_.seq Run.panic, g1)
    | .ok bounds =>
    if opt.complement && bounds.list.isEmpty then                      -- 376 bounds.is_empty()
      (open_.seq ((if !opt.onlyDelimited then Run.ok eol else Run.empty).seq   -- 378-380
        Run.empty), g1)                                                -- 381 return Ok(())
    else
      let doUnpack := (opt.json || (opt.boundsType = .characters && opt.replaceDelimiter.isSome))   -- 385
                  && bounds.list.any needsUnpack                       -- 391-401
      let g2 : RecPeak :=                                              -- ghost: the Vec of userboundslist.rs:160-173
        if doUnpack then { unpacked := (bounds.list.flatMap (unpackBof numFields)).length } else {}
      match (if doUnpack then
               unpackList bounds.list numFields                        -- 402 bounds.unpack(num_fields)
             else .ok bounds) with
      | .fail => (open_.seq Run.fail, g1.sup g2)
      | .panic => (open_.seq Run.panic, g1.sup g2)
      | .ok bounds =>
      let t := tryForEachI line fields numFields opt delimiterAlreadyReplaced bounds.list   -- 407-447
      (open_.seq (t.1.seq <|
        (if opt.json then Run.ok [0x5D] else Run.empty).seq <|         -- 449-451
        (Run.ok eol).seq                                               -- 453
        Run.empty),                                                    -- 455 Ok(())
       (g1.sup g2).sup { fieldToPrint := t.2 })

/-- `cut_str(line, opt, stdout, fields, compressed_line_buf, eol)` (cut_str.rs:260-456) = `cutStrLit`,
    with one more result: the peak of THIS call, the two vectors as they arrive included -/
def cutStrLitI (line : Bytes) (opt : Opt) (fields : List Range) (compressedLineBuf : Bytes)
    (eol : Bytes) : Run × List Range × Bytes × RecPeak :=
  let g0 : RecPeak :=                                                  -- ghost: the vectors as they arrive
    { fields := fields.length, compressedLineBuf := compressedLineBuf.length }
  if opt.regexBag.isSome && (opt.compressDelimiter && opt.replaceDelimiter.isNone) then   -- 268-269
    (Run.fail, fields, compressedLineBuf, g0)                          -- 271 bail!
  else if opt.regexBag.isSome && (opt.join && opt.replaceDelimiter.isNone) then   -- 268, 274
    (Run.fail, fields, compressedLineBuf, g0)                          -- 276 bail!
  else
    match trimStage line opt with                                      -- 280-291 (sub-slices)
    | .fail => (Run.fail, fields, compressedLineBuf, g0)
    | .panic => (Run.panic, fields, compressedLineBuf, g0)
    | .ok line =>
      if line.isEmpty then                                             -- 293
        ((if !opt.onlyDelimited then Run.ok eol else Run.empty).seq    -- 294-296
          Run.empty, fields, compressedLineBuf, g0)                    -- 297 return Ok(())
      else
        match compressStageI line opt compressedLineBuf with           -- 300-330
        | (.fail, g1) => (Run.fail, fields, compressedLineBuf, g0.sup g1)
        | (.panic, g1) => (Run.panic, fields, compressedLineBuf, g0.sup g1)
        | (.ok loc, g1) =>
          match fieldsStageI loc opt fields with                       -- 332-355
          | (.fail, g2) => (Run.fail, fields, compressedLineBuf, (g0.sup g1).sup g2)
          | (.panic, g2) => (Run.panic, fields, compressedLineBuf, (g0.sup g1).sup g2)
          | (.ok fields, g2) =>
            let e := emitStageI loc.line fields opt loc.delimiterAlreadyReplaced eol   -- 357-455
            (e.1, fields, loc.compressedLineBuf, ((g0.sup g1).sup g2).sup e.2)

/-! ## 3. `read_and_cut_str` -/

/-- the closure of l.472-485 / 486-499 = `WholeLit.cutStrLitClosure`; next to `bounds_as_ranges`
    and `compressed_line_buf` it carries the ghost accumulator -/
def cutStrLitClosureI (opt : Opt) : Closure ((List Range × Bytes) × RecPeak) := fun line st =>
  let line := (stripSuffix line [opt.eol.byte]).getD line               -- 473
  let r := cutStrLitI line opt st.1.1 st.1.2 [opt.eol.byte]             -- 474-481 cut_str(..)
  (r.1, true, ((r.2.1, r.2.2.1), st.2.sup r.2.2.2))                     -- 483-484; ghost

/-- the ghost state of `read_and_cut_str` -/
structure Peak where
  /-- bstr's `bytes` (bytes) -/
  bytes : Nat := 0
  /-- `cut_str`'s vectors and temporaries -/
  cut : RecPeak := {}
  deriving DecidableEq, Repr, Inhabited

/-- `read_and_cut_str(stdin, stdout, opt)` (cut_str.rs:458-503) = `WholeLit.readAndCutStrWhole` on a
    fault-free reader that hands out the chunks `stdin`, with the ghost state -/
def readAndCutStrWholeI (opt : Opt) (stdin : List Bytes) : Run × Peak :=
  -- 463 line_buf is only asked for its capacity
  let boundsAsRanges : List Range := []                                 -- 464
  let compressedLineBuf : Bytes := []                                   -- 465-469 (both arms: an empty Vec)
  let g : RecPeak :=                                                    -- ghost
    { fields := boundsAsRanges.length, compressedLineBuf := compressedLineBuf.length }
  -- 471 match opt.eol: the two arms have the same text
  let r := forByteRecordLoopI opt.eol.byte (cutStrLitClosureI opt) stdin   -- 472 / 486 stdin.for_byte_record(…)
             ((boundsAsRanges, compressedLineBuf), g)
  (r.1.seq Run.empty, { bytes := r.2.2.2, cut := r.2.2.1.2 })           -- 485 / 499 `?`; 502 Ok(())

end Space2
end Tuc
