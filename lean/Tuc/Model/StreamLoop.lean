import Tuc.Model.Stream
/-!
# Tuc.Model.StreamLoop — `cut_bytes_stream` of `src/stream.rs`, statement by statement

`Tuc.Model.Stream` abstracts the `-M` engine to a machine over *tagged bytes*.  This file is the
other end of the bridge: a **literal** transcription of the Rust function, loop by loop and
statement by statement (the numbers in the comments are the lines of `/repo/src/stream.rs`).
`Tuc.Props.StreamLoop` proves that the two agree — bytes written and status — on every input,
every segmentation into non-empty reads and every option record without negative indexes (so on
everything `StreamOpt::try_from` accepts).

Conventions
* the reader (`stdin: &mut R`, `R: BufRead`) is the list `stdin : List Bytes` of the chunks that
  the successive `fill_buf()` calls still have to hand out: `fillBuf` returns the head (without
  removing anything), `consume n` removes `n` bytes from the head and drops the head once it is
  used up — exactly `SegReader` of `/verif/harness/src/main.rs` (and `BufReader`); an empty chunk
  (only the empty list, under the hypothesis of the theorem) is EOF.  Read faults are outside
  this model (as they are outside `cutBytesStream`).
* the local variables keep their Rust names (camelCase) and live in one record `Vars`;
* a statement that writes returns the `Run` of what it wrote (status `fail` = an `Err` that a
  `?` propagates, `panic` = a Rust panic) *and* the variables after it; `a.seq b` is "`a`, then —
  unless `a` ended the run — `b`", i.e. the `?` operator;
* `print_bof` (and `print_field` inside it) is the definition of `Tuc.Model.Stream`, called here
  through a wrapper that has the *Rust* signature (chunk plus two indexes; `bof_idx` in,
  `bof_idx` out); `print_filler_or_fallbacks` is re-modelled (`printFillerOrFallbacksLit`)
  because the existing definition departs from the Rust text in the evaluation order of l.255;
* every index / slice of the Rust text is a *checked* operation here (`panic` if out of range);
* the two nested `loop`/`while` become ONE function `newChunk` that takes fuel: an iteration of
  `'new_chunk` costs one unit, leaving `'new_chunk` and starting the next iteration of
  `'new_line` costs one unit; running out of fuel is `Run.hang`.  `Tuc.Props.StreamLoop` proves
  that `2 · bytes + 2` is always enough (`newChunk_eq`, any larger amount gives the same run).
-/

namespace Tuc
namespace StreamLoop

/-! ## the reader -/

/-- `stdin.fill_buf()?` on a fault-free reader: the unconsumed part of the current chunk, `[]` at EOF -/
def fillBuf (stdin : List Bytes) : Bytes :=
  match stdin with
  | [] => []
  | chunk :: _ => chunk

/-- `stdin.consume(amt)` (`SegReader`: `pos = (pos + amt).min(seg_end)`; the next `fill_buf`
    refills when `pos >= seg_end`) -/
def consume (amt : Nat) (stdin : List Bytes) : List Bytes :=
  match stdin with
  | [] => []
  | chunk :: more => if amt < chunk.length then chunk.drop amt :: more else more

/-! ## memchr -/

/-- `memchr::memchr2_iter(n1, n2, haystack)`: the positions of the bytes equal to `n1` or `n2`,
    ascending; `i` is the position of the head of the haystack -/
def memchr2IterFrom (n1 n2 : UInt8) : Nat → Bytes → List Nat
  | _, [] => []
  | i, c :: t =>
    if c = n1 ∨ c = n2 then i :: memchr2IterFrom n1 n2 (i + 1) t else memchr2IterFrom n1 n2 (i + 1) t

def memchr2Iter (n1 n2 : UInt8) (haystack : Bytes) : List Nat := memchr2IterFrom n1 n2 0 haystack

/-- `memchr::memchr(needle, haystack)`: the first position of `needle` -/
def memchr (needle : UInt8) : Bytes → Option Nat
  | [] => none
  | c :: t => if c = needle then Option.some 0 else (memchr needle t).map (· + 1)

/-! ## the calls of the helper functions, with their Rust signatures -/

/-- `print_bof(stdout, opt, bof_idx, curr_field, chunk, prev_chunk_idx, chunk_idx,
    prev_chunk_may_be_truncated, field_complete)?` (stream.rs:187-233): what is written, and the
    `bof_idx` returned.  The slice `&chunk[prev_chunk_idx..chunk_idx]` (l.217) is checked (and
    checked even when the Rust code would not evaluate it, which can only add panics). -/
def printBofCall (o : StreamOpt) (bofIdx : Nat) (currField : Int) (chunk : Bytes)
    (prevChunkIdx chunkIdx : Nat) (prevChunkMayBeTruncated fieldComplete : Bool) : Run × Nat :=
  if prevChunkIdx ≤ chunkIdx ∧ chunkIdx ≤ chunk.length then
    match printBof o bofIdx currField prevChunkMayBeTruncated (slice chunk prevChunkIdx chunkIdx)
        fieldComplete with
    | none => (Run.panic, bofIdx)                    -- l.208 `.unwrap()`
    | Option.some (w, bofIdx') => (Run.ok w, bofIdx')  -- l.232 `Ok(bof_idx)`
  else (Run.panic, bofIdx)

/-- `print_filler_or_fallbacks` (stream.rs:240-276) over `opt.bounds[bof_idx.min(len)..]`,
    re-modelled because the Rust text differs from `printFillerOrFallbacks` of `Tuc.Model.Stream`
    in one place: l.255 is `b.r == Side::Continue && b.matches(num_fields).unwrap()`, and `&&`
    does not evaluate `matches` for a bound whose right side is closed, so the `unwrap()` cannot
    panic there (the existing definition evaluates `matches` for every bound).  The two agree
    whenever `matches` is not an `Err`, in particular for a field number ≥ 1 when no side is
    negative (`Tuc.Props.StreamLoop.printFillerOrFallbacksLit_eq`). -/
def printFillerOrFallbacksLit (o : StreamOpt) (numFields : Int) : List BoF → Run
  | [] => Run.empty
  | .filler f :: t => (Run.ok f).seq (printFillerOrFallbacksLit o numFields t)     -- l.248-251
  | .bound b :: t =>
    -- l.255: `none` = the `unwrap()` panicked
    let reached : Option Bool := if b.r = .cont then b.matches numFields else Option.some false
    match reached with
    | none => Run.panic
    | Option.some true => printFillerOrFallbacksLit o numFields t                  -- l.257 continue
    | Option.some false =>
      let joiner : Bytes := if o.join && !b.isLast then [o.joiner] else []         -- l.270-272
      match b.fallback with                                                        -- l.260
      | Option.some f => (Run.ok (f ++ joiner)).seq (printFillerOrFallbacksLit o numFields t)
      | none =>
        match o.fallbackOob with                                                   -- l.262
        | Option.some f => (Run.ok (f ++ joiner)).seq (printFillerOrFallbacksLit o numFields t)
        | none => Run.fail                                                         -- l.265 bail!

/-- `print_filler_or_fallbacks(stdout, bof_idx, opt, num_fields)?`: the loop over
    `opt.bounds[bof_idx.min(opt.bounds.len())..]` (l.246), `Ok(opt.bounds.len())` (l.275) -/
def printFillerOrFallbacksCall (o : StreamOpt) (bofIdx : Nat) (numFields : Int) : Run × Nat :=
  (printFillerOrFallbacksLit o numFields (o.bounds.drop (min bofIdx o.bounds.length)), o.bounds.length)

/-! ## the local variables -/

/-- the `let mut` variables of `cut_bytes_stream`, with the values they are declared with -/
structure Vars where
  /-- l.285, declared outside `'new_line` -/
  eof : Bool := false
  /-- l.288 -/
  bofIdx : Nat := 0
  /-- l.289 -/
  currField : Int := 1
  /-- l.290 -/
  prevChunkMayBeTruncated : Bool := false
  /-- l.291 -/
  eolReached : Bool := false
  /-- l.292 -/
  emptyLine : Bool := true
  /-- l.307, declared inside `'new_chunk` -/
  chunkPartStartIdx : Nat := 0
  /-- l.308, declared inside `'new_chunk` -/
  bytesToConsume : Nat := 0
  deriving DecidableEq, Repr, Inhabited

/-- l.288-292: the top of the body of `'new_line` (`eof` survives the iterations) -/
def newLineVars (eof : Bool) : Vars := { eof := eof }

/-! ## `for chunk_idx in memchr::memchr2_iter(opt.delimiter, eol, chunk)` (l.311-365) -/

/-- the body of the `for` loop for one `chunk_idx`: what is written, the variables, and whether
    the loop is left (`break`, or a `?` that ended the run) -/
def forBody (o : StreamOpt) (chunk : Bytes) (chunkIdx : Nat) (v : Vars) : Run × Vars × Bool :=
  match chunk[chunkIdx]? with
  | none => (Run.panic, v, true)                                    -- l.312 `chunk[chunk_idx]`
  | Option.some c =>
    let v := { v with eolReached := c == o.eol.byte }               -- l.312
    let v := { v with bytesToConsume := chunkIdx + 1 }              -- l.313
    if v.eolReached && v.currField == 1 && !v.prevChunkMayBeTruncated
        && v.chunkPartStartIdx == chunkIdx then                     -- l.315-318
      -- empty record
      (Run.ok [o.eol.byte], v, true)                                -- l.321 write_all, l.322 break
    else
      -- l.326-336 Handle field content before delimiter/EOL
      let p := printBofCall o v.bofIdx v.currField chunk v.chunkPartStartIdx chunkIdx
                 v.prevChunkMayBeTruncated true
      let v := { v with bofIdx := p.2 }
      let v := { v with prevChunkMayBeTruncated := false }          -- l.338
      let v := { v with chunkPartStartIdx := chunkIdx + 1 }         -- l.340
      if v.eolReached then                                          -- l.343 EOL handling
        let f := printFillerOrFallbacksCall o v.bofIdx v.currField  -- l.344
        let v := { v with bofIdx := f.2 }
        (p.1.seq (f.1.seq (Run.ok [o.eol.byte])), v, true)          -- l.345 write_all, l.346 break
      else if Side.some v.currField = o.lastInterestingField then   -- l.350
        let f := printFillerOrFallbacksCall o v.bofIdx v.currField  -- l.352
        let v := { v with bofIdx := f.2 }
        -- l.355 Attempt to skip to EOL
        match memchr o.eol.byte (chunk.drop v.bytesToConsume) with
        | Option.some eolIdx =>
          let v := { v with bytesToConsume := v.bytesToConsume + eolIdx + 1 }   -- l.356
          let v := { v with eolReached := true }                    -- l.357
          (p.1.seq (f.1.seq (Run.ok [o.eol.byte])), v, true)        -- l.358 write_all, l.361 break
        | none => (p.1.seq f.1, v, true)                            -- l.361 break
      else
        let v := { v with currField := v.currField + 1 }            -- l.364
        (p.1, v, false)

/-- the `for` loop over the positions the iterator still has to yield -/
def forLoop (o : StreamOpt) (chunk : Bytes) : List Nat → Vars → Run × Vars
  | [], v => (Run.empty, v)
  | chunkIdx :: iter, v =>
    let b := forBody o chunk chunkIdx v
    if b.2.2 then (b.1, b.2.1)
    else
      let l := forLoop o chunk iter b.2.1
      (b.1.seq l.1, l.2)

/-! ## "Handle remaining data in chunk" (l.367-388) -/

def remainingData (o : StreamOpt) (chunk : Bytes) (v : Vars) : Run × Vars :=
  if !v.eolReached then                                             -- l.368
    let chunkHasUnusedContent := decide (chunk.length > v.bytesToConsume)   -- l.369
    if chunkHasUnusedContent then                                   -- l.371
      -- l.373-383 Process potential partial field
      let p := printBofCall o v.bofIdx v.currField chunk v.chunkPartStartIdx chunk.length
                 v.prevChunkMayBeTruncated false
      let v := { v with bofIdx := p.2 }
      let v := { v with prevChunkMayBeTruncated := true }           -- l.384
      let v := { v with bytesToConsume := chunk.length }            -- l.387
      (p.1, v)
    else
      let v := { v with bytesToConsume := chunk.length }            -- l.387
      (Run.empty, v)
  else (Run.empty, v)

/-! ## the body of `'new_chunk` for a non-empty chunk (l.305-388) -/

def chunkBody (o : StreamOpt) (chunk : Bytes) (v : Vars) : Run × Vars :=
  let v := { v with emptyLine := false }                            -- l.305
  let v := { v with chunkPartStartIdx := 0 }                        -- l.307
  let v := { v with bytesToConsume := 0 }                           -- l.308
  -- l.311 Process chunk looking for delimiters or EOL
  let l := forLoop o chunk (memchr2Iter o.delimiter o.eol.byte chunk) v
  let m := remainingData o chunk l.2                                -- l.367
  (l.1.seq m.1, m.2)

/-! ## one turn of `'new_chunk: while !eol_reached && !eof` (l.294-393) -/

inductive WhileStep where
  /-- the body ran to its end (l.390): what it wrote, the reader and the variables -/
  | again (r : Run) (stdin : List Bytes) (v : Vars)
  /-- the loop is left: the condition is false (l.294) or `break 'new_chunk` (l.302) -/
  | leave (v : Vars)
  deriving Repr

def whileStep (o : StreamOpt) (stdin : List Bytes) (v : Vars) : WhileStep :=
  if !v.eolReached && !v.eof then                                   -- l.294
    let chunk := fillBuf stdin                                      -- l.295
    if chunk.isEmpty then                                           -- l.297
      let v := { v with eof := true }                               -- l.298
      let v := if v.emptyLine then { v with eolReached := true } else v   -- l.299-301
      .leave v                                                      -- l.302 break 'new_chunk
    else
      let b := chunkBody o chunk v                                  -- l.305-388
      .again b.1 (consume b.2.bytesToConsume stdin) b.2             -- l.390 stdin.consume(bytes_to_consume)
  else .leave v

/-! ## after `'new_chunk` (l.395-417) -/

/-- what is written, and whether `'new_line` is left (`break 'new_line`) -/
def afterNewChunk (o : StreamOpt) (v : Vars) : Run × Bool :=
  if v.eof && !v.eolReached then                                    -- l.396 Handle EOF at end of line
    -- l.398-408 the last field ends here: `print_bof(…, &[], 0, 0, …, true)`
    let p := printBofCall o v.bofIdx v.currField [] 0 0 v.prevChunkMayBeTruncated true
    let f := printFillerOrFallbacksCall o p.2 v.currField           -- l.409
    (p.1.seq (f.1.seq (Run.ok [o.eol.byte])), true)                 -- l.410 write_all, l.411 break 'new_line
  else if v.eof then (Run.empty, true)                              -- l.415-416 break 'new_line
  else (Run.empty, false)                                           -- l.418 next iteration of 'new_line

/-! ## the two loops (l.287-418) -/

/-- `'new_chunk` from its condition (l.294) on, followed by the rest of `'new_line` and by the
    next iterations of `'new_line` -/
def newChunk (o : StreamOpt) : Nat → List Bytes → Vars → Run
  | 0, _, _ => Run.hang
  | fuel + 1, stdin, v =>
    match whileStep o stdin v with
    | .again r stdin' v' => r.seq (newChunk o fuel stdin' v')       -- l.393 → l.294
    | .leave v' =>
      let a := afterNewChunk o v'                                   -- l.395-417
      if a.2 then a.1                                               -- l.420 `Ok(())`
      else a.1.seq (newChunk o fuel stdin (newLineVars v'.eof))     -- l.287-292 → l.294

/-- number of bytes the reader still has to deliver -/
def totalBytes : List Bytes → Nat
  | [] => 0
  | chunk :: more => chunk.length + totalBytes more

/-- enough fuel for `newChunk` (`Tuc.Props.StreamLoop.newChunk_eq`) -/
def fuelFor (stdin : List Bytes) : Nat := 2 * totalBytes stdin + 2

/-- `cut_bytes_stream(stdin, stdout, opt, last_interesting_field)` (stream.rs:278-421); the
    fourth argument is the field `o.lastInterestingField` of the model's `StreamOpt` -/
def cutBytesStreamLoop (o : StreamOpt) (segs : List Bytes) : Run :=
  newChunk o (fuelFor segs) segs (newLineVars false)               -- l.284-287

/-! ## `read_and_cut_bytes_stream` (l.161-169) -/

/-- `last_bound_idx` as `ForwardBounds::try_from` computes it (l.46-54): the index of the last
    `BoundOrFiller::Bound`, looking from the end -/
def lastBoundIdx (list : List BoF) : Option Nat :=
  (list.zipIdx.reverse.find? fun (bof, _) => match bof with | .bound _ => true | .filler _ => false).map
    (·.2)

/-- `ForwardBounds::get_last_bound` (l.91-97); `none` = the `panic!` of l.95 -/
def getLastBound (list : List BoF) : Option UserBounds :=
  match lastBoundIdx list with
  | none => none
  | Option.some idx =>
    match list[idx]? with
    | Option.some (.bound b) => Option.some b
    | _ => none

/-- `read_and_cut_bytes_stream(stdin, stdout, opt)`: `last_interesting_field` is recomputed from
    the bounds (the value stored in the model's `StreamOpt` is ignored) -/
def readAndCutBytesStreamLoop (o : StreamOpt) (segs : List Bytes) : Run :=
  match getLastBound o.bounds with
  | none => Run.panic                                               -- l.95
  | Option.some b =>
    cutBytesStreamLoop { o with lastInterestingField := b.r } segs  -- l.166-168

end StreamLoop
end Tuc
