import Tuc.Model.CutStr
/-!
# Tuc.Model.Lines — model of `src/cut_lines.rs` and `src/cut_bytes.rs`
-/

namespace Tuc

/-- the EOL written after a bound or filler that is not the last element of the list
    (`if opt.join && bounds_idx != opt.bounds.len()`) -/
def lineJoiner (o : Opt) (rest : List BoF) : Bytes :=
  if o.join && !rest.isEmpty then [o.eol.byte] else []

/-- The `while bounds_idx < opt.bounds.len()` loop for one line (cut_lines.rs:30-70).
    The pending part of the bounds list stands for `bounds_idx`.
    Returns what is written, what is still pending, and `add_newline_next`. -/
def fwdLine (o : Opt) (line : Bytes) (lineIdx : Int) : List BoF → Bool → Bytes × List BoF × Bool
  | [], addNl => ([], [], addNl)
  | .filler f :: t, addNl =>
    let (w, r, a) := fwdLine o line lineIdx t addNl
    (f ++ lineJoiner o t ++ w, r, a)
  | .bound b :: t, addNl =>
    if (b.matches lineIdx).getD false then
      let w := (if addNl then [o.eol.byte] else []) ++ line
      if b.r = .some lineIdx then
        let (w', r, a) := fwdLine o line lineIdx t false
        (w ++ lineJoiner o t ++ w', r, a)
      else (w, .bound b :: t, true)
    else ([], .bound b :: t, addNl)

/-- what is left when the input ends (cut_lines.rs, after the read loop) -/
def fwdEnd (o : Opt) : List BoF → Bool → Run
  | [], _ => Run.ok [o.eol.byte]
  | .filler f :: t, a => Run.pre (f ++ lineJoiner o t) (fwdEnd o t a)
  | .bound b :: t, a =>
    if a then
      -- some lines of this bound were printed already
      if b.r ≠ .cont then Run.fail else Run.pre (lineJoiner o t) (fwdEnd o t false)
    else
      match b.fallback with
      | some f => Run.pre (f ++ lineJoiner o t) (fwdEnd o t false)
      | none =>
        match o.fallbackOob with
        | some f => Run.pre (f ++ lineJoiner o t) (fwdEnd o t false)
        | none => Run.fail

/-- the read loop of `cut_lines_forward_only`; the line reader insists on UTF-8 (both EOLs) -/
def fwdLines (o : Opt) : List Bytes → Int → List BoF → Bool → Run
  | [], _, rest, addNl => fwdEnd o rest addNl
  | line :: t, idx, rest, addNl =>
    if !validUtf8 line then Run.fail
    else
      let (w, rest', a) := fwdLine o line (idx + 1) rest addNl
      if rest'.isEmpty then Run.ok (w ++ [o.eol.byte])
      else Run.pre w (fwdLines o t (idx + 1) rest' a)

/-- `cut_lines_forward_only` (cut_lines.rs:10) -/
def cutLinesForwardOnly (o : Opt) (input : Bytes) : Run :=
  fwdLines o (records o.eol.byte input) 0 o.bounds.list false

/-- `strip_suffix(eol)` -/
def stripEol (eol : UInt8) (l : Bytes) : Bytes :=
  match l.getLast? with
  | some c => if c = eol then l.dropLast else l
  | none => l

/-- `cut_lines` (cut_lines.rs:90): the whole input, minus one trailing EOL, is one record -/
def cutLines (o : Opt) (input : Bytes) : Run :=
  if !validUtf8 input then Run.fail
  else (cutStr (stripEol o.eol.byte input) o [] [] [o.eol.byte]).1

/-- `read_and_cut_lines` (cut_lines.rs:112) -/
def readAndCutLines (o : Opt) (input : Bytes) : Run :=
  if !o.complement && !o.compressDelimiter && isForwardOnly o.bounds.list then
    cutLinesForwardOnly o input
  else cutLines o input

/-- the loop of `cut_bytes` (cut_bytes.rs:8) -/
def cutBytesLoop (data : Bytes) (o : Opt) : List BoF → Run
  | [] => Run.empty
  | .filler f :: t => Run.pre f (cutBytesLoop data o t)
  | .bound b :: t =>
    match b.tryIntoRange data.length with
    | some (s, e) =>
      if s ≤ e ∧ e ≤ data.length then Run.pre (slice data s e) (cutBytesLoop data o t) else Run.panic
    | none =>
      match b.fallback with
      | some f => Run.pre f (cutBytesLoop data o t)
      | none =>
        match o.fallbackOob with
        | some f => Run.pre f (cutBytesLoop data o t)
        | none => Run.fail

/-- `read_and_cut_bytes` (cut_bytes.rs:29) on a fault-free reader -/
def readAndCutBytes (o : Opt) (data : Bytes) : Run :=
  if data.isEmpty then Run.empty else cutBytesLoop data o o.bounds.list

end Tuc
