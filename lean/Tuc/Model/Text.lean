import Tuc.Model.Basic
/-!
# Tuc.Model.Text — byte-string primitives used by the engines

Models of the `bstr`/`memchr` operations the code relies on (`find_iter`, `find`, `replace`,
`starts_with`/`ends_with` loops, `for_byte_record`) and of the small helpers of `cut_str.rs`
(`fill_with_fields_locations[_greedy]`, `compress_delimiter`, `trim`).

Scanning functions are written as structural recursions over the haystack with a *skip counter*
(how many bytes of the last match are still to be stepped over), which is what "leftmost,
non-overlapping" means operationally and needs neither fuel nor well-founded recursion.
-/

namespace Tuc

/-- `std::ops::Range<usize>` -/
structure Range where
  start : Nat
  stop : Nat
  deriving DecidableEq, Repr, Inhabited

/-- `haystack.find_iter(needle)` (bstr): offsets of the leftmost non-overlapping occurrences.
    For the empty needle bstr reports every position `0..=len`. -/
def findIterAux (d : Bytes) : Nat → Nat → Bytes → List Nat
  | _, pos, [] => if d.isEmpty then [pos] else []
  | skip + 1, pos, _ :: t => findIterAux d skip (pos + 1) t
  | 0, pos, c :: t =>
    if d.isPrefixOf (c :: t) then pos :: findIterAux d (d.length - 1) (pos + 1) t
    else findIterAux d 0 (pos + 1) t

def findIter (d line : Bytes) : List Nat := findIterAux d 0 0 line

/-- ranges between successive matches: the `for idx in find_iter` loop of
    `fill_with_fields_locations` -/
def rangesBetween (dlen lineLen : Nat) : Nat → List Nat → List Range
  | prev, [] => [⟨prev, lineLen⟩]
  | prev, idx :: t => ⟨prev, idx⟩ :: rangesBetween dlen lineLen (idx + dlen) t

/-- `fill_with_fields_locations` (cut_str.rs:19).  The incoming buffer is cleared first. -/
def fillWithFieldsLocations (_buffer : List Range) (line d : Bytes) : List Range :=
  if line.isEmpty then [] else rangesBetween d.length line.length 0 (findIter d line)

/-- the greedy loop in normal form: a match that starts exactly where the previous match ended
    extends the current separator instead of closing an (empty) field -/
def rangesBetweenGreedy (dlen lineLen : Nat) : Bool → Nat → List Nat → List Range
  | _, prev, [] => [⟨prev, lineLen⟩]
  | afterMatch, prev, idx :: t =>
    if afterMatch ∧ idx = prev then rangesBetweenGreedy dlen lineLen true (idx + dlen) t
    else ⟨prev, idx⟩ :: rangesBetweenGreedy dlen lineLen true (idx + dlen) t

/-- `fill_with_fields_locations_greedy` (cut_str.rs:50).  A run of empty delimiters is an empty
    delimiter: the empty delimiter is handed to the plain splitter. -/
def fillWithFieldsLocationsGreedy (buffer : List Range) (line d : Bytes) : List Range :=
  if d.isEmpty then fillWithFieldsLocations buffer line d
  else if line.isEmpty then []
  else rangesBetweenGreedy d.length line.length false 0 (findIter d line)

/-- ranges between regex matches: `fill_with_fields_locations_using_regex` (cut_str.rs:87) -/
def rangesBetweenMatches (lineLen : Nat) : Nat → List (Nat × Nat) → List Range
  | prev, [] => [⟨prev, lineLen⟩]
  | prev, (s, e) :: t => ⟨prev, s⟩ :: rangesBetweenMatches lineLen e t

def fillWithFieldsLocationsUsingRegex (_buffer : List Range) (line : Bytes)
    (ms : List (Nat × Nat)) : List Range :=
  if line.isEmpty then [] else rangesBetweenMatches line.length 0 ms

/-- the loop of `compress_delimiter` (cut_str.rs:111) -/
def compressAux (line d : Bytes) : Nat → List Nat → Bytes
  | prev, [] => if prev < line.length then line.drop prev else []
  | prev, idx :: t =>
    let prevPart := slice line prev idx
    (if idx = 0 then d else if !prevPart.isEmpty then prevPart ++ d else []) ++
      compressAux line d (idx + d.length) t

/-- `compress_delimiter`.  The output buffer is cleared first. -/
def compressDelimiter (line d : Bytes) (_output : Bytes) : Bytes :=
  compressAux line d 0 (findIter d line)

/-- replace every match `(s,e)` by `r`: `Regex::replace_all` with `NoExpand`, and the loop of
    bstr's `replace` -/
def replaceMatches (text r : Bytes) : Nat → List (Nat × Nat) → Bytes
  | prev, [] => text.drop prev
  | prev, (s, e) :: t => slice text prev s ++ r ++ replaceMatches text r e t

/-- `text.replace(needle, with)` (bstr): every leftmost non-overlapping occurrence -/
def replaceAll (text d r : Bytes) : Bytes :=
  replaceMatches text r 0 ((findIter d text).map fun i => (i, i + d.length))

/-- `while buffer[idx..].starts_with(delimiter) { idx += delimiter.len() }` for `d ≠ []` -/
def trimStartFuel (d : Bytes) : Nat → Bytes → Bytes
  | 0, l => l
  | f + 1, l => if d.isPrefixOf l then trimStartFuel d f (l.drop d.length) else l

def trimStart (d l : Bytes) : Bytes := trimStartFuel d l.length l

/-- `while buffer[..r_idx].ends_with(delimiter) { r_idx -= delimiter.len() }` -/
def trimEnd (d l : Bytes) : Bytes := (trimStart d.reverse l.reverse).reverse

inductive TrimKind where
  | left | right | both
  deriving DecidableEq, Repr, Inhabited

/-- `trim` (cut_str.rs:168).  An empty delimiter trims nothing. -/
def trimLiteral (buffer : Bytes) (k : TrimKind) (d : Bytes) : Bytes :=
  if d.isEmpty then buffer
  else
    match k with
    | .both => trimEnd d (trimStart d buffer)
    | .left => trimStart d buffer
    | .right => trimEnd d buffer

/-- `trim_regex` (cut_str.rs:206): `ms` are the matches of the greedy regex over `line`.  Only a
    match touching the chosen end is removed. -/
def trimRegex (line : Bytes) (k : TrimKind) (ms : List (Nat × Nat)) : Bytes :=
  let idxStart : Nat :=
    if k = .both ∨ k = .left then
      match ms.head? with
      | some (s, e) => if s = 0 then e else 0
      | none => 0
    else 0
  let idxEnd : Nat :=
    if k = .both ∨ k = .right then
      match ms.getLast? with
      | some (s, e) => if e = line.length then max s idxStart else line.length
      | none => line.length
    else line.length
  slice line idxStart idxEnd

/-- `for_byte_record(eol, …)` followed by `strip_suffix(eol)`: the records of the input, without
    their terminator; a final unterminated non-empty piece is a record. -/
def splitRecords (eol : UInt8) : Bytes → Bytes → List Bytes
  | cur, [] => if cur.isEmpty then [] else [cur.reverse]
  | cur, c :: t => if c = eol then cur.reverse :: splitRecords eol [] t else splitRecords eol (c :: cur) t

def records (eol : UInt8) (input : Bytes) : List Bytes := splitRecords eol [] input

end Tuc
