import Tuc.Model.CutStr
import Tuc.Model.BoundsLit
/-!
# Tuc.Model.CutStrLit — the body of `cut_str` (`src/cut_str.rs:260-456`), statement by statement

`Tuc.Model.CutStr` models the per-record function of the general engine in *normal form* (a
pipeline of passes; the two scratch buffers come back as `Option`s; the places that can panic are
folded into one test).  This file follows the Rust text of

* `maybe_replace_delimiter`  (cut_str.rs:149-163)  → `maybeReplaceDelimiterLit`
* `write_maybe_as_json!`     (cut_str.rs:247-258)  → `writeMaybeAsJsonLit`
* `cut_str`                  (cut_str.rs:260-456)  → `cutStrLit`
    - l.280-291 `trimStage`, l.300-330 `compressStage`, l.332-355 `fieldsStage`,
      l.357-455 `emitStage`, the closure of `try_for_each` l.407-446 `outputClosure`

statement by statement (the numbers in the comments are the lines of `cut_str.rs` at commit
9782769 of `/repo`).  `Tuc.Props.CutStrLit` proves that `cutStrLit = cutStr` (bytes written,
status, and the two buffers as the function leaves them) and states the hypotheses.

Conventions (those of `Tuc.Model.LinesLoop` / `Tuc.Model.FastLoop` / `Tuc.Model.BoundsLit`)

* local variables keep their Rust names (camelCase); a `let mut` that is assigned again is a
  shadowing `let` or a field of `Locals` (what l.300-330 leave behind);
* `stdout: &mut W` is a fault-free writer: a statement that writes yields the `Run` of what it
  wrote; `a.seq b` is "`a`, then — unless `a` ended the run — `b`" (the `?` operator); `Err` is
  `Run.fail`, a Rust panic is `Run.panic`;
* the two scratch buffers `fields: &mut Vec<Range<usize>>` and `compressed_line_buf: &mut Vec<u8>`
  are threaded: the function takes them as the previous record left them and returns them as it
  leaves them.  After a panic their content is of no interest (the process is gone): the model
  returns them as they were on entry;
* every operation that can panic is CHECKED and yields `Res.panic`: `option.unwrap()`
  (`unwrap`: l.286, 316, 319, 338, 340, 429), `fields[i]` (`indexRange`: l.420, 421), `r.end - 1` on `usize`
  (`BoundsLit.usizeSub`, l.421), `&line[a..b]` (`sliceBytes`: l.423, 425), `fields.drain(..1)`
  (`drainTo`, l.354);
* **`b.try_into_range(num_fields)`** (l.416) is the MACHINE-INTEGER transcription
  `BoundsLit.UserBoundsL.tryIntoRange` of `Tuc.Model.BoundsLit` (`resolve`): `num_fields =
  fields.len()` goes through `parts_length as i32`, the sums are checked.  The bounds of `Opt` are the
  model's (`Int` sides); `resolve` stores them in `i32`s first (`boundsOfModel`: faithful exactly
  when the sides fit, which parsing guarantees).  A `Res.panic` of `try_into_range` (the overflow of
  `-parts_length`) is a panic of `cut_str`;
* callees that have their own statement-level models are called through the existing model:
  `trim` → `trimLiteral`, `fill_with_fields_locations[_greedy]` → `fillWithFieldsLocations[Greedy]`,
  `compress_delimiter` → `compressDelimiter` (all four tied to the Rust text by
  `Tuc.Props.TextLoops`), `trim_regex` → `trimRegex`, `fill_with_fields_locations_using_regex`
  → `fillWithFieldsLocationsUsingRegex`, `UserBoundsList::complement` / `unpack` →
  `complementList` / `unpackList` (`Tuc.Model.Bounds`; per bound they are tied to the Rust
  arithmetic by `BoundsLit.complement_eq` / `unpack_eq`);
* library calls are modelled by what they compute: `Regex::find_iter` is the function stored in
  `RegexBag` (the project's abstraction of a compiled regex), `Regex::replace_all(text,
  NoExpand(r))` and `compress_delimiter_with_regex` are `replaceMatches text r 0 (re text)`,
  bstr's `text.replace(d, r)` is `replaceAll`, `std::str::from_utf8` is `validUtf8`,
  `serde_json::to_string` is `jsonString`, `Vec::pop` is `List.dropLast`;
* `cfg!(feature = "regex")` is `true` (the build the project verifies).
-/

namespace Tuc
namespace CutStrLit
open BoundsLit

/-! ## the vocabulary of the Rust text -/

/-- `option.unwrap()` / `option.as_ref().unwrap()` -/
def unwrap {α : Type} (o : Option α) : Res α :=
  match o with
  | Option.some a => .ok a
  | Option.none => .panic

/-- `v[i]` on a `Vec<Range<usize>>`: panics when `i >= v.len()` -/
def indexRange (v : List Range) (i : Nat) : Res Range :=
  match v[i]? with
  | Option.some x => .ok x
  | Option.none => .panic

/-- `&l[a..b]`: panics when `a > b` or `b > l.len()` -/
def sliceBytes (l : Bytes) (a b : Nat) : Res Bytes :=
  if a ≤ b ∧ b ≤ l.length then .ok (slice l a b) else .panic

/-- `v.drain(..k)` (the drained elements are dropped): panics when `k > v.len()` -/
def drainTo (v : List Range) (k : Nat) : Res (List Range) :=
  if k ≤ v.length then .ok (v.drop k) else .panic

/-- a computation that can fail or panic, inside a function that writes -/
def orStop {α : Type} (x : Res α) (k : α → Run) : Run :=
  match x with
  | .ok a => k a
  | .fail => Run.fail
  | .panic => Run.panic

/-- `b.try_into_range(num_fields)` (l.416) with the Rust integer types: the bound of the model is
    stored in `i32`s, then `Tuc.Model.BoundsLit` -/
def resolve (b : UserBounds) (numFields : Nat) : Res (Nat × Nat) :=
  (boundsOfModel b).tryIntoRange numFields

/-! ## `maybe_replace_delimiter`, `write_maybe_as_json!` -/

/-- `maybe_replace_delimiter(text, opt)` (cut_str.rs:149-163, feature "regex") -/
def maybeReplaceDelimiterLit (text : Bytes) (opt : Opt) : Bytes :=
  if opt.boundsType = .characters then                                 -- 150
    text                                                               -- 151 Cow::Borrowed(text)
  else
    match opt.replaceDelimiter with                                    -- 152 if let Some(new_delimiter)
    | Option.some newDelimiter =>
      match opt.regexBag with                                          -- 153 if let Some(re_bag)
      | Option.some reBag =>
        replaceMatches text newDelimiter 0 (reBag.normal text)         -- 154-156 .normal.replace_all(text, NoExpand(..))
      | Option.none =>
        replaceAll text opt.delimiter newDelimiter                     -- 158 text.replace(&opt.delimiter, new_delimiter)
    | Option.none => text                                              -- 161 Cow::Borrowed(text)

/-- `write_maybe_as_json!(writer, to_print, as_json)` (cut_str.rs:247-258) -/
def writeMaybeAsJsonLit (toPrint : Bytes) (asJson : Bool) : Run :=
  if asJson then                                                       -- 249
    -- JSON strings must be valid UTF-8: anything else is an error
    if validUtf8 toPrint then                                          -- 253 std::str::from_utf8(&to_print)?
      Run.ok (jsonString toPrint)                                      -- 252-253 write_all(to_string(..)?.as_bytes())?
    else Run.fail
  else
    Run.ok toPrint                                                     -- 255 write_all(&to_print)?

/-! ## the closure of `bounds.iter().try_for_each(..)` (l.407-446) -/

/-- l.416-434: `let field_to_print = if r.is_ok() { … } else if … { … } else { return Err(..) };`
    (`.fail` = the `return Err(r.unwrap_err())`) -/
def fieldToPrint (line : Bytes) (fields : List Range) (numFields : Nat) (opt : Opt)
    (delimiterAlreadyReplaced : Bool) (b : UserBounds) : Res Bytes :=
  match resolve b numFields with                                       -- 416 let r = b.try_into_range(num_fields);
  | .panic => .panic                                                   --     (overflow inside try_into_range)
  | .ok r =>                                                           -- 418-419 r.is_ok(), r.unwrap()
    (indexRange fields r.1).bind fun fStart =>                         -- 420 fields[r.start]
    let idxStart := fStart.start                                       -- 420 .start
    (usizeSub r.2 1).bind fun rEndM1 =>                                -- 421 r.end - 1
    (indexRange fields rEndM1).bind fun fEnd =>                        -- 421 fields[..]
    let idxEnd := fEnd.stop                                            -- 421 .end
    (sliceBytes line idxStart idxEnd).bind fun s =>                    -- 423 / 425 &line[idx_start..idx_end]
    if delimiterAlreadyReplaced then                                   -- 422
      .ok s                                                            -- 423 Cow::Borrowed(..)
    else
      .ok (maybeReplaceDelimiterLit s opt)                             -- 425
  | .fail =>
    if b.fallback.isSome then                                          -- 427 b.fallback_oob.is_some()
      -- fallbacks are printed verbatim
      unwrap b.fallback                                                -- 429 .as_ref().unwrap().as_slice()
    else
      match opt.fallbackOob with                                       -- 430 if let Some(generic_fallback)
      | Option.some genericFallback => .ok genericFallback             -- 431
      | Option.none => .fail                                           -- 433 return Err(r.unwrap_err())

/-- the closure (l.407-446) -/
def outputClosure (line : Bytes) (fields : List Range) (numFields : Nat) (opt : Opt)
    (delimiterAlreadyReplaced : Bool) (bof : BoF) : Run :=
  match bof with                                                       -- 408
  | .filler f =>                                                       -- 409
    (Run.ok f).seq Run.empty                                           -- 410-411 write_all(f)?; return Ok(())
  | .bound b =>                                                        -- 413
    orStop (fieldToPrint line fields numFields opt delimiterAlreadyReplaced b) fun fieldToPrint =>   -- 416-434
    (writeMaybeAsJsonLit fieldToPrint opt.json).seq <|                 -- 435
    (if opt.join && !b.isLast then                                     -- 437
      Run.ok (opt.replaceDelimiter.getD opt.delimiter)                 -- 438-443 replace_delimiter.unwrap_or(&delimiter)
     else Run.empty).seq
    Run.empty                                                          -- 446 Ok(())

/-- `bounds.iter().try_for_each(closure)`: stops at the first `Err` -/
def tryForEach (line : Bytes) (fields : List Range) (numFields : Nat) (opt : Opt)
    (delimiterAlreadyReplaced : Bool) : List BoF → Run
  | [] => Run.empty
  | bof :: rest =>
    (outputClosure line fields numFields opt delimiterAlreadyReplaced bof).seq
      (tryForEach line fields numFields opt delimiterAlreadyReplaced rest)

/-! ## the stages of `cut_str` -/

/-- l.280-291: `line` after the trim -/
def trimStage (line : Bytes) (opt : Opt) : Res Bytes :=
  match opt.trim with                                                  -- 282 if let Some(trim_kind) = opt.trim
  | Option.some trimKind =>
    if opt.regexBag.isSome then                                        -- 283
      (unwrap opt.regexBag).bind fun bag =>                            -- 286 opt.regex_bag.as_ref().unwrap()
      .ok (trimRegex line trimKind (bag.greedy line))                  -- 286 trim_regex(line, &trim_kind, &….greedy)
    else
      .ok (trimLiteral line trimKind opt.delimiter)                    -- 289 trim(line, &trim_kind, &opt.delimiter)
  | Option.none => .ok line

/-- what l.300-330 leave behind -/
structure Locals where
  /-- l.280 (`let mut line`), reassigned l.322, 328 -/
  line : Bytes
  /-- l.305, reassigned l.316 -/
  delimiter : Bytes
  /-- l.303, reassigned l.323 -/
  shouldBuildRangesUsingRegex : Bool
  /-- l.310, reassigned l.324 -/
  delimiterAlreadyReplaced : Bool
  /-- the scratch buffer (written l.327) -/
  compressedLineBuf : Bytes
  deriving DecidableEq, Repr

/-- l.300-330 -/
def compressStage (line : Bytes) (opt : Opt) (compressedLineBuf : Bytes) : Res Locals :=
  let shouldBuildRangesUsingRegex := opt.regexBag.isSome && true       -- 303 … && cfg!(feature = "regex")
  let delimiter := opt.delimiter                                       -- 305
  let shouldCompressDelimiter := opt.compressDelimiter                 -- 306-307
    && (opt.boundsType = .fields || opt.boundsType = .lines)
  -- Compressing with a regex rewrites the delimiters into their replacement
  let delimiterAlreadyReplaced := false                                -- 310
  if shouldCompressDelimiter then                                      -- 312
    if opt.regexBag.isSome && true then                                -- 313
      (unwrap opt.replaceDelimiter).bind fun delimiter =>              -- 316 we checked earlier the invariant
      (unwrap opt.regexBag).bind fun bag =>                            -- 319 opt.regex_bag.as_ref().unwrap()
      let lineHolder := replaceMatches line delimiter 0 (bag.greedy line)   -- 317-321 compress_delimiter_with_regex
      .ok { line := lineHolder,                                        -- 322 line = &line_holder
            delimiter := delimiter,
            shouldBuildRangesUsingRegex := false,                      -- 323
            delimiterAlreadyReplaced := true,                          -- 324
            compressedLineBuf := compressedLineBuf }
    else
      let compressedLineBuf :=
        compressDelimiter line opt.delimiter compressedLineBuf         -- 327 compress_delimiter(line, &opt.delimiter, buf)
      .ok { line := compressedLineBuf,                                 -- 328 line = compressed_line_buf
            delimiter := delimiter,
            shouldBuildRangesUsingRegex := shouldBuildRangesUsingRegex,
            delimiterAlreadyReplaced := delimiterAlreadyReplaced,
            compressedLineBuf := compressedLineBuf }
  else
    .ok { line := line, delimiter := delimiter,
          shouldBuildRangesUsingRegex := shouldBuildRangesUsingRegex,
          delimiterAlreadyReplaced := delimiterAlreadyReplaced,
          compressedLineBuf := compressedLineBuf }

/-- l.332-355: the vector `fields` after the split -/
def fieldsStage (loc : Locals) (opt : Opt) (fields : List Range) : Res (List Range) :=
  (if loc.shouldBuildRangesUsingRegex then                             -- 332
    (unwrap opt.regexBag).bind fun bag =>                              -- 338 / 340 opt.regex_bag.as_ref().unwrap()
    .ok (fillWithFieldsLocationsUsingRegex fields loc.line             -- 334-342
      ((if opt.greedyDelimiter then bag.greedy else bag.normal) loc.line))
   else if opt.greedyDelimiter then                                    -- 343
    .ok (fillWithFieldsLocationsGreedy fields loc.line loc.delimiter)  -- 344
   else
    .ok (fillWithFieldsLocations fields loc.line loc.delimiter)).bind fun fields =>   -- 346
  if opt.boundsType = .characters && decide (fields.length > 2) then   -- 349
    -- the empty-string delimiter generated ranges alongside each character, plus one at each
    -- boundary, e.g. _f_o_o_. We drop them.
    let fields := fields.dropLast                                      -- 353 fields.pop()
    drainTo fields 1                                                   -- 354 fields.drain(..1)
  else .ok fields

/-- l.357-455: everything after the fields are known -/
def emitStage (line : Bytes) (fields : List Range) (opt : Opt) (delimiterAlreadyReplaced : Bool)
    (eol : Bytes) : Run :=
  let numFields := fields.length                                       -- 357
  if opt.onlyDelimited && numFields == 1 then                          -- 359
    -- there were no delimiters: with `only_delimited` we must skip the line
    Run.empty                                                          -- 362 return Ok(())
  else
    (if opt.json then Run.ok [0x5B] else Run.empty).seq <|             -- 365-367 stdout.write_all(b"[")?
    let bounds := opt.bounds                                           -- 370
    orStop (if opt.complement then                                     -- 372
              complementList bounds.list numFields                     -- 373 bounds.complement(num_fields)?
            else .ok bounds) fun bounds =>
    if opt.complement && bounds.list.isEmpty then                      -- 376 bounds.is_empty()
      -- If the original bounds matched all the fields, the complement is empty
      (if !opt.onlyDelimited then Run.ok eol else Run.empty).seq       -- 378-380
      Run.empty                                                        -- 381 return Ok(())
    else
      orStop (if (opt.json || (opt.boundsType = .characters && opt.replaceDelimiter.isSome))   -- 385
                  && bounds.list.any needsUnpack then                  -- 391-401
                unpackList bounds.list numFields                       -- 402 bounds.unpack(num_fields)
              else .ok bounds) fun bounds =>
      (tryForEach line fields numFields opt delimiterAlreadyReplaced bounds.list).seq <|   -- 407-447
      (if opt.json then Run.ok [0x5D] else Run.empty).seq <|           -- 449-451 stdout.write_all(b"]")?
      (Run.ok eol).seq                                                 -- 453 stdout.write_all(eol)?
      Run.empty                                                        -- 455 Ok(())

/-- `cut_str(line, opt, stdout, fields, compressed_line_buf, eol)` (cut_str.rs:260-456): the run,
    `fields` and `compressed_line_buf` afterwards -/
def cutStrLit (line : Bytes) (opt : Opt) (fields : List Range) (compressedLineBuf : Bytes)
    (eol : Bytes) : Run × List Range × Bytes :=
  if opt.regexBag.isSome && (opt.compressDelimiter && opt.replaceDelimiter.isNone) then   -- 268-269
    (Run.fail, fields, compressedLineBuf)                              -- 271 bail!
  else if opt.regexBag.isSome && (opt.join && opt.replaceDelimiter.isNone) then   -- 268, 274
    (Run.fail, fields, compressedLineBuf)                              -- 276 bail!
  else
    match trimStage line opt with                                      -- 280-291
    | .fail => (Run.fail, fields, compressedLineBuf)
    | .panic => (Run.panic, fields, compressedLineBuf)
    | .ok line =>
      if line.isEmpty then                                             -- 293
        ((if !opt.onlyDelimited then Run.ok eol else Run.empty).seq    -- 294-296
          Run.empty, fields, compressedLineBuf)                        -- 297 return Ok(())
      else
        match compressStage line opt compressedLineBuf with            -- 300-330
        | .fail => (Run.fail, fields, compressedLineBuf)
        | .panic => (Run.panic, fields, compressedLineBuf)
        | .ok loc =>
          match fieldsStage loc opt fields with                        -- 332-355
          | .fail => (Run.fail, fields, compressedLineBuf)
          | .panic => (Run.panic, fields, compressedLineBuf)
          | .ok fields =>
            (emitStage loc.line fields opt loc.delimiterAlreadyReplaced eol,   -- 357-455
              fields, loc.compressedLineBuf)

end CutStrLit
end Tuc
