import Tuc.Model.CutStr
import Tuc.Model.FastLane
import Tuc.Model.Stream
import Tuc.Model.Lines
/-!
# Tuc.Model.Args — model of `src/bin/tuc.rs` (`parse_args`, `main`)

Two layers.

* `decision : Flags → Decision` — the *option-set* logic of `parse_args`, `StreamOpt::try_from`,
  `FastOpt::try_from`, the regex test at the top of `cut_str` and `main`'s dispatch, over an
  abstraction of the command line to what those tests look at (which options are present, how
  wide the values of `-d`/`-r` are, what kind of bounds were given).  argv → `Flags` is
  `pico_args` (trusted base); the correspondence check runs the real binary on every option set.
* `mainModel` — what `main` does once an `Opt` exists: dispatch, buffered stdout, the final
  flush, and how read / write faults surface (C12, C14).
-/
namespace Tuc

inductive Mode where
  | f | c | b | l | dflt
  deriving DecidableEq, Repr, Inhabited

/-- width of the value given to `-d` / `-r` -/
inductive Width where
  | absent | one | other
  deriving DecidableEq, Repr, Inhabited

inductive MemArg where
  | absent | zero | pos
  deriving DecidableEq, Repr, Inhabited

/-- the option set, as far as the decision logic can see it -/
structure Flags where
  mode : Mode
  d : Width            -- `-d`: absent (TAB) / one byte / empty or several bytes
  e : Bool             -- `-e RE` (a valid regex)
  g : Bool
  p : Bool
  s : Bool
  z : Bool
  m : Bool
  j : Bool
  noJoin : Bool
  json : Bool
  r : Width            -- `-r`
  t : Bool
  fallback : Bool      -- `--fallback-oob`
  mem : MemArg         -- `-M`
  fmt : Bool           -- the bounds contain literal format text
  fwd : Bool           -- `ForwardBounds::try_from` accepts the bounds (strictly ascending, positive, no shared field)
  extra : Bool         -- an argument that is no documented option
  deriving DecidableEq, Repr, Inhabited

inductive Engine where
  | stream | bytes | lines | fast | general
  deriving DecidableEq, Repr, Inhabited

inductive Decision where
  | reject                                  -- status 1, nothing on stdout, whatever the input
  | failFirst                               -- accepted, but the first non-empty record fails
  | accept (engine : Engine) (join : Bool)
  deriving DecidableEq, Repr, Inhabited

def Flags.isFields (f : Flags) : Bool := f.mode = .f || f.mode = .dflt

/-- `replace_delimiter.is_some()` after `parse_args` adjusted it (`-c` ⇒ "", `--json` ⇒ ",") -/
def Flags.replSome (f : Flags) : Bool := f.r ≠ .absent || f.mode = .c || f.json

/-- the `join` computed by `parse_args` (tuc.rs:154) -/
def Flags.join (f : Flags) : Bool :=
  f.j || f.json || f.replSome || (f.mode = .l && !f.noJoin) || f.mode = .c

/-- `regex_bag.is_some()` -/
def Flags.regex (f : Flags) : Bool := (f.e && f.mode ≠ .c) || f.mode = .c

/-- `StreamOpt::try_from(&opt).is_ok()` (stream.rs:111) -/
def Flags.streamOk (f : Flags) : Bool :=
  f.isFields && f.d ≠ .other && !f.m && !f.g && !f.p && !f.json && f.r ≠ .other && !f.t && !f.regex
    && !f.s && f.fwd

/-- `FastOpt::try_from(&opt).is_ok()` (fast_lane.rs:139) -/
def Flags.fastOk (f : Flags) : Bool :=
  f.isFields && f.d ≠ .other && !f.m && !f.g && !f.p && !f.json && !f.replSome && !f.regex

/-- `parse_args` followed by the dispatch of `main`, in the order the tests are written -/
def decision (f : Flags) : Decision :=
  if f.mem = .zero then .reject                               -- "--fixed-memory cannot be 0"
  else if f.j && f.noJoin then .reject
  else if f.json && f.noJoin then .reject
  else if f.r ≠ .absent && f.noJoin then .reject
  else if f.r ≠ .absent && f.json then .reject
  else if f.mode = .c && f.noJoin then .reject
  else if f.json && !(f.mode = .c || f.isFields) then .reject   -- --json only for -f / -c
  else if f.json && f.fmt then .reject                          -- "Cannot format fields when using --json"
  else if f.d ≠ .absent && !f.isFields then .reject            -- `-d` is only read in field mode: left over
  else if f.e && f.mode = .c then .reject                       -- `-e` is not read with `-c`: left over
  else if f.extra then .reject                                  -- "unexpected arguments"
  else if f.mem = .pos then
    if f.streamOk then .accept .stream f.join else .reject
  else if f.mode = .b then .accept .bytes f.join
  else if f.mode = .l then .accept .lines f.join
  else if f.fastOk then .accept .fast f.join
  else if f.regex && f.mode ≠ .c && ((f.p && !f.replSome) || (f.join && !f.replSome)) then .failFirst
  else .accept .general f.join

/-! ## `main` once the options are parsed -/

/-- what the engines do on the input, as `main` dispatches them (tuc.rs:253) -/
def dispatch (o : Opt) (fixedMemory : Bool) (segs : List Bytes) : Option Run :=
  let input := segs.flatten
  if fixedMemory then
    match streamOptOf o with
    | some so => some (cutBytesStream so segs)
    | none => none                       -- "tuc: runtime error. …", exit 1
  else if o.boundsType = .bytes then some (readAndCutBytes o input)
  else if o.boundsType = .lines then some (readAndCutLines o input)
  else
    match fastOptOf o with
    | some fo => some (readAndCutFast fo input)
    | none => some (readAndCutStr o input)

/-- A writer that accepts `limit` bytes and then fails (`none` = never fails), seen through
    `BufWriter` + the explicit `flush()` every successful path of `main` ends with: what reaches
    stdout is the longest prefix the writer accepts, and the run fails if anything was cut off. -/
def deliver (r : Run) (limit : Option Nat) : Run :=
  match limit with
  | none => r
  | some k => if r.out.length ≤ k then r else ⟨r.out.take k, if r.status = .ok then .fail else r.status⟩

/-- `main`: `none` from `dispatch` is the up-front rejection (exit 1, nothing written) -/
def mainModel (o : Opt) (fixedMemory : Bool) (segs : List Bytes) (writeLimit : Option Nat) : Run :=
  match dispatch o fixedMemory segs with
  | none => Run.fail
  | some r => deliver r writeLimit

end Tuc
