import Tuc.Model.Basic
/-!
# Tuc.Model.Bounds — model of `src/bounds/{side,userbounds,userboundslist}.rs`

One definition per Rust function, same order of tests.  Text is `List Char` (argv), fillers and
fallbacks become bytes through `utf8` exactly where the Rust code calls `into_bytes`/`into`.
-/

namespace Tuc

/-- `enum Side { Some(i32), Continue }` -/
inductive Side where
  | some (v : Int)
  | cont
  deriving DecidableEq, Repr, Inhabited

/-- `struct UserBounds` -/
structure UserBounds where
  l : Side
  r : Side
  isLast : Bool := false
  fallback : Option Bytes := none
  deriving DecidableEq, Repr, Inhabited

/-- `enum BoundOrFiller` -/
inductive BoF where
  | bound (b : UserBounds)
  | filler (f : Bytes)
  deriving DecidableEq, Repr, Inhabited

/-- `struct UserBoundsList` -/
structure UserBoundsList where
  list : List BoF
  lastInteresting : Side
  deriving DecidableEq, Repr, Inhabited

/-! ## text → numbers -/

def digitVal (c : Char) : Option Nat :=
  if '0' ≤ c ∧ c ≤ '9' then some (c.toNat - 48) else none

def parseDigits : List Char → Nat → Option Nat
  | [], acc => some acc
  | c :: t, acc =>
    match digitVal c with
    | some d => parseDigits t (acc * 10 + d)
    | none => none

def i32Min : Int := -2147483648
def i32Max : Int := 2147483647

/-- `str::parse::<i32>`: optional single sign, at least one ASCII digit, value within i32. -/
def parseI32 (s : List Char) : Option Int :=
  let (neg, ds) : Bool × List Char :=
    match s with
    | '-' :: t => (true, t)
    | '+' :: t => (false, t)
    | _ => (false, s)
  if ds.isEmpty then none else
  match parseDigits ds 0 with
  | none => none
  | some n =>
    let v : Int := if neg then -(n : Int) else (n : Int)
    if i32Min ≤ v ∧ v ≤ i32Max then some v else none

/-- `Side::from_str` (side.rs:12) -/
def parseSide (s : List Char) : Option Side :=
  if s.isEmpty then some .cont else (parseI32 s).map .some

/-! ## comparisons (side.rs:36, userbounds.rs:105) -/

/-- both strictly positive or both strictly negative (the repaired form of `(s * o).is_positive()`) -/
def sameSign (a b : Int) : Bool := (decide (a > 0) && decide (b > 0)) || (decide (a < 0) && decide (b < 0))

/-- one strictly positive, the other strictly negative (`(a * b).is_negative()`) -/
def oppSign (a b : Int) : Bool := (decide (a > 0) && decide (b < 0)) || (decide (a < 0) && decide (b > 0))

/-- `impl PartialOrd for Side` -/
def Side.partialCmp : Side → Side → Option Ordering
  | .some s, .some o => if !sameSign s o then Option.none else Option.some (compare s o)
  | .cont, .some _ => Option.some .gt
  | .some _, .cont => Option.some .lt
  | .cont, .cont => Option.some .eq

/-- `a > b` on sides, as Rust's `PartialOrd::gt` -/
def Side.gt (a b : Side) : Bool := a.partialCmp b == Option.some .gt

/-- `impl PartialOrd for UserBounds`: the right side of `self` against the left side of `other`,
    where an open left side stands for field 1. -/
def UserBounds.partialCmp (a b : UserBounds) : Option Ordering :=
  a.r.partialCmp (match b.l with | .cont => .some 1 | s => s)

/-- `prev_b <= Some(b)` -/
def UserBounds.le (a b : UserBounds) : Bool :=
  match a.partialCmp b with
  | some .lt => true
  | some .eq => true
  | _ => false

/-! ## one bound (userbounds.rs) -/

def splitOnce (c : Char) : List Char → Option (List Char × List Char)
  | [] => none
  | x :: t =>
    if x = c then some ([], t)
    else match splitOnce c t with
      | some (a, b) => some (x :: a, b)
      | none => none

/-- `str::find(c)` as a char offset -/
def findChar (c : Char) : List Char → Option Nat
  | [] => none
  | x :: t => if x = c then some 0 else (findChar c t).map (· + 1)

/-- `UserBounds::from_str` (userbounds.rs:37).  `none` = `Err`. -/
def parseUserBounds (s : List Char) : Option UserBounds :=
  let (s, fb) : List Char × Option Bytes :=
    match splitOnce '=' s with
    | some (rangePart, fallback) => (rangePart, some (utf8 fallback))
    | none => (s, none)
  if s.isEmpty then none
  else if s = [':'] then none
  else
    let sides : Option (Side × Side) :=
      match findChar ':' s with
      | none => (parseSide s).map fun x => (x, x)
      | some idx =>
        if idx = 0 then (parseSide (s.drop 1)).map fun r => (.cont, r)
        else if idx = s.length - 1 then (parseSide (s.take idx)).map fun l => (l, .cont)
        else
          match parseSide (s.take idx), parseSide (s.drop (idx + 1)) with
          | some l, some r => some (l, r)
          | _, _ => none
    match sides with
    | none => none
    | some (l, r) =>
      if l = .some 0 then none
      else if r = .some 0 then none
      else
        match l, r with
        | .some left, .some right =>
          if right < left ∧ sameSign right left then none
          else some { l := l, r := r, isLast := false, fallback := fb }
        | _, _ => some { l := l, r := r, isLast := false, fallback := fb }

/-- `UserBounds::matches` (userbounds.rs:164).  `none` = `Err` (sign mismatch). -/
def UserBounds.matches (b : UserBounds) (idx : Int) : Option Bool :=
  if (match b.l with | .some l => oppSign l idx | .cont => false) then none
  else if (match b.r with | .some r => oppSign r idx | .cont => false) then none
  else some <|
    match b.l, b.r with
    | .cont, .cont => true
    | .some l, .some r => decide (l ≤ idx) && decide (idx ≤ r)
    | .cont, .some r => decide (idx ≤ r)
    | .some l, .cont => decide (l ≤ idx)

/-- the `start` of `try_into_range`: 0-based index of the first part (`none` = "Out of bounds") -/
def rangeStart (l : Side) (n : Int) : Option Int :=
  match l with
  | .cont => some 0
  | .some v => if v > n ∨ v < -n then none else if v < 0 then some (n + v) else some (v - 1)

/-- the `end` of `try_into_range`: 0-based index one past the last part -/
def rangeEnd (r : Side) (n : Int) : Option Int :=
  match r with
  | .cont => some n
  | .some v => if v > n ∨ v < -n then none else if v < 0 then some (n + v + 1) else some v

/-- `UserBounds::try_into_range` (userbounds.rs:215): 0-based half-open `(start, end)`. -/
def UserBounds.tryIntoRange (b : UserBounds) (partsLength : Nat) : Option (Nat × Nat) :=
  match rangeStart b.l partsLength with
  | none => none
  | some s =>
    match rangeEnd b.r partsLength with
    | none => none
    | some e => if e ≤ s then none else some (s.toNat, e.toNat)

/-- `UserBounds::new(Side::Some(i), Side::Some(i))` -/
def UserBounds.single (i : Int) : UserBounds := { l := .some i, r := .some i }

/-- `UserBounds::unpack` (userbounds.rs:259): a resolvable range becomes its members, an
    unresolvable bound stays itself (with its fallback). -/
def UserBounds.unpack (b : UserBounds) (numFields : Nat) : List UserBounds :=
  match b.tryIntoRange numFields with
  | some (s, e) => (List.range (e - s)).map fun i => UserBounds.single ((s + i + 1 : Nat) : Int)
  | none => [{ b with isLast := false }]

/-- `complement_std_range` (userbounds.rs:292) -/
def complementStdRange (partsLength : Nat) (r : Nat × Nat) : List (Nat × Nat) :=
  match r with
  | (0, e) => if e = partsLength then [] else [(e, partsLength)]
  | (l, e) => if e = partsLength then [(0, l)] else [(0, l), (e, partsLength)]

/-- `impl From<Range<usize>> for UserBounds` -/
def UserBounds.ofRange (r : Nat × Nat) : UserBounds :=
  { l := .some ((r.1 : Int) + 1), r := .some (r.2 : Int) }

/-- `UserBounds::complement` (userbounds.rs:285).  `none` = `Err`. -/
def UserBounds.complement (b : UserBounds) (numFields : Nat) : Option (List UserBounds) :=
  (b.tryIntoRange numFields).map fun r => (complementStdRange numFields r).map UserBounds.ofRange

/-! ## the list (userboundslist.rs) -/

def boundsOnly : List BoF → List UserBounds
  | [] => []
  | .bound b :: t => b :: boundsOnly t
  | .filler _ :: t => boundsOnly t

def Side.isPos : Side → Bool
  | .some v => decide (v > 0)
  | .cont => false

/-- a written index that is not strictly positive (`!is_positive()`) -/
def Side.isNonPos : Side → Bool
  | .some v => decide (v ≤ 0)
  | .cont => false

def Side.isNeg : Side → Bool
  | .some v => decide (v < 0)
  | .cont => false

/-- `UserBoundsList::is_sortable` -/
def isSortable (l : List BoF) : Bool :=
  let bs := boundsOnly l
  let hasPos := bs.any fun b => b.l.isPos || b.r.isPos
  let hasNeg := bs.any fun b => b.l.isNonPos || b.r.isNonPos
  !(hasNeg && hasPos)

def isSortedAux : Option UserBounds → List UserBounds → Bool
  | _, [] => true
  | none, b :: t => isSortedAux (some b) t
  | some p, b :: t => if p.le b then isSortedAux (some b) t else false

/-- `UserBoundsList::is_sorted` -/
def isSorted (l : List BoF) : Bool := isSortedAux none (boundsOnly l)

/-- `UserBoundsList::has_negative_indices` -/
def hasNegativeIndices (l : List BoF) : Bool :=
  (boundsOnly l).any fun b => b.l.isNeg || b.r.isNeg

/-- `UserBoundsList::is_forward_only` -/
def isForwardOnly (l : List BoF) : Bool :=
  isSortable l && isSorted l && !hasNegativeIndices l

/-- set `is_last` on the last bound of the list; `none` when there is no bound (the `expect`) -/
def markLast : List BoF → Option (List BoF)
  | [] => none
  | .filler f :: t => (markLast t).map (BoF.filler f :: ·)
  | .bound b :: t =>
    match markLast t with
    | some t' => some (.bound b :: t')
    | none => some (.bound { b with isLast := true } :: t)

def rightmostBound : Option Side → List UserBounds → Option Side
  | acc, [] => acc
  | none, b :: t => rightmostBound (some b.r) t
  | some m, b :: t => rightmostBound (if b.r.gt m then some b.r else some m) t

/-- `impl From<Vec<BoundOrFiller>> for UserBoundsList` (userboundslist.rs:23).
    `panic` = the `expect("… at least one UserBounds")`. -/
def fromVec (list : List BoF) : Res UserBoundsList :=
  let rightmost := if isSortable list then rightmostBound none (boundsOnly list) else none
  match markLast list with
  | none => .panic
  | some l' => .ok { list := l', lastInteresting := rightmost.getD .cont }

/-- what `UserBoundsList::unpack` puts in place of one element -/
def unpackBof (numFields : Nat) : BoF → List BoF
  | .bound b => (b.unpack numFields).map .bound
  | .filler f => [.filler f]

/-- `UserBoundsList::unpack` (userboundslist.rs:156) -/
def unpackList (l : List BoF) (numFields : Nat) : Res UserBoundsList :=
  fromVec (l.flatMap (unpackBof numFields))

/-- what `UserBoundsList::complement` puts in place of one element: every resolvable bound is
    replaced by what it leaves out; an unresolvable one is kept, so that the output loop applies
    the fallback rule to it -/
def complementBof (numFields : Nat) : BoF → List BoF
  | .bound b =>
    match b.complement numFields with
    | some bs => bs.map .bound
    | none => [.bound { b with isLast := false }]
  | .filler f => [.filler f]

/-- `UserBoundsList::complement` (userboundslist.rs:175).  `fail` = "the complement is empty". -/
def complementList (l : List BoF) (numFields : Nat) : Res UserBoundsList :=
  let list := l.flatMap (complementBof numFields)
  if (boundsOnly list).isEmpty then .fail else fromVec list

/-! ## the format-string scanner (userboundslist.rs:209) -/

/-- `str::split(c)`: always at least one piece -/
def splitOnChar (c : Char) : List Char → List (List Char)
  | [] => [[]]
  | x :: t =>
    if x = c then [] :: splitOnChar c t
    else match splitOnChar c t with
      | h :: r => (x :: h) :: r
      | [] => [[x]]

/-- `str::replace` for a two-character pattern and a one-character replacement -/
def replace2 (a b r : Char) : List Char → List Char
  | [] => []
  | [x] => [x]
  | x :: y :: t => if x = a ∧ y = b then r :: replace2 a b r t else x :: replace2 a b r (y :: t)
termination_by structural l => l

/-- the four chained `replace` calls applied to literal text -/
def unescapeFiller (s : List Char) : Bytes :=
  utf8 <| replace2 '\\' 't' '\t' <| replace2 '\\' 'n' '\n' <| replace2 '}' '}' '}' <| replace2 '{' '{' '{' s

def parseAll : List (List Char) → Option (List UserBounds)
  | [] => some []
  | s :: t =>
    match parseUserBounds s, parseAll t with
    | some b, some bs => some (b :: bs)
    | _, _ => none

structure ScanSt where
  inside : Bool
  /-- `s[part_start..idx]`, reversed -/
  part : List Char
  /-- `bof`, reversed -/
  bof : List BoF
  deriving Repr

def ScanSt.pushFiller (st : ScanSt) : List BoF :=
  if st.part.isEmpty then st.bof else .filler (unescapeFiller st.part.reverse) :: st.bof

/-- one non-escape step of the `while let` loop -/
def scanStep (w0 : Char) (st : ScanSt) : Option ScanSt :=
  if w0 = '}' ∧ !st.inside then none
  else if w0 = '{' then
    if st.inside then none
    else some { inside := true, part := [], bof := st.pushFiller }
  else if w0 = '}' then
    match parseAll (splitOnChar ',' st.part.reverse) with
    | none => none
    | some bs => some { inside := false, part := [], bof := (bs.map BoF.bound).reverse ++ st.bof }
  else some { st with part := w0 :: st.part }

def scanEnd (st : ScanSt) : Option (List BoF) :=
  if st.inside then none else some st.pushFiller.reverse

def scan : List Char → ScanSt → Option (List BoF)
  | [], st => scanEnd st
  | [w0], st =>
    match scanStep w0 st with
    | none => none
    | some st' => scanEnd st'
  | w0 :: w1 :: rest, st =>
    if w0 = w1 ∧ (w0 = '{' ∨ w0 = '}') then
      scan rest { st with part := w1 :: w0 :: st.part }
    else
      match scanStep w0 st with
      | none => none
      | some st' => scan (w1 :: rest) st'
termination_by structural l => l

/-- `parse_bounds_list` -/
def parseBoundsList (s : List Char) : Option (List BoF) :=
  if s.isEmpty then some []
  else if s.any fun c => c = '{' ∨ c = '}' then
    scan s { inside := false, part := [], bof := [] }
  else
    (parseAll (splitOnChar ',' s)).map (·.map BoF.bound)

/-- `char::is_whitespace` -/
def isWhitespace (c : Char) : Bool :=
  let n := c.toNat
  (9 ≤ n && n ≤ 13) || n = 0x20 || n = 0x85 || n = 0xA0 || n = 0x1680 ||
  (0x2000 ≤ n && n ≤ 0x200A) || n = 0x2028 || n = 0x2029 || n = 0x202F || n = 0x205F || n = 0x3000

/-- `UserBoundsList::from_str` (userboundslist.rs:57).  Never `panic` (theorem in Props/C12). -/
def boundsListOfString (s : List Char) : Res UserBoundsList :=
  if s.all isWhitespace then .fail
  else
    match parseBoundsList s with
    | none => .fail
    | some l => if (boundsOnly l).isEmpty then .fail else fromVec l

end Tuc
