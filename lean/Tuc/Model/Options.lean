import Tuc.Model.Bounds
import Tuc.Model.Text
/-!
# Tuc.Model.Options — model of `src/options.rs`
-/

namespace Tuc

inductive BoundsType where
  | bytes | characters | fields | lines
  deriving DecidableEq, Repr, Inhabited

/-- `enum Trim` -/
abbrev Trim := TrimKind

inductive EOL where
  | zero | newline
  deriving DecidableEq, Repr, Inhabited

def EOL.byte : EOL → UInt8
  | .zero => 0
  | .newline => 10

/-- The two compiled regexes of `RegexBag`, abstracted to what the code observes of them: the list
    of `(start, end)` of `find_iter` over a haystack (sorted, non-overlapping).  The regex engine
    itself is outside the model (trusted base); `Tuc.Model.Regex` gives an executable instance
    for the family of expressions C16 names, and the correspondence check validates it against
    the real engine case by case. -/
structure RegexBag where
  normal : Bytes → List (Nat × Nat)
  greedy : Bytes → List (Nat × Nat)

instance : Repr RegexBag := ⟨fun _ _ => "<regex>"⟩

/-- `struct Opt` -/
structure Opt where
  delimiter : Bytes
  eol : EOL := .newline
  bounds : UserBoundsList
  boundsType : BoundsType := .fields
  onlyDelimited : Bool := false
  greedyDelimiter : Bool := false
  compressDelimiter : Bool := false
  replaceDelimiter : Option Bytes := none
  trim : Option Trim := none
  complement : Bool := false
  join : Bool := false
  json : Bool := false
  fixedMemory : Option Nat := none
  fallbackOob : Option Bytes := none
  regexBag : Option RegexBag := none
  deriving Repr

end Tuc
