import Tuc.Model.LinesLoop
import Tuc.Model.FastLoop
import Tuc.Model.StreamLoop
/-!
# Tuc.Model.Space — ghost instrumentation of the literal loops with a space measure (C17)

C17: "With `-M`, peak memory is bounded by a constant that does not depend on the length of any
line or of the input; with `-f` or `-c` (no `-M`) it is bounded in terms of the longest record, not
the number of records; with `-l` and ascending positive bounds it is likewise bounded by the longest
line."

The statement-by-statement transcriptions (`Tuc.Model.LinesLoop`, `Tuc.Model.FastLoop`,
`Tuc.Model.StreamLoop`) keep the Rust locals under their names.  This file copies their loop
functions and adds GHOST state that observes — and never influences — the execution
(`Tuc.Props.Space`: dropping the ghost component gives back the frozen literal function, for all
arguments and all fuel).

**The space measure** of a loop state is the total number of elements held in the OWNED, GROWABLE
buffers (Rust `Vec` / `String` locals) that are live across loop iterations:

* `cut_lines_forward_only` (cut_lines.rs:10-127): `line_buf: String` (l.15), the only `Vec`/`String`
  local; measure = its length in bytes (`lineBufSpace`).  `read_line_with_eol` clears it and reads
  one line (with its terminator) into it.  The peak is taken after every statement that changes the
  buffer: `buffer.clear()` (read_utils.rs:21), `read_line` (l.25; `std`'s `read_line` appends the
  bytes to the string's vector and only then validates them — on invalid UTF-8 a guard truncates
  the vector back, so the bytes HAVE been held), `read_until` into `bytes` (l.30; `bytes` is the
  allocation of `buffer`, moved out by `take` and moved back by `*buffer = s`).  Everything else in
  the loop is counters and flags (`LinesLoop.Vars`) and borrowed slices of `line_buf`.
* `read_and_cut_text_as_bytes` / `cut_str_fast_lane` (fast_lane.rs:22-91, 173-198):
  `fields: Vec<usize>` (l.178), measure = number of entries (`fieldsSpace`), taken on entry of
  `cut_str_fast_lane` (the vector arrives with what the previous record left in it) and after
  `clear` (l.46) and every `push` (l.49, 54, 73); and the record that `for_byte_record` lends to the
  closure, measure = its length (`recordSpace`).  (bstr 1.11.3 `for_byte_record_with_terminator`:
  complete records are lent as slices of the `BufReader`'s own buffer; a record that straddles two
  fills is assembled in ONE local `bytes: Vec<u8>` that holds that record with its terminator and
  is cleared after the call: its length is at most `recordSpace line + 1`.)
* `cut_bytes_stream` (stream.rs:278-421, `-M`): the function owns NO growable buffer.  Its state is
  `StreamLoop.Vars`: four flags, the index `bof_idx` into the bounds, the `i32` counter
  `curr_field`, and two indexes into the chunk (`chunk_part_start_idx`, `bytes_to_consume`) that
  are declared inside `'new_chunk` and die with the borrow of the chunk.  The chunk itself is
  borrowed from the `BufReader`, whose capacity is fixed in `main`.  The ghost state of
  `newChunkI` is therefore not a peak but the TRACE of observations: the length of the borrowed
  chunk and the variables at every `stdin.consume(bytes_to_consume)` (l.390), and the variables at
  every exit of `'new_chunk` (l.395).  `scalars` / `ofScalars` make "every component of `Vars` is
  a number or a flag" a statement (a bijection with a fixed tuple of `Bool`s, `Nat`s and an `Int`).

An iteration counts only if it is executed: the frozen models compute `a.seq b` where the Rust
code has `a?; b` — `b` is evaluated by the model even when `a` ended the run, and discarded by
`seq`.  The ghost state ignores such a discarded continuation (`if a.status = .ok`).

NOT covered (by this file or by `Tuc.Props.Space`): the allocator; the growth policy of `Vec`
(amortised doubling: the capacity is less than twice the peak length, at least the initial capacity
— 1024 for `line_buf`, 16 for `fields`); the capacities of the `BufReader` / `BufWriter` that `main`
creates (fixed numbers); the caches of the regex crate; the stack; the buffered paths
(`cut_lines`, `read_to_end`: the whole input, by design) and the general field engine `cut_str`.
-/

namespace Tuc
namespace Space

/-! ## 1. `-l`, forward only: `line_buf` -/

section Lines
open LinesLoop

/-- number of bytes held in `line_buf: String` (resp. in `bytes`, the same allocation) -/
def lineBufSpace (buffer : Bytes) : Nat := buffer.length

/-- `read_line_with_eol` (read_utils.rs:16-45) = `LinesLoop.readLineWithEol` with one more result:
    the largest `lineBufSpace` of `buffer` during the call -/
def readLineWithEolI (reader : Bytes) (eol : EOL) : LineRead × Bytes × Nat :=
  let buffer : Bytes := []                                              -- 21 buffer.clear()
  let peak : Nat := lineBufSpace buffer                                 -- ghost
  let m : (Option Nat × Bytes × Bytes) × Nat :=                         -- ((result, buffer, reader), ghost)
    match eol with                                                      -- 23
    | .newline =>
      -- 25 reader.read_line(buffer): read_until(b'\n') into the string, checked as UTF-8
      let p := readUntil 10 reader
      let peak := max peak (lineBufSpace (buffer ++ p.1))               -- ghost: appended, then checked
      if validUtf8 p.1 then ((Option.some p.1.length, buffer ++ p.1, p.2), peak)
      else ((Option.none, buffer, p.2), peak)
    | .zero =>
      let bytes := buffer                                               -- 29 take(buffer).into_bytes()
      let p := readUntil eol.byte reader                                -- 30 read_until(eol as u8, &mut bytes)
      let res := p.1.length
      let bytes := bytes ++ p.1
      let peak := max peak (lineBufSpace bytes)                         -- ghost
      if validUtf8 bytes then                                           -- 31 String::from_utf8(bytes)
        ((Option.some res, bytes, p.2), peak)                           -- 32-35 *buffer = s; res
      else
        ((Option.none, [], p.2), peak)                                  -- 36-39 Err(InvalidData)
  -- 43-44 .map(|u| if u == 0 { None } else { Some(buffer) }).transpose()
  match m.1.1 with
  | Option.none => (.someErr, m.1.2.2, m.2)
  | Option.some u => if u == 0 then (.none, m.1.2.2, m.2) else (.someOk m.1.2.1, m.1.2.2, m.2)

/-- `while let Some(line) = read_line_with_eol(stdin, &mut line_buf, opt.eol)` (cut_lines.rs:22-87)
    = `LinesLoop.readWhile` with the accumulator `peak` -/
def readWhileI (opt : Opt) : Nat → Bytes → Vars → Nat → Run × Vars × Nat
  | 0, _, v, peak => (Run.hang, v, peak)
  | fuel + 1, stdin, v, peak =>
    match readLineWithEolI stdin opt.eol with                           -- 22
    | (.none, _, used) => (Run.empty, v, max peak used)                 -- the loop ends
    | (line, stdin, used) =>
      let peak := max peak used                                         -- ghost
      let v := nextLine v                                               -- 23-26
      match line with                                                   -- 28 let line = line?;
      | .none => (Run.empty, v, peak)                                   -- (not reached: matched above)
      | .someErr => (Run.fail, v, peak)                                 -- 28 `?`
      | .someOk line =>
        let line := stripEol opt.eol.byte line                          -- 30 a `&str` into `line_buf`
        let w := innerWhile opt line (opt.bounds.list.length + 1) v     -- 35-81 writes only
        let v := w.2
        if v.boundsIdx == opt.bounds.list.length then                   -- 83
          (w.1, v, peak)                                                -- 85 break
        else
          let l := readWhileI opt fuel stdin v peak
          (w.1.seq l.1, l.2.1, if w.1.status = .ok then l.2.2 else peak)

/-- `cut_lines_forward_only` (cut_lines.rs:10-127) = `cutLinesForwardOnlyLoop` with the peak of
    `lineBufSpace line_buf` over the call -/
def cutLinesForwardOnlyLoopI (opt : Opt) (stdin : Bytes) : Run × Nat :=
  let lineBuf : Bytes := []                                             -- 15 String::with_capacity(1024)
  let peak : Nat := lineBufSpace lineBuf                                -- ghost
  let v : Vars :=
    { lineIdx := 0, pastLastIndex := false, boundsIdx := 0, addNewlineNext := false }   -- 18-21
  let w := readWhileI opt (stdin.length + 1) stdin v peak               -- 22-87
  let e := epilogueWhile opt (opt.bounds.list.length + 1) w.2.1         -- 90-122 writes only
  ((w.1.seq e.1).seq (Run.ok [opt.eol.byte]), w.2.2)                    -- 124

end Lines

/-! ## 2. the fast lane: `fields` and the record lent by the reader -/

section Fast
open FastLoop TextLoops

/-- number of entries of `fields: Vec<usize>` -/
def fieldsSpace (fields : List Nat) : Nat := fields.length

/-- length of the record that `for_byte_record` lends to the closure -/
def recordSpace (line : Bytes) : Nat := line.length

/-- l.52-59 = `FastLoop.scanBody`, with the accumulator -/
def scanBodyI (lastInterestingField : Side) (i : Nat) (currField : Int) (fields : List Nat)
    (peak : Nat) : Outcome (Int × List Nat × Bool) × Nat :=
  match checkedAddI32 currField 1 with                                  -- 52 curr_field += 1  (i32)
  | .ok currField =>
    let fields := push fields (i + 1)                                   -- 54 fields.push(i + 1)
    let peak := max peak (fieldsSpace fields)                           -- ghost
    if Side.some currField = lastInterestingField then                  -- 56
      (.ok (currField, fields, true), peak)                             -- 58 break
    else
      (.ok (currField, fields, false), peak)
  | .panic => (.panic, peak)
  | .hang => (.hang, peak)

/-- the `for` loop (l.51-60) = `FastLoop.scanFor`, with the accumulator -/
def scanForI (lastInterestingField : Side) :
    List Nat → Int → List Nat → Nat → Outcome (Int × List Nat) × Nat
  | [], currField, fields, peak => (.ok (currField, fields), peak)
  | i :: iter, currField, fields, peak =>
    match scanBodyI lastInterestingField i currField fields peak with
    | (.ok st, peak) =>
      if st.2.2 then (.ok (st.1, st.2.1), peak)                         -- 58 break
      else scanForI lastInterestingField iter st.1 st.2.1 peak
    | (.panic, peak) => (.panic, peak)
    | (.hang, peak) => (.hang, peak)

/-- l.62-90 = `FastLoop.afterScan`, with the accumulator -/
def afterScanI (buffer : Bytes) (opt : FastOpt) (lastInterestingField : Side)
    (st : Int × List Nat) (peak : Nat) : Run × List Nat × Nat :=
  let currField := st.1
  let fields := st.2
  if currField == 0 && opt.onlyDelimited then                           -- 62
    (Run.empty, fields, peak)                                           -- 64 return Ok(())
  else
    let fields :=
      if Side.some currField ≠ lastInterestingField then                -- 67
        push fields (buffer.length + 1)                                 -- 73 fields.push(buffer.len() + 1)
      else fields
    let peak := max peak (fieldsSpace fields)                           -- ghost
    let bounds := opt.bounds                                            -- 42
    ((tryForEach buffer fields opt bounds.list).seq                     -- 76-86 reads `fields`, writes
       (Run.ok [opt.eol.byte]),                                         -- 88
     fields, peak)                                                      -- 90 Ok(())

/-- `cut_str_fast_lane` (fast_lane.rs:22-91) = `cutStrFastLaneLoop`, with the accumulator: `peak`
    comes in, the larger of it and of every `fieldsSpace fields` during the call goes out -/
def cutStrFastLaneLoopI (initialBuffer : Bytes) (opt : FastOpt) (fields : List Nat)
    (lastInterestingField : Side) (peak : Nat) : Run × List Nat × Nat :=
  let peak := max peak (fieldsSpace fields)                             -- ghost: the vector as it arrives
  let buffer := initialBuffer                                           -- 29
  let buffer :=
    match opt.trim with                                                 -- 31 opt.trim.is_some()
    | Option.some trimKind => FastLoop.trim buffer trimKind opt.delimiter   -- 32 a sub-slice
    | Option.none => buffer
  if buffer.isEmpty then                                                -- 35
    ((if !opt.onlyDelimited then                                        -- 36
        Run.ok [opt.eol.byte]                                           -- 37
      else Run.empty),
     fields, peak)                                                      -- 39 return Ok(())  (`fields` untouched)
  else
    let currField : Int := 0                                            -- 44  (i32)
    let fields := clear fields                                          -- 46
    let peak := max peak (fieldsSpace fields)                           -- ghost
    let fields := push fields 0                                         -- 49
    let peak := max peak (fieldsSpace fields)                           -- ghost
    match scanForI lastInterestingField (memchrIter opt.delimiter buffer) currField fields peak with  -- 51-60
    | (.ok st, peak) => afterScanI buffer opt lastInterestingField st peak   -- 62-90
    | (.panic, peak) => (Run.panic, fields, peak)                       -- 52 overflow
    | (.hang, peak) => (Run.hang, fields, peak)

/-- the ghost state of the loop over the records -/
structure FastPeak where
  /-- largest number of entries of `fields` -/
  fields : Nat := 0
  /-- length of the longest record lent to the closure -/
  record : Nat := 0
  deriving DecidableEq, Repr, Inhabited

/-- `for_byte_record(terminator, closure)` (l.183-188 / 189-194) = `FastLoop.forByteRecord` with
    the ghost state -/
def forByteRecordI (opt : FastOpt) (lastInterestingField : Side) :
    List Bytes → List Nat → FastPeak → Run × FastPeak
  | [], _, g => (Run.empty, g)                                          -- no more records: Ok(())
  | line :: more, fields, g =>
    let g := { g with record := max g.record (recordSpace line) }       -- ghost: the record lent
    let r := cutStrFastLaneLoopI line opt fields lastInterestingField g.fields   -- 184 / 190
    let g := { g with fields := r.2.2 }
    let rest := forByteRecordI opt lastInterestingField more r.2.1 g
    (r.1.seq rest.1, if r.1.status = .ok then rest.2 else g)

/-- `read_and_cut_text_as_bytes` (fast_lane.rs:173-198) = `readAndCutTextAsBytesLoop` with the
    ghost state -/
def readAndCutTextAsBytesLoopI (opt : FastOpt) (input : Bytes) : Run × FastPeak :=
  let fields : List Nat := []                                           -- 178 Vec::with_capacity(16)
  let g : FastPeak := { fields := fieldsSpace fields, record := 0 }     -- ghost
  let lastInterestingField := opt.bounds.lastInteresting                -- 180
  match opt.eol with                                                    -- 182
  | .newline =>                                                         -- 183-188
    let r := forByteRecordI opt lastInterestingField (records opt.eol.byte input) fields g
    (r.1.seq Run.empty, r.2)                                            -- 197 Ok(())
  | .zero =>                                                            -- 189-194
    let r := forByteRecordI opt lastInterestingField (records opt.eol.byte input) fields g
    (r.1.seq Run.empty, r.2)                                            -- 197 Ok(())

end Fast

/-! ## 3. `-M`: the state of `cut_bytes_stream` -/

section Stream
open StreamLoop

/-- the components of `StreamLoop.Vars`, as a fixed tuple of scalars: four flags, three `usize`
    and one `i32`, in the order `(eof, prevChunkMayBeTruncated, eolReached, emptyLine)`,
    `(bofIdx, chunkPartStartIdx, bytesToConsume)`, `currField` -/
abbrev Scalars := (Bool × Bool × Bool × Bool) × (Nat × Nat × Nat) × Int

def scalars (v : Vars) : Scalars :=
  ((v.eof, v.prevChunkMayBeTruncated, v.eolReached, v.emptyLine),
   (v.bofIdx, v.chunkPartStartIdx, v.bytesToConsume), v.currField)

def ofScalars (s : Scalars) : Vars :=
  { eof := s.1.1, prevChunkMayBeTruncated := s.1.2.1, eolReached := s.1.2.2.1,
    emptyLine := s.1.2.2.2, bofIdx := s.2.1.1, chunkPartStartIdx := s.2.1.2.1,
    bytesToConsume := s.2.1.2.2, currField := s.2.2 }

/-- what the ghost state of `newChunkI` records -/
inductive Obs where
  /-- l.390 `stdin.consume(bytes_to_consume)`: the length of the chunk borrowed at l.295 and the
      variables at the end of the body of `'new_chunk` -/
  | chunkEnd (chunkLen : Nat) (v : Vars)
  /-- l.395: `'new_chunk` is left (condition false, or `break`): no chunk is borrowed; the two
      chunk indexes are out of scope (the record `Vars` still shows their last values) -/
  | loopExit (v : Vars)
  deriving Repr, DecidableEq

/-- the two loops (stream.rs:287-418) = `StreamLoop.newChunk` with the trace of the executed
    iterations -/
def newChunkI (o : StreamOpt) : Nat → List Bytes → Vars → Run × List Obs
  | 0, _, _ => (Run.hang, [])
  | fuel + 1, stdin, v =>
    match whileStep o stdin v with
    | .again r stdin' v' =>                                             -- l.390, l.393 → l.294
      let rest := newChunkI o fuel stdin' v'
      (r.seq rest.1,
       Obs.chunkEnd (fillBuf stdin).length v' :: (if r.status = .ok then rest.2 else []))
    | .leave v' =>
      let a := afterNewChunk o v'                                       -- l.395-417
      if a.2 then (a.1, [Obs.loopExit v'])                              -- l.420 `Ok(())`
      else
        let rest := newChunkI o fuel stdin (newLineVars v'.eof)         -- l.287-292 → l.294
        (a.1.seq rest.1, Obs.loopExit v' :: (if a.1.status = .ok then rest.2 else []))

/-- `cut_bytes_stream` (stream.rs:278-421) = `cutBytesStreamLoop` with the trace -/
def cutBytesStreamLoopI (o : StreamOpt) (segs : List Bytes) : Run × List Obs :=
  newChunkI o (fuelFor segs) segs (newLineVars false)                   -- l.284-287

end Stream

end Space
end Tuc
