import Tuc.Model.Options
/-!
# Tuc.Model.Stream — model of `src/stream.rs` (`-M`, fixed-memory cutter)

The input is the sequence of bytes *with the read segmentation attached*: every byte carries a
flag telling whether it is the last byte of the chunk `fill_buf` handed out.  The chunk loop of
`cut_bytes_stream` scans each chunk left to right (`memchr2_iter`) and only ever acts at a
delimiter, at an EOL and at the end of a chunk, so it is modelled as a machine over these tagged
bytes whose state is the Rust function's own local state
(`bof_idx`, `curr_field`, `prev_chunk_may_be_truncated`, the not-yet-printed part of the
current chunk `chunk[chunk_part_start_idx..]`) plus `skip`, which stands for the look-ahead
`memchr(eol, &chunk[bytes_to_consume..])` after the early stop: once `bof_idx` has been set to
`bounds.len()` nothing is printed until the EOL.
-/

namespace Tuc

/-- `struct StreamOpt` (+ `last_interesting_field` computed by `read_and_cut_bytes_stream`) -/
structure StreamOpt where
  delimiter : UInt8
  replaceDelimiter : Option UInt8
  join : Bool
  eol : EOL
  fallbackOob : Option Bytes
  bounds : List BoF
  lastInterestingField : Side
  deriving Repr

/-- the loop of `ForwardBounds::try_from` (stream.rs:19): no field may be needed twice -/
def noSharedField : Int → List UserBounds → Bool
  | _, [] => true
  | prevRight, b :: t =>
    let left : Int := match b.l with | .some l => l | .cont => 1
    if left ≤ prevRight then false
    else noSharedField (match b.r with | .some r => r | .cont => prevRight) t

/-- `r` of the last bound of the list (`get_last_bound().r`) -/
def lastBoundRight : List UserBounds → Option Side
  | [] => none
  | [b] => some b.r
  | _ :: t => lastBoundRight t

/-- `impl TryFrom<&UserBoundsList> for ForwardBounds`: the (re-marked) list, or `none` -/
def forwardBoundsOf (l : UserBoundsList) : Option (List BoF) :=
  if l.list.isEmpty then none
  else if isForwardOnly l.list then
    if noSharedField 0 (boundsOnly l.list) then
      match fromVec l.list with
      | .ok l' => some l'.list
      | _ => none
    else none
  else none

/-- `impl TryFrom<&Opt> for StreamOpt` (stream.rs:111) -/
def streamOptOf (o : Opt) : Option StreamOpt :=
  match o.delimiter with
  | [d] =>
    let replOk : Option (Option UInt8) :=
      match o.replaceDelimiter with
      | none => some none
      | some [r] => some (some r)
      | some _ => none
    match replOk with
    | none => none
    | some repl =>
      if o.complement || o.greedyDelimiter || o.compressDelimiter || o.json
          || o.boundsType != .fields || o.trim.isSome || o.regexBag.isSome || o.onlyDelimited then none
      else
        match forwardBoundsOf o.bounds with
        | none => none
        | some bounds =>
          match lastBoundRight (boundsOnly bounds) with
          | none => none
          | some last =>
            some { delimiter := d, replaceDelimiter := repl, join := o.join, eol := o.eol,
                   fallbackOob := o.fallbackOob, bounds := bounds, lastInterestingField := last }
  | _ => none

/-- the per-record variables of `cut_bytes_stream` -/
structure SState where
  bofIdx : Nat := 0
  currField : Int := 1
  /-- `prev_chunk_may_be_truncated` -/
  trunc : Bool := false
  /-- `chunk[chunk_part_start_idx .. here]`: read, not printed yet -/
  piece : Bytes := []
  /-- the early stop has been taken: `bof_idx = bounds.len()`, waiting for the EOL -/
  skip : Bool := false
  /-- a byte of the current record has been read (`!empty_line`) -/
  started : Bool := false
  deriving DecidableEq, Repr, Inhabited

def StreamOpt.joiner (o : StreamOpt) : UInt8 := o.replaceDelimiter.getD o.delimiter

/-- `print_bof` (stream.rs:180): what is written, the new `bof_idx`; `none` = the `unwrap()` of
    `matches` panicked -/
def printBof (o : StreamOpt) (bofIdx : Nat) (currField : Int) (trunc : Bool) (piece : Bytes)
    (fieldComplete : Bool) : Option (Bytes × Nat) :=
  let (w0, i) : Bytes × Nat :=
    match o.bounds[bofIdx]? with
    | some (.filler f) => (f, bofIdx + 1)
    | _ => ([], bofIdx)
  match o.bounds[i]? with
  | some (.bound b) =>
    match b.matches currField with
    | none => none
    | some false => some (w0, i)
    | some true =>
      let prepend := !trunc && decide (currField > 1) && decide (b.l ≠ .some currField)
      let w1 := (if prepend then [o.joiner] else []) ++ piece
      if fieldComplete && decide (b.r = .some currField) then
        some (w0 ++ w1 ++ (if o.join && !b.isLast then [o.joiner] else []), i + 1)
      else some (w0 ++ w1, i)
  | _ => some (w0, i)

/-- `print_filler_or_fallbacks` (stream.rs:228) over `bounds[bof_idx..]` -/
def printFillerOrFallbacks (o : StreamOpt) (numFields : Int) : List BoF → Run
  | [] => Run.empty
  | .filler f :: t => (Run.ok f).seq (printFillerOrFallbacks o numFields t)
  | .bound b :: t =>
    match b.matches numFields with
    | none => Run.panic
    | some m =>
      if b.r = .cont ∧ m then printFillerOrFallbacks o numFields t
      else
        let joiner : Bytes := if o.join && !b.isLast then [o.joiner] else []
        match b.fallback with
        | some f => (Run.ok (f ++ joiner)).seq (printFillerOrFallbacks o numFields t)
        | none =>
          match o.fallbackOob with
          | some f => (Run.ok (f ++ joiner)).seq (printFillerOrFallbacks o numFields t)
          | none => Run.fail

/-- the end of a field that is also the end of the record (EOL found, or EOF inside a record) -/
def endOfRecord (o : StreamOpt) (st : SState) : Run :=
  match printBof o st.bofIdx st.currField st.trunc st.piece true with
  | none => Run.panic
  | some (w, i) =>
    (Run.ok w).seq
      ((printFillerOrFallbacks o st.currField (o.bounds.drop i)).seq (Run.ok [o.eol.byte]))

/-- One byte of input; `last` = it is the last byte of its chunk.  Returns what is written and the
    next state, or the failed run. -/
def streamStep (o : StreamOpt) (st : SState) (c : UInt8) (last : Bool) : Run × SState :=
  if st.skip then
    if c = o.eol.byte then (Run.ok [o.eol.byte], {}) else (Run.empty, { st with started := true })
  else if c = o.eol.byte then
    if st.currField = 1 ∧ !st.trunc ∧ st.piece.isEmpty then (Run.ok [o.eol.byte], {})   -- empty record
    else (endOfRecord o st, {})
  else if c = o.delimiter then
    match printBof o st.bofIdx st.currField st.trunc st.piece true with
    | none => (Run.panic, st)
    | some (w, i) =>
      if Side.some st.currField = o.lastInterestingField then
        -- early stop: fillers / fallbacks of what is left, then skip to the EOL
        ((Run.ok w).seq (printFillerOrFallbacks o st.currField (o.bounds.drop i)),
         { st with bofIdx := o.bounds.length, trunc := false, piece := [], skip := true, started := true })
      else
        (Run.ok w, { bofIdx := i, currField := st.currField + 1, trunc := false, piece := [],
                     skip := false, started := true })
  else
    let piece := st.piece ++ [c]
    if last then
      -- "Handle remaining data in chunk": a field that continues in the next chunk
      match printBof o st.bofIdx st.currField st.trunc piece false with
      | none => (Run.panic, st)
      | some (w, i) => (Run.ok w, { st with bofIdx := i, trunc := true, piece := [], started := true })
    else (Run.empty, { st with piece := piece, started := true })

/-- "Handle EOF at end of line" -/
def streamEof (o : StreamOpt) (st : SState) : Run :=
  if !st.started then Run.empty
  else if st.skip then Run.ok [o.eol.byte]
  else if st.piece.isEmpty then endOfRecord o st
  else
    -- a piece still pending can only exist if the last byte was not flagged; flush it first
    match printBof o st.bofIdx st.currField st.trunc st.piece false with
    | none => Run.panic
    | some (w, i) =>
      (Run.ok w).seq (endOfRecord o { st with bofIdx := i, trunc := true, piece := [] })

/-- `cut_bytes_stream` (stream.rs:260) over a tagged input -/
def streamRun (o : StreamOpt) : SState → List (UInt8 × Bool) → Run
  | st, [] => streamEof o st
  | st, (c, last) :: t =>
    let (r, st') := streamStep o st c last
    r.seq (streamRun o st' t)

/-- attach the read segmentation: the last byte of every segment is flagged -/
def tagSegment : Bytes → List (UInt8 × Bool)
  | [] => []
  | [c] => [(c, true)]
  | c :: t => (c, false) :: tagSegment t

def tagSegments (segs : List Bytes) : List (UInt8 × Bool) := segs.flatMap tagSegment

/-- `read_and_cut_bytes_stream` on a fault-free reader that serves `segs` one after the other -/
def cutBytesStream (o : StreamOpt) (segs : List Bytes) : Run := streamRun o {} (tagSegments segs)

end Tuc
