import Tuc.Model.Lines
import Tuc.Model.FastLoop
/-!
# Tuc.Model.LinesLoop — `src/cut_lines.rs` and `read_line_with_eol`, statement by statement

`Tuc.Model.Lines` models line mode in *normal form*: `bounds_idx` is the pending suffix of the
bounds list, the reader is the list of records, the loops are structural recursions.  This file
follows the Rust text of

* `read_line_with_eol`        (read_utils.rs:16-45)   → `LinesLoop.readLineWithEol`
* `cut_lines_forward_only`    (cut_lines.rs:10-115)   → `cutLinesForwardOnlyLoop`
* `cut_lines`                 (cut_lines.rs:117-137)  → `LinesLoop.cutLinesLit`
* `read_and_cut_lines`        (cut_lines.rs:139-157)  → `readAndCutLinesLoop`

statement by statement (the numbers in the comments are the lines of the Rust files).
`Tuc.Props.LinesLoop` proves that they agree with `Tuc.Model.Lines` on every input.

Conventions (those of `Tuc.Model.FastLoop` / `Tuc.Model.StreamLoop`)

* the reader (`stdin: &mut A`, `A: BufRead`) is the byte string it still has to deliver; it is
  fault-free (read faults are outside this model, as they are outside `Tuc.Model.Lines`);
  `read_until(delim, buf)` hands out the bytes up to and including the first `delim` (or up to the
  end of the input) and consumes them; `BufRead::read_line` is `read_until(b'\n')` followed by the
  UTF-8 check of `std` (`Err(InvalidData)`, nothing appended, when the bytes are not UTF-8);
  `read_to_end` hands out everything;
* the local variables keep their Rust names (camelCase) and live in one record `Vars`;
  `line_idx` is an **`i32`** (its type is inferred from `b.matches(line_idx)`, l.46), so
  `line_idx += 1` (l.20) is `FastLoop.checkedAddI32`: it overflows on the 2³¹-th line that is read
  (panic in the debug build; the release build wraps to `i32::MIN`); `bounds_idx += 1` on `usize`
  is unbounded (project convention);
* `stdout: &mut B` is a fault-free writer: a statement that writes yields the `Run` of what it
  wrote; `a.seq b` is "`a`, then — unless `a` ended the run — `b`" (the `?` operator); an `Err`
  (`line?` on invalid UTF-8, `bail!`) is `Run.fail`, a Rust panic `Run.panic`;
* `opt.bounds.get(i)` is `list[i]?`, its `.unwrap()` (l.30) is *checked* (`Run.panic` on `None`);
* each `while` whose progress is not structural takes fuel and yields `Run.hang` when it runs out:
  the loop over the reader (l.19: one unit per call of `read_line_with_eol`; `len + 1` units), the
  loop over the bounds for one line (l.29; `bounds.len() + 1` units) and the epilogue (l.78;
  `bounds.len() + 1` units).  `Tuc.Props.LinesLoop` proves that the fuel is never used up;
* library / callee models: `UserBounds::matches` → `UserBounds.matches`, `is_forward_only` →
  `isForwardOnly`, `std::str::from_utf8` / `String::from_utf8` → `validUtf8`,
  `str::strip_suffix(eol as char).unwrap_or(line)` → `stripEol`, `cut_str` → `cutStr`
  (`Tuc.Model.CutStr`; its loops are tied to the Rust text by `Tuc.Props.TextLoops`);
* `line_buf` (the reused `String`, cleared by every call of `read_line_with_eol`) carries nothing
  from one call to the next and is not threaded through.
-/

namespace Tuc
namespace LinesLoop
open FastLoop

/-! ## the reader -/

/-- `reader.read_until(delim, buf)` on a fault-free reader: the bytes appended to `buf` — up to
    and including the first `delim`, or everything when there is none — and the reader afterwards -/
def readUntil (delim : UInt8) : Bytes → Bytes × Bytes
  | [] => ([], [])
  | c :: t =>
    if c = delim then ([c], t)
    else ((c :: (readUntil delim t).1), (readUntil delim t).2)

/-- `Option<std::io::Result<&'buf mut String>>`, the result of `read_line_with_eol` -/
inductive LineRead where
  /-- `None`: the input is exhausted -/
  | none
  /-- `Some(Err(InvalidData))`: what was read is not UTF-8 -/
  | someErr
  /-- `Some(Ok(buffer))`: the line, with its EOL if it has one -/
  | someOk (buffer : Bytes)
  deriving Repr, DecidableEq

/-- `read_line_with_eol(reader, buffer, eol)` (read_utils.rs:16-45): the result and the reader
    afterwards.  `Option.none` in the intermediate `io::Result<usize>` is `Err(InvalidData)`. -/
def readLineWithEol (reader : Bytes) (eol : EOL) : LineRead × Bytes :=
  let buffer : Bytes := []                                              -- 21 buffer.clear()
  let m : Option Nat × Bytes × Bytes :=                                 -- (result, buffer, reader)
    match eol with                                                      -- 23
    | .newline =>
      -- 25 reader.read_line(buffer): read_until(b'\n') into the string, checked as UTF-8
      let p := readUntil 10 reader
      if validUtf8 p.1 then (Option.some p.1.length, buffer ++ p.1, p.2)
      else (Option.none, buffer, p.2)
    | .zero =>
      let bytes := buffer                                               -- 29 take(buffer).into_bytes()
      let p := readUntil eol.byte reader                                -- 30 read_until(eol as u8, &mut bytes)
      let res := p.1.length
      let bytes := bytes ++ p.1
      if validUtf8 bytes then                                           -- 31 String::from_utf8(bytes)
        (Option.some res, bytes, p.2)                                   -- 32-35 *buffer = s; res
      else
        (Option.none, [], p.2)                                          -- 36-39 Err(InvalidData)
  -- 43-44 .map(|u| if u == 0 { None } else { Some(buffer) }).transpose()
  match m.1 with
  | Option.none => (.someErr, m.2.2)
  | Option.some u => if u == 0 then (.none, m.2.2) else (.someOk m.2.1, m.2.2)

/-! ## the local variables of `cut_lines_forward_only` -/

structure Vars where
  /-- l.16 (`i32`) -/
  lineIdx : Int := 0
  /-- l.17 keep track of which bounds have been used -/
  boundsIdx : Nat := 0
  /-- l.18 -/
  addNewlineNext : Bool := false
  deriving DecidableEq, Repr, Inhabited

/-- `if opt.join && bounds_idx != opt.bounds.len() { stdout.write_all(&[opt.eol as u8])?; }`
    (l.37-39, 60-62, 107-109) -/
def joinWrite (opt : Opt) (boundsIdx : Nat) : Run :=
  if opt.join && boundsIdx != opt.bounds.list.length then Run.ok [opt.eol.byte] else Run.empty

/-! ## `while bounds_idx < opt.bounds.len()` (l.29-69) -/

/-- the body of the loop (l.30-68): what is written, the variables, and whether the loop goes on
    (`continue`: `true`) or is left (`break`: `false`) -/
def innerBody (opt : Opt) (line : Bytes) (v : Vars) : Run × Vars × Bool :=
  match opt.bounds.list[v.boundsIdx]? with                              -- 30 opt.bounds.get(bounds_idx)
  | Option.none => (Run.panic, v, false)                                -- 30 .unwrap()
  | Option.some (.filler f) =>                                          -- 33
    let r1 := Run.ok f                                                  -- 34 stdout.write_all(f)?
    let v := { v with boundsIdx := v.boundsIdx + 1 }                    -- 35
    let r2 := joinWrite opt v.boundsIdx                                 -- 37-39
    (r1.seq r2, v, true)                                                -- 41 continue
  | Option.some (.bound b) =>                                           -- 43
    if (b.matches v.lineIdx).getD false then                            -- 46 b.matches(line_idx).unwrap_or(false)
      let r1 := if v.addNewlineNext then Run.ok [opt.eol.byte] else Run.empty   -- 47-49
      let r2 := Run.ok line                                             -- 51 stdout.write_all(line.as_bytes())?
      let v := { v with addNewlineNext := true }                        -- 52
      if b.r = Side.some v.lineIdx then                                 -- 54
        -- we exhausted the use of that bound, move on
        let v := { v with boundsIdx := v.boundsIdx + 1 }                -- 56
        let v := { v with addNewlineNext := false }                     -- 57
        let r3 := joinWrite opt v.boundsIdx                             -- 60-62
        ((r1.seq r2).seq r3, v, true)                                   -- 64 continue
      else
        (r1.seq r2, v, false)                                           -- 68 break
    else
      (Run.empty, v, false)                                             -- 68 break

/-- the loop (l.29-69) -/
def innerWhile (opt : Opt) (line : Bytes) : Nat → Vars → Run × Vars
  | 0, v => (Run.hang, v)
  | fuel + 1, v =>
    if v.boundsIdx < opt.bounds.list.length then                        -- 29
      let b := innerBody opt line v
      if b.2.2 then                                                     -- continue
        let l := innerWhile opt line fuel b.2.1
        (b.1.seq l.1, l.2)
      else (b.1, b.2.1)                                                 -- break
    else (Run.empty, v)

/-! ## `while let Some(line) = read_line_with_eol(stdin, &mut line_buf, opt.eol)` (l.19-75) -/

def readWhile (opt : Opt) : Nat → Bytes → Vars → Run × Vars
  | 0, _, v => (Run.hang, v)
  | fuel + 1, stdin, v =>
    match readLineWithEol stdin opt.eol with                            -- 19
    | (.none, _) => (Run.empty, v)                                      -- the loop ends
    | (line, stdin) =>
      match checkedAddI32 v.lineIdx 1 with                              -- 20 line_idx += 1  (i32)
      | .panic => (Run.panic, v)
      | .hang => (Run.hang, v)
      | .ok lineIdx =>
        let v := { v with lineIdx := lineIdx }
        match line with                                                 -- 22 let line = line?;
        | .none => (Run.empty, v)                                       -- (not reached: matched above)
        | .someErr => (Run.fail, v)                                     -- 22 `?`
        | .someOk line =>
          let line := stripEol opt.eol.byte line                        -- 24 strip_suffix(eol).unwrap_or(line)
          -- 26-28 Print the matching fields. Fields are ordered but can still be
          -- duplicated, e.g. 1-2,2,3 , so we may have to print the same line multiple times
          let w := innerWhile opt line (opt.bounds.list.length + 1) v   -- 29-69
          let v := w.2
          if v.boundsIdx == opt.bounds.list.length then                 -- 71
            -- no need to read the rest, we don't have other bounds to test
            (w.1, v)                                                    -- 73 break
          else
            let l := readWhile opt fuel stdin v
            (w.1.seq l.1, l.2)

/-! ## "The input is exhausted. Did we output every bound?" (l.78-110) -/

/-- l.79-102: the value of `let output: &[u8] = match bof { … }` (`Option.none` = `bail!`) and
    `add_newline_next` afterwards -/
def epilogueOutput (opt : Opt) (bof : BoF) (addNewlineNext : Bool) : Option Bytes × Bool :=
  match bof with
  | .filler f => (Option.some f, addNewlineNext)                        -- 80
  | .bound b =>                                                         -- 81
    if addNewlineNext then                                              -- 82
      -- some lines of this bound have been printed already
      let addNewlineNext := false                                       -- 84
      if b.r ≠ Side.cont then                                           -- 86
        -- not good, the input ended in the middle of the range
        (Option.none, addNewlineNext)                                   -- 89 bail!
      else (Option.some [], addNewlineNext)                             -- 92 &[]
    else
      match b.fallback with
      | Option.some fallback => (Option.some fallback, addNewlineNext)  -- 93-95
      | Option.none =>
        match opt.fallbackOob with
        | Option.some genericFallback => (Option.some genericFallback, addNewlineNext)   -- 96-97
        | Option.none => (Option.none, addNewlineNext)                  -- 99 bail!

/-- `while let Some(bof) = opt.bounds.get(bounds_idx)` (l.78-110) -/
def epilogueWhile (opt : Opt) : Nat → Vars → Run × Vars
  | 0, v => (Run.hang, v)
  | fuel + 1, v =>
    match opt.bounds.list[v.boundsIdx]? with                            -- 78
    | Option.none => (Run.empty, v)                                     -- the loop ends
    | Option.some bof =>
      let p := epilogueOutput opt bof v.addNewlineNext                  -- 79-102
      let v := { v with addNewlineNext := p.2 }
      match p.1 with
      | Option.none => (Run.fail, v)                                    -- 89 / 99 bail!
      | Option.some output =>
        let r1 := Run.ok output                                         -- 104 stdout.write_all(output)?
        let v := { v with boundsIdx := v.boundsIdx + 1 }                -- 105
        let r2 := joinWrite opt v.boundsIdx                             -- 107-109
        let l := epilogueWhile opt fuel v
        ((r1.seq r2).seq l.1, l.2)

end LinesLoop

open LinesLoop

/-- `cut_lines_forward_only(stdin, stdout, opt)` (cut_lines.rs:10-115), statement by statement,
    on a fault-free reader that delivers `stdin` -/
def cutLinesForwardOnlyLoop (opt : Opt) (stdin : Bytes) : Run :=
  let v : Vars := { lineIdx := 0, boundsIdx := 0, addNewlineNext := false }   -- 16-18
  let w := readWhile opt (stdin.length + 1) stdin v                     -- 19-75
  let e := epilogueWhile opt (opt.bounds.list.length + 1) w.2           -- 78-110
  (w.1.seq e.1).seq (Run.ok [opt.eol.byte])                             -- 112 stdout.write_all(&[opt.eol as u8])?

namespace LinesLoop

/-- `cut_lines(stdin, stdout, opt)` (cut_lines.rs:117-137) -/
def cutLinesLit (opt : Opt) (stdin : Bytes) : Run :=
  let buffer := stdin                                                   -- 118-119 stdin.read_to_end(&mut buffer)?
  if !validUtf8 buffer then Run.fail                                    -- 120 std::str::from_utf8(&buffer)?
  else
    let bufferAsStr := buffer
    let boundsAsRanges : List Range := []                               -- 121
    let compressedLineBuf : Bytes := []                                 -- 122
    let bufferAsStr := stripEol opt.eol.byte bufferAsStr                -- 124-126
    -- 128 Just use cut_str, we're cutting a (big) string whose delimiter is newline
    (cutStr bufferAsStr opt boundsAsRanges compressedLineBuf [opt.eol.byte]).1   -- 129-136

end LinesLoop

/-- `read_and_cut_lines(stdin, stdout, opt)` (cut_lines.rs:139-157) -/
def readAndCutLinesLoop (opt : Opt) (stdin : Bytes) : Run :=
  -- 144-146 If bounds cut from left to right and do not internally overlap (e.g. 1:2,2,4:5,8)
  -- then we can use a streaming algorithm and avoid allocating everything in memory.
  let canBeStreamed :=
    !opt.complement && !opt.compressDelimiter && isForwardOnly opt.bounds.list   -- 147-148
  if canBeStreamed then                                                 -- 150
    (cutLinesForwardOnlyLoop opt stdin).seq Run.empty                   -- 151 …?; 156 Ok(())
  else
    (cutLinesLit opt stdin).seq Run.empty                               -- 153 …?; 156 Ok(())

end Tuc
