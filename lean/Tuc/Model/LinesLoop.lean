import Tuc.Model.Lines
/-!
# Tuc.Model.LinesLoop — `src/cut_lines.rs` and `read_line_with_eol`, statement by statement

`Tuc.Model.Lines` models line mode in *normal form*: `bounds_idx` is the pending suffix of the
bounds list, the reader is the list of records, the loops are structural recursions.  This file
follows the Rust text of

* `read_line_with_eol`        (read_utils.rs:16-45)   → `LinesLoop.readLineWithEol`
* `cut_lines_forward_only`    (cut_lines.rs:10-127)   → `cutLinesForwardOnlyLoop`
* `cut_lines`                 (cut_lines.rs:129-149)  → `LinesLoop.cutLinesLit`
* `read_and_cut_lines`        (cut_lines.rs:151-169)  → `readAndCutLinesLoop`

statement by statement (the numbers in the comments are the lines of the Rust files at commit
9782769 of `/repo`).
`Tuc.Props.LinesLoop` proves that they agree with `Tuc.Model.Lines` on every input.

Conventions (those of `Tuc.Model.FastLoop` / `Tuc.Model.StreamLoop`)

* the reader (`stdin: &mut A`, `A: BufRead`) is the byte string it still has to deliver; it is
  fault-free (read faults are outside this model, as they are outside `Tuc.Model.Lines`);
  `read_until(delim, buf)` hands out the bytes up to and including the first `delim` (or up to the
  end of the input) and consumes them; `BufRead::read_line` is `read_until(b'\n')` followed by the
  UTF-8 check of `std` (`Err(InvalidData)`, nothing appended, when the bytes are not UTF-8);
  `read_to_end` hands out everything;
* the local variables keep their Rust names (camelCase) and live in one record `Vars`;
  `line_idx` is an **`i32`** (l.18) advanced with `line_idx.checked_add(1)` (l.23, `i32CheckedAdd`:
  `None` when the sum does not fit); once it cannot grow any more the flag `past_last_index`
  (l.19, l.25) is set and stays set, `line_idx` keeps the value `i32::MAX`, a bound then matches
  iff it is open-ended (l.52-53) and is never taken for exhausted (l.66).  (History: up to commit
  103500e l.20 was `line_idx += 1`, which panicked in the debug build and wrapped to `i32::MIN`
  in the release build on the 2³¹-th line — every later line was silently dropped; found with the
  first version of this file, repaired by commit 9782769.)  `bounds_idx += 1` on `usize` is
  unbounded (project convention);
* `stdout: &mut B` is a fault-free writer: a statement that writes yields the `Run` of what it
  wrote; `a.seq b` is "`a`, then — unless `a` ended the run — `b`" (the `?` operator); an `Err`
  (`line?` on invalid UTF-8, `bail!`) is `Run.fail`, a Rust panic `Run.panic`;
* `opt.bounds.get(i)` is `list[i]?`, its `.unwrap()` (l.36) is *checked* (`Run.panic` on `None`);
* each `while` whose progress is not structural takes fuel and yields `Run.hang` when it runs out:
  the loop over the reader (l.22: one unit per call of `read_line_with_eol`; `len + 1` units), the
  loop over the bounds for one line (l.35; `bounds.len() + 1` units) and the epilogue (l.90;
  `bounds.len() + 1` units).  `Tuc.Props.LinesLoop` proves that the fuel is never used up;
* library / callee models: `UserBounds::matches` → `UserBounds.matches`, `is_forward_only` →
  `isForwardOnly`, `std::str::from_utf8` / `String::from_utf8` → `validUtf8`,
  `str::strip_suffix(eol as char).unwrap_or(line)` → `stripEol`, `cut_str` → `cutStr`
  (`Tuc.Model.CutStr`; its loops are tied to the Rust text by `Tuc.Props.TextLoops`);
* `line_buf` (the reused `String`, cleared by every call of `read_line_with_eol`) carries nothing
  from one call to the next and is not threaded through.
-/

namespace Tuc
namespace LinesLoop

/-! ## the reader -/

/-- `reader.read_until(delim, buf)` on a fault-free reader: the bytes appended to `buf` — up to
    and including the first `delim`, or everything when there is none — and the reader afterwards -/
def readUntil (delim : UInt8) : Bytes → Bytes × Bytes
  | [] => ([], [])
  | c :: t =>
    if c = delim then ([c], t)
    else ((c :: (readUntil delim t).1), (readUntil delim t).2)

/-- `Option<std::io::Result<&'buf mut String>>`, the result of `read_line_with_eol` -/
inductive LineRead where
  /-- `None`: the input is exhausted -/
  | none
  /-- `Some(Err(InvalidData))`: what was read is not UTF-8 -/
  | someErr
  /-- `Some(Ok(buffer))`: the line, with its EOL if it has one -/
  | someOk (buffer : Bytes)
  deriving Repr, DecidableEq

/-- `read_line_with_eol(reader, buffer, eol)` (read_utils.rs:16-45): the result and the reader
    afterwards.  `Option.none` in the intermediate `io::Result<usize>` is `Err(InvalidData)`. -/
def readLineWithEol (reader : Bytes) (eol : EOL) : LineRead × Bytes :=
  let buffer : Bytes := []                                              -- 21 buffer.clear()
  let m : Option Nat × Bytes × Bytes :=                                 -- (result, buffer, reader)
    match eol with                                                      -- 23
    | .newline =>
      -- 25 reader.read_line(buffer): read_until(b'\n') into the string, checked as UTF-8
      let p := readUntil 10 reader
      if validUtf8 p.1 then (Option.some p.1.length, buffer ++ p.1, p.2)
      else (Option.none, buffer, p.2)
    | .zero =>
      let bytes := buffer                                               -- 29 take(buffer).into_bytes()
      let p := readUntil eol.byte reader                                -- 30 read_until(eol as u8, &mut bytes)
      let res := p.1.length
      let bytes := bytes ++ p.1
      if validUtf8 bytes then                                           -- 31 String::from_utf8(bytes)
        (Option.some res, bytes, p.2)                                   -- 32-35 *buffer = s; res
      else
        (Option.none, [], p.2)                                          -- 36-39 Err(InvalidData)
  -- 43-44 .map(|u| if u == 0 { None } else { Some(buffer) }).transpose()
  match m.1 with
  | Option.none => (.someErr, m.2.2)
  | Option.some u => if u == 0 then (.none, m.2.2) else (.someOk m.2.1, m.2.2)

/-! ## the local variables of `cut_lines_forward_only` -/

/-- `i32::checked_add`: `None` when the sum does not fit an `i32` -/
def i32CheckedAdd (x y : Int) : Option Int :=
  if i32Min ≤ x + y ∧ x + y ≤ i32Max then Option.some (x + y) else Option.none

structure Vars where
  /-- l.18 (`i32`) -/
  lineIdx : Int := 0
  /-- l.19 -/
  pastLastIndex : Bool := false
  /-- l.20 keep track of which bounds have been used -/
  boundsIdx : Nat := 0
  /-- l.21 -/
  addNewlineNext : Bool := false
  deriving DecidableEq, Repr, Inhabited

/-- `if opt.join && bounds_idx != opt.bounds.len() { stdout.write_all(&[opt.eol as u8])?; }`
    (l.43-45, 72-74, 119-121) -/
def joinWrite (opt : Opt) (boundsIdx : Nat) : Run :=
  if opt.join && boundsIdx != opt.bounds.list.length then Run.ok [opt.eol.byte] else Run.empty

/-! ## `while bounds_idx < opt.bounds.len()` (l.35-81) -/

/-- the body of the loop (l.36-80): what is written, the variables, and whether the loop goes on
    (`continue`: `true`) or is left (`break`: `false`) -/
def innerBody (opt : Opt) (line : Bytes) (v : Vars) : Run × Vars × Bool :=
  match opt.bounds.list[v.boundsIdx]? with                              -- 36 opt.bounds.get(bounds_idx)
  | Option.none => (Run.panic, v, false)                                -- 36 .unwrap()
  | Option.some (.filler f) =>                                          -- 39
    let r1 := Run.ok f                                                  -- 40 stdout.write_all(f)?
    let v := { v with boundsIdx := v.boundsIdx + 1 }                    -- 41
    let r2 := joinWrite opt v.boundsIdx                                 -- 43-45
    (r1.seq r2, v, true)                                                -- 47 continue
  | Option.some (.bound b) =>                                           -- 49
    let isMatch : Bool :=
      if v.pastLastIndex then                                           -- 52
        decide (b.r = Side.cont)                                        -- 53 b.r == Side::Continue
      else
        (b.matches v.lineIdx).getD false                                -- 55 b.matches(line_idx).unwrap_or(false)
    if isMatch then                                                     -- 58
      let r1 := if v.addNewlineNext then Run.ok [opt.eol.byte] else Run.empty   -- 59-61
      let r2 := Run.ok line                                             -- 63 stdout.write_all(line.as_bytes())?
      let v := { v with addNewlineNext := true }                        -- 64
      if !v.pastLastIndex && decide (b.r = Side.some v.lineIdx) then    -- 66
        -- we exhausted the use of that bound, move on
        let v := { v with boundsIdx := v.boundsIdx + 1 }                -- 68
        let v := { v with addNewlineNext := false }                     -- 69
        let r3 := joinWrite opt v.boundsIdx                             -- 72-74
        ((r1.seq r2).seq r3, v, true)                                   -- 76 continue
      else
        (r1.seq r2, v, false)                                           -- 80 break
    else
      (Run.empty, v, false)                                             -- 80 break

/-- the loop (l.35-81) -/
def innerWhile (opt : Opt) (line : Bytes) : Nat → Vars → Run × Vars
  | 0, v => (Run.hang, v)
  | fuel + 1, v =>
    if v.boundsIdx < opt.bounds.list.length then                        -- 35
      let b := innerBody opt line v
      if b.2.2 then                                                     -- continue
        let l := innerWhile opt line fuel b.2.1
        (b.1.seq l.1, l.2)
      else (b.1, b.2.1)                                                 -- break
    else (Run.empty, v)

/-! ## `while let Some(line) = read_line_with_eol(stdin, &mut line_buf, opt.eol)` (l.22-87) -/

/-- l.23-26: `match line_idx.checked_add(1) { Some(n) => line_idx = n, None => past_last_index = true }` -/
def nextLine (v : Vars) : Vars :=
  match i32CheckedAdd v.lineIdx 1 with                                  -- 23 line_idx.checked_add(1)
  | Option.some n => { v with lineIdx := n }                            -- 24
  | Option.none => { v with pastLastIndex := true }                     -- 25

def readWhile (opt : Opt) : Nat → Bytes → Vars → Run × Vars
  | 0, _, v => (Run.hang, v)
  | fuel + 1, stdin, v =>
    match readLineWithEol stdin opt.eol with                            -- 22
    | (.none, _) => (Run.empty, v)                                      -- the loop ends
    | (line, stdin) =>
      let v := nextLine v                                               -- 23-26
      match line with                                                   -- 28 let line = line?;
      | .none => (Run.empty, v)                                         -- (not reached: matched above)
      | .someErr => (Run.fail, v)                                       -- 28 `?`
      | .someOk line =>
        let line := stripEol opt.eol.byte line                          -- 30 strip_suffix(eol).unwrap_or(line)
        -- 32-34 Print the matching fields. Fields are ordered but can still be
        -- duplicated, e.g. 1-2,2,3 , so we may have to print the same line multiple times
        let w := innerWhile opt line (opt.bounds.list.length + 1) v     -- 35-81
        let v := w.2
        if v.boundsIdx == opt.bounds.list.length then                   -- 83
          -- no need to read the rest, we don't have other bounds to test
          (w.1, v)                                                      -- 85 break
        else
          let l := readWhile opt fuel stdin v
          (w.1.seq l.1, l.2)

/-! ## "The input is exhausted. Did we output every bound?" (l.90-122) -/

/-- l.91-114: the value of `let output: &[u8] = match bof { … }` (`Option.none` = `bail!`) and
    `add_newline_next` afterwards -/
def epilogueOutput (opt : Opt) (bof : BoF) (addNewlineNext : Bool) : Option Bytes × Bool :=
  match bof with
  | .filler f => (Option.some f, addNewlineNext)                        -- 92
  | .bound b =>                                                         -- 93
    if addNewlineNext then                                              -- 94
      -- some lines of this bound have been printed already
      let addNewlineNext := false                                       -- 96
      if b.r ≠ Side.cont then                                           -- 98
        -- not good, the input ended in the middle of the range
        (Option.none, addNewlineNext)                                   -- 101 bail!
      else (Option.some [], addNewlineNext)                             -- 104 &[]
    else
      match b.fallback with
      | Option.some fallback => (Option.some fallback, addNewlineNext)  -- 105-107
      | Option.none =>
        match opt.fallbackOob with
        | Option.some genericFallback => (Option.some genericFallback, addNewlineNext)   -- 108-109
        | Option.none => (Option.none, addNewlineNext)                  -- 111 bail!

/-- `while let Some(bof) = opt.bounds.get(bounds_idx)` (l.90-122) -/
def epilogueWhile (opt : Opt) : Nat → Vars → Run × Vars
  | 0, v => (Run.hang, v)
  | fuel + 1, v =>
    match opt.bounds.list[v.boundsIdx]? with                            -- 90
    | Option.none => (Run.empty, v)                                     -- the loop ends
    | Option.some bof =>
      let p := epilogueOutput opt bof v.addNewlineNext                  -- 91-114
      let v := { v with addNewlineNext := p.2 }
      match p.1 with
      | Option.none => (Run.fail, v)                                    -- 101 / 111 bail!
      | Option.some output =>
        let r1 := Run.ok output                                         -- 116 stdout.write_all(output)?
        let v := { v with boundsIdx := v.boundsIdx + 1 }                -- 117
        let r2 := joinWrite opt v.boundsIdx                             -- 119-121
        let l := epilogueWhile opt fuel v
        ((r1.seq r2).seq l.1, l.2)

end LinesLoop

open LinesLoop

/-- `cut_lines_forward_only(stdin, stdout, opt)` (cut_lines.rs:10-127), statement by statement,
    on a fault-free reader that delivers `stdin` -/
def cutLinesForwardOnlyLoop (opt : Opt) (stdin : Bytes) : Run :=
  let v : Vars :=
    { lineIdx := 0, pastLastIndex := false, boundsIdx := 0, addNewlineNext := false }   -- 18-21
  let w := readWhile opt (stdin.length + 1) stdin v                     -- 22-87
  let e := epilogueWhile opt (opt.bounds.list.length + 1) w.2           -- 90-122
  (w.1.seq e.1).seq (Run.ok [opt.eol.byte])                             -- 124 stdout.write_all(&[opt.eol as u8])?

namespace LinesLoop

/-- `cut_lines(stdin, stdout, opt)` (cut_lines.rs:129-149) -/
def cutLinesLit (opt : Opt) (stdin : Bytes) : Run :=
  let buffer := stdin                                                   -- 130-131 stdin.read_to_end(&mut buffer)?
  if !validUtf8 buffer then Run.fail                                    -- 132 std::str::from_utf8(&buffer)?
  else
    let bufferAsStr := buffer
    let boundsAsRanges : List Range := []                               -- 133
    let compressedLineBuf : Bytes := []                                 -- 134
    let bufferAsStr := stripEol opt.eol.byte bufferAsStr                -- 136-138
    -- 140 Just use cut_str, we're cutting a (big) string whose delimiter is newline
    (cutStr bufferAsStr opt boundsAsRanges compressedLineBuf [opt.eol.byte]).1   -- 141-148

end LinesLoop

/-- `read_and_cut_lines(stdin, stdout, opt)` (cut_lines.rs:151-169) -/
def readAndCutLinesLoop (opt : Opt) (stdin : Bytes) : Run :=
  -- 156-158 If bounds cut from left to right and do not internally overlap (e.g. 1:2,2,4:5,8)
  -- then we can use a streaming algorithm and avoid allocating everything in memory.
  let canBeStreamed :=
    !opt.complement && !opt.compressDelimiter && isForwardOnly opt.bounds.list   -- 159-160
  if canBeStreamed then                                                 -- 162
    (cutLinesForwardOnlyLoop opt stdin).seq Run.empty                   -- 163 …?; 168 Ok(())
  else
    (cutLinesLit opt stdin).seq Run.empty                               -- 165 …?; 168 Ok(())

end Tuc
