import Tuc.Model.Args
/-!
# Tuc.Model.Faults — how read and write faults surface (C14)

*Write faults.*  Every engine writes with `write_all(..)?`, so it stops at the first write the
writer refuses; with `main`'s `BufWriter` and the explicit `flush()?` that every successful path
ends with, what reaches stdout is the longest prefix of the fault-free output the writer accepts
(`deliver`, in `Args.lean`), and the exit status is non-zero iff something was cut off.

*Read faults.*  The reader delivers the first `k` bytes of the input and then returns an error
instead of data (`EISDIR`, `EIO`, …).
* record engines (`for_byte_record`): a record is handed to the cutter only once its terminator
  (or EOF) has been read, so exactly the records terminated within the first `k` bytes are cut,
  then the error is propagated;
* `-M`: bytes are processed as they arrive; the error is propagated by `fill_buf()?`;
* `-b` and the buffered `-l`: `read_to_end` fails before anything is cut;
* `-l` one line at a time: lines terminated within the first `k` bytes are processed.
-/
namespace Tuc

/-- the records whose terminator lies within `prefix` (the unterminated tail is not a record yet) -/
def completeRecords (eol : UInt8) (pre : Bytes) : List Bytes :=
  let rs := splitRecords eol [] pre
  match pre.getLast? with
  | some c => if c = eol then rs else rs.dropLast
  | none => rs

/-- a run that ends with the propagated read error -/
def Run.thenReadError (r : Run) : Run :=
  match r.status with
  | .ok => ⟨r.out, .fail⟩
  | _ => r

/-- the chunk machine without its EOF step -/
def streamRunOpen (o : StreamOpt) : SState → List (UInt8 × Bool) → Run × SState
  | st, [] => (Run.empty, st)
  | st, (c, last) :: t =>
    let (r, st') := streamStep o st c last
    match r.status with
    | .ok =>
      let (r', st'') := streamRunOpen o st' t
      (r.seq r', st'')
    | _ => (r, st')

/-- one-line-at-a-time `-l` on the lines read before the reader fails.  The per-line loop is the
    same; `true` = every bound has been served, the loop has left and the reader is never called
    again (the run ends well); `false` = the next `read_line` returns the error. -/
def fwdLinesOpen (o : Opt) : List Bytes → Int → List BoF → Bool → Run × Bool
  | [], _, _, _ => (Run.empty, false)
  | line :: t, idx, rest, addNl =>
    if !validUtf8 line then (Run.fail, false)
    else
      let (w, rest', a) := fwdLine o line (idx + 1) rest addNl
      if rest'.isEmpty then (Run.ok (w ++ [o.eol.byte]), true)
      else
        let (r, done) := fwdLinesOpen o t (idx + 1) rest' a
        (Run.pre w r, done)

/-- `dispatch` when the reader fails after `k` bytes (`segs` = the reads that succeeded) -/
def dispatchReadFault (o : Opt) (fixedMemory : Bool) (segs : List Bytes) : Option Run :=
  let pre := segs.flatten
  if fixedMemory then
    match streamOptOf o with
    | some so => some (streamRunOpen so {} (tagSegments segs)).1.thenReadError
    | none => none
  else if o.boundsType = .bytes then some Run.fail
  else if o.boundsType = .lines then
    if !o.complement && !o.compressDelimiter && isForwardOnly o.bounds.list then
      let (r, done) := fwdLinesOpen o (completeRecords o.eol.byte pre) 0 o.bounds.list false
      some (if done then r else r.thenReadError)
    else some Run.fail
  else
    match fastOptOf o with
    | some fo =>
      some (fastRecords fo fo.bounds.lastInteresting (completeRecords o.eol.byte pre) []).thenReadError
    | none => some (cutRecords o (completeRecords o.eol.byte pre) [] []).thenReadError

end Tuc
