import Tuc.Model.OptLit
import Tuc.Model.ReadLoops
import Tuc.Model.CutStrLit
import Tuc.Model.FastLoop
import Tuc.Model.StreamLoop
import Tuc.Model.LinesLoop
/-!
# Tuc.Model.WholeLit — the whole program, assembled ONLY from the statement-level transcriptions

Every Rust function of `tuc` has a statement-by-statement transcription ("literal model") in its
own file, each proved equal to the normal-form model that the property theorems speak about.  But
each of those literal models CALLS the normal-form model of its callees: `OptLit.dispatchLit` calls
the normal-form engines on the concatenated input, `ReadLoops.readAndCutStrLoop` calls the
normal-form `cutStr`, `LinesLoop.cutLinesLit` calls `cutStr` and reads a byte string, …  This file
is the CAPSTONE: one definition

    tucProgramLit (regexOk : Arg → Bool) (argv : List Arg) (segs : List Bytes) : MainResult

in which every call goes to the LITERAL transcription of the callee, over the SEGMENTED reader
(`segs` = the chunks that the successive `fill_buf()` calls of the `BufReader` hand out):

| Rust | here | built from |
|---|---|---|
| `main` l.259 `parse_args()?` (tuc.rs) | `tucProgramLit` | `parseArgv` (`Tuc.Model.Argv`: pico_args + `parse_args`) |
| regex compilation inside `parse_args` (tuc.rs:170-185) | `tucRunWhole` | `compileBag` (as `tucRun`) |
| `main` l.261-289 | `dispatchWhole` | the text of `OptLit.dispatchLit`; `OptLit.StreamOptLit.tryFrom`, `OptLit.FastOptLit.tryFrom` |
| `read_and_cut_str` (cut_str.rs:458-503) | `readAndCutStrWhole` | `ReadLoops.forByteRecordLoop` (bstr `for_byte_record`, `for_byte_record_with_terminator`, std `read_until`) with the closure `cutStrLitClosure` = l.472-485 calling **`CutStrLit.cutStrLit`** (machine-integer `try_into_range`), the two scratch buffers threaded as captured state |
| `read_and_cut_text_as_bytes` (fast_lane.rs:173-198) | `readAndCutTextAsBytesWhole` | `ReadLoops.forByteRecordLoop` with the closure `fastLaneClosure` = l.183-188 calling **`cutStrFastLaneLoop`** (`Tuc.Model.FastLoop`; `i32` field counter), the vector `fields` as captured state |
| `read_and_cut_bytes_stream` (stream.rs:161-169) | `readAndCutBytesStreamWhole` | `OptLit.ForwardBoundsLit.getLastBound`, then **`StreamLoop.cutBytesStreamLoop`** |
| `read_line_with_eol` (read_utils.rs:16-45) | `readLineWithEolSeg` | `LinesLoop.readLineWithEol` with `read_until` = **`ReadLoops.readUntilLoop`** (std's loop over `fill_buf` / `consume`) |
| `cut_lines_forward_only` (cut_lines.rs:10-127) | `cutLinesForwardOnlyWhole` | `readWhileSeg` = `LinesLoop.readWhile` over the segmented reader; `LinesLoop.nextLine`, `innerWhile`, `epilogueWhile` (they do not touch the reader) |
| `cut_lines` (cut_lines.rs:129-149) | `cutLinesWhole` | **`ReadLoops.readToEndLoop`**, then **`CutStrLit.cutStrLit`** |
| `read_and_cut_lines` (cut_lines.rs:151-169) | `readAndCutLinesWhole` | the text of `readAndCutLinesLoop` |
| `read_and_cut_bytes` (cut_bytes.rs:38-49) | `ReadLoops.readAndCutBytesLoop` | (is fully literal already: `read_bytes_to_end`, `read_to_end`, `cut_bytes`) |

`Tuc.Props.WholeLit` proves `tucProgramLit_eq : … → tucProgramLit regexOk argv segs = tucMain
regexOk argv segs` for every argument vector, every input and every segmentation into non-empty
reads, states the hypotheses (non-empty reads; fewer than 2³¹ fields per record where
`parts_length as i32` is computed; the `i32` counter of the fast lane) as one decidable predicate,
and transports totality, chunk independence and an end-to-end specification to `tucProgramLit`.

What is still called through a normal-form model INSIDE the literal pieces (each with its own
refinement theorem, so nothing is lost — but it is not "text" in this file):

* inside `CutStrLit.cutStrLit`: `trim` / `fill_with_fields_locations*` / `compress_delimiter`
  (`Tuc.Props.TextLoops` ties them to `Tuc.Model.TextLoops`), the list-level `complement` / `unpack`
  (`BoundsLit.complement_eq` / `unpack_eq` per bound);
* inside `cutStrFastLaneLoop` and `ReadLoops.cutBytesBody`: `UserBounds::try_into_range` is the
  unbounded `UserBounds.tryIntoRange` (`BoundsLit.tryIntoRange_model` is its refinement);
* inside `StreamLoop.cutBytesStreamLoop`: `print_bof` is called through `StreamLoop.printBofCall`
  (`OptLit.printBofLit_eq_of_opt` ties it to the statement-level `OptLit.printBofLit`);
* inside `parseArgv`: `UserBoundsList::from_str` is `boundsListOfString`
  (`Tuc.Props.BoundsListLit` ties it to `Tuc.Model.BoundsListLit`).

Conventions: those of `Tuc.Model.ReadLoops` (the reader `stdin : List Bytes`, `fillBuf`,
`consume`; an empty `fill_buf()` is EOF; `stdout` fault-free: a statement that writes yields the
`Run` of what it wrote, `a.seq b` = the `?` operator; every panicking operation is checked; loops
whose progress is not structural take fuel and yield `hang`).  The numbers in the trailing comments
are the lines of the Rust file named in the section title (`/repo` at commit 9782769).
-/

namespace Tuc
namespace WholeLit

open StreamLoop (fillBuf consume totalBytes fuelFor)
open ReadLoops (Closure forByteRecordLoop readUntilLoop readToEndLoop stripSuffix)
open OptLit

/-! ## `read_and_cut_str` (cut_str.rs:458-503) -/

/-- the closure of l.472-485 (and, word for word, of l.486-499): it captured `bounds_as_ranges` and
    `compressed_line_buf` by `&mut`; the callee is the statement-level `cut_str` -/
def cutStrLitClosure (opt : Opt) : Closure (List Range × Bytes) := fun line st =>
  let line := (stripSuffix line [opt.eol.byte]).getD line               -- 473 line.strip_suffix(&[opt.eol as u8]).unwrap_or(line)
  let r := CutStrLit.cutStrLit line opt st.1 st.2 [opt.eol.byte]        -- 474-481 cut_str(line, &opt, stdout, &mut …, &mut …, &[opt.eol as u8])
  (r.1, true, (r.2.1, r.2.2))                                           -- 483 .map_err(…) 484 .and(Ok(true))

/-- `read_and_cut_str(stdin, stdout, opt)` on a fault-free reader that hands out the chunks `stdin` -/
def readAndCutStrWhole (opt : Opt) (stdin : List Bytes) : Run :=
  -- 463 line_buf is only asked for its capacity
  let boundsAsRanges : List Range := []                                 -- 464
  let compressedLineBuf : Bytes := []                                   -- 465-469 (both arms: an empty Vec)
  -- 471 match opt.eol: the two arms have the same text
  let r := forByteRecordLoop opt.eol.byte (cutStrLitClosure opt) stdin  -- 472 / 486 stdin.for_byte_record(opt.eol.into(), |line| …)
             (boundsAsRanges, compressedLineBuf)
  r.1.seq Run.empty                                                     -- 485 / 499 `?`; 502 Ok(())

/-! ## `read_and_cut_text_as_bytes` (fast_lane.rs:173-198) -/

/-- the closure of l.183-188 (and of l.189-194): it captured `fields` by `&mut` -/
def fastLaneClosure (opt : FastOpt) (lastInterestingField : Side) : Closure (List Nat) := fun line fields =>
  let r := cutStrFastLaneLoop line opt fields lastInterestingField      -- 184 / 190 cut_str_fast_lane(line, opt, stdout, &mut fields, last_interesting_field)
  (r.1, true, r.2)                                                      -- 186-187 .map_err(…).and(Ok(true))

/-- `read_and_cut_text_as_bytes(stdin, stdout, opt)` on a fault-free reader that hands out the
    chunks `stdin` -/
def readAndCutTextAsBytesWhole (opt : FastOpt) (stdin : List Bytes) : Run :=
  let fields : List Nat := []                                           -- 178 Vec::with_capacity(16)
  let lastInterestingField := opt.bounds.lastInteresting                -- 180
  match opt.eol with                                                    -- 182
  | .newline =>
    (forByteRecordLoop opt.eol.byte                                     -- 183 stdin.for_byte_record(opt.eol.into(), |line| …)
      (fastLaneClosure opt lastInterestingField) stdin fields).1.seq    -- 188 `?`
      Run.empty                                                         -- 197 Ok(())
  | .zero =>
    (forByteRecordLoop opt.eol.byte                                     -- 189
      (fastLaneClosure opt lastInterestingField) stdin fields).1.seq    -- 194 `?`
      Run.empty                                                         -- 197 Ok(())

/-! ## `read_and_cut_bytes_stream` (stream.rs:161-169) -/

/-- `read_and_cut_bytes_stream(stdin, stdout, opt)`: `OptLit.readAndCutBytesStreamLit` with the
    callee `cut_bytes_stream` = the statement-level `StreamLoop.cutBytesStreamLoop` -/
def readAndCutBytesStreamWhole (opt : StreamOptLit) (stdin : List Bytes) : Run :=
  match opt.bounds.getLastBound with                                    -- 166 opt.bounds.get_last_bound()
  | Option.none => Run.panic                                            -- l.95 panic!
  | Option.some b =>
    let lastInterestingField := b.r                                     -- 166 .r
    (StreamLoop.cutBytesStreamLoop (opt.toModel lastInterestingField) stdin).seq   -- 167 cut_bytes_stream(..)?
      Run.empty                                                         -- 168 Ok(())

/-! ## `read_line_with_eol` (read_utils.rs:16-45) over the segmented reader -/

/-- `read_line_with_eol(reader, buffer, eol)`: the text of `LinesLoop.readLineWithEol`, with
    `read_until` / `read_line` = std's loop `ReadLoops.readUntilLoop` over `fill_buf` / `consume`
    (entered with `totalBytes reader + 1` units of fuel, as in `ReadLoops.outerLoop`).  The result
    and the reader afterwards; `panic` / `hang` are those of `read_until` (the checked slice
    `&available[..=i]`, the fuel). -/
def readLineWithEolSeg (reader : List Bytes) (eol : EOL) : Outcome (LinesLoop.LineRead × List Bytes) :=
  let buffer : Bytes := []                                              -- 21 buffer.clear()
  let m : Outcome (Option Nat × Bytes × List Bytes) :=                  -- (result, buffer, reader)
    match eol with                                                      -- 23
    | .newline =>
      -- 25 reader.read_line(buffer): read_until(b'\n') into the string, checked as UTF-8
      match readUntilLoop 10 (totalBytes reader + 1) reader [] 0 with
      | .hang => .hang
      | .panic => .panic
      | .ok (n, bytes, reader) =>
        if validUtf8 bytes then .ok (Option.some n, buffer ++ bytes, reader)
        else .ok (Option.none, buffer, reader)
    | .zero =>
      let bytes := buffer                                               -- 29 take(buffer).into_bytes()
      match readUntilLoop eol.byte (totalBytes reader + 1) reader bytes 0 with   -- 30 read_until(eol as u8, &mut bytes)
      | .hang => .hang
      | .panic => .panic
      | .ok (res, bytes, reader) =>
        if validUtf8 bytes then                                         -- 31 String::from_utf8(bytes)
          .ok (Option.some res, bytes, reader)                          -- 32-35 *buffer = s; res
        else
          .ok (Option.none, [], reader)                                 -- 36-39 Err(InvalidData)
  -- 43-44 .map(|u| if u == 0 { None } else { Some(buffer) }).transpose()
  match m with
  | .hang => .hang
  | .panic => .panic
  | .ok m =>
    match m.1 with
    | Option.none => .ok (.someErr, m.2.2)
    | Option.some u => if u == 0 then .ok (.none, m.2.2) else .ok (.someOk m.2.1, m.2.2)

/-! ## `cut_lines_forward_only` (cut_lines.rs:10-127) over the segmented reader -/

/-- `while let Some(line) = read_line_with_eol(stdin, &mut line_buf, opt.eol)` (l.22-87): the text of
    `LinesLoop.readWhile`; only the reader differs -/
def readWhileSeg (opt : Opt) : Nat → List Bytes → LinesLoop.Vars → Run × LinesLoop.Vars
  | 0, _, v => (Run.hang, v)
  | fuel + 1, stdin, v =>
    match readLineWithEolSeg stdin opt.eol with                         -- 22
    | .hang => (Run.hang, v)                                            -- inside read_until
    | .panic => (Run.panic, v)                                          -- inside read_until
    | .ok (.none, _) => (Run.empty, v)                                  -- the loop ends
    | .ok (line, stdin) =>
      let v := LinesLoop.nextLine v                                     -- 23-26
      match line with                                                   -- 28 let line = line?;
      | .none => (Run.empty, v)                                         -- (not reached: matched above)
      | .someErr => (Run.fail, v)                                       -- 28 `?`
      | .someOk line =>
        let line := stripEol opt.eol.byte line                          -- 30 strip_suffix(eol).unwrap_or(line)
        let w := LinesLoop.innerWhile opt line (opt.bounds.list.length + 1) v     -- 35-81
        let v := w.2
        if v.boundsIdx == opt.bounds.list.length then                   -- 83
          (w.1, v)                                                      -- 85 break
        else
          let l := readWhileSeg opt fuel stdin v
          (w.1.seq l.1, l.2)

/-- `cut_lines_forward_only(stdin, stdout, opt)`: the text of `cutLinesForwardOnlyLoop` -/
def cutLinesForwardOnlyWhole (opt : Opt) (stdin : List Bytes) : Run :=
  let v : LinesLoop.Vars :=
    { lineIdx := 0, pastLastIndex := false, boundsIdx := 0, addNewlineNext := false }   -- 18-21
  let w := readWhileSeg opt (totalBytes stdin + 1) stdin v              -- 22-87
  let e := LinesLoop.epilogueWhile opt (opt.bounds.list.length + 1) w.2 -- 90-122
  (w.1.seq e.1).seq (Run.ok [opt.eol.byte])                             -- 124 stdout.write_all(&[opt.eol as u8])?

/-! ## `cut_lines`, `read_and_cut_lines` (cut_lines.rs:129-169) -/

/-- `cut_lines(stdin, stdout, opt)`: `read_to_end` is std's loop `ReadLoops.readToEndLoop`, the
    callee is the statement-level `cut_str` -/
def cutLinesWhole (opt : Opt) (stdin : List Bytes) : Run :=
  let buffer : Bytes := []                                              -- 130 Vec::with_capacity(32 * 1024)
  match readToEndLoop (fuelFor stdin) stdin buffer 0 with               -- 131 stdin.read_to_end(&mut buffer)?
  | .hang => Run.hang
  | .panic => Run.panic
  | .ok (_, buffer, _) =>
    if !validUtf8 buffer then Run.fail                                  -- 132 std::str::from_utf8(&buffer)?
    else
      let bufferAsStr := buffer
      let boundsAsRanges : List Range := []                             -- 133
      let compressedLineBuf : Bytes := []                               -- 134
      let bufferAsStr := stripEol opt.eol.byte bufferAsStr              -- 136-138
      -- 140 Just use cut_str, we're cutting a (big) string whose delimiter is newline
      (CutStrLit.cutStrLit bufferAsStr opt boundsAsRanges compressedLineBuf [opt.eol.byte]).1   -- 141-148

/-- `read_and_cut_lines(stdin, stdout, opt)` -/
def readAndCutLinesWhole (opt : Opt) (stdin : List Bytes) : Run :=
  let canBeStreamed :=
    !opt.complement && !opt.compressDelimiter && isForwardOnly opt.bounds.list   -- 159-160
  if canBeStreamed then                                                 -- 162
    (cutLinesForwardOnlyWhole opt stdin).seq Run.empty                  -- 163 …?; 168 Ok(())
  else
    (cutLinesWhole opt stdin).seq Run.empty                             -- 165 …?; 168 Ok(())

/-! ## `main` (bin/tuc.rs:258-290) -/

/-- `main` from l.261 on, `opt` being what `parse_args()?` returned: the text of
    `OptLit.dispatchLit`, every engine being the statement-level one over the reader `segs`.
    `Option.none` = the `std::process::exit(1)` of l.267; a panic is `Option.some Run.panic`. -/
def dispatchWhole (opt : Opt) (segs : List Bytes) : Option Run :=
  if opt.fixedMemory.isSome then                                        -- 264
    match StreamOptLit.tryFrom opt with                                 -- 265 StreamOpt::try_from(&opt).unwrap_or_else(..)
    | .fail => Option.none                                              -- 266-267 eprintln!(..); exit(1)
    | .panic => Option.some Run.panic
    | .ok streamOpt =>
      Option.some (readAndCutBytesStreamWhole streamOpt segs)           -- 270 read_and_cut_bytes_stream(..)?; 272; 274
  else if opt.boundsType = .bytes then                                  -- 277
    Option.some (ReadLoops.readAndCutBytesLoop opt segs)                -- 278 read_and_cut_bytes(..)?
  else if opt.boundsType = .lines then                                  -- 279
    Option.some (readAndCutLinesWhole opt segs)                         -- 280 read_and_cut_lines(..)?
  else
    match FastOptLit.tryFrom opt with                                   -- 281 else if let Ok(fast_opt) = FastOpt::try_from(&opt)
    | .ok fastOpt => Option.some (readAndCutTextAsBytesWhole fastOpt segs)   -- 282 read_and_cut_text_as_bytes(..)?
    | .fail => Option.some (readAndCutStrWhole opt segs)                -- 283-284 read_and_cut_str(..)?
    | .panic => Option.some Run.panic
                                                                        -- 287 stdout.flush()?; 289 Ok(())

/-- `tucRun` of `Tuc.Model.Main` with the statement-level dispatch (the regex bag is compiled as
    `tucRun` compiles it: tuc.rs:170-185) -/
def tucRunWhole (o : Opt) (regexText : Option Arg) (segs : List Bytes) : MainResult :=
  match compileBag o regexText with
  | Option.none => .unmodelled
  | Option.some bag =>
    let o := { o with regexBag := bag }
    if o.boundsType = .characters && !validUtf8 segs.flatten then .unmodelled
    else MainResult.ofDispatch (dispatchWhole o segs)

/-- **the whole program, from the argument vector to the bytes on stdout, made of the
    statement-level transcriptions only**: `parse_args()?` (tuc.rs:259, `parseArgv`), then the rest
    of `main` on a stdin that delivers `segs.flatten` in the pieces `segs` -/
def tucProgramLit (regexOk : Arg → Bool) (argv : List Arg) (segs : List Bytes) : MainResult :=
  match parseArgv regexOk argv with                                     -- 259
  | .help => .help
  | .version => .version
  | .reject => .reject
  | .panic => .panic
  | .run o _ regexText => tucRunWhole o regexText segs                  -- 261-289

end WholeLit
end Tuc
