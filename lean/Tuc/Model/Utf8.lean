import Tuc.Model.Basic
/-!
# Tuc.Model.Utf8 — strict UTF-8 segmentation (`core::str::from_utf8`, Unicode Table 3-7) and the
JSON string encoder used by `--json` (`serde_json::to_string::<str>`).
-/

namespace Tuc

def isCont (b : UInt8) : Bool := 0x80 ≤ b && b ≤ 0xBF

/-- length of the well-formed UTF-8 sequence at the head of the string (Unicode Table 3-7:
    overlong forms, surrogates and values above U+10FFFF are not well formed), if there is one -/
def charLen : Bytes → Option Nat
  | [] => none
  | b0 :: t =>
    if b0 < 0x80 then some 1
    else if 0xC2 ≤ b0 && b0 ≤ 0xDF then
      match t with
      | b1 :: _ => if isCont b1 then some 2 else none
      | _ => none
    else if 0xE0 ≤ b0 && b0 ≤ 0xEF then
      match t with
      | b1 :: b2 :: _ =>
        let ok1 :=
          if b0 = 0xE0 then 0xA0 ≤ b1 && b1 ≤ 0xBF
          else if b0 = 0xED then 0x80 ≤ b1 && b1 ≤ 0x9F
          else isCont b1
        if ok1 && isCont b2 then some 3 else none
      | _ => none
    else if 0xF0 ≤ b0 && b0 ≤ 0xF4 then
      match t with
      | b1 :: b2 :: b3 :: _ =>
        let ok1 :=
          if b0 = 0xF0 then 0x90 ≤ b1 && b1 ≤ 0xBF
          else if b0 = 0xF4 then 0x80 ≤ b1 && b1 ≤ 0x8F
          else isCont b1
        if ok1 && isCont b2 && isCont b3 then some 4 else none
      | _ => none
    else none

def utf8CharsFuel : Nat → Bytes → Option (List Bytes)
  | _, [] => some []
  | 0, _ :: _ => none
  | fuel + 1, b :: t =>
    match charLen (b :: t) with
    | none => none
    | some k => (utf8CharsFuel fuel ((b :: t).drop k)).map ((b :: t).take k :: ·)

/-- Split a byte string into the encodings of its scalar values; `none` iff it is not valid UTF-8
    (as `core::str::from_utf8` decides it).  The fuel (one unit per character) never runs out:
    every character is at least one byte long. -/
def utf8Chars (bs : Bytes) : Option (List Bytes) := utf8CharsFuel bs.length bs

def validUtf8 (bs : Bytes) : Bool := (utf8Chars bs).isSome

/-- offsets of every scalar-value boundary of a valid UTF-8 string, `0` and `len` included —
    the empty matches of the regex `\b|\B` -/
def boundariesFrom : Nat → List Bytes → List Nat
  | pos, [] => [pos]
  | pos, c :: t => pos :: boundariesFrom (pos + c.length) t

def hexDigitLower (n : Nat) : UInt8 :=
  if n < 10 then UInt8.ofNat (48 + n) else UInt8.ofNat (87 + n)

/-- serde_json's escape of one byte of a `str` (ESCAPE table of `ser.rs`) -/
def jsonEscapeByte (b : UInt8) : Bytes :=
  if b = 0x22 then [0x5C, 0x22]            -- \"
  else if b = 0x5C then [0x5C, 0x5C]       -- \\
  else if b = 0x08 then [0x5C, 0x62]       -- \b
  else if b = 0x0C then [0x5C, 0x66]       -- \f
  else if b = 0x0A then [0x5C, 0x6E]       -- \n
  else if b = 0x0D then [0x5C, 0x72]       -- \r
  else if b = 0x09 then [0x5C, 0x74]       -- \t
  else if b < 0x20 then
    [0x5C, 0x75, 0x30, 0x30, hexDigitLower (b.toNat / 16), hexDigitLower (b.toNat % 16)]  -- \u00XX
  else [b]

/-- `serde_json::to_string(&str)` -/
def jsonString (s : Bytes) : Bytes := [0x22] ++ s.flatMap jsonEscapeByte ++ [0x22]

end Tuc
