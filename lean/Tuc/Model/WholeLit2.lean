import Tuc.Model.WholeLit
import Tuc.Model.TextLoops
import Tuc.Model.RegexLit
import Tuc.Model.LibLit
import Tuc.Model.BoundsListLit
/-!
# Tuc.Model.WholeLit2 — the whole program, one level deeper: the callees of the literal pieces too

`Tuc.Model.WholeLit.tucProgramLit` assembles the program from the statement-level transcriptions of
the Rust functions, but four groups of callees are still called through their NORMAL-FORM models
inside a literal piece (the list at the end of the header of `Tuc.Model.WholeLit`), each with a
statement-level transcription and a refinement theorem of its own elsewhere.  This file defines

    tucProgramLit2 (align : Bytes → Nat) (regexOk : Arg → Bool) (argv : List Arg) (segs : List Bytes) : MainResult

= `tucProgramLit` with those callees replaced by THEIR statement-level transcriptions.  Every affected
piece is a COPY of the frozen definition (same statements, same line numbers in the trailing
comments) in which only the callee is substituted; the name is the old one with a `2`.

| piece (copy of) | callee in `Tuc.Model.WholeLit` (normal form) | callee here (statement level) |
|---|---|---|
| `fillWithFieldsLocationsLoop2`, `compressDelimiterLoop2` (`Tuc.Model.TextLoops`) | `findIter` = `line.find_iter(d)` | `findIterLit`: `memmem::FindIter::next` (`TextLoops.findIterLoop`) collected |
| `trimStage2` (`CutStrLit.trimStage`, cut_str.rs:280-291) | `trimLiteral`, `trimRegex` | `trimLoop`, `RegexLit.trimRegexLit` |
| `compressStage2` (l.300-330) | `compressDelimiter`, `replaceMatches` | `compressDelimiterLoop2`, `RegexLit.compressDelimiterWithRegexLit` (`Regex::replace_all` → `replacen`, regex 1.11.1) |
| `fieldsStage2` (l.332-355) | `fillWithFieldsLocations[Greedy]`, `fillWithFieldsLocationsUsingRegex` | `fillWithFieldsLocations[Greedy]Loop2`, `RegexLit.fillWithFieldsLocationsUsingRegexLit` |
| `fieldToPrint2` / `fieldOfRange2` (l.416-434) | `CutStrLit.maybeReplaceDelimiterLit` (calls `replaceMatches`) | `RegexLit.maybeReplaceDelimiterLit` (calls the literal `replace_all`) |
| `writeMaybeAsJsonLit2` (l.247-258) | `validUtf8`, `jsonString` | `LibLit.writeAsJsonLit`: core's `run_utf8_validation` + serde_json's `to_string` |
| `emitStage2` (l.357-455) | `complementList`, `unpackList` | `complementLit`, `unpackLit`: `BoundsListLit.UserBoundsListL.complement` / `unpack` on `i32` bounds |
| `cutLinesWhole2`, `readLineWithEolSeg2` (cut_lines.rs:132, read_utils.rs:25/31) | `validUtf8` | `LibLit.fromUtf8IsOk` |
| `readAndCutLinesWhole2` (cut_lines.rs:159-160) | `isForwardOnly` | `isForwardOnlyLit`: `UserBoundsListL.isForwardOnly` (`is_sortable`, `is_sorted`, the `PartialOrd` impls, `has_negative_indices`) |
| `innerBody2` (`LinesLoop.innerBody`, cut_lines.rs:55) | `UserBounds.matches` | `matchesLit`: `BoundsLit.UserBoundsL.matches` on `i32`s |
| `cutBytesBody2` (`ReadLoops.cutBytesBody`, cut_bytes.rs:15) | `UserBounds.tryIntoRange` | `BoundsLit.UserBoundsL.tryIntoRange` (`parts_length as i32`, checked sums) |
| `outputPartsLit2` / `outputOf2` (`FastLoop.outputPartsLit`, fast_lane.rs:103) | `UserBounds.tryIntoRange` | `BoundsLit.UserBoundsL.tryIntoRange` |
| `forBody2`, `remainingData2`, `afterNewChunk2` (`Tuc.Model.StreamLoop`, stream.rs:326/373/398) | `StreamLoop.printBofCall` (→ `printBof` of `Tuc.Model.Stream`) | `OptLit.printBofLit` (stream.rs:185-233 with `print_field`), `OptLit.printFillerOrFallbacksOf` |
| `parseWith2` (`parseWith`, tuc.rs:48-256) | `boundsListOfString` | `boundsArg2`: `BoundsListLit.fromStrLit` (the scanner `parse_bounds_list` with byte offsets and checked slices, `UserBounds::from_str`, `str::parse::<i32>`, `From<Vec<BoundOrFiller>>`) |

and the pieces that only pass the substituted callee on (`outputClosure2`, `tryForEach2`, `cutStrLit2`,
`cutStrLitClosure2`, `readAndCutStrWhole2`, `innerWhile2`, `readWhileSeg2`, `cutLinesForwardOnlyWhole2`,
`cutBytesLit2`, `readAndCutBytesLoop2`, `fastTryForEach2`, `afterScan2`, `cutStrFastLaneLoop2`,
`fastLaneClosure2`, `readAndCutTextAsBytesWhole2`, `forLoop2`, `chunkBody2`, `whileStep2`, `newChunk2`,
`cutBytesStreamLoop2`, `readAndCutBytesStreamWhole2`, `parseArgv2`, `dispatchWhole2`, `tucRunWhole2`).

`Tuc.Props.WholeLit2` proves `tucProgramLit2_eq_tucProgramLit` and `tucProgramLit2_eq : InDomain2 … →
tucProgramLit2 align regexOk argv segs = tucMain regexOk argv segs` (every `align`).

## Conventions added to those of `Tuc.Model.WholeLit`

* `Res4` = `Res` (`ok` / `fail` = `Err` / `panic`) + `Outcome` (`ok` / `panic` / `hang`): a stage of
  `cut_str` whose callees are loops with fuel can also `hang`;
* **the model's bounds are stored in `i32`s before a machine-integer callee runs** and read back
  afterwards (`BoundsLit.boundsOfModel`, `BoundsListLit.listOfModel`, `…toModel`), exactly as
  `CutStrLit.resolve` does: `Opt` (frozen, `Tuc.Model.Options`) keeps `Int` sides.  Faithful when the
  sides fit an `i32`, which `parse_args` guarantees (`CutStrLitProps.boundsOk_of_parseArgv`);
  `line_idx: i32` of `cut_lines_forward_only` is stored with `I32.wrap` (`matchesLit`);
* **`align : Bytes → Nat`** answers `v.as_ptr().align_offset(USIZE_BYTES)` (validations.rs:136-143)
  for every slice handed to `std::str::from_utf8` / `String::from_utf8` / `read_line`: the address
  of a slice is not modelled (`Tuc.Model.LibLit`), so it is a parameter of the program, and the
  theorems hold for EVERY such function (`usize::MAX` included).

## What is still called through a normal-form model

* **`-M`: `UserBounds::matches` inside `print_bof` (stream.rs:208) and `print_filler_or_fallbacks`
  (l.255)** is `UserBounds.matches` over `Int` (`BoundsLit.matches_eq` is its refinement).  The
  frozen `Tuc.Model.StreamLoop` keeps `curr_field` in an unbounded `Int` (l.364 `curr_field += 1`
  unchecked), so storing it in an `i32` for `matches` would need a bound on the number of fields of a
  record that the loop does not have; not done;
* inside `TextLoops.greedyWhile` / `greedySkip` / `trimLeftWhile` …: `haystack.find(needle)`,
  `starts_with`, `ends_with` are `TextLoops.find`, `List.isPrefixOf`, `List.isSuffixOf` (library
  functions modelled by what they compute); `memchr`, `memchr_iter`, `memchr2_iter`,
  `trim_start_with` / `trim_end_with` likewise; `Regex::find_iter` is the function stored in
  `RegexBag`; `text.replace(d, r)` of `maybe_replace_delimiter` l.158 is `Tuc.replaceAll`;
* the regex COMPILER and matcher (`compileBag`, `Re.parse`, `Re.bag`) and pico_args
  (`picoOps`) are as in `tucProgramLit`.
-/

namespace Tuc
namespace WholeLit2

open TextLoops

/-! ## 0. plumbing: a result that can also `hang` -/

/-- `Res` (`ok` / `fail` = `Err` / `panic`) and `Outcome` (`ok` / `panic` / `hang`) together: what a
    stage of `cut_str` yields once its callees are loops with fuel -/
inductive Res4 (α : Type) where
  | ok (a : α)
  | fail
  | panic
  | hang
  deriving Repr, DecidableEq

namespace Res4

def bind {α β : Type} (r : Res4 α) (f : α → Res4 β) : Res4 β :=
  match r with
  | .ok a => f a
  | .fail => .fail
  | .panic => .panic
  | .hang => .hang

def ofRes {α : Type} : Res α → Res4 α
  | .ok a => .ok a
  | .fail => .fail
  | .panic => .panic

def ofOutcome {α : Type} : Outcome α → Res4 α
  | .ok a => .ok a
  | .panic => .panic
  | .hang => .hang

end Res4

/-- a computation that can fail, panic or hang, inside a function that writes -/
def orStop4 {α : Type} (x : Res4 α) (k : α → Run) : Run :=
  match x with
  | .ok a => k a
  | .fail => Run.fail
  | .panic => Run.panic
  | .hang => Run.hang

/-! ## 1. the helpers of `cut_str.rs` over the literal `memmem::FindIter`

`Tuc.Model.TextLoops` iterates `for idx in line.find_iter(d)` over the normal-form `findIter d line`;
here the iterator is the transcription `TextLoops.findIterLoop` of `memmem::FindIter::next`, collected
(`line.len() + 2` calls of `next` are enough: `TextLoops.findIterLoop_eq_findIter`). -/

/-- `line.find_iter(delimiter)` collected: `memmem::FindIter::next` until it yields `None` -/
def findIterLit (delimiter line : Bytes) : List Nat :=
  findIterLoop delimiter line (line.length + 2) 0

/-- `fill_with_fields_locations` (cut_str.rs:19-42): the text of `fillWithFieldsLocationsLoop` -/
def fillWithFieldsLocationsLoop2 (buffer : List Range) (line delimiter : Bytes) :
    Outcome (List Range) :=
  let buffer := clear buffer                                            -- 20
  if line.isEmpty then                                                  -- 22
    .ok buffer                                                          -- 23 return
  else
    let delimiterLength := delimiter.length                             -- 26
    let prevPartStart := 0                                              -- 27
    let (buffer, prevPartStart) :=                                      -- 29-36
      fillFor delimiterLength (findIterLit delimiter line) buffer prevPartStart
    let buffer := push buffer ⟨prevPartStart, line.length⟩              -- 38-41
    .ok buffer

/-- `fill_with_fields_locations_greedy` (cut_str.rs:50-90): the text of
    `fillWithFieldsLocationsGreedyLoop` -/
def fillWithFieldsLocationsGreedyLoop2 (buffer : List Range) (line delimiter : Bytes) :
    Outcome (List Range) :=
  if delimiter.isEmpty then                                             -- 55
    fillWithFieldsLocationsLoop2 buffer line delimiter                  -- 58 return …
  else
    let buffer := clear buffer                                          -- 61
    if line.isEmpty then                                                -- 63
      .ok buffer                                                        -- 64 return
    else
      let delimiterLength := delimiter.length                           -- 67
      let prevPartStart := 0                                            -- 68
      (greedyWhile line delimiter delimiterLength (line.length + 1) buffer prevPartStart).bind  -- 70-84
        (greedyFinish line)                                             -- 86-89

/-- `compress_delimiter` (cut_str.rs:117-137): the text of `compressDelimiterLoop` -/
def compressDelimiterLoop2 (line delimiter output : Bytes) : Outcome Bytes :=
  let output := clear output                                            -- 118
  let prevIdx := 0                                                      -- 119
  (compressFor line delimiter (findIterLit delimiter line) output prevIdx).bind   -- 121-132
    (compressFinish line)                                               -- 134-136

/-! ## 2. `cut_str` (cut_str.rs:260-456): the text of `Tuc.Model.CutStrLit`, callees substituted -/

open CutStrLit (unwrap indexRange sliceBytes drainTo orStop resolve Locals)
open BoundsLit (usizeSub resMap)

/-- `write_maybe_as_json!(writer, to_print, as_json)` (cut_str.rs:247-258); the `--json` branch is
    `std::str::from_utf8` + `serde_json::to_string` as the libraries write them
    (`LibLit.writeAsJsonLit`).  `align` = what `as_ptr().align_offset(8)` answers for the slice (the
    address is not modelled: any function will do). -/
def writeMaybeAsJsonLit2 (align : Bytes → Nat) (toPrint : Bytes) (asJson : Bool) : Run :=
  if asJson then                                                       -- 249
    LibLit.writeAsJsonLit toPrint (align toPrint)                      -- 250-253
  else
    Run.ok toPrint                                                     -- 255 write_all(&to_print)?

/-- l.418-426: the bound resolved to `r` -/
def fieldOfRange2 (line : Bytes) (fields : List Range) (opt : Opt)
    (delimiterAlreadyReplaced : Bool) (r : Nat × Nat) : Res4 Bytes :=
  (Res4.ofRes (indexRange fields r.1)).bind fun fStart =>              -- 420 fields[r.start]
  let idxStart := fStart.start                                         -- 420 .start
  (Res4.ofRes (usizeSub r.2 1)).bind fun rEndM1 =>                     -- 421 r.end - 1
  (Res4.ofRes (indexRange fields rEndM1)).bind fun fEnd =>             -- 421 fields[..]
  let idxEnd := fEnd.stop                                              -- 421 .end
  (Res4.ofRes (sliceBytes line idxStart idxEnd)).bind fun s =>         -- 423 / 425 &line[idx_start..idx_end]
  if delimiterAlreadyReplaced then                                     -- 422
    .ok s                                                              -- 423 Cow::Borrowed(..)
  else
    (Res4.ofOutcome (RegexLit.maybeReplaceDelimiterLit s opt)).bind fun cow =>   -- 425 maybe_replace_delimiter(..)
    .ok cow.deref

/-- l.416-434 (`CutStrLit.fieldToPrint`): `maybe_replace_delimiter` with the regex crate's
    `replace_all` transcribed (`RegexLit.maybeReplaceDelimiterLit`) -/
def fieldToPrint2 (line : Bytes) (fields : List Range) (numFields : Nat) (opt : Opt)
    (delimiterAlreadyReplaced : Bool) (b : UserBounds) : Res4 Bytes :=
  match resolve b numFields with                                       -- 416 let r = b.try_into_range(num_fields);
  | .panic => .panic                                                   --     (overflow inside try_into_range)
  | .ok r => fieldOfRange2 line fields opt delimiterAlreadyReplaced r  -- 418-426
  | .fail =>
    if b.fallback.isSome then                                          -- 427 b.fallback_oob.is_some()
      Res4.ofRes (unwrap b.fallback)                                   -- 429 .as_ref().unwrap().as_slice()
    else
      match opt.fallbackOob with                                       -- 430 if let Some(generic_fallback)
      | Option.some genericFallback => .ok genericFallback             -- 431
      | Option.none => .fail                                           -- 433 return Err(r.unwrap_err())

/-- the closure (l.407-446) -/
def outputClosure2 (align : Bytes → Nat) (line : Bytes) (fields : List Range) (numFields : Nat)
    (opt : Opt) (delimiterAlreadyReplaced : Bool) (bof : BoF) : Run :=
  match bof with                                                       -- 408
  | .filler f =>                                                       -- 409
    (Run.ok f).seq Run.empty                                           -- 410-411 write_all(f)?; return Ok(())
  | .bound b =>                                                        -- 413
    orStop4 (fieldToPrint2 line fields numFields opt delimiterAlreadyReplaced b) fun fieldToPrint =>   -- 416-434
    (writeMaybeAsJsonLit2 align fieldToPrint opt.json).seq <|          -- 435
    (if opt.join && !b.isLast then                                     -- 437
      Run.ok (opt.replaceDelimiter.getD opt.delimiter)                 -- 438-443 replace_delimiter.unwrap_or(&delimiter)
     else Run.empty).seq
    Run.empty                                                          -- 446 Ok(())

/-- `bounds.iter().try_for_each(closure)`: stops at the first `Err` -/
def tryForEach2 (align : Bytes → Nat) (line : Bytes) (fields : List Range) (numFields : Nat)
    (opt : Opt) (delimiterAlreadyReplaced : Bool) : List BoF → Run
  | [] => Run.empty
  | bof :: rest =>
    (outputClosure2 align line fields numFields opt delimiterAlreadyReplaced bof).seq
      (tryForEach2 align line fields numFields opt delimiterAlreadyReplaced rest)

/-- l.280-291: `trim` is `trimLoop`, `trim_regex` is `RegexLit.trimRegexLit` -/
def trimStage2 (line : Bytes) (opt : Opt) : Res4 Bytes :=
  match opt.trim with                                                  -- 282 if let Some(trim_kind) = opt.trim
  | Option.some trimKind =>
    if opt.regexBag.isSome then                                        -- 283
      (Res4.ofRes (unwrap opt.regexBag)).bind fun bag =>               -- 286 opt.regex_bag.as_ref().unwrap()
      Res4.ofOutcome (RegexLit.trimRegexLit line trimKind bag.greedy)  -- 286 trim_regex(line, &trim_kind, &….greedy)
    else
      Res4.ofOutcome (trimLoop line trimKind opt.delimiter)            -- 289 trim(line, &trim_kind, &opt.delimiter)
  | Option.none => .ok line

/-- l.300-330: `compress_delimiter` is `compressDelimiterLoop2`, `compress_delimiter_with_regex` is
    `RegexLit.compressDelimiterWithRegexLit` -/
def compressStage2 (line : Bytes) (opt : Opt) (compressedLineBuf : Bytes) : Res4 Locals :=
  let shouldBuildRangesUsingRegex := opt.regexBag.isSome && true       -- 303 … && cfg!(feature = "regex")
  let delimiter := opt.delimiter                                       -- 305
  let shouldCompressDelimiter := opt.compressDelimiter                 -- 306-307
    && (opt.boundsType = .fields || opt.boundsType = .lines)
  let delimiterAlreadyReplaced := false                                -- 310
  if shouldCompressDelimiter then                                      -- 312
    if opt.regexBag.isSome && true then                                -- 313
      (Res4.ofRes (unwrap opt.replaceDelimiter)).bind fun delimiter => -- 316 we checked earlier the invariant
      (Res4.ofRes (unwrap opt.regexBag)).bind fun bag =>               -- 319 opt.regex_bag.as_ref().unwrap()
      (Res4.ofOutcome                                                  -- 317-321 compress_delimiter_with_regex
        (RegexLit.compressDelimiterWithRegexLit line bag.greedy delimiter)).bind fun lineHolder =>
      .ok { line := lineHolder.deref,                                  -- 322 line = &line_holder
            delimiter := delimiter,
            shouldBuildRangesUsingRegex := false,                      -- 323
            delimiterAlreadyReplaced := true,                          -- 324
            compressedLineBuf := compressedLineBuf }
    else
      (Res4.ofOutcome                                                  -- 327 compress_delimiter(line, &opt.delimiter, buf)
        (compressDelimiterLoop2 line opt.delimiter compressedLineBuf)).bind fun compressedLineBuf =>
      .ok { line := compressedLineBuf,                                 -- 328 line = compressed_line_buf
            delimiter := delimiter,
            shouldBuildRangesUsingRegex := shouldBuildRangesUsingRegex,
            delimiterAlreadyReplaced := delimiterAlreadyReplaced,
            compressedLineBuf := compressedLineBuf }
  else
    .ok { line := line, delimiter := delimiter,
          shouldBuildRangesUsingRegex := shouldBuildRangesUsingRegex,
          delimiterAlreadyReplaced := delimiterAlreadyReplaced,
          compressedLineBuf := compressedLineBuf }

/-- l.332-355: the three `fill_with_fields_locations*` are the loops of `Tuc.Model.TextLoops` /
    `Tuc.Model.RegexLit` -/
def fieldsStage2 (loc : Locals) (opt : Opt) (fields : List Range) : Res4 (List Range) :=
  (if loc.shouldBuildRangesUsingRegex then                             -- 332
    (Res4.ofRes (unwrap opt.regexBag)).bind fun bag =>                 -- 338 / 340 opt.regex_bag.as_ref().unwrap()
    Res4.ofOutcome (RegexLit.fillWithFieldsLocationsUsingRegexLit fields loc.line   -- 334-342
      (if opt.greedyDelimiter then bag.greedy else bag.normal))
   else if opt.greedyDelimiter then                                    -- 343
    Res4.ofOutcome (fillWithFieldsLocationsGreedyLoop2 fields loc.line loc.delimiter)   -- 344
   else
    Res4.ofOutcome (fillWithFieldsLocationsLoop2 fields loc.line loc.delimiter)).bind fun fields =>   -- 346
  if opt.boundsType = .characters && decide (fields.length > 2) then   -- 349
    let fields := fields.dropLast                                      -- 353 fields.pop()
    Res4.ofRes (drainTo fields 1)                                      -- 354 fields.drain(..1)
  else .ok fields

/-- `bounds.complement(num_fields)` (l.373) with the Rust integer types: the list of the model is
    stored in `i32`s (`BoundsListLit.listOfModel`, as `CutStrLit.resolve` does for one bound), then
    `UserBoundsList::complement` of `Tuc.Model.BoundsListLit`, read back -/
def complementLit (bounds : UserBoundsList) (numFields : Nat) : Res UserBoundsList :=
  resMap BoundsListLit.UserBoundsListL.toModel ((BoundsListLit.listOfModel bounds).complement numFields)

/-- `bounds.unpack(num_fields)` (l.402), likewise -/
def unpackLit (bounds : UserBoundsList) (numFields : Nat) : Res UserBoundsList :=
  resMap BoundsListLit.UserBoundsListL.toModel ((BoundsListLit.listOfModel bounds).unpack numFields)

/-- l.357-455: everything after the fields are known -/
def emitStage2 (align : Bytes → Nat) (line : Bytes) (fields : List Range) (opt : Opt)
    (delimiterAlreadyReplaced : Bool) (eol : Bytes) : Run :=
  let numFields := fields.length                                       -- 357
  if opt.onlyDelimited && numFields == 1 then                          -- 359
    Run.empty                                                          -- 362 return Ok(())
  else
    (if opt.json then Run.ok [0x5B] else Run.empty).seq <|             -- 365-367 stdout.write_all(b"[")?
    let bounds := opt.bounds                                           -- 370
    orStop (if opt.complement then                                     -- 372
              complementLit bounds numFields                           -- 373 bounds.complement(num_fields)?
            else .ok bounds) fun bounds =>
    if opt.complement && bounds.list.isEmpty then                      -- 376 bounds.is_empty()
      (if !opt.onlyDelimited then Run.ok eol else Run.empty).seq       -- 378-380
      Run.empty                                                        -- 381 return Ok(())
    else
      orStop (if (opt.json || (opt.boundsType = .characters && opt.replaceDelimiter.isSome))   -- 385
                  && bounds.list.any needsUnpack then                  -- 391-401
                unpackLit bounds numFields                             -- 402 bounds.unpack(num_fields)
              else .ok bounds) fun bounds =>
      (tryForEach2 align line fields numFields opt delimiterAlreadyReplaced bounds.list).seq <|   -- 407-447
      (if opt.json then Run.ok [0x5D] else Run.empty).seq <|           -- 449-451 stdout.write_all(b"]")?
      (Run.ok eol).seq                                                 -- 453 stdout.write_all(eol)?
      Run.empty                                                        -- 455 Ok(())

/-- `cut_str(line, opt, stdout, fields, compressed_line_buf, eol)` (cut_str.rs:260-456): the text of
    `CutStrLit.cutStrLit` over the stages above -/
def cutStrLit2 (align : Bytes → Nat) (line : Bytes) (opt : Opt) (fields : List Range)
    (compressedLineBuf : Bytes) (eol : Bytes) : Run × List Range × Bytes :=
  if opt.regexBag.isSome && (opt.compressDelimiter && opt.replaceDelimiter.isNone) then   -- 268-269
    (Run.fail, fields, compressedLineBuf)                              -- 271 bail!
  else if opt.regexBag.isSome && (opt.join && opt.replaceDelimiter.isNone) then   -- 268, 274
    (Run.fail, fields, compressedLineBuf)                              -- 276 bail!
  else
    match trimStage2 line opt with                                     -- 280-291
    | .fail => (Run.fail, fields, compressedLineBuf)
    | .panic => (Run.panic, fields, compressedLineBuf)
    | .hang => (Run.hang, fields, compressedLineBuf)
    | .ok line =>
      if line.isEmpty then                                             -- 293
        ((if !opt.onlyDelimited then Run.ok eol else Run.empty).seq    -- 294-296
          Run.empty, fields, compressedLineBuf)                        -- 297 return Ok(())
      else
        match compressStage2 line opt compressedLineBuf with           -- 300-330
        | .fail => (Run.fail, fields, compressedLineBuf)
        | .panic => (Run.panic, fields, compressedLineBuf)
        | .hang => (Run.hang, fields, compressedLineBuf)
        | .ok loc =>
          match fieldsStage2 loc opt fields with                       -- 332-355
          | .fail => (Run.fail, fields, compressedLineBuf)
          | .panic => (Run.panic, fields, compressedLineBuf)
          | .hang => (Run.hang, fields, compressedLineBuf)
          | .ok fields =>
            (emitStage2 align loc.line fields opt loc.delimiterAlreadyReplaced eol,   -- 357-455
              fields, loc.compressedLineBuf)

/-! ## 3. `read_and_cut_str` (cut_str.rs:458-503) -/

open StreamLoop (fillBuf consume totalBytes fuelFor)
open ReadLoops (Closure forByteRecordLoop readUntilLoop readToEndLoop stripSuffix)
open OptLit

/-- the closure of l.472-485 (`WholeLit.cutStrLitClosure`), the callee being `cutStrLit2` -/
def cutStrLitClosure2 (align : Bytes → Nat) (opt : Opt) : Closure (List Range × Bytes) := fun line st =>
  let line := (stripSuffix line [opt.eol.byte]).getD line               -- 473 line.strip_suffix(&[opt.eol as u8]).unwrap_or(line)
  let r := cutStrLit2 align line opt st.1 st.2 [opt.eol.byte]           -- 474-481 cut_str(line, &opt, stdout, &mut …, &mut …, &[opt.eol as u8])
  (r.1, true, (r.2.1, r.2.2))                                           -- 483 .map_err(…) 484 .and(Ok(true))

/-- `read_and_cut_str(stdin, stdout, opt)`: the text of `WholeLit.readAndCutStrWhole` -/
def readAndCutStrWhole2 (align : Bytes → Nat) (opt : Opt) (stdin : List Bytes) : Run :=
  let boundsAsRanges : List Range := []                                 -- 464
  let compressedLineBuf : Bytes := []                                   -- 465-469 (both arms: an empty Vec)
  let r := forByteRecordLoop opt.eol.byte (cutStrLitClosure2 align opt) stdin  -- 472 / 486 stdin.for_byte_record(opt.eol.into(), |line| …)
             (boundsAsRanges, compressedLineBuf)
  r.1.seq Run.empty                                                     -- 485 / 499 `?`; 502 Ok(())

/-! ## 4. `cut_lines`, `read_and_cut_lines` (cut_lines.rs:129-169) -/

/-- `cut_lines(stdin, stdout, opt)`: the text of `WholeLit.cutLinesWhole`; `std::str::from_utf8` is
    the transcription of core's validation (`LibLit.fromUtf8IsOk`), the callee is `cutStrLit2` -/
def cutLinesWhole2 (align : Bytes → Nat) (opt : Opt) (stdin : List Bytes) : Run :=
  let buffer : Bytes := []                                              -- 130 Vec::with_capacity(32 * 1024)
  match readToEndLoop (fuelFor stdin) stdin buffer 0 with               -- 131 stdin.read_to_end(&mut buffer)?
  | .hang => Run.hang
  | .panic => Run.panic
  | .ok (_, buffer, _) =>
    if !LibLit.fromUtf8IsOk buffer (align buffer) then Run.fail         -- 132 std::str::from_utf8(&buffer)?
    else
      let bufferAsStr := buffer
      let boundsAsRanges : List Range := []                             -- 133
      let compressedLineBuf : Bytes := []                               -- 134
      let bufferAsStr := stripEol opt.eol.byte bufferAsStr              -- 136-138
      (cutStrLit2 align bufferAsStr opt boundsAsRanges compressedLineBuf [opt.eol.byte]).1   -- 141-148

/-! ## 4a. `cut_lines_forward_only` (cut_lines.rs:10-127): `matches` with machine integers, the
UTF-8 validation of `read_line` / `String::from_utf8` transcribed -/

/-- `result.unwrap_or(false)` on a `Result<bool>` (a panic inside the callee stays a panic) -/
def unwrapOrFalse (r : Res Bool) : Res Bool :=
  match r with
  | .ok m => .ok m
  | .fail => .ok false
  | .panic => .panic

/-- `b.matches(line_idx)` (cut_lines.rs:55) with the Rust integer types: the bound stored in `i32`s
    (`BoundsLit.boundsOfModel`), `line_idx: i32` (`I32.wrap`: the model keeps it in an `Int`), then
    `UserBounds::matches` of `Tuc.Model.BoundsLit` (the two signum products are checked `i32`
    multiplications) -/
def matchesLit (b : UserBounds) (idx : Int) : Res Bool :=
  (BoundsLit.boundsOfModel b).matches (BoundsLit.I32.wrap idx)

/-- the body of the loop (l.36-80): the text of `LinesLoop.innerBody` -/
def innerBody2 (opt : Opt) (line : Bytes) (v : LinesLoop.Vars) : Run × LinesLoop.Vars × Bool :=
  match opt.bounds.list[v.boundsIdx]? with                              -- 36 opt.bounds.get(bounds_idx)
  | Option.none => (Run.panic, v, false)                                -- 36 .unwrap()
  | Option.some (.filler f) =>                                          -- 39
    let r1 := Run.ok f                                                  -- 40 stdout.write_all(f)?
    let v := { v with boundsIdx := v.boundsIdx + 1 }                    -- 41
    let r2 := LinesLoop.joinWrite opt v.boundsIdx                       -- 43-45
    (r1.seq r2, v, true)                                                -- 47 continue
  | Option.some (.bound b) =>                                           -- 49
    let isMatch : Res Bool :=
      if v.pastLastIndex then                                           -- 52
        .ok (decide (b.r = Side.cont))                                  -- 53 b.r == Side::Continue
      else
        unwrapOrFalse (matchesLit b v.lineIdx)                          -- 55 b.matches(line_idx).unwrap_or(false)
    match isMatch with
    | .panic => (Run.panic, v, false)                                   --    (overflow inside `matches`)
    | .fail => (Run.fail, v, false)                                     --    (not reached: `unwrap_or`)
    | .ok isMatch =>
    if isMatch then                                                     -- 58
      let r1 := if v.addNewlineNext then Run.ok [opt.eol.byte] else Run.empty   -- 59-61
      let r2 := Run.ok line                                             -- 63 stdout.write_all(line.as_bytes())?
      let v := { v with addNewlineNext := true }                        -- 64
      if !v.pastLastIndex && decide (b.r = Side.some v.lineIdx) then    -- 66
        let v := { v with boundsIdx := v.boundsIdx + 1 }                -- 68
        let v := { v with addNewlineNext := false }                     -- 69
        let r3 := LinesLoop.joinWrite opt v.boundsIdx                   -- 72-74
        ((r1.seq r2).seq r3, v, true)                                   -- 76 continue
      else
        (r1.seq r2, v, false)                                           -- 80 break
    else
      (Run.empty, v, false)                                             -- 80 break

/-- the loop (l.35-81): the text of `LinesLoop.innerWhile` -/
def innerWhile2 (opt : Opt) (line : Bytes) : Nat → LinesLoop.Vars → Run × LinesLoop.Vars
  | 0, v => (Run.hang, v)
  | fuel + 1, v =>
    if v.boundsIdx < opt.bounds.list.length then                        -- 35
      let b := innerBody2 opt line v
      if b.2.2 then                                                     -- continue
        let l := innerWhile2 opt line fuel b.2.1
        (b.1.seq l.1, l.2)
      else (b.1, b.2.1)                                                 -- break
    else (Run.empty, v)

/-- `read_line_with_eol(reader, buffer, eol)` (read_utils.rs:16-45): the text of
    `WholeLit.readLineWithEolSeg`; the UTF-8 check of `read_line` (l.25) and of `String::from_utf8`
    (l.31) is core's `run_utf8_validation` as transcribed in `Tuc.Model.LibLit` -/
def readLineWithEolSeg2 (align : Bytes → Nat) (reader : List Bytes) (eol : EOL) :
    Outcome (LinesLoop.LineRead × List Bytes) :=
  let buffer : Bytes := []                                              -- 21 buffer.clear()
  let m : Outcome (Option Nat × Bytes × List Bytes) :=                  -- (result, buffer, reader)
    match eol with                                                      -- 23
    | .newline =>
      match readUntilLoop 10 (totalBytes reader + 1) reader [] 0 with   -- 25 reader.read_line(buffer)
      | .hang => .hang
      | .panic => .panic
      | .ok (n, bytes, reader) =>
        if LibLit.fromUtf8IsOk bytes (align bytes) then .ok (Option.some n, buffer ++ bytes, reader)
        else .ok (Option.none, buffer, reader)
    | .zero =>
      let bytes := buffer                                               -- 29 take(buffer).into_bytes()
      match readUntilLoop eol.byte (totalBytes reader + 1) reader bytes 0 with   -- 30 read_until(eol as u8, &mut bytes)
      | .hang => .hang
      | .panic => .panic
      | .ok (res, bytes, reader) =>
        if LibLit.fromUtf8IsOk bytes (align bytes) then                 -- 31 String::from_utf8(bytes)
          .ok (Option.some res, bytes, reader)                          -- 32-35 *buffer = s; res
        else
          .ok (Option.none, [], reader)                                 -- 36-39 Err(InvalidData)
  -- 43-44 .map(|u| if u == 0 { None } else { Some(buffer) }).transpose()
  match m with
  | .hang => .hang
  | .panic => .panic
  | .ok m =>
    match m.1 with
    | Option.none => .ok (.someErr, m.2.2)
    | Option.some u => if u == 0 then .ok (.none, m.2.2) else .ok (.someOk m.2.1, m.2.2)

/-- `while let Some(line) = read_line_with_eol(stdin, &mut line_buf, opt.eol)` (l.22-87): the text
    of `WholeLit.readWhileSeg` -/
def readWhileSeg2 (align : Bytes → Nat) (opt : Opt) : Nat → List Bytes → LinesLoop.Vars → Run × LinesLoop.Vars
  | 0, _, v => (Run.hang, v)
  | fuel + 1, stdin, v =>
    match readLineWithEolSeg2 align stdin opt.eol with                  -- 22
    | .hang => (Run.hang, v)                                            -- inside read_until
    | .panic => (Run.panic, v)                                          -- inside read_until
    | .ok (.none, _) => (Run.empty, v)                                  -- the loop ends
    | .ok (line, stdin) =>
      let v := LinesLoop.nextLine v                                     -- 23-26
      match line with                                                   -- 28 let line = line?;
      | .none => (Run.empty, v)                                         -- (not reached: matched above)
      | .someErr => (Run.fail, v)                                       -- 28 `?`
      | .someOk line =>
        let line := stripEol opt.eol.byte line                          -- 30 strip_suffix(eol).unwrap_or(line)
        let w := innerWhile2 opt line (opt.bounds.list.length + 1) v    -- 35-81
        let v := w.2
        if v.boundsIdx == opt.bounds.list.length then                   -- 83
          (w.1, v)                                                      -- 85 break
        else
          let l := readWhileSeg2 align opt fuel stdin v
          (w.1.seq l.1, l.2)

/-- `cut_lines_forward_only(stdin, stdout, opt)`: the text of `WholeLit.cutLinesForwardOnlyWhole` -/
def cutLinesForwardOnlyWhole2 (align : Bytes → Nat) (opt : Opt) (stdin : List Bytes) : Run :=
  let v : LinesLoop.Vars :=
    { lineIdx := 0, pastLastIndex := false, boundsIdx := 0, addNewlineNext := false }   -- 18-21
  let w := readWhileSeg2 align opt (totalBytes stdin + 1) stdin v       -- 22-87
  let e := LinesLoop.epilogueWhile opt (opt.bounds.list.length + 1) w.2 -- 90-122
  (w.1.seq e.1).seq (Run.ok [opt.eol.byte])                             -- 124 stdout.write_all(&[opt.eol as u8])?

/-- `opt.bounds.is_forward_only()` (userboundslist.rs:142-144) with the Rust integer types: the list
    of the model stored in `i32`s, then `UserBoundsListL.isForwardOnly` of `Tuc.Model.BoundsListLit`
    (`is_sortable`, `is_sorted` over the two `PartialOrd` impls, `has_negative_indices`) -/
def isForwardOnlyLit (bounds : UserBoundsList) : Res Bool :=
  (BoundsListLit.listOfModel bounds).isForwardOnly

/-- `read_and_cut_lines(stdin, stdout, opt)`: the text of `WholeLit.readAndCutLinesWhole`; `&&`
    evaluates `is_forward_only()` only when the two flags are off -/
def readAndCutLinesWhole2 (align : Bytes → Nat) (opt : Opt) (stdin : List Bytes) : Run :=
  orStop (if !opt.complement && !opt.compressDelimiter then             -- 159
            isForwardOnlyLit opt.bounds                                 -- 160 opt.bounds.is_forward_only()
          else .ok false) fun canBeStreamed =>
  if canBeStreamed then                                                 -- 162
    (cutLinesForwardOnlyWhole2 align opt stdin).seq Run.empty           -- 163 …?; 168 Ok(())
  else
    (cutLinesWhole2 align opt stdin).seq Run.empty                      -- 165 …?; 168 Ok(())

/-! ## 4b. `cut_bytes`, `read_and_cut_bytes` (cut_bytes.rs) with the machine-integer `try_into_range` -/

open BoundsLit (boundsOfModel) in
/-- the closure of `try_for_each` (cut_bytes.rs:13-33): the text of `ReadLoops.cutBytesBody`,
    `b.try_into_range(data.len())` being `BoundsLit.UserBoundsL.tryIntoRange` on the bound stored in
    `i32`s (`parts_length as i32`, checked sums; a panic inside it is a panic of `cut_bytes`) -/
def cutBytesBody2 (data : Bytes) (opt : Opt) (bof : BoF) : Run :=
  let output : Res Bytes :=                                             -- 14 let output = match bof {
    match bof with
    | .bound b =>                                                       -- 15 BoundOrFiller::Bound(b) => match b.try_into_range(data.len())
      match (boundsOfModel b).tryIntoRange data.length with
      | .ok r =>                                                        -- 16 Ok(r) => &data[r.start..r.end]
        if r.1 ≤ r.2 ∧ r.2 ≤ data.length then .ok (slice data r.1 r.2) else .panic
      | .fail =>                                                        -- 17 Err(e) =>
        match b.fallback with
        | some fallback => .ok fallback                                 -- 18-19
        | none =>
          match opt.fallbackOob with
          | some genericFallback => .ok genericFallback                 -- 20-21
          | none => .fail                                               -- 23 return Err(e)
      | .panic => .panic                                                --    (overflow inside try_into_range)
    | .filler f => .ok f                                                -- 27
  match output with
  | .ok output => (Run.ok output).seq Run.empty                         -- 30 stdout.write_all(output)?; 32 Ok(())
  | .fail => Run.fail
  | .panic => Run.panic

/-- `cut_bytes(data, opt, stdout)` (cut_bytes.rs:8-36) -/
def cutBytesLit2 (data : Bytes) (opt : Opt) : Run :=
  if data.isEmpty then Run.empty                                        -- 9-11 return Ok(())
  else
    (ReadLoops.tryForEach (cutBytesBody2 data opt) opt.bounds.list).seq -- 13 opt.bounds.iter().try_for_each(…) 33 `?`
      Run.empty                                                         -- 35 Ok(())

/-- `read_and_cut_bytes(stdin, stdout, opt)` (cut_bytes.rs:38-49): the text of
    `ReadLoops.readAndCutBytesLoop` -/
def readAndCutBytesLoop2 (opt : Opt) (stdin : List Bytes) : Run :=
  let buffer : Bytes := []                                              -- 43 Vec::with_capacity(32 * 1024)
  match ReadLoops.readBytesToEndLit stdin buffer with                   -- 44 if let Some(res) = read_bytes_to_end(stdin, &mut buffer)
  | .hang => Run.hang
  | .panic => Run.panic
  | .ok (_, buffer, _) =>                                               -- 45 res?  (never Err here)
    (cutBytesLit2 buffer opt).seq Run.empty                             -- 47 cut_bytes(&buffer, opt, stdout)?; 48 Ok(())

/-! ## 4c. the fast lane (fast_lane.rs) with the machine-integer `try_into_range` -/

open FastLoop (index orPanic scanFor)

/-- l.105-116 (`FastLoop.outputOf`), `r` being the `Result` of the machine-integer `try_into_range` -/
def outputOf2 (line : Bytes) (b : UserBounds) (fields : List Nat) (opt : FastOpt)
    (r : Res (Nat × Nat)) : Outcome (Option Bytes) :=
  match r with
  | .ok (rStart, rEnd) =>                                               -- 105 r.is_ok(), 106 r.unwrap()
    (index fields rStart).bind fun idxStart =>                          -- 107 fields[r.start]
      (index fields rEnd).bind fun fieldsREnd =>                        -- 108 fields[r.end]
        (checkedSub fieldsREnd 1).bind fun idxEnd =>                    -- 108 … - 1
          (sliceRange line idxStart idxEnd).bind fun part =>            -- 109 &line[idx_start..idx_end]
            .ok (Option.some part)
  | .fail =>
    match b.fallback with
    | Option.some fallbackOob => .ok (Option.some fallbackOob)          -- 110-111
    | Option.none =>
      match opt.fallbackOob with
      | Option.some genericFallback => .ok (Option.some genericFallback)   -- 112-113
      | Option.none => .ok Option.none                                  -- 115 return Err(r.unwrap_err())
  | .panic => .panic                                                    -- 103 (overflow inside try_into_range)

/-- `output_parts(line, b, fields, stdout, opt)` (fast_lane.rs:94-126): the text of
    `FastLoop.outputPartsLit` -/
def outputPartsLit2 (line : Bytes) (b : UserBounds) (fields : List Nat) (opt : FastOpt) : Run :=
  orPanic (checkedSub fields.length 1) fun partsLength =>               -- 103 fields.len() - 1
    let r := (BoundsLit.boundsOfModel b).tryIntoRange partsLength       -- 103 b.try_into_range(..)
    orPanic (outputOf2 line b fields opt r) fun output =>               -- 105-116
      match output with
      | Option.none => Run.fail                                         -- 115
      | Option.some output =>
        let fieldToPrint := output                                      -- 118
        (Run.ok fieldToPrint).seq                                       -- 119 stdout.write_all(field_to_print)?
          (if opt.join && !b.isLast then                                -- 121
             Run.ok [opt.delimiter]                                     -- 122 stdout.write_all(&[opt.delimiter])?
           else Run.empty)                                              -- 125 Ok(())

/-- the closure of `bounds.iter().try_for_each(|bof| …)` (l.76-86) -/
def fastTryForEachBody2 (buffer : Bytes) (fields : List Nat) (opt : FastOpt) (bof : BoF) : Run :=
  match bof with                                                        -- 77
  | .filler f => Run.ok f                                               -- 78-80 stdout.write_all(f)?
  | .bound b => outputPartsLit2 buffer b fields opt                     -- 81-83 output_parts(…)?

/-- `bounds.iter().try_for_each(…)` (l.76-86): stops at the first `Err` -/
def fastTryForEach2 (buffer : Bytes) (fields : List Nat) (opt : FastOpt) : List BoF → Run
  | [] => Run.empty
  | bof :: iter => (fastTryForEachBody2 buffer fields opt bof).seq (fastTryForEach2 buffer fields opt iter)

/-- l.62-90, after the `for` loop (`FastLoop.afterScan`) -/
def afterScan2 (buffer : Bytes) (opt : FastOpt) (lastInterestingField : Side)
    (st : Int × List Nat) : Run × List Nat :=
  let currField := st.1
  let fields := st.2
  if currField == 0 && opt.onlyDelimited then                           -- 62
    (Run.empty, fields)                                                 -- 64 return Ok(())
  else
    let fields :=
      if Side.some currField ≠ lastInterestingField then                -- 67
        push fields (buffer.length + 1)                                 -- 73 fields.push(buffer.len() + 1)
      else fields
    let bounds := opt.bounds                                            -- 42
    ((fastTryForEach2 buffer fields opt bounds.list).seq                -- 76-86
       (Run.ok [opt.eol.byte]),                                         -- 88 stdout.write_all(&[opt.eol.into()])?
     fields)                                                            -- 90 Ok(())

/-- `cut_str_fast_lane(initial_buffer, opt, stdout, fields, last_interesting_field)`
    (fast_lane.rs:22-91): the text of `cutStrFastLaneLoop` -/
def cutStrFastLaneLoop2 (initialBuffer : Bytes) (opt : FastOpt) (fields : List Nat)
    (lastInterestingField : Side) : Run × List Nat :=
  let buffer := initialBuffer                                           -- 29
  let buffer :=
    match opt.trim with                                                 -- 31 opt.trim.is_some()
    | Option.some trimKind => FastLoop.trim buffer trimKind opt.delimiter   -- 32
    | Option.none => buffer
  if buffer.isEmpty then                                                -- 35
    ((if !opt.onlyDelimited then                                        -- 36
        Run.ok [opt.eol.byte]                                           -- 37 stdout.write_all(&[opt.eol.into()])?
      else Run.empty),
     fields)                                                            -- 39 return Ok(())  (`fields` untouched)
  else
    let currField : Int := 0                                            -- 44  (i32)
    let fields := clear fields                                          -- 46
    let fields := push fields 0                                         -- 49
    match scanFor lastInterestingField (FastLoop.memchrIter opt.delimiter buffer) currField fields with  -- 51-60
    | .ok st => afterScan2 buffer opt lastInterestingField st           -- 62-90
    | .panic => (Run.panic, fields)                                     -- 52 overflow
    | .hang => (Run.hang, fields)

/-- the closure of l.183-188 (and of l.189-194): it captured `fields` by `&mut` -/
def fastLaneClosure2 (opt : FastOpt) (lastInterestingField : Side) : Closure (List Nat) := fun line fields =>
  let r := cutStrFastLaneLoop2 line opt fields lastInterestingField     -- 184 / 190 cut_str_fast_lane(line, opt, stdout, &mut fields, last_interesting_field)
  (r.1, true, r.2)                                                      -- 186-187 .map_err(…).and(Ok(true))

/-- `read_and_cut_text_as_bytes(stdin, stdout, opt)` (fast_lane.rs:173-198): the text of
    `WholeLit.readAndCutTextAsBytesWhole` -/
def readAndCutTextAsBytesWhole2 (opt : FastOpt) (stdin : List Bytes) : Run :=
  let fields : List Nat := []                                           -- 178 Vec::with_capacity(16)
  let lastInterestingField := opt.bounds.lastInteresting                -- 180
  match opt.eol with                                                    -- 182
  | .newline =>
    (forByteRecordLoop opt.eol.byte                                     -- 183 stdin.for_byte_record(opt.eol.into(), |line| …)
      (fastLaneClosure2 opt lastInterestingField) stdin fields).1.seq   -- 188 `?`
      Run.empty                                                         -- 197 Ok(())
  | .zero =>
    (forByteRecordLoop opt.eol.byte                                     -- 189
      (fastLaneClosure2 opt lastInterestingField) stdin fields).1.seq   -- 194 `?`
      Run.empty                                                         -- 197 Ok(())

/-! ## 4d. `cut_bytes_stream` (stream.rs:278-421) calling the statement-level `print_bof`

The text of `Tuc.Model.StreamLoop`, with the Rust signature `(opt: &StreamOpt, last_interesting_field:
Side)` (`opt = s`, a `StreamOptLit`; `StreamLoop` bundles the two in the model's `StreamOpt`):
`print_bof` is `OptLit.printBofLit` (l.185-233 statement by statement, `print_field` included),
`print_filler_or_fallbacks` is `OptLit.printFillerOrFallbacksOf` (= the transcription
`StreamLoop.printFillerOrFallbacksLit`). -/

open StreamLoop (Vars newLineVars memchr2Iter WhileStep) in
/-- the body of the `for` loop for one `chunk_idx` (l.312-365): the text of `StreamLoop.forBody` -/
def forBody2 (s : StreamOptLit) (lif : Side) (chunk : Bytes) (chunkIdx : Nat) (v : Vars) : Run × Vars × Bool :=
  match chunk[chunkIdx]? with
  | none => (Run.panic, v, true)                                    -- l.312 `chunk[chunk_idx]`
  | Option.some c =>
    let v := { v with eolReached := c == s.eol.byte }               -- l.312
    let v := { v with bytesToConsume := chunkIdx + 1 }              -- l.313
    if v.eolReached && v.currField == 1 && !v.prevChunkMayBeTruncated
        && v.chunkPartStartIdx == chunkIdx then                     -- l.315-318
      (Run.ok [s.eol.byte], v, true)                                -- l.321 write_all, l.322 break
    else
      let p := printBofLit s v.bofIdx v.currField chunk v.chunkPartStartIdx chunkIdx   -- l.326-336 print_bof(..)?
                 v.prevChunkMayBeTruncated true
      let v := { v with bofIdx := p.2 }
      let v := { v with prevChunkMayBeTruncated := false }          -- l.338
      let v := { v with chunkPartStartIdx := chunkIdx + 1 }         -- l.340
      if v.eolReached then                                          -- l.343 EOL handling
        let f := printFillerOrFallbacksOf s v.bofIdx v.currField    -- l.344
        let v := { v with bofIdx := f.2 }
        (p.1.seq (f.1.seq (Run.ok [s.eol.byte])), v, true)          -- l.345 write_all, l.346 break
      else if Side.some v.currField = lif then                      -- l.350
        let f := printFillerOrFallbacksOf s v.bofIdx v.currField    -- l.352
        let v := { v with bofIdx := f.2 }
        match StreamLoop.memchr s.eol.byte (chunk.drop v.bytesToConsume) with   -- l.355
        | Option.some eolIdx =>
          let v := { v with bytesToConsume := v.bytesToConsume + eolIdx + 1 }   -- l.356
          let v := { v with eolReached := true }                    -- l.357
          (p.1.seq (f.1.seq (Run.ok [s.eol.byte])), v, true)        -- l.358 write_all, l.361 break
        | none => (p.1.seq f.1, v, true)                            -- l.361 break
      else
        let v := { v with currField := v.currField + 1 }            -- l.364
        (p.1, v, false)

/-- the `for` loop over the positions the iterator still has to yield -/
def forLoop2 (s : StreamOptLit) (lif : Side) (chunk : Bytes) : List Nat → StreamLoop.Vars → Run × StreamLoop.Vars
  | [], v => (Run.empty, v)
  | chunkIdx :: iter, v =>
    let b := forBody2 s lif chunk chunkIdx v
    if b.2.2 then (b.1, b.2.1)
    else
      let l := forLoop2 s lif chunk iter b.2.1
      (b.1.seq l.1, l.2)

/-- "Handle remaining data in chunk" (l.367-388) -/
def remainingData2 (s : StreamOptLit) (chunk : Bytes) (v : StreamLoop.Vars) : Run × StreamLoop.Vars :=
  if !v.eolReached then                                             -- l.368
    let chunkHasUnusedContent := decide (chunk.length > v.bytesToConsume)   -- l.369
    if chunkHasUnusedContent then                                   -- l.371
      let p := printBofLit s v.bofIdx v.currField chunk v.chunkPartStartIdx chunk.length   -- l.373-383 print_bof(..)?
                 v.prevChunkMayBeTruncated false
      let v := { v with bofIdx := p.2 }
      let v := { v with prevChunkMayBeTruncated := true }           -- l.384
      let v := { v with bytesToConsume := chunk.length }            -- l.387
      (p.1, v)
    else
      let v := { v with bytesToConsume := chunk.length }            -- l.387
      (Run.empty, v)
  else (Run.empty, v)

/-- the body of `'new_chunk` for a non-empty chunk (l.305-388) -/
def chunkBody2 (s : StreamOptLit) (lif : Side) (chunk : Bytes) (v : StreamLoop.Vars) : Run × StreamLoop.Vars :=
  let v := { v with emptyLine := false }                            -- l.305
  let v := { v with chunkPartStartIdx := 0 }                        -- l.307
  let v := { v with bytesToConsume := 0 }                           -- l.308
  let l := forLoop2 s lif chunk (StreamLoop.memchr2Iter s.delimiter s.eol.byte chunk) v   -- l.311
  let m := remainingData2 s chunk l.2                               -- l.367
  (l.1.seq m.1, m.2)

/-- one turn of `'new_chunk: while !eol_reached && !eof` (l.294-393) -/
def whileStep2 (s : StreamOptLit) (lif : Side) (stdin : List Bytes) (v : StreamLoop.Vars) : StreamLoop.WhileStep :=
  if !v.eolReached && !v.eof then                                   -- l.294
    let chunk := fillBuf stdin                                      -- l.295
    if chunk.isEmpty then                                           -- l.297
      let v := { v with eof := true }                               -- l.298
      let v := if v.emptyLine then { v with eolReached := true } else v   -- l.299-301
      .leave v                                                      -- l.302 break 'new_chunk
    else
      let b := chunkBody2 s lif chunk v                             -- l.305-388
      .again b.1 (consume b.2.bytesToConsume stdin) b.2             -- l.390 stdin.consume(bytes_to_consume)
  else .leave v

/-- after `'new_chunk` (l.395-417) -/
def afterNewChunk2 (s : StreamOptLit) (v : StreamLoop.Vars) : Run × Bool :=
  if v.eof && !v.eolReached then                                    -- l.396 Handle EOF at end of line
    let p := printBofLit s v.bofIdx v.currField [] 0 0 v.prevChunkMayBeTruncated true   -- l.398-408
    let f := printFillerOrFallbacksOf s p.2 v.currField             -- l.409
    (p.1.seq (f.1.seq (Run.ok [s.eol.byte])), true)                 -- l.410 write_all, l.411 break 'new_line
  else if v.eof then (Run.empty, true)                              -- l.415-416 break 'new_line
  else (Run.empty, false)                                           -- l.418 next iteration of 'new_line

/-- the two loops (l.287-418) -/
def newChunk2 (s : StreamOptLit) (lif : Side) : Nat → List Bytes → StreamLoop.Vars → Run
  | 0, _, _ => Run.hang
  | fuel + 1, stdin, v =>
    match whileStep2 s lif stdin v with
    | .again r stdin' v' => r.seq (newChunk2 s lif fuel stdin' v')  -- l.393 → l.294
    | .leave v' =>
      let a := afterNewChunk2 s v'                                  -- l.395-417
      if a.2 then a.1                                               -- l.420 `Ok(())`
      else a.1.seq (newChunk2 s lif fuel stdin (StreamLoop.newLineVars v'.eof))   -- l.287-292 → l.294

/-- `cut_bytes_stream(stdin, stdout, opt, last_interesting_field)` (stream.rs:278-421) -/
def cutBytesStreamLoop2 (s : StreamOptLit) (lastInterestingField : Side) (segs : List Bytes) : Run :=
  newChunk2 s lastInterestingField (fuelFor segs) segs (StreamLoop.newLineVars false)   -- l.284-287

/-- `read_and_cut_bytes_stream(stdin, stdout, opt)` (stream.rs:161-169): the text of
    `WholeLit.readAndCutBytesStreamWhole` -/
def readAndCutBytesStreamWhole2 (opt : StreamOptLit) (stdin : List Bytes) : Run :=
  match opt.bounds.getLastBound with                                    -- 166 opt.bounds.get_last_bound()
  | Option.none => Run.panic                                            -- l.95 panic!
  | Option.some b =>
    let lastInterestingField := b.r                                     -- 166 .r
    (cutBytesStreamLoop2 opt lastInterestingField stdin).seq            -- 167 cut_bytes_stream(..)?
      Run.empty                                                         -- 168 Ok(())

/-! ## 5. `parse_args` (bin/tuc.rs:48-256) with `UserBoundsList::from_str` at statement level -/

/-- `<UserBoundsList as FromStr>::from_str` (userboundslist.rs:58-70): `BoundsListLit.fromStrLit`
    (the scanner `parse_bounds_list` with byte offsets and checked slices, `UserBounds::from_str` and
    `str::parse::<i32>` with machine integers, `From<Vec<BoundOrFiller>>`), read in the model -/
def boundsArg2 (a : Arg) : Res UserBoundsList :=
  resMap BoundsListLit.UserBoundsListL.toModel (BoundsListLit.fromStrLit a)

/-- `parse_args` (tuc.rs:48): the text of `parseWith` (`Tuc.Model.Argv`), `boundsArg` replaced by
    `boundsArg2` (the four `opt_value_from_str` of the bounds and the default `"1:"`) -/
def parseWith2 {σ : Type} (ops : Ops σ) (regexOk : Arg → Bool) : P σ ArgvResult := do
  let noArgs ← P.test ops.isEmpty
  P.exitIf noArgs .help                                          -- `args().len() == 1`: short help
  let maybeFields ← ops.value kFields boundsArg2
  let maybeCharacters ← ops.value kCharacters boundsArg2
  let maybeBytes ← ops.value kBytes boundsArg2
  let maybeLines ← ops.value kLines boundsArg2
  let hasHelp ← ops.flag kHelp                                   -- `contains(["-h", "--help"])`: the help
  P.exitIf hasHelp .help
  let defaultBounds : Bool :=
    !maybeFields.isSome && !maybeBytes.isSome && !maybeCharacters.isSome && !maybeLines.isSome
  let boundsType : BoundsType :=
    if maybeFields.isSome then .fields
    else if maybeBytes.isSome then .bytes
    else if maybeCharacters.isSome then .characters
    else if maybeLines.isSome then .lines
    else .fields
  -- `maybe_fields = Some(UserBoundsList::from_str("1:").unwrap())`
  let maybeFields ← (if defaultBounds then P.unwrap ((boundsArg2 ['1', ':']).toOption.map some)
                     else pure maybeFields)
  P.exitIf (boundsType = .fields && (match maybeFields with | none => true | some l => l.list.isEmpty))
    .reject                                                     -- "invariant error"
  let d ← (if boundsType = .fields then ops.value kDelimiter strArg else pure none)
  let delimiter : Bytes :=
    if boundsType = .fields then (match d with | some x => utf8 x | none => [9])
    else if boundsType = .lines then [10]
    else []
  let greedyDelimiter ← ops.flag kGreedy
  let tmpReplace ← ops.value kReplace strArg
  let replaceDelimiter : Option Bytes := tmpReplace.map utf8
  let fixedMemoryKb ← ops.value kFixedMemory usizeArg
  P.exitIf (fixedMemoryKb = some 0) .reject                     -- "--fixed-memory cannot be 0"
  let hasJson ← ops.flag kJson
  let hasJoin ← ops.flag kJoin
  let hasNoJoin ← ops.flag kNoJoin
  P.exitIf (hasJoin && hasNoJoin) .reject
  P.exitIf (hasJson && hasNoJoin) .reject
  P.exitIf (replaceDelimiter.isSome && (hasNoJoin || hasJson)) .reject
  P.exitIf (boundsType = .characters && hasNoJoin) .reject
  let replaceDelimiter := if boundsType = .characters then some [] else replaceDelimiter
  let replaceDelimiter := if hasJson then some [44] else replaceDelimiter
  let join : Bool :=
    hasJoin || hasJson || replaceDelimiter.isSome || (boundsType = .lines && !hasNoJoin)
      || boundsType = .characters
  P.exitIf (hasJson && boundsType ≠ .characters && boundsType ≠ .fields) .reject
  let regexText : Option Arg ←
    (if boundsType = .characters then pure (some charsRegexText) else ops.value kRegex strArg)
  P.exitIf (match regexText with | some t => !regexOk t | none => false)
    .reject                                                     -- "The regular expression is malformed"
  let bounds ← P.unwrap (maybeFields.or (maybeCharacters.or (maybeBytes.or maybeLines)))
  P.exitIf (hasJson && bounds.list.any isFiller) .reject         -- "Cannot format fields when using --json"
  let complement ← ops.flag kComplement
  let onlyDelimited ← ops.flag kOnlyDelimited
  let compressDelimiter ← ops.flag kCompress
  let version ← ops.flag kVersion
  let zero ← ops.flag kZero
  let eol : EOL := if zero then .zero else .newline
  let trim ← ops.value kTrim trimArg
  let fallbackOob ← ops.fallbackOob
  let delimiter := if boundsType = .lines then [eol.byte] else delimiter
  let remainingEmpty ← P.test ops.isEmpty                        -- `pargs.finish()`
  P.exitIf version .version
  P.exitIf (!remainingEmpty) .reject                             -- "unexpected arguments"
  pure (.run
    { delimiter := delimiter
      eol := eol
      bounds := bounds
      boundsType := boundsType
      onlyDelimited := onlyDelimited
      greedyDelimiter := greedyDelimiter
      compressDelimiter := compressDelimiter
      replaceDelimiter := replaceDelimiter
      trim := trim
      complement := complement
      join := join
      json := hasJson
      fixedMemory := fixedMemoryKb.map saturatingMul1024
      fallbackOob := fallbackOob.map utf8
      regexBag := none }
    fixedMemoryKb.isSome
    regexText)

/-- argv (without the program name) → what `main` starts from (`parseArgv`) -/
def parseArgv2 (regexOk : Arg → Bool) (argv : List Arg) : ArgvResult :=
  (parseWith2 picoOps regexOk argv).result

/-! ## 6. `main` (bin/tuc.rs:258-290) -/

/-- `main` from l.261 on: the text of `WholeLit.dispatchWhole` -/
def dispatchWhole2 (align : Bytes → Nat) (opt : Opt) (segs : List Bytes) : Option Run :=
  if opt.fixedMemory.isSome then                                        -- 264
    match StreamOptLit.tryFrom opt with                                 -- 265 StreamOpt::try_from(&opt).unwrap_or_else(..)
    | .fail => Option.none                                              -- 266-267 eprintln!(..); exit(1)
    | .panic => Option.some Run.panic
    | .ok streamOpt =>
      Option.some (readAndCutBytesStreamWhole2 streamOpt segs)           -- 270 read_and_cut_bytes_stream(..)?; 272; 274
  else if opt.boundsType = .bytes then                                  -- 277
    Option.some (readAndCutBytesLoop2 opt segs)                          -- 278 read_and_cut_bytes(..)?
  else if opt.boundsType = .lines then                                  -- 279
    Option.some (readAndCutLinesWhole2 align opt segs)                  -- 280 read_and_cut_lines(..)?
  else
    match FastOptLit.tryFrom opt with                                   -- 281 else if let Ok(fast_opt) = FastOpt::try_from(&opt)
    | .ok fastOpt => Option.some (readAndCutTextAsBytesWhole2 fastOpt segs)   -- 282 read_and_cut_text_as_bytes(..)?
    | .fail => Option.some (readAndCutStrWhole2 align opt segs)         -- 283-284 read_and_cut_str(..)?
    | .panic => Option.some Run.panic
                                                                        -- 287 stdout.flush()?; 289 Ok(())

/-- `WholeLit.tucRunWhole` with the dispatch above -/
def tucRunWhole2 (align : Bytes → Nat) (o : Opt) (regexText : Option Arg) (segs : List Bytes) : MainResult :=
  match compileBag o regexText with
  | Option.none => .unmodelled
  | Option.some bag =>
    let o := { o with regexBag := bag }
    if o.boundsType = .characters && !validUtf8 segs.flatten then .unmodelled
    else MainResult.ofDispatch (dispatchWhole2 align o segs)

/-- **the whole program, from the argument vector to the bytes on stdout**: `WholeLit.tucProgramLit`
    with the callees listed in the header at statement level too.  `align` answers
    `as_ptr().align_offset(8)` for every slice handed to `std::str::from_utf8` (the address of a slice
    is not modelled; the theorems hold for every `align`). -/
def tucProgramLit2 (align : Bytes → Nat) (regexOk : Arg → Bool) (argv : List Arg) (segs : List Bytes) :
    MainResult :=
  match parseArgv2 regexOk argv with                                    -- 259
  | .help => .help
  | .version => .version
  | .reject => .reject
  | .panic => .panic
  | .run o _ regexText => tucRunWhole2 align o regexText segs           -- 261-289

end WholeLit2
end Tuc
