import Tuc.Model.Argv
import Tuc.Model.Args
import Tuc.Model.Chars
import Tuc.Model.Regex
/-!
# Tuc.Model.Main — `main` of `src/bin/tuc.rs`, from the argument vector to the bytes on stdout

`tucMain` is the composition that the executable model's case kind `argv` (`Driver.lean`) performs
and that `tool/argv_diff.py` compares with the real binary on every run: `parseArgv` (the model of
`pico_args` + `parse_args`, `Tuc.Model.Argv`), the compilation of the regex text into a `RegexBag`,
and `dispatch` (the model of the body of `main`, `Tuc.Model.Args`) on the segmented input.
`Tuc.Props.EndToEnd` proves it equal to the abstract specification on canonical command lines.
-/
namespace Tuc

/-- what one invocation of `tuc` does, as far as the model says -/
inductive MainResult where
  /-- the help text on stdout, exit 0 (tuc.rs:49–57) -/
  | help
  /-- `tuc <version>` on stdout, exit 0 (tuc.rs:244–247) -/
  | version
  /-- exit 1 with nothing on stdout and nothing read: an error of `parse_args` (tuc.rs:259 `?`)
      or of `StreamOpt::try_from` (tuc.rs:265–268) -/
  | reject
  /-- an `unwrap`/`expect` of `parse_args` fails (never: `parseArgv_total`) -/
  | panic
  /-- the model does not say: a `-e` regex outside the modelled family (`Re.parse`) or one that
      matches the empty string; `-c` on input that is not UTF-8 (`charsBag` is `\b|\B` over valid
      UTF-8 only) -/
  | unmodelled
  /-- the engine ran: the bytes written to stdout and the exit status -/
  | run (r : Run)
  deriving Repr, DecidableEq

/-- `regex_bag` of `parse_args` (tuc.rs:170–185): `\b|\B` for `-c`, the compiled `-e RE` otherwise
    (`Regex::new(RE)` and `Regex::new("(RE)+")`; `parseArgv` has already answered `reject` when
    they fail).  `none` = the regex is outside what `Tuc.Model.Regex` models. -/
def compileBag (o : Opt) (regexText : Option Arg) : Option (Option RegexBag) :=
  if o.boundsType = .characters then Option.some (Option.some charsBag)
  else
    match regexText with
    | none => Option.some none
    | Option.some t =>
      match Re.parse t with
      | Option.some r => if (Re.run 1 r [] Option.some).isSome then none else Option.some (Option.some r.bag)
      | none => none

/-- how `main` ends once the engine is chosen: `none` from `dispatch` is the refusal of
    `StreamOpt::try_from` (tuc.rs:265–268) -/
def MainResult.ofDispatch : Option Run → MainResult
  | Option.some r => .run r
  | none => .reject

/-- the body of `main` after `parse_args` returned an `Opt` (tuc.rs:261–289): `dispatch` is
    `StreamOpt::try_from` + `read_and_cut_bytes_stream` under `-M` (tuc.rs:264–275), else
    `read_and_cut_bytes` / `read_and_cut_lines` / the fast lane / `read_and_cut_str`
    (tuc.rs:277–285), on a reader that delivers the input as the segments `segs`; the final `flush`
    (tuc.rs:272, 287) of a fault-free stdout delivers everything written. -/
def tucRun (o : Opt) (fixedMemory : Bool) (regexText : Option Arg) (segs : List Bytes) : MainResult :=
  match compileBag o regexText with
  | none => .unmodelled
  | Option.some bag =>
    let o := { o with regexBag := bag }
    if o.boundsType = .characters && !validUtf8 segs.flatten then .unmodelled
    else MainResult.ofDispatch (dispatch o fixedMemory segs)

/-- **`main` of `src/bin/tuc.rs`** (tuc.rs:258–290) on the argument vector `argv` (without the
    program name) and a stdin that delivers `segs.flatten` in the pieces `segs`, stdout fault-free.

    * tuc.rs:259 `let opt = parse_args()?` is `parseArgv` (`regexOk t` = the regex engine accepts
      `t` and `(t)+`): the exits inside `parse_args` (`help`, `version`, the `exit(1)`s and the `?`
      errors = `reject`) end the run with nothing read;
    * tuc.rs:261–289, the rest of `main`, is `tucRun`. -/
def tucMain (regexOk : Arg → Bool) (argv : List Arg) (segs : List Bytes) : MainResult :=
  match parseArgv regexOk argv with
  | .help => .help
  | .version => .version
  | .reject => .reject
  | .panic => .panic
  | .run o fixedMemory regexText => tucRun o fixedMemory regexText segs

end Tuc
