import Tuc.Model.Basic
/-!
# Tuc.Model.StdioLit — the buffering between the engines and the file descriptors, statement by statement

`main` (/repo/src/bin/tuc.rs:274-306, commit 5a3e570) wraps

* stdout in `BufWriter::with_capacity(64 * 1024, stdout().lock())` (l.278); `StdoutLock` is a handle on the
  process-wide `LineWriter<StdoutRaw>` (`LineWriter::new` = capacity 1024), a `LineWriter` is a
  `BufWriter` driven through `LineWriterShim`, and `StdoutRaw` is `write(2)` on fd 1.  Every engine writes with
  `write_all(..)?`, `main` ends with `stdout.flush()?` (l.288, l.303), then the `BufWriter` is dropped and
  `std::rt::cleanup` replaces (= drops) the `LineWriter`;
* stdin in `BufReader::with_capacity(64 * 1024, stdin().lock())` (l.277); `StdinLock` is a handle on the
  process-wide `BufReader<StdinRaw>` (capacity `STDIN_BUF_SIZE` = 8192) and `StdinRaw` is `read(2)` on fd 0.

`Tuc.Model.Args` treats all of this abstractly (`deliver`: the longest accepted prefix, non-zero status iff
something was cut; the readers of `Tuc.Model.StreamLoop` / `ReadLoops` / `WholeLit`: a list of non-empty
chunks).  This file is the other end: a **literal** transcription of the std text (rust-src of the installed
toolchain, `rustc 1.97.0-nightly (ad3a598ca 2026-05-03)`, `library/std/src/io/…`; the numbers in the trailing
comments are the lines of the file named in the section title) over an operating system that is an ORACLE.
`Tuc.Props.StdioLit` proves the abstract behaviour for EVERY oracle.

## The operating system

* `Sink` — fd 1.  `Sink.write buf` is one `write(2)` (`FileDesc::write`, sys/fd/unix.rs:344-353: one `libc::write`,
  no retry).  The answer is the next element of the list `oracle : List WAns`:
  `accept n` = a short write of `min (n + 1) buf.len()` bytes (so `1 ≤ count ≤ len` for a non-empty slice, and
  every such count is some `n`), `zero` = `Ok(0)`, `intr` = `Err(EINTR)` (`ErrorKind::Interrupted`),
  `err sticky` = any other `Err`; after an `err true` EVERY later call fails (`dead`: a closed pipe, a full
  disk), an `err false` is transient (`EAGAIN` on a non-blocking descriptor).  When the list is used up the
  sink accepts everything.  A run of the program makes finitely many system calls, so every behaviour of the
  OS on a terminating run is such a finite list; an OS that answers `EINTR` for ever is excluded — this is the
  fairness hypothesis, and it is STRUCTURAL (a list is finite): it is what bounds the fuel of the retry
  loops (`budget` = the length of the unused part of the oracle).
* `Src` — fd 0.  `Src.read len` is one `read(2)` into `len` bytes (`FileDesc::read_buf`, sys/fd/unix.rs:176-191):
  `give n` = `min (n + 1) len` bytes of what is left (`0` exactly when nothing is left, or `len = 0`),
  `intr`, `err`; full reads once the list is used up.

Not modelled: `READ_LIMIT` (a `len` clamp = one more source of short counts, covered by the oracle);
`handle_ebadf` (io/stdio.rs:203-208: with fd 0 / 1 CLOSED, `EBADF` is turned into `Ok(0)` / `Ok(len)` — a process
started with `>&-` "writes" into nothing and exits 0; there is no descriptor whose contents could be cut);
`Vec::with_capacity(n).capacity()` is taken to be `n` (it is for `u8` with the global allocator; every theorem
holds for all capacities anyway); `write_vectored` (no engine uses it); the `panicked` flag of `BufWriter`
(only read by `Drop` while a panic unwinds; the release profile of tuc aborts on panic).

## Conventions

* a result is `IoRes α`: `ok a` / `err e` (`e : IoErr`, the `ErrorKind` classes the std text distinguishes) /
  `panic` / `hang`; a method is a function `state → args → IoRes α × state`; `andThen` is the `?` operator;
* Rust locals keep their names (camelCase): `guard.written`, `newlineIdx`, `lines`, `flushed`, `tail`,
  `scanArea`, `buffered`, `available`, `amtToBuffer`, `rem`;
* every slice / `split_at` / `drain(..n)` is a CHECKED operation (`panic` when out of range), and so is the
  `unsafe` `write_to_buffer_unchecked` (bufwriter.rs:439-449; violating `buf.len() <= spare_capacity()` would
  be undefined behaviour: `panic` here) and `get_unchecked(pos..filled)` (bufreader/buffer.rs:52);
* `while` loops take fuel and yield `hang`: `flush_buf` (bufwriter.rs:234) and the default `write_all`
  (io/mod.rs:1858) are entered with `budget + len + 1` units, the retrying `fill_buf` with `budget + 1`.
  `Tuc.Props.StdioLit` proves that this is never used up, and that no `panic` occurs;
* a writer below a `BufWriter` (`W: Write`) is a dictionary `Writer ω` (`write`, `write_all`, `flush` and the
  ghost `budget`), a reader below a `BufReader` a dictionary `Reader ρ`; capacities are FIELDS of the states,
  so small ones can be enumerated and the theorems speak about all of them.
-/

namespace Tuc
namespace StdioLit

/-! ## results -/

/-- the `io::ErrorKind` classes that the std text tells apart -/
inductive IoErr where
  | interrupted   -- `ErrorKind::Interrupted` (`e.is_interrupted()`)
  | writeZero     -- `ErrorKind::WriteZero` (`Error::WRITE_ALL_EOF`, "failed to write the buffered data")
  | other
  deriving DecidableEq, Repr, Inhabited

/-- `io::Result<α>`, a panic (or undefined behaviour), a loop that ran out of fuel -/
inductive IoRes (α : Type) where
  | ok (a : α)
  | err (e : IoErr)
  | panic
  | hang
  deriving DecidableEq, Repr, Inhabited

/-- the `?` operator on a method result: go on with the value and the state, or leave with the error (`g` puts
    the part of the state the callee worked on back in place) -/
def andThen {α β σ τ : Type} (a : IoRes α × σ) (f : α → σ → IoRes β × τ) (g : σ → τ) : IoRes β × τ :=
  match a with
  | (.ok x, s) => f x s
  | (.err e, s) => (.err e, g s)
  | (.panic, s) => (.panic, g s)
  | (.hang, s) => (.hang, g s)

/-- a call on a part of the state: the result as it is, the new part put back in place -/
def mapState {α σ τ : Type} (f : σ → τ) (a : IoRes α × σ) : IoRes α × τ := (a.1, f a.2)

/-- `memchr::memrchr(needle, haystack)`: the LAST position of the byte -/
def memrchr (needle : UInt8) : Bytes → Option Nat
  | [] => none
  | c :: t =>
    match memrchr needle t with
    | some i => some (i + 1)
    | none => if c = needle then some 0 else none

/-- `&buf[..end]` -/
def sliceTo (buf : Bytes) (e : Nat) : Option Bytes := if e ≤ buf.length then some (buf.take e) else none
/-- `&buf[start..]` -/
def sliceFrom (buf : Bytes) (s : Nat) : Option Bytes := if s ≤ buf.length then some (buf.drop s) else none
/-- `&buf[start..end]` -/
def sliceRange (buf : Bytes) (s e : Nat) : Option Bytes :=
  if s ≤ e ∧ e ≤ buf.length then some ((buf.drop s).take (e - s)) else none

/-! ## fd 1 -/

/-- one answer of the OS to one `write(2)` -/
inductive WAns where
  | accept (n : Nat)      -- `Ok(min (n + 1) len)`
  | zero                  -- `Ok(0)`
  | intr                  -- `Err(EINTR)`
  | err (sticky : Bool)   -- any other `Err`; `sticky`: every later call fails too
  deriving DecidableEq, Repr, Inhabited

structure Sink where
  /-- the bytes that reached the descriptor -/
  fd : Bytes
  /-- the answers the OS is still going to give -/
  oracle : List WAns
  /-- a sticky error occurred -/
  dead : Bool
  deriving DecidableEq, Repr, Inhabited

namespace Sink

def new (oracle : List WAns) : Sink := ⟨[], oracle, false⟩

/-- `StdoutRaw::write` → `FileDesc::write` (sys/fd/unix.rs:344-353): ONE `write(2)` -/
def write (s : Sink) (buf : Bytes) : IoRes Nat × Sink :=
  if s.dead then (.err .other, s)
  else
    match s.oracle with
    | [] => (.ok buf.length, { s with fd := s.fd ++ buf })
    | .accept n :: o => (.ok (min (n + 1) buf.length), { s with fd := s.fd ++ buf.take (n + 1), oracle := o })
    | .zero :: o => (.ok 0, { s with oracle := o })
    | .intr :: o => (.err .interrupted, { s with oracle := o })
    | .err sticky :: o => (.err .other, { s with oracle := o, dead := sticky })

/-- `Stdout::flush` (sys/stdio/unix.rs:60-63) -/
def flush (s : Sink) : IoRes Unit × Sink := (.ok (), s)

end Sink

/-! ## `Write` -/

/-- `W: Write`, as far as `BufWriter` / `LineWriterShim` use it -/
structure Writer (ω : Type) where
  write : ω → Bytes → IoRes Nat × ω
  writeAll : ω → Bytes → IoRes Unit × ω
  flush : ω → IoRes Unit × ω
  /-- ghost: how many answers of the OS are still unused (fuel of the retry loops) -/
  budget : ω → Nat

/-- the default `Write::write_all` (io/mod.rs:1857-1869) over `write` -/
def defaultWriteAll {ω : Type} (write : ω → Bytes → IoRes Nat × ω) : Nat → ω → Bytes → IoRes Unit × ω
  | 0, w, _ => (.hang, w)
  | fuel + 1, w, buf =>
    if buf.isEmpty then (.ok (), w)                                      -- 1858 while !buf.is_empty() … 1868 Ok(())
    else
      match write w buf with                                             -- 1859 match self.write(buf)
      | (.ok n, w) =>
        if n = 0 then (.err .writeZero, w)                               -- 1860-1862 Ok(0) => return Err(WRITE_ALL_EOF)
        else
          match sliceFrom buf n with                                     -- 1863 Ok(n) => buf = &buf[n..]
          | none => (.panic, w)
          | some buf => defaultWriteAll write fuel w buf
      | (.err e, w) =>
        if e = .interrupted then defaultWriteAll write fuel w buf        -- 1864 Err(ref e) if e.is_interrupted() => {}
        else (.err e, w)                                                 -- 1865 Err(e) => return Err(e)
      | (.panic, w) => (.panic, w)
      | (.hang, w) => (.hang, w)

/-- `StdoutRaw` (io/stdio.rs:139-169) over `Stdout` (sys/stdio/unix.rs:46-64): `write_all` is the default one -/
def Sink.writer : Writer Sink where
  write := Sink.write
  writeAll := fun s buf => defaultWriteAll Sink.write (s.oracle.length + buf.length + 1) s buf
  flush := Sink.flush
  budget := fun s => s.oracle.length

/-! ## `BufWriter` (io/buffered/bufwriter.rs) -/

structure BufWriter (ω : Type) where
  /-- `self.buf` (a `Vec<u8>`; `self.buf.len()` is `buf.length`) -/
  buf : Bytes
  /-- `self.buf.capacity()` -/
  cap : Nat
  inner : ω
  deriving DecidableEq, Repr, Inhabited

namespace BufWriter
variable {ω : Type}

/-- `BufWriter::with_capacity(capacity, inner)` -/
def withCapacity (capacity : Nat) (inner : ω) : BufWriter ω := ⟨[], capacity, inner⟩

/-- 452-454 `self.buf.capacity() - self.buf.len()` -/
def spareCapacity (bw : BufWriter ω) : Nat := bw.cap - bw.buf.length

/-- 439-449 `unsafe fn write_to_buffer_unchecked`; `none` = the precondition does not hold (UB) -/
def writeToBufferUnchecked (bw : BufWriter ω) (buf : Bytes) : Option (BufWriter ω) :=
  if buf.length ≤ bw.spareCapacity then some { bw with buf := bw.buf ++ buf } else none

/-- 234-251, the `while` of `flush_buf`: `buffer` is `guard.buffer`, `written` is `guard.written` -/
def flushBufLoop (W : Writer ω) (buffer : Bytes) : Nat → Nat → ω → IoRes Unit × Nat × ω
  | 0, written, inner => (.hang, written, inner)
  | fuel + 1, written, inner =>
    if written ≥ buffer.length then (.ok (), written, inner)             -- 234 while !guard.done() … 251 Ok(())
    else
      match sliceFrom buffer written with                                -- 211 guard.remaining() = &self.buffer[self.written..]
      | none => (.panic, written, inner)
      | some remaining =>
        match W.write inner remaining with                               -- 236 let r = self.inner.write(guard.remaining())
        | (.ok n, inner) =>
          if n = 0 then (.err .writeZero, written, inner)                -- 240-245 Ok(0) => return Err(WriteZero)
          else flushBufLoop W buffer fuel (written + n) inner            -- 246 Ok(n) => guard.consume(n)
        | (.err e, inner) =>
          if e = .interrupted then flushBufLoop W buffer fuel written inner   -- 247 Err(ref e) if e.is_interrupted() => {}
          else (.err e, written, inner)                                  -- 248 Err(e) => return Err(e)
        | (.panic, inner) => (.panic, written, inner)
        | (.hang, inner) => (.hang, written, inner)

/-- 195-252 `flush_buf` -/
def flushBuf (W : Writer ω) (bw : BufWriter ω) : IoRes Unit × BufWriter ω :=
  let (r, written, inner) :=
    flushBufLoop W bw.buf (W.budget bw.inner + bw.buf.length + 1) 0 bw.inner   -- 233 BufGuard::new(&mut self.buf), 234-251
  if written > 0 then                                                    -- 227 (Drop for BufGuard, on EVERY way out)
    match sliceFrom bw.buf written with                                  -- 228 self.buffer.drain(..self.written)
    | none => (.panic, { bw with inner := inner })
    | some rest => (r, { bw with buf := rest, inner := inner })
  else (r, { bw with inner := inner })

/-- 257-267 `write_to_buf` -/
def writeToBuf (bw : BufWriter ω) (buf : Bytes) : Option (Nat × BufWriter ω) :=
  let available := bw.spareCapacity                                      -- 258
  let amtToBuffer := min available buf.length                            -- 259
  match sliceTo buf amtToBuffer with                                     -- 263 &buf[..amt_to_buffer]
  | none => none
  | some head =>
    match bw.writeToBufferUnchecked head with                            -- 263
    | none => none
    | some bw => some (amtToBuffer, bw)                                  -- 266

/-- 364-392 `write_cold` -/
def writeCold (W : Writer ω) (bw : BufWriter ω) (buf : Bytes) : IoRes Nat × BufWriter ω :=
  andThen (if buf.length > bw.spareCapacity then flushBuf W bw else (.ok (), bw))   -- 365-367 self.flush_buf()?
    (fun _ bw =>
      if buf.length ≥ bw.cap then                                        -- 371
        mapState (fun inner => { bw with inner := inner })               -- 375 r
          (W.write bw.inner buf)                                         -- 373 self.get_mut().write(buf)
      else
        match bw.writeToBufferUnchecked buf with                         -- 387
        | none => (.panic, bw)
        | some bw => (.ok buf.length, bw))                               -- 390
    id

/-- 519-532 `write` -/
def write (W : Writer ω) (bw : BufWriter ω) (buf : Bytes) : IoRes Nat × BufWriter ω :=
  if buf.length < bw.spareCapacity then                                  -- 522
    match bw.writeToBufferUnchecked buf with                             -- 525
    | none => (.panic, bw)
    | some bw => (.ok buf.length, bw)                                    -- 528
  else writeCold W bw buf                                                -- 530

/-- 401-434 `write_all_cold` -/
def writeAllCold (W : Writer ω) (bw : BufWriter ω) (buf : Bytes) : IoRes Unit × BufWriter ω :=
  andThen (if buf.length > bw.spareCapacity then flushBuf W bw else (.ok (), bw))   -- 407-409 self.flush_buf()?
    (fun _ bw =>
      if buf.length ≥ bw.cap then                                        -- 413
        mapState (fun inner => { bw with inner := inner })               -- 417 r
          (W.writeAll bw.inner buf)                                      -- 415 self.get_mut().write_all(buf)
      else
        match bw.writeToBufferUnchecked buf with                         -- 429
        | none => (.panic, bw)
        | some bw => (.ok (), bw))                                       -- 432
    id

/-- 535-548 `write_all` -/
def writeAll (W : Writer ω) (bw : BufWriter ω) (buf : Bytes) : IoRes Unit × BufWriter ω :=
  if buf.length < bw.spareCapacity then                                  -- 538
    match bw.writeToBufferUnchecked buf with                             -- 541
    | none => (.panic, bw)
    | some bw => (.ok (), bw)                                            -- 544
  else writeAllCold W bw buf                                             -- 546

/-- 643-646 `flush` -/
def flush (W : Writer ω) (bw : BufWriter ω) : IoRes Unit × BufWriter ω :=
  andThen (flushBuf W bw)                                                -- 644 self.flush_buf()?
    (fun _ bw =>
      mapState (fun inner => { bw with inner := inner })
        (W.flush bw.inner))                                              -- 645 self.get_mut().flush()
    id

/-- 674-681 `Drop for BufWriter` (no panic in flight): `let _r = self.flush_buf();`, what is left of the value
    is the inner writer -/
def drop (W : Writer ω) (bw : BufWriter ω) : ω := (flushBuf W bw).2.inner

/-- `BufWriter<W>` as a `Write` -/
def writer (W : Writer ω) : Writer (BufWriter ω) where
  write := write W
  writeAll := writeAll W
  flush := flush W
  budget := fun bw => W.budget bw.inner

end BufWriter

/-! ## `LineWriter` (io/buffered/linewriter.rs) and `LineWriterShim` (io/buffered/linewritershim.rs) -/

/-- linewriter.rs:68 `pub struct LineWriter<W> { inner: BufWriter<W> }` -/
structure LineWriter (ω : Type) where
  inner : BufWriter ω
  deriving DecidableEq, Repr, Inhabited

/- `LineWriterShim<'a, W> { buffer: &'a mut BufWriter<W> }`: the methods act on the `BufWriter` -/
namespace Shim
variable {ω : Type}

/-- 46-51 `flush_if_completed_line` -/
def flushIfCompletedLine (W : Writer ω) (buffer : BufWriter ω) : IoRes Unit × BufWriter ω :=
  if buffer.buf.getLast? = some 0x0A then BufWriter.flushBuf W buffer    -- 47-48 Some(b'\n') => self.buffer.flush_buf()
  else (.ok (), buffer)                                                  -- 49 _ => Ok(())

/-- what l.121-139 decide -/
inductive Tail where
  | panic
  | ret                    -- 127 `return Ok(flushed)`
  | tail (t : Bytes)
  deriving DecidableEq, Repr

def Tail.ofOption : Option Bytes → Tail
  | none => .panic
  | some t => .tail t

/-- 121-139 `let tail = if flushed >= newline_idx { … } else if … { … } else { … };` -/
def tailOf (capacity : Nat) (buf : Bytes) (newlineIdx flushed : Nat) : Tail :=
  if flushed ≥ newlineIdx then                                           -- 121
    match sliceFrom buf flushed with                                     -- 122 let tail = &buf[flushed..]
    | none => .panic
    | some tail =>
      if tail.length ≥ capacity then .ret                                -- 126-128 return Ok(flushed)
      else .tail tail                                                    -- 129
  else if newlineIdx - flushed ≤ capacity then                           -- 130
    Tail.ofOption (sliceRange buf flushed newlineIdx)                    -- 131 &buf[flushed..newline_idx]
  else
    match sliceFrom buf flushed with                                     -- 133 let scan_area = &buf[flushed..]
    | none => .panic
    | some scanArea =>
      match sliceTo scanArea capacity with                               -- 134 &scan_area[..self.buffer.capacity()]
      | none => .panic
      | some scanArea =>
        match memrchr 0x0A scanArea with                                 -- 135
        | some newlineIdx => Tail.ofOption (sliceTo scanArea (newlineIdx + 1))   -- 136
        | none => .tail scanArea                                         -- 137

/-- 69-143 `write` -/
def write (W : Writer ω) (buffer : BufWriter ω) (buf : Bytes) : IoRes Nat × BufWriter ω :=
  match memrchr 0x0A buf with                                            -- 70
  | none =>
    andThen (flushIfCompletedLine W buffer)                              -- 75 self.flush_if_completed_line()?
      (fun _ buffer => BufWriter.write W buffer buf)                     -- 76 return self.buffer.write(buf)
      id
  | some idx =>
    let newlineIdx := idx + 1                                            -- 80
    andThen (BufWriter.flushBuf W buffer)                                -- 88 self.buffer.flush_buf()?
      (fun _ buffer =>
        match sliceTo buf newlineIdx with                                -- 92 let lines = &buf[..newline_idx]
        | none => (.panic, buffer)
        | some lines =>
          andThen (W.write buffer.inner lines)                           -- 99 let flushed = self.inner_mut().write(lines)?
            (fun flushed inner =>
              let buffer := { buffer with inner := inner }
              if flushed = 0 then (.ok 0, buffer)                        -- 104-106
              else
                match tailOf buffer.cap buf newlineIdx flushed with      -- 121-139
                | .panic => (.panic, buffer)
                | .ret => (.ok flushed, buffer)                          -- 127
                | .tail tail =>
                  match buffer.writeToBuf tail with                      -- 141 let buffered = self.buffer.write_to_buf(tail)
                  | none => (.panic, buffer)
                  | some (buffered, buffer) => (.ok (flushed + buffered), buffer))   -- 142
            (fun inner => { buffer with inner := inner }))
      id

/-- 268-296 `write_all` -/
def writeAll (W : Writer ω) (buffer : BufWriter ω) (buf : Bytes) : IoRes Unit × BufWriter ω :=
  match memrchr 0x0A buf with                                            -- 269
  | none =>
    andThen (flushIfCompletedLine W buffer)                              -- 274 self.flush_if_completed_line()?
      (fun _ buffer => BufWriter.writeAll W buffer buf)                  -- 275 self.buffer.write_all(buf)
      id
  | some newlineIdx =>
    match sliceTo buf (newlineIdx + 1), sliceFrom buf (newlineIdx + 1) with   -- 278 buf.split_at(newline_idx + 1)
    | some lines, some tail =>
      andThen
        (if buffer.buf.isEmpty then                                      -- 280 if self.buffered().is_empty()
          mapState (fun inner => { buffer with inner := inner })
            (W.writeAll buffer.inner lines)                              -- 281 self.inner_mut().write_all(lines)?
        else
          andThen (BufWriter.writeAll W buffer lines)                    -- 289 self.buffer.write_all(lines)?
            (fun _ buffer => BufWriter.flushBuf W buffer)                -- 290 self.buffer.flush_buf()?
            id)
        (fun _ buffer => BufWriter.writeAll W buffer tail)               -- 293 self.buffer.write_all(tail)
        id
    | _, _ => (.panic, buffer)

end Shim

namespace LineWriter
variable {ω : Type}

/-- linewriter.rs:109-111 -/
def withCapacity (capacity : Nat) (inner : ω) : LineWriter ω := ⟨BufWriter.withCapacity capacity inner⟩

/-- linewriter.rs:192-194 -/
def write (W : Writer ω) (lw : LineWriter ω) (buf : Bytes) : IoRes Nat × LineWriter ω :=
  mapState LineWriter.mk (Shim.write W lw.inner buf)

/-- linewriter.rs:208-210 -/
def writeAll (W : Writer ω) (lw : LineWriter ω) (buf : Bytes) : IoRes Unit × LineWriter ω :=
  mapState LineWriter.mk (Shim.writeAll W lw.inner buf)

/-- linewriter.rs:196-198 `self.inner.flush()` (= linewritershim.rs:145-147) -/
def flush (W : Writer ω) (lw : LineWriter ω) : IoRes Unit × LineWriter ω :=
  mapState LineWriter.mk (BufWriter.flush W lw.inner)

/-- `LineWriter<W>` as a `Write`; `StdoutLock` (io/stdio.rs:845-865) forwards `write`, `write_all`, `flush` to it -/
def writer (W : Writer ω) : Writer (LineWriter ω) where
  write := write W
  writeAll := writeAll W
  flush := flush W
  budget := fun lw => W.budget lw.inner.inner

/-- dropping a `LineWriter` drops its `BufWriter` -/
def drop (W : Writer ω) (lw : LineWriter ω) : ω := BufWriter.drop W lw.inner

end LineWriter

/-! ## the stdout of `main` (tuc.rs:278) -/

/-- `BufWriter<StdoutLock>` -/
abbrev Stdout := BufWriter (LineWriter Sink)

def lineWriter : Writer (LineWriter Sink) := LineWriter.writer Sink.writer
def stdoutWriter : Writer Stdout := BufWriter.writer lineWriter

/-- tuc.rs:278 with the two capacities as parameters (`main`: 65536 and 1024) -/
def Stdout.new (capacity lineCapacity : Nat) (oracle : List WAns) : Stdout :=
  BufWriter.withCapacity capacity (LineWriter.withCapacity lineCapacity (Sink.new oracle))

/-- the bytes on fd 1 -/
def Stdout.fd (s : Stdout) : Bytes := s.inner.inner.inner.fd

/-- `w.write_all(x₁)?; …; w.write_all(xₖ)?` -/
def writeAlls {ω : Type} (W : Writer ω) : List Bytes → ω → IoRes Unit × ω
  | [], w => (.ok (), w)
  | x :: xs, w => andThen (W.writeAll w x) (fun _ w => writeAlls W xs w) id

/-- an engine (`write_all(..)?` …) followed by `stdout.flush()?` (tuc.rs:286-288, 294-303) -/
def session {ω : Type} (W : Writer ω) (xs : List Bytes) (w : ω) : IoRes Unit × ω :=
  andThen (writeAlls W xs w) (fun _ w => W.flush w) id

def IoRes.status {α : Type} : IoRes α → Status
  | .ok _ => .ok
  | .err _ => .fail
  | .panic => .panic
  | .hang => .hang

/-- What `main` does to fd 1 from l.278 to the end of the process, for an engine that writes `xs`:
    the session, `drop(stdout)` at the end of `main` (bufwriter.rs:674-681, errors ignored), and
    `std::rt::cleanup` → `io::cleanup` (io/stdio.rs:726-742), which replaces the global `LineWriter` — the old one
    is dropped, errors ignored.  Yields the status of the process and the descriptor. -/
def mainWrites (capacity lineCapacity : Nat) (oracle : List WAns) (xs : List Bytes) : Status × Sink :=
  let stdout := Stdout.new capacity lineCapacity oracle                  -- tuc.rs:278
  let (r, stdout) := session stdoutWriter xs stdout                      -- tuc.rs:286-303
  let lock := BufWriter.drop lineWriter stdout                           -- end of `main`: drop(stdout)
  let raw := LineWriter.drop Sink.writer lock                            -- io/stdio.rs:739
  (IoRes.status r, raw)

/-- an engine that writes `xs` and then returns `Err` (a failing record; tuc.rs:286 / 294-300 `?`): `main` returns
    without `flush()`, the two drops still happen -/
def mainWritesThenErr (capacity lineCapacity : Nat) (oracle : List WAns) (xs : List Bytes) : Status × Sink :=
  let stdout := Stdout.new capacity lineCapacity oracle
  let (r, stdout) := writeAlls stdoutWriter xs stdout
  let lock := BufWriter.drop lineWriter stdout
  let raw := LineWriter.drop Sink.writer lock
  ((match IoRes.status r with | .ok => .fail | st => st), raw)

/-- the same with the seeded defect "flush only if the `BufWriter` is not empty" in place of tuc.rs:303 -/
def sessionSkippingEmpty {ω : Type} (W : Writer ω) (xs : List Bytes) (bw : BufWriter ω) : IoRes Unit × BufWriter ω :=
  andThen (writeAlls (BufWriter.writer W) xs bw)
    (fun _ bw => if bw.buf.isEmpty then (.ok (), bw) else BufWriter.flush W bw) id

def mainWritesSkippingEmpty (capacity lineCapacity : Nat) (oracle : List WAns) (xs : List Bytes) : Status × Sink :=
  let stdout := Stdout.new capacity lineCapacity oracle
  let (r, stdout) := sessionSkippingEmpty lineWriter xs stdout
  let lock := BufWriter.drop lineWriter stdout
  let raw := LineWriter.drop Sink.writer lock
  (IoRes.status r, raw)

/-! ## fd 0 -/

/-- one answer of the OS to one `read(2)` -/
inductive RAns where
  | give (n : Nat)   -- `min (n + 1) len` bytes of what is left
  | intr             -- `Err(EINTR)`
  | err              -- any other `Err`
  deriving DecidableEq, Repr, Inhabited

structure Src where
  /-- what the file / pipe is still going to deliver -/
  data : Bytes
  oracle : List RAns
  deriving DecidableEq, Repr, Inhabited

/-- `StdinRaw::read_buf` → `FileDesc::read_buf` (sys/fd/unix.rs:176-191): ONE `read(2)` into `len` bytes; yields
    the bytes stored (`cursor.advance(ret)`); nothing is stored on `Err` (l.184 `?` before l.188) -/
def Src.read (s : Src) (len : Nat) : IoRes Bytes × Src :=
  match s.oracle with
  | [] => (.ok (s.data.take len), { s with data := s.data.drop len })
  | .give n :: o => (.ok (s.data.take (min (n + 1) len)), { data := s.data.drop (min (n + 1) len), oracle := o })
  | .intr :: o => (.err .interrupted, { s with oracle := o })
  | .err :: o => (.err .other, { s with oracle := o })

/-- `R: Read`, as far as `BufReader` uses it: `read_buf(cursor)` with `cursor.capacity() = len` yields the bytes
    it appended to the cursor -/
structure Reader (ρ : Type) where
  readBuf : ρ → Nat → IoRes Bytes × ρ
  budget : ρ → Nat

def Src.reader : Reader Src where
  readBuf := Src.read
  budget := fun s => s.oracle.length

/-! ## `BufReader` (io/buffered/bufreader.rs, io/buffered/bufreader/buffer.rs) -/

structure BufReader (ρ : Type) where
  /-- `buf[..filled]` (`filled` is `buf.length`) -/
  buf : Bytes
  pos : Nat
  /-- `self.buf.len()` of the boxed slice = `capacity()` -/
  cap : Nat
  inner : ρ
  deriving DecidableEq, Repr, Inhabited

namespace BufReader
variable {ρ : Type}

/-- buffer.rs:33-36 -/
def withCapacity (capacity : Nat) (inner : ρ) : BufReader ρ := ⟨[], 0, capacity, inner⟩

def filled (br : BufReader ρ) : Nat := br.buf.length

/-- buffer.rs:49-53 `buffer()`: `self.buf.get_unchecked(self.pos..self.filled)` -/
def buffer (br : BufReader ρ) : Option Bytes := sliceRange br.buf br.pos br.filled

/-- buffer.rs:142-157, the refill inside `fill_buf` -/
def refill (R : Reader ρ) (br : BufReader ρ) : IoRes Unit × BufReader ρ :=
  match R.readBuf br.inner br.cap with                                   -- 142 BorrowedBuf::from(&mut *self.buf); 151 reader.read_buf(buf.unfilled())
  | (.ok bytes, inner) => (.ok (), { br with pos := 0, buf := bytes, inner := inner })   -- 153 self.pos = 0; 154 self.filled = buf.len(); 157 result?
  | (.err e, inner) => (.err e, { br with pos := 0, buf := [], inner := inner })
  | (.panic, inner) => (.panic, { br with pos := 0, buf := [], inner := inner })
  | (.hang, inner) => (.hang, { br with pos := 0, buf := [], inner := inner })

/-- buffer.rs:134-160 `fill_buf` (bufreader.rs:453-455) -/
def fillBuf (R : Reader ρ) (br : BufReader ρ) : IoRes Bytes × BufReader ρ :=
  andThen
    (if br.pos ≥ br.filled then refill R br                              -- 139
     else (.ok (), br))
    (fun _ br =>
      match br.buffer with                                               -- 159 Ok(self.buffer())
      | none => (.panic, br)
      | some b => (.ok b, br))
    id

/-- buffer.rs:83-85 `consume` (bufreader.rs:457-459) -/
def consume (br : BufReader ρ) (amt : Nat) : BufReader ρ :=
  { br with pos := min (br.pos + amt) br.filled }                        -- 84

/-- buffer.rs:77-80 `discard_buffer` -/
def discardBuffer (br : BufReader ρ) : BufReader ρ := { br with pos := 0, buf := [] }

/-- bufreader.rs:352-371 `read_buf` with `cursor.capacity() = len` (the bypass for large reads) -/
def readBuf (R : Reader ρ) (br : BufReader ρ) (len : Nat) : IoRes Bytes × BufReader ρ :=
  if br.pos = br.filled ∧ len ≥ br.cap then                              -- 356
    let br := br.discardBuffer                                           -- 357
    mapState (fun inner => { br with inner := inner })
      (R.readBuf br.inner len)                                           -- 358 return self.inner.read_buf(cursor)
  else
    andThen (fillBuf R br)                                               -- 362 let mut rem = self.fill_buf()?
      (fun rem br =>
        let written := rem.take len                                      -- 363 rem.read_buf(cursor.reborrow())? (copies min(capacity, rem.len()))
        (.ok written, br.consume written.length))                        -- 365 self.consume(cursor.written() - prev); 367
      id

/-- `BufReader<R>` as a `Read` (`StdinLock`, io/stdio.rs:511-518, forwards `read_buf` to it) -/
def reader (R : Reader ρ) : Reader (BufReader ρ) where
  readBuf := readBuf R
  budget := fun br => R.budget br.inner

/-- the way `std::io::read_until` (io/mod.rs:2247-2251) and every `BufRead` helper of std call `fill_buf`:
    `match r.fill_buf() { Ok(n) => n, Err(ref e) if e.is_interrupted() => continue, Err(e) => return Err(e) }` -/
def fillBufRetryLoop (R : Reader ρ) : Nat → BufReader ρ → IoRes Bytes × BufReader ρ
  | 0, br => (.hang, br)
  | fuel + 1, br =>
    match fillBuf R br with
    | (.err e, br') => if e = .interrupted then fillBufRetryLoop R fuel br' else (.err e, br')
    | r => r

def fillBufRetry (R : Reader ρ) (br : BufReader ρ) : IoRes Bytes × BufReader ρ :=
  fillBufRetryLoop R (R.budget br.inner + 1) br

end BufReader

/-! ## the stdin of `main` (tuc.rs:277) -/

/-- `BufReader<StdinLock>` over the global `BufReader<StdinRaw>` -/
abbrev Stdin := BufReader (BufReader Src)

def stdinLock : Reader (BufReader Src) := BufReader.reader Src.reader

/-- tuc.rs:277 with the two capacities as parameters (`main`: 65536 and `STDIN_BUF_SIZE` = 8192) -/
def Stdin.new (capacity lockCapacity : Nat) (data : Bytes) (oracle : List RAns) : Stdin :=
  BufReader.withCapacity capacity (BufReader.withCapacity lockCapacity ⟨data, oracle⟩)

/-- `loop { let s = fill_buf (retrying EINTR); if s.is_empty() { break }; hand out s; consume(s.len()) }`:
    the chunks a consumer that takes everything gets to see, and how it ended -/
def drainLoop {ρ : Type} (R : Reader ρ) : Nat → BufReader ρ → List Bytes × Status
  | 0, _ => ([], .hang)
  | fuel + 1, br =>
    match BufReader.fillBufRetry R br with
    | (.ok s, br) =>
      if s.isEmpty then ([], .ok)
      else
        let (rest, st) := drainLoop R fuel (br.consume s.length)
        (s :: rest, st)
    | (r, _) => ([], IoRes.status r)

end StdioLit
end Tuc
