import Tuc.Model.FastLane
import Tuc.Model.TextLoops
/-!
# Tuc.Model.FastLoop — `src/fast_lane.rs`, statement by statement

`Tuc.Model.FastLane` models the fast lane in *normal form*: the scan is a recursion over the bytes
of the record (`fastScan`) with an unbounded counter, `output_parts` tests all its indexings in one
condition.  This file follows the Rust text of

* `trim`                          (fast_lane.rs:11-19)    → `FastLoop.trim`
* `cut_str_fast_lane`             (fast_lane.rs:22-91)    → `cutStrFastLaneLoop`
* `output_parts`                  (fast_lane.rs:94-126)   → `FastLoop.outputPartsLit`
* `read_and_cut_text_as_bytes`    (fast_lane.rs:173-198)  → `readAndCutTextAsBytesLoop`

statement by statement (the numbers in the comments are the lines of `/repo/src/fast_lane.rs`).
`Tuc.Props.FastLoop` proves that the two agree.

Conventions (those of `Tuc.Model.TextLoops` and `Tuc.Model.StreamLoop`)

* local variables keep their Rust names (camelCase); a `let mut` that is assigned again becomes a
  parameter of the loop function or a shadowing `let`;
* `stdout: &mut W` is a fault-free writer: a statement that writes yields the `Run` of what it
  wrote; `a.seq b` is "`a`, then — unless `a` ended the run — `b`", i.e. the `?` operator; an `Err`
  is `Run.fail`, a Rust panic is `Run.panic`;
* every operation that can panic in Rust is *checked* (`Outcome.panic`, turned into `Run.panic` by
  `orPanic` where the function writes):
    - `fields[i]`                 → `index`       (`i ≥ len`),
    - `&line[a..b]`               → `TextLoops.sliceRange` (`a > b` or `b > len`),
    - `x - 1` on `usize`          → `TextLoops.checkedSub` (`x = 0`: panics in the debug build, wraps
                                     in the release build),
    - `curr_field += 1`           → `checkedAddI32`: `curr_field` is an **`i32`** (its type is
      inferred from `Side::Some(curr_field)`, l.56), so the addition overflows on the 2³¹-th
      delimiter of a record that is scanned to its end (panic in the debug build, wrap-around to
      `i32::MIN` in the release build);
  `i + 1` and `buffer.len() + 1` on `usize` are unbounded (project convention: a slice of 2⁶⁴ bytes
  does not exist);
* the vector `fields: &mut Vec<usize>` is a `List Nat` that is threaded through: the function
  returns the run AND the vector as it leaves it (`fields.clear()` is `TextLoops.clear`,
  `fields.push(x)` is `TextLoops.push`).  After a panic the content of the vector is of no
  interest (the process is gone); the model returns it as it was when the `for` loop was entered;
* library calls are modelled by what they compute:
    - `memchr::memchr_iter(needle, haystack)` → `memchrIter` (the ascending list of the offsets of
      `needle`); the `for` loop walks that list, `break` leaves it;
    - `bstr::ByteSlice::trim_start_with(|x| x == delimiter as char)` / `trim_end_with` →
      `trimStartWith` / `trimEndWith`: the leading / trailing bytes equal to the delimiter are
      dropped.  This is what the library does for an **ASCII** delimiter byte (the only kind the
      command line can produce: DESIGN.md §0.7; for a byte ≥ 0x80 the `char` comparison would match
      the two-byte encoding of U+0080–U+00FF instead);
    - `UserBounds::try_into_range` → `UserBounds.tryIntoRange` of `Tuc.Model.Bounds` (a callee,
      not transcribed here; its `parts_length as i32` is modelled without truncation, which
      matters from 2³¹ − 1 delimiters in one record on — the same order of magnitude as the
      counter);
    - `bounds.iter().try_for_each(closure)` → a recursion over the list that stops at the first
      `Err` (`Run.seq`);
    - `stdin.for_byte_record(terminator, closure)` → the closure is called on every element of
      `records terminator input` (the project's model of the bstr record splitter) for as long as
      it returns `Ok(true)`.
-/

namespace Tuc
namespace FastLoop
open TextLoops

/-! ## the vocabulary of the Rust text -/

/-- `v[i]` on a `Vec<usize>` / `&[usize]`: panics when `i >= v.len()` -/
def index (v : List Nat) (i : Nat) : Outcome Nat :=
  match v[i]? with
  | Option.some x => .ok x
  | Option.none => .panic

/-- `x + y` on `i32` (`x += y`): overflow check of the debug build -/
def checkedAddI32 (x y : Int) : Outcome Int :=
  if i32Min ≤ x + y ∧ x + y ≤ i32Max then .ok (x + y) else .panic

/-- a checked operation inside a function that writes: a panic (or a hang) ends the run -/
def orPanic {α : Type} (x : Outcome α) (k : α → Run) : Run :=
  match x with
  | .ok a => k a
  | .panic => Run.panic
  | .hang => Run.hang

/-- `memchr::memchr_iter(needle, haystack)`: the offsets of the bytes equal to `needle`,
    ascending; `i` is the offset of the head of the haystack -/
def memchrIterFrom (needle : UInt8) : Nat → Bytes → List Nat
  | _, [] => []
  | i, c :: t =>
    if c = needle then i :: memchrIterFrom needle (i + 1) t else memchrIterFrom needle (i + 1) t

def memchrIter (needle : UInt8) (haystack : Bytes) : List Nat := memchrIterFrom needle 0 haystack

/-- `buffer.trim_start_with(|x| x == delimiter as char)` for an ASCII delimiter byte -/
def trimStartWith (delimiter : UInt8) : Bytes → Bytes
  | [] => []
  | c :: t => if c = delimiter then trimStartWith delimiter t else c :: t

/-- `buffer.trim_end_with(|x| x == delimiter as char)` for an ASCII delimiter byte -/
def trimEndWith (delimiter : UInt8) (buffer : Bytes) : Bytes :=
  (trimStartWith delimiter buffer.reverse).reverse

/-! ## `trim` (fast_lane.rs:11-19) -/

def trim (buffer : Bytes) (trimKind : Trim) (delimiter : UInt8) : Bytes :=
  match trimKind with                                                   -- 12
  | .both => trimEndWith delimiter (trimStartWith delimiter buffer)     -- 13-15
  | .left => trimStartWith delimiter buffer                             -- 16
  | .right => trimEndWith delimiter buffer                              -- 17

/-! ## `output_parts` (fast_lane.rs:94-126) -/

/-- l.105-116: the value of `let output = if … else …`; `Option.none` is the `return Err(…)` of
    l.115, `Outcome.panic` a failed index / subtraction / slice of l.107-109 -/
def outputOf (line : Bytes) (b : UserBounds) (fields : List Nat) (opt : FastOpt)
    (r : Option (Nat × Nat)) : Outcome (Option Bytes) :=
  match r with
  | Option.some (rStart, rEnd) =>                                       -- 105 r.is_ok(), 106 r.unwrap()
    (index fields rStart).bind fun idxStart =>                          -- 107 fields[r.start]
      (index fields rEnd).bind fun fieldsREnd =>                        -- 108 fields[r.end]
        (checkedSub fieldsREnd 1).bind fun idxEnd =>                    -- 108 … - 1
          (sliceRange line idxStart idxEnd).bind fun part =>            -- 109 &line[idx_start..idx_end]
            .ok (Option.some part)
  | Option.none =>
    match b.fallback with
    | Option.some fallbackOob => .ok (Option.some fallbackOob)          -- 110-111
    | Option.none =>
      match opt.fallbackOob with
      | Option.some genericFallback => .ok (Option.some genericFallback)   -- 112-113
      | Option.none => .ok Option.none                                  -- 115 return Err(r.unwrap_err())

/-- `output_parts(line, b, fields, stdout, opt)` -/
def outputPartsLit (line : Bytes) (b : UserBounds) (fields : List Nat) (opt : FastOpt) : Run :=
  orPanic (checkedSub fields.length 1) fun partsLength =>               -- 103 fields.len() - 1
    let r := b.tryIntoRange partsLength                                 -- 103
    orPanic (outputOf line b fields opt r) fun output =>                -- 105-116
      match output with
      | Option.none => Run.fail                                         -- 115
      | Option.some output =>
        let fieldToPrint := output                                      -- 118
        (Run.ok fieldToPrint).seq                                       -- 119 stdout.write_all(field_to_print)?
          (if opt.join && !b.isLast then                                -- 121
             Run.ok [opt.delimiter]                                     -- 122 stdout.write_all(&[opt.delimiter])?
           else Run.empty)                                              -- 125 Ok(())

/-! ## `cut_str_fast_lane` (fast_lane.rs:22-91) -/

/-- the body of `for i in memchr::memchr_iter(opt.delimiter, buffer)` (l.52-59): the new
    `(curr_field, fields)` and whether the loop is left by `break` -/
def scanBody (lastInterestingField : Side) (i : Nat) (currField : Int) (fields : List Nat) :
    Outcome (Int × List Nat × Bool) :=
  (checkedAddI32 currField 1).bind fun currField =>                     -- 52 curr_field += 1  (i32)
    let fields := push fields (i + 1)                                   -- 54 fields.push(i + 1)
    if Side.some currField = lastInterestingField then                  -- 56
      .ok (currField, fields, true)                                     -- 58 break
    else
      .ok (currField, fields, false)

/-- the `for` loop (l.51-60) over the offsets the iterator still has to yield; the state is
    `(curr_field, fields)` -/
def scanFor (lastInterestingField : Side) : List Nat → Int → List Nat → Outcome (Int × List Nat)
  | [], currField, fields => .ok (currField, fields)
  | i :: iter, currField, fields =>
    (scanBody lastInterestingField i currField fields).bind fun st =>
      if st.2.2 then .ok (st.1, st.2.1)                                 -- 58 break
      else scanFor lastInterestingField iter st.1 st.2.1

/-- the closure of `bounds.iter().try_for_each(|bof| …)` (l.76-86) -/
def tryForEachBody (buffer : Bytes) (fields : List Nat) (opt : FastOpt) (bof : BoF) : Run :=
  match bof with                                                        -- 77
  | .filler f => Run.ok f                                               -- 78-80 stdout.write_all(f)?
  | .bound b => outputPartsLit buffer b fields opt                      -- 81-83 output_parts(…)?

/-- `bounds.iter().try_for_each(…)` (l.76-86): stops at the first `Err` -/
def tryForEach (buffer : Bytes) (fields : List Nat) (opt : FastOpt) : List BoF → Run
  | [] => Run.empty
  | bof :: iter => (tryForEachBody buffer fields opt bof).seq (tryForEach buffer fields opt iter)

/-- l.62-90, after the `for` loop: the state is `(curr_field, fields)` -/
def afterScan (buffer : Bytes) (opt : FastOpt) (lastInterestingField : Side)
    (st : Int × List Nat) : Run × List Nat :=
  let currField := st.1
  let fields := st.2
  if currField == 0 && opt.onlyDelimited then                           -- 62
    -- The delimiter was not found
    (Run.empty, fields)                                                 -- 64 return Ok(())
  else
    let fields :=
      if Side.some currField ≠ lastInterestingField then                -- 67
        push fields (buffer.length + 1)                                 -- 73 fields.push(buffer.len() + 1)
      else fields
    let bounds := opt.bounds                                            -- 42
    ((tryForEach buffer fields opt bounds.list).seq                     -- 76-86
       (Run.ok [opt.eol.byte]),                                         -- 88 stdout.write_all(&[opt.eol.into()])?
     fields)                                                            -- 90 Ok(())

end FastLoop

open FastLoop TextLoops

/-- `cut_str_fast_lane(initial_buffer, opt, stdout, fields, last_interesting_field)`
    (fast_lane.rs:22-91), statement by statement: what is written (and how the call ends), and the
    vector `fields` afterwards -/
def cutStrFastLaneLoop (initialBuffer : Bytes) (opt : FastOpt) (fields : List Nat)
    (lastInterestingField : Side) : Run × List Nat :=
  let buffer := initialBuffer                                           -- 29
  let buffer :=
    match opt.trim with                                                 -- 31 opt.trim.is_some()
    | Option.some trimKind => FastLoop.trim buffer trimKind opt.delimiter   -- 32
    | Option.none => buffer
  if buffer.isEmpty then                                                -- 35
    ((if !opt.onlyDelimited then                                        -- 36
        Run.ok [opt.eol.byte]                                           -- 37 stdout.write_all(&[opt.eol.into()])?
      else Run.empty),
     fields)                                                            -- 39 return Ok(())  (`fields` untouched)
  else
    let currField : Int := 0                                            -- 44  (i32)
    let fields := clear fields                                          -- 46
    -- fields is going to hold at what index each field starts
    let fields := push fields 0                                         -- 49
    match scanFor lastInterestingField (memchrIter opt.delimiter buffer) currField fields with  -- 51-60
    | .ok st => afterScan buffer opt lastInterestingField st            -- 62-90
    | .panic => (Run.panic, fields)                                     -- 52 overflow
    | .hang => (Run.hang, fields)

namespace FastLoop

/-- the closure handed to `for_byte_record` (l.183-188 / 189-194): `Ok(true)` (go on) unless
    `cut_str_fast_lane` failed; the loop over the records still to come, with the reused vector -/
def forByteRecord (opt : FastOpt) (lastInterestingField : Side) : List Bytes → List Nat → Run
  | [], _ => Run.empty                                                  -- no more records: Ok(())
  | line :: more, fields =>
    let r := cutStrFastLaneLoop line opt fields lastInterestingField    -- 184 / 190
    -- `.map_err(…).and(Ok(true))`: an `Err` ends `for_byte_record` (and `?` the function)
    r.1.seq (forByteRecord opt lastInterestingField more r.2)

end FastLoop

/-- `read_and_cut_text_as_bytes(stdin, stdout, opt)` (fast_lane.rs:173-198) on a fault-free reader
    that delivers `input` -/
def readAndCutTextAsBytesLoop (opt : FastOpt) (input : Bytes) : Run :=
  let fields : List Nat := []                                           -- 178 Vec::with_capacity(16)
  let lastInterestingField := opt.bounds.lastInteresting                -- 180
  match opt.eol with                                                    -- 182
  | .newline =>                                                         -- 183-188
    (forByteRecord opt lastInterestingField (records opt.eol.byte input) fields).seq
      Run.empty                                                         -- 197 Ok(())
  | .zero =>                                                            -- 189-194
    (forByteRecord opt lastInterestingField (records opt.eol.byte input) fields).seq
      Run.empty                                                         -- 197 Ok(())

end Tuc
