import Tuc.Model.CutStr
import Tuc.Model.FastLane
import Tuc.Lemmas.Bounds
/-!
# Lemmas for C02: the `memchr` loop of the fast lane against `find_iter`, the byte-wise trim against
the general trim, the early-stop arithmetic (`try_into_range` against a shorter vector) and what
`lastInteresting` guarantees about a bounds list.
-/
namespace Tuc

/-! ## 1. trim -/

theorem isPrefixOf_singleton_cons (d c : UInt8) (t : Bytes) :
    [d].isPrefixOf (c :: t) = (d == c) := by
  simp [List.isPrefixOf]

theorem trimStartFuel_eq_dropWhileEq (d : UInt8) :
    ∀ (f : Nat) (l : Bytes), l.length ≤ f → trimStartFuel [d] f l = dropWhileEq d l := by
  intro f
  induction f with
  | zero =>
    intro l hl
    cases l with
    | nil => rfl
    | cons c t => simp at hl
  | succ f ih =>
    intro l hl
    cases l with
    | nil => simp [trimStartFuel, dropWhileEq, List.isPrefixOf]
    | cons c t =>
      simp only [trimStartFuel, dropWhileEq, isPrefixOf_singleton_cons]
      by_cases hc : c = d
      · subst hc
        simp only [beq_self_eq_true, if_true]
        exact ih t (by simpa using hl)
      · have : (d == c) = false := by simp [beq_eq_false_iff_ne]; exact fun h => hc h.symm
        simp [this, hc]

theorem trimStart_single (d : UInt8) (l : Bytes) : trimStart [d] l = dropWhileEq d l :=
  trimStartFuel_eq_dropWhileEq d l.length l (Nat.le_refl _)

theorem trimEnd_single (d : UInt8) (l : Bytes) :
    trimEnd [d] l = (dropWhileEq d l.reverse).reverse := by
  simp [trimEnd, trimStart_single]

/-- **Item 1.**  The byte-wise trim of the fast lane is the general trim for a 1-byte delimiter. -/
theorem fastTrim_eq_trimLiteral (buf : Bytes) (k : Trim) (d : UInt8) :
    fastTrim buf k d = trimLiteral buf k [d] := by
  cases k <;> simp [fastTrim, trimLiteral, trimStart_single, trimEnd_single]

/-! ## 2./3. the scan -/

theorem findIterAux_single_nil (d : UInt8) (pos : Nat) : findIterAux [d] 0 pos [] = [] := by
  simp [findIterAux]

theorem findIterAux_single_cons (d c : UInt8) (pos : Nat) (t : Bytes) :
    findIterAux [d] 0 pos (c :: t) =
      if c = d then pos :: findIterAux [d] 0 (pos + 1) t else findIterAux [d] 0 (pos + 1) t := by
  simp only [findIterAux, isPrefixOf_singleton_cons, List.length_singleton, Nat.sub_self]
  by_cases hc : c = d
  · subst hc; simp
  · have : (d == c) = false := by simp [beq_eq_false_iff_ne]; exact fun h => hc h.symm
    simp [this, hc]

/-- no early stop: the scan pushes `idx + 1` for every delimiter offset `idx` and counts them -/
theorem fastScan_noStop (d : UInt8) (lif : Side) :
    ∀ (line : Bytes) (pos : Nat) (curr : Int),
      (∀ j : Nat, 1 ≤ j → j ≤ (findIterAux [d] 0 pos line).length → lif ≠ .some (curr + j)) →
      fastScan d lif pos curr line =
        ((findIterAux [d] 0 pos line).map (· + 1), curr + (findIterAux [d] 0 pos line).length) := by
  intro line
  induction line with
  | nil => intro pos curr _; simp [fastScan, findIterAux_single_nil]
  | cons c t ih =>
    intro pos curr h
    rw [findIterAux_single_cons] at h ⊢
    by_cases hc : c = d
    · simp only [if_pos hc] at h ⊢
      have h1 : ¬ (Side.some (curr + 1) = lif) := by
        intro he
        exact h 1 (Nat.le_refl _) (by simp) (by simp [← he])
      have h' : ∀ j : Nat, 1 ≤ j → j ≤ (findIterAux [d] 0 (pos + 1) t).length →
          lif ≠ .some (curr + 1 + j) := by
        intro j hj1 hj2
        have := h (j + 1) (by omega) (by simp; omega)
        have e : curr + ((j + 1 : Nat) : Int) = curr + 1 + j := by omega
        rwa [e] at this
      simp only [fastScan, if_pos hc, if_neg h1, ih (pos + 1) (curr + 1) h']
      simp only [List.map_cons, List.length_cons, Prod.mk.injEq, true_and]
      omega
    · simp only [if_neg hc] at h ⊢
      simp only [fastScan, if_neg hc]
      exact ih (pos + 1) curr h

/-- early stop: the scan ends right after the `j`-th delimiter still to come -/
theorem fastScan_stop (d : UInt8) :
    ∀ (line : Bytes) (pos : Nat) (curr : Int) (j : Nat), 1 ≤ j →
      j ≤ (findIterAux [d] 0 pos line).length →
      fastScan d (.some (curr + j)) pos curr line =
        (((findIterAux [d] 0 pos line).take j).map (· + 1), curr + j) := by
  intro line
  induction line with
  | nil => intro pos curr j h1 h2; simp [findIterAux_single_nil] at h2; omega
  | cons c t ih =>
    intro pos curr j h1 h2
    rw [findIterAux_single_cons] at h2 ⊢
    by_cases hc : c = d
    · simp only [if_pos hc] at h2 ⊢
      by_cases hj : j = 1
      · subst hj
        simp [fastScan, hc]
      · have hne : ¬ (Side.some (curr + 1) = Side.some (curr + (j : Int))) := by
          intro he
          simp only [Side.some.injEq] at he
          omega
        obtain ⟨j', rfl⟩ : ∃ j', j = j' + 1 := ⟨j - 1, by omega⟩
        have e : curr + ((j' + 1 : Nat) : Int) = curr + 1 + j' := by omega
        have := ih (pos + 1) (curr + 1) j' (by omega) (by simpa using h2)
        simp only [fastScan, if_pos hc, if_neg hne]
        rw [e, this]
        simp
    · simp only [if_neg hc] at h2 ⊢
      simp only [fastScan, if_neg hc]
      exact ih pos.succ curr j h1 h2

/-- the general splitter for a 1-byte delimiter, in terms of the delimiter offsets -/
theorem fill_single (d : UInt8) (line : Bytes) (hline : line ≠ []) :
    fillWithFieldsLocations [] line [d] =
      rangesBetween 1 line.length 0 (findIterAux [d] 0 0 line) := by
  cases line with
  | nil => exact absurd rfl hline
  | cons c t => simp [fillWithFieldsLocations, findIter]

theorem rangesBetween_length (dlen n : Nat) : ∀ (ms : List Nat) (prev : Nat),
    (rangesBetween dlen n prev ms).length = ms.length + 1 := by
  intro ms
  induction ms with
  | nil => intro prev; rfl
  | cons i t ih => intro prev; simp [rangesBetween, ih]

/-! ## 4. the early stop does not change how a bound resolves -/

/-- a bound the early stop at field `k` is sound for: only strictly positive written indexes, a
    closed right side, and that right side within the first `k` fields -/
def UserBounds.Within (b : UserBounds) (k : Int) : Prop :=
  (b.l = .cont ∨ ∃ u, b.l = .some u ∧ 1 ≤ u) ∧ ∃ v, b.r = .some v ∧ 1 ≤ v ∧ v ≤ k

/-- **Item 4.**  A positive closed bound whose right side is within `k` resolves the same way
    against `k` parts and against any `n ≥ k` parts (including the cases where it does not resolve:
    left side past the right side, whatever `n`). -/
theorem earlyStop_sound (b : UserBounds) (k n : Nat) (hb : b.Within k) (hkn : k ≤ n) :
    b.tryIntoRange k = b.tryIntoRange n := by
  obtain ⟨hl, v, hr, hv1, hvk⟩ := hb
  unfold UserBounds.tryIntoRange
  rw [hr]
  have hvn : v ≤ (n : Int) := by omega
  have e1 : rangeEnd (.some v) k = some v := by
    simp only [rangeEnd]
    rw [if_neg (by omega), if_neg (by omega)]
  have e2 : rangeEnd (.some v) n = some v := by
    simp only [rangeEnd]
    rw [if_neg (by omega), if_neg (by omega)]
  rw [e1, e2]
  rcases hl with hl | ⟨u, hl, hu⟩
  · rw [hl]; simp [rangeStart]
  · rw [hl]
    simp only [rangeStart]
    by_cases c1 : u ≤ (k : Int)
    · rw [if_neg (by omega), if_neg (by omega), if_neg (by omega), if_neg (by omega)]
    · rw [if_pos (Or.inl (by omega))]
      by_cases c2 : u ≤ (n : Int)
      · rw [if_neg (by omega), if_neg (by omega)]
        simp only
        rw [if_pos (by omega)]
      · rw [if_pos (Or.inl (by omega))]

/-! ## 5. what `lastInteresting` says about the list -/

theorem Side.gt_some_some (a m : Int) (ha : 0 < a) (hm : 0 < m) :
    (Side.some a).gt (.some m) = decide (a > m) := by
  have hs : sameSign a m = true := by simp [sameSign, ha, hm]
  simp only [Side.gt, Side.partialCmp, hs, Bool.not_true, Bool.false_eq_true, if_false]
  by_cases h : a > m
  · have : compare a m = .gt := by rw [Int.compare_eq_gt]; exact h
    simp [this, h]
  · have : compare a m ≠ .gt := by rw [Ne, Int.compare_eq_gt]; exact h
    simp [h]
    exact this

theorem rightmostBound_cont : ∀ (bs : List UserBounds),
    rightmostBound (some .cont) bs = some .cont := by
  intro bs
  induction bs with
  | nil => rfl
  | cons b t ih =>
    have : b.r.gt .cont = false := by
      cases b.r <;> simp [Side.gt, Side.partialCmp]
    simp only [rightmostBound, this, Bool.false_eq_true, if_false]
    exact ih

/-- all written indexes of the bounds are strictly positive -/
def AllPos (bs : List UserBounds) : Prop :=
  ∀ b ∈ bs, b.l.isNonPos = false ∧ b.r.isNonPos = false

theorem rightmostBound_some_spec : ∀ (bs : List UserBounds) (m k : Int), 0 < m → AllPos bs →
    rightmostBound (some (.some m)) bs = some (.some k) →
    m ≤ k ∧ ∀ b ∈ bs, ∃ v, b.r = .some v ∧ 1 ≤ v ∧ v ≤ k := by
  intro bs
  induction bs with
  | nil =>
    intro m k _ _ h
    simp only [rightmostBound, Option.some.injEq, Side.some.injEq] at h
    subst h
    exact ⟨Int.le_refl _, by simp⟩
  | cons b t ih =>
    intro m k hm hpos h
    have hb := (hpos b (by simp)).2
    have hpos' : AllPos t := fun x hx => hpos x (by simp [hx])
    cases hr : b.r with
    | cont =>
      have hg : (Side.cont).gt (.some m) = true := by simp [Side.gt, Side.partialCmp]
      simp only [rightmostBound, hr, hg, if_true] at h
      rw [rightmostBound_cont] at h
      cases h
    | some v =>
      have hv : 0 < v := by
        rw [hr] at hb
        simp only [Side.isNonPos, decide_eq_false_iff_not] at hb
        omega
      simp only [rightmostBound, hr, Side.gt_some_some v m hv hm] at h
      by_cases hvm : v > m
      · simp only [hvm, decide_true, if_true] at h
        obtain ⟨h1, h2⟩ := ih v k hv hpos' h
        refine ⟨by omega, ?_⟩
        intro x hx
        rcases List.mem_cons.1 hx with rfl | hx
        · exact ⟨v, hr, by omega, h1⟩
        · exact h2 x hx
      · simp only [hvm, decide_false, Bool.false_eq_true, if_false] at h
        obtain ⟨h1, h2⟩ := ih m k hm hpos' h
        refine ⟨h1, ?_⟩
        intro x hx
        rcases List.mem_cons.1 hx with rfl | hx
        · exact ⟨v, hr, by omega, by omega⟩
        · exact h2 x hx

theorem rightmostBound_none_spec (bs : List UserBounds) (k : Int) (hpos : AllPos bs)
    (h : rightmostBound none bs = some (.some k)) :
    ∀ b ∈ bs, ∃ v, b.r = .some v ∧ 1 ≤ v ∧ v ≤ k := by
  cases bs with
  | nil => simp [rightmostBound] at h
  | cons b t =>
    simp only [rightmostBound] at h
    have hpos' : AllPos t := fun x hx => hpos x (by simp [hx])
    have hb := (hpos b (by simp)).2
    cases hr : b.r with
    | cont =>
      rw [hr, rightmostBound_cont] at h
      cases h
    | some v =>
      have hv : 0 < v := by
        rw [hr] at hb
        simp only [Side.isNonPos, decide_eq_false_iff_not] at hb
        omega
      rw [hr] at h
      obtain ⟨h1, h2⟩ := rightmostBound_some_spec t v k hv hpos' h
      intro x hx
      rcases List.mem_cons.1 hx with rfl | hx
      · exact ⟨v, hr, by omega, h1⟩
      · exact h2 x hx

/-- the value `rightmostBound` returns is the right side of one of the bounds (or the seed) -/
theorem rightmostBound_mem : ∀ (bs : List UserBounds) (acc : Option Side) (s : Side),
    rightmostBound acc bs = some s → acc = some s ∨ ∃ b ∈ bs, b.r = s := by
  intro bs
  induction bs with
  | nil => intro acc s h; left; simpa [rightmostBound] using h
  | cons b t ih =>
    intro acc s h
    cases acc with
    | none =>
      simp only [rightmostBound] at h
      rcases ih _ _ h with h | ⟨x, hx, hxr⟩
      · right; exact ⟨b, by simp, by simpa using h⟩
      · right; exact ⟨x, by simp [hx], hxr⟩
    | some m =>
      simp only [rightmostBound] at h
      by_cases hg : b.r.gt m = true
      · rw [if_pos hg] at h
        rcases ih _ _ h with h | ⟨x, hx, hxr⟩
        · right; exact ⟨b, by simp, by simpa using h⟩
        · right; exact ⟨x, by simp [hx], hxr⟩
      · rw [if_neg hg] at h
        rcases ih _ _ h with h | ⟨x, hx, hxr⟩
        · left; exact h
        · right; exact ⟨x, by simp [hx], hxr⟩

/-- `markLast` only touches `isLast` -/
theorem markLast_mem : ∀ (l l' : List BoF), markLast l = some l' →
    ∀ b, BoF.bound b ∈ l' → ∃ b0, BoF.bound b0 ∈ l ∧ b0.l = b.l ∧ b0.r = b.r ∧
      b0.fallback = b.fallback := by
  intro l
  induction l with
  | nil => intro l' h; simp [markLast] at h
  | cons x t ih =>
    intro l' h b hb
    cases x with
    | filler f =>
      simp only [markLast, Option.map_eq_some_iff] at h
      obtain ⟨t', ht', rfl⟩ := h
      simp only [List.mem_cons, reduceCtorEq, false_or] at hb
      obtain ⟨b0, h0, h1⟩ := ih t' ht' b hb
      exact ⟨b0, by simp [h0], h1⟩
    | bound b1 =>
      simp only [markLast] at h
      cases hm : markLast t with
      | some t' =>
        simp only [hm, Option.some.injEq] at h
        subst h
        simp only [List.mem_cons, BoF.bound.injEq] at hb
        rcases hb with rfl | hb
        · exact ⟨b, by simp, rfl, rfl, rfl⟩
        · obtain ⟨b0, h0, h1⟩ := ih t' hm b hb
          exact ⟨b0, by simp [h0], h1⟩
      | none =>
        simp only [hm, Option.some.injEq] at h
        subst h
        simp only [List.mem_cons, BoF.bound.injEq] at hb
        rcases hb with rfl | hb
        · exact ⟨b1, by simp, rfl, rfl, rfl⟩
        · exact ⟨b, by simp [hb], rfl, rfl, rfl⟩

/-- every bound of the list survives `markLast` with the same sides -/
theorem markLast_mem_rev : ∀ (l l' : List BoF), markLast l = some l' →
    ∀ b0, BoF.bound b0 ∈ l → ∃ b, BoF.bound b ∈ l' ∧ b.l = b0.l ∧ b.r = b0.r := by
  intro l
  induction l with
  | nil => intro l' h; simp [markLast] at h
  | cons x t ih =>
    intro l' h b0 hb
    cases x with
    | filler f =>
      simp only [markLast, Option.map_eq_some_iff] at h
      obtain ⟨t', ht', rfl⟩ := h
      simp only [List.mem_cons, reduceCtorEq, false_or] at hb
      obtain ⟨b, h0, h1⟩ := ih t' ht' b0 hb
      exact ⟨b, by simp [h0], h1⟩
    | bound b1 =>
      simp only [markLast] at h
      simp only [List.mem_cons, BoF.bound.injEq] at hb
      cases hm : markLast t with
      | some t' =>
        simp only [hm, Option.some.injEq] at h
        subst h
        rcases hb with rfl | hb
        · exact ⟨b0, by simp, rfl, rfl⟩
        · obtain ⟨b, h0, h1⟩ := ih t' hm b0 hb
          exact ⟨b, by simp [h0], h1⟩
      | none =>
        simp only [hm, Option.some.injEq] at h
        subst h
        rcases hb with rfl | hb
        · exact ⟨{ b0 with isLast := true }, by simp, rfl, rfl⟩
        · exact ⟨b0, by simp [hb], rfl, rfl⟩

theorem mem_boundsOnly : ∀ (l : List BoF) (b : UserBounds), b ∈ boundsOnly l ↔ BoF.bound b ∈ l := by
  intro l
  induction l with
  | nil => intro b; simp [boundsOnly]
  | cons x t ih =>
    intro b
    cases x with
    | bound b1 => simp [boundsOnly, ih]
    | filler f => simp [boundsOnly, ih]

/-- **Item 5.**  If the early-stop field of a `fromVec`-built list is a positive `k`, every bound of
    the list has only strictly positive written indexes and a closed right side `≤ k`. -/
theorem lastInteresting_spec (l : List BoF) (ubl : UserBoundsList) (k : Int)
    (h : fromVec l = .ok ubl) (hk : ubl.lastInteresting = .some k) (hpos : 0 < k) :
    ∀ b, BoF.bound b ∈ ubl.list → b.Within k := by
  unfold fromVec at h
  cases hm : markLast l with
  | none => simp [hm] at h
  | some l' =>
    simp only [hm, Res.ok.injEq] at h
    subst h
    simp only at hk
    by_cases hs : isSortable l = true
    · rw [if_pos hs] at hk
      cases hrm : rightmostBound none (boundsOnly l) with
      | none => rw [hrm] at hk; simp at hk
      | some s =>
        rw [hrm] at hk
        simp only [Option.getD_some] at hk
        subst hk
        -- some bound has the positive right side `k`, so no written index is non-positive
        have hall : AllPos (boundsOnly l) := by
          rcases rightmostBound_mem _ _ _ hrm with h0 | ⟨x, hx, hxr⟩
          · cases h0
          · simp only [isSortable, Bool.not_eq_true', Bool.and_eq_false_iff] at hs
            have hp : (boundsOnly l).any (fun b => b.l.isPos || b.r.isPos) = true := by
              rw [List.any_eq_true]
              exact ⟨x, hx, by simp [hxr, Side.isPos, hpos]⟩
            rcases hs with hs | hs
            · intro b hb
              have := List.any_eq_false.1 hs b hb
              simpa using this
            · rw [hp] at hs; cases hs
        have hr := rightmostBound_none_spec _ k hall hrm
        intro b hb
        obtain ⟨b0, h0, hl0, hr0, _⟩ := markLast_mem l l' hm b hb
        have hb0 : b0 ∈ boundsOnly l := (mem_boundsOnly l b0).2 h0
        refine ⟨?_, ?_⟩
        · have := (hall b0 hb0).1
          rw [← hl0]
          cases hbl : b0.l with
          | cont => left; rfl
          | some u =>
            right
            rw [hbl] at this
            simp only [Side.isNonPos, decide_eq_false_iff_not] at this
            exact ⟨u, rfl, by omega⟩
        · rw [← hr0]; exact hr b0 hb0
    · rw [if_neg hs] at hk
      simp at hk

/-- the early-stop field is the right side of one of the bounds, or open -/
theorem lastInteresting_mem (l : List BoF) (ubl : UserBoundsList) (h : fromVec l = .ok ubl) :
    ubl.lastInteresting = .cont ∨ ∃ b, BoF.bound b ∈ ubl.list ∧ b.r = ubl.lastInteresting := by
  unfold fromVec at h
  cases hm : markLast l with
  | none => simp [hm] at h
  | some l' =>
    simp only [hm, Res.ok.injEq] at h
    subst h
    simp only
    by_cases hs : isSortable l = true
    · rw [if_pos hs]
      cases hrm : rightmostBound none (boundsOnly l) with
      | none => left; rfl
      | some s =>
        right
        simp only [Option.getD_some]
        rcases rightmostBound_mem _ _ _ hrm with h0 | ⟨x, hx, hxr⟩
        · cases h0
        · -- transport the witness through `markLast`
          have hx' : BoF.bound x ∈ l := (mem_boundsOnly l x).1 hx
          obtain ⟨b, hb, _, hbr⟩ := markLast_mem_rev l l' hm x hx'
          exact ⟨b, hb, by rw [hbr, hxr]⟩
    · rw [if_neg hs]; left; rfl

end Tuc
