import Tuc.Model.Text
import Tuc.Spec.Record
/-!
# Tuc.Lemmas.Split — the splitter refinement (property C01)

The code computes byte *offsets* (`findIter`, `rangesBetween`, `fillWithFieldsLocations`), the
specification computes field *contents* (`Spec.splitFields`).  For every non-empty delimiter
(self-overlapping ones included) and every non-empty line:

* `fields_are_contents`   — slicing the line at the ranges gives the specification's fields;
* `fields_wellformed`     — the ranges tile the line: `Consecutive d.length line.length 0 ranges`;
* `slice_eq_interleave`   — the bytes from the start of field `a` to the end of field `b` are the
                            fields `a … b` with one `d` between neighbours;
* `fields_reconstruct`    — `joinWith d (splitFields d line) = line`.
-/

namespace Tuc
open Tuc.Spec

/-! ## slices -/

theorem slice_self {α : Type} (l : List α) (s : Nat) : slice l s s = [] := by
  simp [slice]

theorem slice_append_slice {α : Type} (l : List α) {s m e : Nat} (h1 : s ≤ m) (h2 : m ≤ e) :
    slice l s m ++ slice l m e = slice l s e := by
  unfold slice
  have h : e - s = (m - s) + (e - m) := by omega
  rw [h, List.take_add, List.drop_drop]
  have h' : s + (m - s) = m := by omega
  rw [h']

theorem slice_prefix_drop {α : Type} (pre l : List α) {s : Nat} (h : s ≤ pre.length) :
    slice (pre ++ l) s pre.length = pre.drop s := by
  unfold slice
  rw [List.drop_append_of_le_length h, List.take_left']
  simp

theorem slice_zero_length {α : Type} (l : List α) : slice l 0 l.length = l := by
  simp [slice]

theorem slice_of_prefix_drop {α : Type} (d l : List α) (i : Nat) (h : d <+: l.drop i) :
    slice l i (i + d.length) = d := by
  obtain ⟨t, ht⟩ := h
  unfold slice
  rw [← ht]
  have : i + d.length - i = d.length := by omega
  rw [this, List.take_left' rfl]

/-! ## joining -/

/-- `f₀ ++ d ++ f₁ ++ d ++ … ++ fₙ` -/
def joinWith (d : Bytes) : List Bytes → Bytes
  | [] => []
  | [f] => f
  | f :: g :: t => f ++ d ++ joinWith d (g :: t)

theorem joinWith_cons_cons (d f g : Bytes) (t : List Bytes) :
    joinWith d (f :: g :: t) = f ++ d ++ joinWith d (g :: t) := rfl

theorem joinWith_cons_of_ne_nil (d f : Bytes) (t : List Bytes) (h : t ≠ []) :
    joinWith d (f :: t) = f ++ d ++ joinWith d t := by
  cases t with
  | nil => exact absurd rfl h
  | cons g t => rfl

theorem joinWith_eq_intercalate (d : Bytes) (fs : List Bytes) :
    joinWith d fs = List.intercalate d fs := by
  induction fs with
  | nil => simp [joinWith, List.intercalate]
  | cons f t ih =>
    cases t with
    | nil => simp [joinWith, List.intercalate]
    | cons g t =>
      rw [joinWith_cons_cons, ih]
      simp [List.intercalate, List.intersperse, List.append_assoc]

/-! ## 1. the ranges' contents are the specification's fields -/

theorem isEmpty_eq_false_of_ne_nil {d : Bytes} (hd : d ≠ []) : d.isEmpty = false := by
  cases d with
  | nil => exact absurd rfl hd
  | cons _ _ => rfl

theorem length_pos_of_ne_nil {d : Bytes} (hd : d ≠ []) : 0 < d.length := by
  cases d with
  | nil => exact absurd rfl hd
  | cons _ _ => simp

/-- the scanning-state invariant: `line = pre ++ l`, the scanner stands at `pre.length`;
    outside a match (`skip = 0`) the open field started at `prev` and holds `pre.drop prev`,
    inside a match (`skip > 0`) the next field starts where the match ends, which is not
    beyond the end of the line. -/
theorem contents_aux (d : Bytes) (hd : d ≠ []) (line : Bytes) :
    ∀ (l pre : Bytes) (skip prev : Nat) (cur : Bytes), line = pre ++ l →
      (skip = 0 → prev ≤ pre.length ∧ cur = pre.drop prev) →
      (0 < skip → prev = pre.length + skip ∧ cur = [] ∧ skip ≤ l.length) →
      (rangesBetween d.length line.length prev (findIterAux d skip pre.length l)).map
        (fun r => slice line r.start r.stop) = splitAux d skip cur l := by
  intro l
  induction l with
  | nil =>
    intro pre skip prev cur hl h0 h1
    have hde := isEmpty_eq_false_of_ne_nil hd
    cases skip with
    | succ k => have := (h1 (by omega)).2.2; simp at this
    | zero =>
      obtain ⟨hp, hc⟩ := h0 rfl
      subst hl
      simp only [findIterAux, hde, rangesBetween, splitAux, List.map_cons, List.map_nil,
        List.append_nil, Bool.false_eq_true, if_false]
      rw [hc]
      have := slice_prefix_drop pre [] hp
      simpa using this
  | cons c t ih =>
    intro pre skip prev cur hl h0 h1
    have hl' : line = (pre ++ [c]) ++ t := by simp [hl]
    have hlen : (pre ++ [c]).length = pre.length + 1 := by simp
    cases skip with
    | succ k =>
      obtain ⟨hp, hc, hk⟩ := h1 (by omega)
      simp only [findIterAux, splitAux]
      rw [← hlen]
      apply ih (pre ++ [c]) k prev cur hl'
      · intro hk0
        subst hk0
        refine ⟨by rw [hlen]; omega, ?_⟩
        rw [hc, hp, List.drop_of_length_le (by rw [hlen]; omega)]
      · intro hk0
        refine ⟨by rw [hlen]; omega, hc, ?_⟩
        simp at hk; omega
    | zero =>
      obtain ⟨hp, hc⟩ := h0 rfl
      simp only [findIterAux, splitAux]
      by_cases hpre : d.isPrefixOf (c :: t) = true
      · rw [if_pos hpre, if_pos hpre]
        simp only [rangesBetween, List.map_cons]
        have hdl : d.length ≤ t.length + 1 := by
          have := (List.isPrefixOf_iff_prefix.mp hpre).length_le
          simpa using this
        have hdpos := length_pos_of_ne_nil hd
        congr 1
        · rw [hc, hl]; exact slice_prefix_drop pre (c :: t) hp
        · rw [← hlen]
          apply ih (pre ++ [c]) (d.length - 1) (pre.length + d.length) [] hl'
          · intro h1
            refine ⟨by rw [hlen]; omega, ?_⟩
            rw [List.drop_of_length_le (by rw [hlen]; omega)]
          · intro h1
            refine ⟨by rw [hlen]; omega, rfl, by omega⟩
      · rw [if_neg hpre, if_neg hpre]
        rw [← hlen]
        apply ih (pre ++ [c]) 0 prev (cur ++ [c]) hl'
        · intro _
          refine ⟨by rw [hlen]; omega, ?_⟩
          rw [hc, List.drop_append_of_le_length hp]
        · intro h; omega

/-- **C01, contents.** Slicing a non-empty line at the ranges the code computes gives exactly the
    fields of the specification. -/
theorem fields_are_contents (d line : Bytes) (hd : d ≠ []) (hline : line ≠ []) :
    (fillWithFieldsLocations [] line d).map (fun r => slice line r.start r.stop) =
      splitFields d line := by
  have hle : line.isEmpty = false := isEmpty_eq_false_of_ne_nil hline
  unfold fillWithFieldsLocations findIter splitFields
  rw [hle]
  simp only [Bool.false_eq_true, if_false]
  have := contents_aux d hd line line [] 0 0 [] (by simp) (by simp) (by omega)
  simpa using this

/-! ## 2. the ranges tile the line -/

/-- what `findIter` guarantees about its offsets: each is at or after `lo`, the delimiter is
    there, and the next one is searched after its end (leftmost, non-overlapping) -/
def MatchesOK (d line : Bytes) : Nat → List Nat → Prop
  | _, [] => True
  | lo, idx :: t => lo ≤ idx ∧ d <+: line.drop idx ∧ MatchesOK d line (idx + d.length) t

theorem MatchesOK.mono {d line : Bytes} {lo lo' : Nat} {ms : List Nat} (h : lo' ≤ lo)
    (hm : MatchesOK d line lo ms) : MatchesOK d line lo' ms := by
  cases ms with
  | nil => trivial
  | cons idx t => exact ⟨Nat.le_trans h hm.1, hm.2⟩

theorem findIterAux_ok (d : Bytes) (hd : d ≠ []) (line : Bytes) :
    ∀ (l pre : Bytes) (skip : Nat), line = pre ++ l → skip ≤ l.length →
      MatchesOK d line (pre.length + skip) (findIterAux d skip pre.length l) := by
  intro l
  induction l with
  | nil =>
    intro pre skip _ _
    simp [findIterAux, isEmpty_eq_false_of_ne_nil hd, MatchesOK]
  | cons c t ih =>
    intro pre skip hl hs
    have hl' : line = (pre ++ [c]) ++ t := by simp [hl]
    have hlen : (pre ++ [c]).length = pre.length + 1 := by simp
    cases skip with
    | succ k =>
      simp only [findIterAux]
      have := ih (pre ++ [c]) k hl' (by simp at hs; omega)
      rw [hlen] at this
      have e : pre.length + (k + 1) = pre.length + 1 + k := by omega
      rw [e]; exact this
    | zero =>
      simp only [findIterAux]
      by_cases hpre : d.isPrefixOf (c :: t) = true
      · rw [if_pos hpre]
        have hp := List.isPrefixOf_iff_prefix.mp hpre
        have hdl : d.length ≤ t.length + 1 := by simpa using hp.length_le
        have hdpos := length_pos_of_ne_nil hd
        refine ⟨by omega, ?_, ?_⟩
        · rw [hl, List.drop_left' rfl]; exact hp
        · have := ih (pre ++ [c]) (d.length - 1) hl' (by omega)
          rw [hlen] at this
          have e : pre.length + 1 + (d.length - 1) = pre.length + d.length := by omega
          rw [e] at this; exact this
      · rw [if_neg hpre]
        have := ih (pre ++ [c]) 0 hl' (by omega)
        rw [hlen] at this
        exact this.mono (by omega)

theorem findIter_ok (d line : Bytes) (hd : d ≠ []) : MatchesOK d line 0 (findIter d line) := by
  have := findIterAux_ok d hd line line [] 0 (by simp) (by omega)
  simpa [findIter] using this

/-- The ranges tile `line` from `s` on: the first starts at `s`, each is a valid range, between
    two neighbours there is exactly one occurrence of `d`, the last stops at the end. -/
def Tiling (d line : Bytes) : Nat → List Range → Prop
  | _, [] => False
  | s, [r] => r.start = s ∧ s ≤ r.stop ∧ r.stop = line.length
  | s, r :: r' :: t =>
    r.start = s ∧ s ≤ r.stop ∧ d <+: line.drop r.stop ∧ Tiling d line (r.stop + d.length) (r' :: t)

/-- The arithmetic part of `Tiling`, as the Rust slicing needs it:
    `start = r₀.start ≤ r₀.stop`, `rᵢ.stop + dlen = rᵢ₊₁.start ≤ rᵢ₊₁.stop`, last `stop = lineLen`. -/
def Consecutive (dlen lineLen : Nat) : Nat → List Range → Prop
  | _, [] => False
  | s, [r] => r.start = s ∧ s ≤ r.stop ∧ r.stop = lineLen
  | s, r :: r' :: t => r.start = s ∧ s ≤ r.stop ∧ Consecutive dlen lineLen (r.stop + dlen) (r' :: t)

theorem Tiling.consecutive {d line : Bytes} :
    ∀ {s : Nat} {rs : List Range}, Tiling d line s rs → Consecutive d.length line.length s rs
  | _, [], h => h
  | _, [_], h => h
  | _, _ :: r' :: t, h => ⟨h.1, h.2.1, Tiling.consecutive (rs := r' :: t) h.2.2.2⟩

theorem rangesBetween_ne_nil (dlen lineLen prev : Nat) (ms : List Nat) :
    rangesBetween dlen lineLen prev ms ≠ [] := by
  cases ms <;> simp [rangesBetween]

theorem rangesBetween_tiling (d line : Bytes) (hd : d ≠ []) :
    ∀ (ms : List Nat) (prev : Nat), MatchesOK d line prev ms → prev ≤ line.length →
      Tiling d line prev (rangesBetween d.length line.length prev ms) := by
  intro ms
  induction ms with
  | nil => intro prev _ hp; exact ⟨rfl, hp, rfl⟩
  | cons idx t ih =>
    intro prev hm hp
    obtain ⟨h1, h2, h3⟩ := hm
    have hle : idx + d.length ≤ line.length := by
      have := h2.length_le
      have := length_pos_of_ne_nil hd
      simp at *; omega
    have := ih (idx + d.length) h3 hle
    simp only [rangesBetween]
    cases hr : rangesBetween d.length line.length (idx + d.length) t with
    | nil => exact absurd hr (rangesBetween_ne_nil _ _ _ _)
    | cons r' t' =>
      rw [hr] at this
      exact ⟨rfl, h1, h2, this⟩

theorem fields_tiling (d line : Bytes) (hd : d ≠ []) (hline : line ≠ []) :
    Tiling d line 0 (fillWithFieldsLocations [] line d) := by
  unfold fillWithFieldsLocations
  rw [isEmpty_eq_false_of_ne_nil hline]
  simp only [Bool.false_eq_true, if_false]
  exact rangesBetween_tiling d line hd _ 0 (findIter_ok d line hd) (by omega)

/-- **C01, well-formedness.** The ranges of a non-empty line: the first starts at 0, every range
    has `start ≤ stop`, the next one starts `d.length` after the previous stop, the last stops at
    `line.length`. -/
theorem fields_wellformed (d line : Bytes) (hd : d ≠ []) (hline : line ≠ []) :
    Consecutive d.length line.length 0 (fillWithFieldsLocations [] line d) :=
  (fields_tiling d line hd hline).consecutive

/-! ### what `Consecutive` gives by index -/

theorem Consecutive.ne_nil {dlen n s : Nat} {rs : List Range} (h : Consecutive dlen n s rs) :
    rs ≠ [] := by
  cases rs with
  | nil => exact absurd h (by simp [Consecutive])
  | cons _ _ => simp

theorem Consecutive.length_pos {dlen n s : Nat} {rs : List Range} (h : Consecutive dlen n s rs) :
    0 < rs.length := List.length_pos_iff.mpr h.ne_nil

/-- every range is valid and inside the line -/
theorem Consecutive.getElem_bounds {dlen n : Nat} :
    ∀ {rs : List Range} {s : Nat}, Consecutive dlen n s rs → ∀ (i : Nat) (hi : i < rs.length),
      s ≤ rs[i].start ∧ rs[i].start ≤ rs[i].stop ∧ rs[i].stop ≤ n
  | [], _, h, _, _ => absurd h (by simp [Consecutive])
  | [r], _, h, i, hi => by
    have : i = 0 := by simp at hi; omega
    subst this
    obtain ⟨h1, h2, h3⟩ := h
    simp only [List.getElem_cons_zero]; omega
  | r :: r' :: t, s, h, i, hi => by
    obtain ⟨h1, h2, h3⟩ := h
    have ih := Consecutive.getElem_bounds h3
    cases i with
    | zero =>
      have := ih 0 (by simp)
      simp only [List.getElem_cons_zero] at this ⊢; omega
    | succ j =>
      have := ih j (by simpa using hi)
      simp only [List.getElem_cons_succ]; omega

theorem Consecutive.head_start {dlen n s : Nat} {rs : List Range} (h : Consecutive dlen n s rs) :
    (rs[0]'h.length_pos).start = s := by
  match rs, h with
  | [_], h => exact h.1
  | _ :: _ :: _, h => exact h.1

theorem Consecutive.last_stop {dlen n : Nat} :
    ∀ {rs : List Range} {s : Nat} (h : Consecutive dlen n s rs),
      (rs[rs.length - 1]'(by have := h.length_pos; omega)).stop = n
  | [_], _, h => h.2.2
  | _ :: r' :: t, _, h => by
    have := Consecutive.last_stop h.2.2
    simpa using this

/-- neighbours are exactly one delimiter apart -/
theorem Consecutive.succ_start {dlen n : Nat} :
    ∀ {rs : List Range} {s : Nat}, Consecutive dlen n s rs → ∀ (i : Nat) (hi : i + 1 < rs.length),
      rs[i].stop + dlen = rs[i + 1].start
  | [], _, h, _, _ => absurd h (by simp [Consecutive])
  | [_], _, _, _, hi => by simp at hi
  | r :: r' :: t, _, h, i, hi => by
    obtain ⟨_, _, h3⟩ := h
    cases i with
    | zero => simpa using (h3.head_start).symm
    | succ j =>
      have := Consecutive.succ_start h3 j (by simpa using hi)
      simpa using this

/-- ranges are ordered: this is `fields[s].start ≤ fields[e-1].end` of the Rust slicing -/
theorem Consecutive.start_le_stop {dlen n : Nat} :
    ∀ {rs : List Range} {s : Nat}, Consecutive dlen n s rs →
      ∀ (i j : Nat) (hij : i ≤ j) (hj : j < rs.length), rs[i].start ≤ rs[j].stop
  | [], _, h, _, _, _, _ => absurd h (by simp [Consecutive])
  | [r], _, h, i, j, hij, hj => by
    have : j = 0 := by simp at hj; omega
    subst this
    have : i = 0 := by omega
    subst this
    simp only [List.getElem_cons_zero]; have := h.1; have := h.2.1; omega
  | r :: r' :: t, s, h, i, j, hij, hj => by
    obtain ⟨h1, h2, h3⟩ := h
    cases j with
    | zero =>
      have : i = 0 := by omega
      subst this
      simp only [List.getElem_cons_zero]; omega
    | succ j' =>
      cases i with
      | zero =>
        have := (Consecutive.getElem_bounds h3 j' (by simpa using hj))
        simp only [List.getElem_cons_zero, List.getElem_cons_succ]; omega
      | succ i' =>
        have := Consecutive.start_le_stop h3 i' j' (by omega) (by simpa using hj)
        simpa using this

/-! ## 3. a slice over several fields keeps the inner delimiters -/

theorem Tiling.le_stop {d line : Bytes} {s : Nat} {rs : List Range} (h : Tiling d line s rs)
    (k : Nat) (hk : k < rs.length) : s ≤ rs[k].stop := by
  have := h.consecutive.getElem_bounds k hk
  omega

theorem Tiling.drop {d line : Bytes} :
    ∀ {rs : List Range} {s : Nat}, Tiling d line s rs → ∀ (a : Nat) (ha : a < rs.length),
      Tiling d line rs[a].start (rs.drop a)
  | [], _, h, _, _ => absurd h (by simp [Tiling])
  | [r], _, h, a, ha => by
    have : a = 0 := by simp at ha; omega
    subst this
    have h1 := h.1
    have h2 := h.2.1
    simp only [List.getElem_cons_zero, List.drop_zero]
    exact ⟨rfl, by omega, h.2.2⟩
  | r :: r' :: t, _, h, a, ha => by
    cases a with
    | zero =>
      obtain ⟨h1, h2, h3, h4⟩ := h
      exact ⟨rfl, by simp only [List.getElem_cons_zero]; omega, h3, h4⟩
    | succ a' =>
      have := Tiling.drop h.2.2.2 a' (by simpa using ha)
      simpa using this

/-- contents of the ranges -/
abbrev contents (line : Bytes) (rs : List Range) : List Bytes :=
  rs.map fun r => slice line r.start r.stop

theorem Tiling.slice_eq {d line : Bytes} :
    ∀ {rs : List Range} {s : Nat}, Tiling d line s rs → ∀ (k : Nat) (hk : k < rs.length),
      slice line s rs[k].stop = joinWith d ((contents line rs).take (k + 1))
  | [], _, h, _, _ => absurd h (by simp [Tiling])
  | [r], _, h, k, hk => by
    have : k = 0 := by simp at hk; omega
    subst this
    simp [contents, joinWith, h.1]
  | r :: r' :: t, s, h, k, hk => by
    obtain ⟨h1, h2, h3, h4⟩ := h
    cases k with
    | zero => simp [contents, joinWith, h1]
    | succ k' =>
      have hk' : k' < (r' :: t).length := by simpa using hk
      have ih := Tiling.slice_eq h4 k' hk'
      have hle := h4.le_stop k' hk'
      have hget : (r :: r' :: t)[k' + 1] = (r' :: t)[k'] := by simp
      rw [hget]
      have htake : (contents line (r :: r' :: t)).take (k' + 1 + 1) =
          slice line r.start r.stop :: (contents line (r' :: t)).take (k' + 1) := by
        simp [contents]
      have hne : (contents line (r' :: t)).take (k' + 1) ≠ [] := by simp [contents]
      have hsd := slice_of_prefix_drop d line r.stop h3
      rw [htake, joinWith_cons_of_ne_nil _ _ _ hne, ← ih, h1, List.append_assoc,
        ← slice_append_slice line h2 (show r.stop ≤ (r' :: t)[k'].stop by omega),
        ← slice_append_slice line (Nat.le_add_right r.stop d.length) hle, hsd]

theorem Tiling.slice_extract {d line : Bytes} {s : Nat} {rs : List Range} (ht : Tiling d line s rs)
    (a b : Nat) (hab : a ≤ b) (hb : b < rs.length) :
    slice line (rs[a]'(by omega)).start rs[b].stop =
      joinWith d ((contents line rs).extract a (b + 1)) := by
  have ha : a < rs.length := by omega
  have hdrop := ht.drop a ha
  have hk : b - a < (rs.drop a).length := by simp; omega
  have := hdrop.slice_eq (b - a) hk
  have hget : (rs.drop a)[b - a] = rs[b] := by
    rw [List.getElem_drop]; congr 1; omega
  rw [hget] at this
  rw [this, List.extract_eq_take_drop]
  simp only [contents, List.map_drop]
  congr 2
  omega

/-- **C01, interleaving.** For fields `a ≤ b` of a non-empty line, the bytes from the start of
    field `a` to the end of field `b` are the fields `a … b` of the specification with exactly
    one `d` between neighbours. -/
theorem slice_eq_interleave (d line : Bytes) (hd : d ≠ []) (hline : line ≠ []) (a b : Nat)
    (hab : a ≤ b) (hb : b < (fillWithFieldsLocations [] line d).length) :
    slice line ((fillWithFieldsLocations [] line d)[a]'(by omega)).start
        ((fillWithFieldsLocations [] line d)[b]).stop =
      joinWith d ((splitFields d line).extract a (b + 1)) := by
  rw [← fields_are_contents d line hd hline]
  exact (fields_tiling d line hd hline).slice_extract a b hab hb

/-- the number of ranges is the number of fields of the specification -/
theorem fields_length (d line : Bytes) (hd : d ≠ []) (hline : line ≠ []) :
    (fillWithFieldsLocations [] line d).length = (splitFields d line).length := by
  rw [← fields_are_contents d line hd hline]; simp

/-- **C01, reconstruction.** Joining the fields with the delimiter gives the line back. -/
theorem fields_reconstruct (d line : Bytes) (hd : d ≠ []) :
    joinWith d (splitFields d line) = line := by
  by_cases hline : line = []
  · subst hline; simp [splitFields, splitAux, joinWith]
  · have hw := fields_wellformed d line hd hline
    have hn := hw.length_pos
    have h := slice_eq_interleave d line hd hline 0 ((fillWithFieldsLocations [] line d).length - 1)
      (by omega) (by omega)
    rw [hw.head_start, hw.last_stop, slice_zero_length] at h
    have e : (fillWithFieldsLocations [] line d).length - 1 + 1 - 0 = (splitFields d line).length := by
      rw [← fields_length d line hd hline]; omega
    rw [List.extract_eq_take_drop, e] at h
    simpa using h.symm

/-- between two neighbouring ranges there is exactly the delimiter -/
theorem Tiling.sep_eq {d line : Bytes} :
    ∀ {rs : List Range} {s : Nat}, Tiling d line s rs → ∀ (i : Nat) (hi : i + 1 < rs.length),
      slice line rs[i].stop rs[i + 1].start = d
  | [], _, h, _, _ => absurd h (by simp [Tiling])
  | [_], _, _, _, hi => by simp at hi
  | r :: r' :: t, _, h, i, hi => by
    obtain ⟨_, _, h3, h4⟩ := h
    cases i with
    | zero =>
      have := h4.consecutive.head_start
      simp only [List.getElem_cons_zero, List.getElem_cons_succ] at this ⊢
      rw [this]; exact slice_of_prefix_drop d line r.stop h3
    | succ j =>
      have := Tiling.sep_eq h4 j (by simpa using hi)
      simpa using this

theorem fields_separated (d line : Bytes) (hd : d ≠ []) (hline : line ≠ []) (i : Nat)
    (hi : i + 1 < (fillWithFieldsLocations [] line d).length) :
    slice line (fillWithFieldsLocations [] line d)[i].stop
      (fillWithFieldsLocations [] line d)[i + 1].start = d :=
  (fields_tiling d line hd hline).sep_eq i hi

/-! ## 4. the greedy splitter (`-g`) -/

theorem slice_length {α : Type} (l : List α) (s e : Nat) :
    (slice l s e).length = min (e - s) (l.length - s) := by
  simp [slice]

theorem slice_isEmpty_iff {α : Type} (l : List α) {s e : Nat} (h1 : s ≤ e) (h2 : e ≤ l.length) :
    (slice l s e).isEmpty = true ↔ e = s := by
  rw [List.isEmpty_iff, ← List.length_eq_zero_iff, slice_length]
  omega

theorem repeatBytes_succ' (d : Bytes) (k : Nat) : repeatBytes d k ++ d = repeatBytes d (k + 1) := by
  induction k with
  | zero => simp [repeatBytes]
  | succ k ih =>
    show d ++ repeatBytes d k ++ d = d ++ repeatBytes d (k + 1)
    rw [List.append_assoc, ih]

theorem repeatBytes_one (d : Bytes) : repeatBytes d 1 = d := by simp [repeatBytes]

/-- what the greedy loop does to the plain ranges: an empty range that is neither the first nor
    the last is dropped -/
def mergeRanges : Bool → List Range → List Range
  | _, [] => []
  | _, [r] => [r]
  | am, r :: r' :: t =>
    if am = true ∧ r.stop = r.start then mergeRanges true (r' :: t) else r :: mergeRanges true (r' :: t)

theorem rangesBetweenGreedy_eq_merge (dlen lineLen : Nat) :
    ∀ (ms : List Nat) (am : Bool) (prev : Nat),
      rangesBetweenGreedy dlen lineLen am prev ms = mergeRanges am (rangesBetween dlen lineLen prev ms) := by
  intro ms
  induction ms with
  | nil => intro am prev; simp [rangesBetweenGreedy, rangesBetween, mergeRanges]
  | cons idx t ih =>
    intro am prev
    simp only [rangesBetweenGreedy, rangesBetween]
    cases hr : rangesBetween dlen lineLen (idx + dlen) t with
    | nil => exact absurd hr (rangesBetween_ne_nil _ _ _ _)
    | cons r' t' =>
      simp only [mergeRanges, ih, hr]

/-- After a range that stopped at `e`, the line consists, for each `(k, f)` of `ms`, of `k`
    copies of the delimiter followed by `f`, and `gs` are the positions of those `f`s.  The
    last one stops at the end of the line. -/
def GSep (d line : Bytes) : Nat → List Range → List (Nat × Bytes) → Prop
  | e, [], [] => e = line.length
  | e, r :: t, (k, f) :: ms =>
    r.start = e + k * d.length ∧ slice line e r.start = repeatBytes d k ∧ r.start ≤ r.stop ∧
      slice line r.start r.stop = f ∧ GSep d line r.stop t ms
  | _, _ :: _, [] => False
  | _, [], _ :: _ => False

/-- the scanning-state lemma of the greedy loop against `greedyMerge`: `k` occurrences have been
    seen since the last range stopped at `e` -/
theorem merge_gsep {d line : Bytes} :
    ∀ {ps : List Range} {s : Nat}, Tiling d line s ps → ∀ (k e : Nat), e + k * d.length = s →
      slice line e s = repeatBytes d k →
      GSep d line e (mergeRanges true ps) (greedyMerge k (contents line ps))
  | [], _, h, _, _, _, _ => absurd h (by simp [Tiling])
  | [r], _, h, k, e, hs, hrep => by
    obtain ⟨h1, h2, h3⟩ := h
    simp only [mergeRanges, contents, List.map_cons, List.map_nil, greedyMerge, GSep]
    subst h1
    exact ⟨hs.symm, hrep, h2, trivial, h3⟩
  | r :: r' :: t, s, h, k, e, hs, hrep => by
    have hb := h.consecutive.getElem_bounds 0 (by simp)
    obtain ⟨h1, h2, h3, h4⟩ := h
    simp only [List.getElem_cons_zero] at hb
    have hsd := slice_of_prefix_drop d line r.stop h3
    have hiff := slice_isEmpty_iff line hb.2.1 hb.2.2
    simp only [mergeRanges, contents, List.map_cons, greedyMerge, true_and]
    by_cases hemp : r.stop = r.start
    · rw [if_pos hemp, if_pos (hiff.mpr hemp)]
      have := merge_gsep h4 (k + 1) e (by rw [Nat.add_mul]; omega) (by
        rw [← slice_append_slice line (show e ≤ s by omega) (show s ≤ r.stop + d.length by omega),
          hrep, ← repeatBytes_succ']
        congr 1
        have : s = r.stop := by omega
        rw [this]; exact hsd)
      simpa [contents] using this
    · rw [if_neg hemp, if_neg (by rw [hiff]; exact hemp)]
      have := merge_gsep h4 1 r.stop (by omega) (by rw [hsd, repeatBytes_one])
      subst h1
      exact ⟨hs.symm, hrep, h2, rfl, by simpa [contents] using this⟩

/-- the greedy ranges against the greedy tokenisation: the first field counts as preceded by no
    occurrence -/
def GreedyTiling (d line : Bytes) (gs : List Range) (tok : Tok) : Prop :=
  GSep d line 0 gs ((0, tok.first) :: tok.rest)

theorem fillGreedy_eq_merge (d line : Bytes) (hd : d ≠ []) :
    fillWithFieldsLocationsGreedy [] line d = mergeRanges false (fillWithFieldsLocations [] line d) := by
  unfold fillWithFieldsLocationsGreedy fillWithFieldsLocations
  rw [isEmpty_eq_false_of_ne_nil hd]
  simp only [Bool.false_eq_true, if_false]
  cases line with
  | nil => simp [mergeRanges]
  | cons c t => simp [rangesBetweenGreedy_eq_merge]

/-- **C01, greedy.**  For a non-empty line the ranges of `-g` are the fields of the greedy
    tokenisation, and the text between two neighbours is the delimiter repeated as many times as
    the tokenisation merged. -/
theorem greedy_fields_tiling (d line : Bytes) (hd : d ≠ []) (hline : line ≠ []) :
    GreedyTiling d line (fillWithFieldsLocationsGreedy [] line d) (tokenize d true false line) := by
  have ht := fields_tiling d line hd hline
  have hc := fields_are_contents d line hd hline
  rw [fillGreedy_eq_merge d line hd]
  unfold GreedyTiling tokenize
  rw [← hc]
  generalize fillWithFieldsLocations [] line d = ps at ht
  match ps, ht with
  | [r], h =>
    obtain ⟨h1, h2, h3⟩ := h
    simp [mergeRanges, greedyMerge, GSep, h1, h3, repeatBytes, slice_self]
  | r :: r' :: t, h =>
    obtain ⟨h1, h2, h3, h4⟩ := h
    have hsd := slice_of_prefix_drop d line r.stop h3
    have := merge_gsep h4 1 r.stop (by omega) (by rw [hsd, repeatBytes_one])
    simp only [mergeRanges, Bool.false_eq_true, false_and, if_false, List.map_cons, GSep]
    refine ⟨by simp [h1], by simp [h1, slice_self, repeatBytes], by omega, rfl, ?_⟩
    simpa [contents] using this

/-! ### what `GSep` gives -/

theorem GSep.contents_eq {d line : Bytes} :
    ∀ {gs : List Range} {ms : List (Nat × Bytes)} {e : Nat}, GSep d line e gs ms →
      contents line gs = ms.map (·.2)
  | [], [], _, _ => rfl
  | r :: t, (k, f) :: ms, _, h => by
    obtain ⟨_, _, _, h4, h5⟩ := h
    have := GSep.contents_eq h5
    simp only [contents, List.map_cons] at this ⊢
    rw [h4, this]
  | _ :: _, [], _, h => absurd h (by simp [GSep])
  | [], _ :: _, _, h => absurd h (by simp [GSep])

theorem GSep.length_eq {d line : Bytes} {gs : List Range} {ms : List (Nat × Bytes)} {e : Nat}
    (h : GSep d line e gs ms) : gs.length = ms.length := by
  have := congrArg List.length h.contents_eq
  simpa using this

theorem GSep.le_stop {d line : Bytes} :
    ∀ {gs : List Range} {ms : List (Nat × Bytes)} {e : Nat}, GSep d line e gs ms →
      ∀ (j : Nat) (hj : j < gs.length), e ≤ gs[j].stop
  | [], _, _, _, _, hj => by simp at hj
  | _ :: _, [], _, h, _, _ => absurd h (by simp [GSep])
  | r :: t, (k, f) :: ms, e, h, j, hj => by
    obtain ⟨h1, _, h3, _, h5⟩ := h
    cases j with
    | zero => simp only [List.getElem_cons_zero]; omega
    | succ j' =>
      have := GSep.le_stop h5 j' (by simpa using hj)
      simp only [List.getElem_cons_succ]; omega

/-- the separator-and-field text of `pieceText` -/
abbrev sepField (d : Bytes) : Nat × Bytes → Bytes := fun (k, g) => repeatBytes d k ++ g

theorem GSep.slice_eq {d line : Bytes} :
    ∀ {gs : List Range} {ms : List (Nat × Bytes)} {e : Nat}, GSep d line e gs ms →
      ∀ (j : Nat) (hj : j < gs.length),
        slice line e gs[j].stop = (ms.take (j + 1)).flatMap (sepField d)
  | [], _, _, _, _, hj => by simp at hj
  | _ :: _, [], _, h, _, _ => absurd h (by simp [GSep])
  | r :: t, (k, f) :: ms, e, h, j, hj => by
    obtain ⟨h1, h2, h3, h4, h5⟩ := h
    have hfirst : slice line e r.stop = repeatBytes d k ++ f := by
      rw [← slice_append_slice line (show e ≤ r.start by omega) h3, h2, h4]
    cases j with
    | zero => simpa [sepField] using hfirst
    | succ j' =>
      have hj' : j' < t.length := by simpa using hj
      have ih := GSep.slice_eq h5 j' hj'
      have hle := h5.le_stop j' hj'
      simp only [List.getElem_cons_succ, List.take_succ_cons, List.flatMap_cons]
      rw [← ih, ← slice_append_slice line (show e ≤ r.stop by omega) hle, hfirst]

theorem GSep.drop {d line : Bytes} :
    ∀ {gs : List Range} {ms : List (Nat × Bytes)} {e : Nat}, GSep d line e gs ms →
      ∀ (a : Nat) (ha : a < gs.length),
        GSep d line gs[a].stop (gs.drop (a + 1)) (ms.drop (a + 1)) ∧ gs[a].start ≤ gs[a].stop ∧
          ∃ k, ms[a]? = some (k, slice line gs[a].start gs[a].stop)
  | [], _, _, _, _, ha => by simp at ha
  | _ :: _, [], _, h, _, _ => absurd h (by simp [GSep])
  | r :: t, (k, f) :: ms, e, h, a, ha => by
    obtain ⟨h1, h2, h3, h4, h5⟩ := h
    cases a with
    | zero => exact ⟨by simpa using h5, by simpa using h3, k, by simp [h4]⟩
    | succ a' =>
      have := GSep.drop h5 a' (by simpa using ha)
      simpa using this

theorem GSep.sep_eq {d line : Bytes} :
    ∀ {gs : List Range} {ms : List (Nat × Bytes)} {e : Nat}, GSep d line e gs ms →
      ∀ (i : Nat) (hi : i + 1 < gs.length) (hi' : i + 1 < ms.length),
        slice line gs[i].stop gs[i + 1].start = repeatBytes d ms[i + 1].1
  | [], _, _, _, _, hi, _ => by simp at hi
  | _ :: _, [], _, h, _, _, _ => absurd h (by simp [GSep])
  | [_], _ :: _, _, _, _, hi, _ => by simp at hi
  | r :: r' :: t, (k, f) :: ms, e, h, i, hi, hi' => by
    obtain ⟨_, _, _, _, h5⟩ := h
    cases i with
    | zero =>
      match ms, h5 with
      | (k', f') :: ms', h5 => simpa using h5.2.1
    | succ i' =>
      have := GSep.sep_eq h5 i' (by simpa using hi) (by simpa using hi')
      simpa using this

theorem GSep.stop_le {d line : Bytes} :
    ∀ {gs : List Range} {ms : List (Nat × Bytes)} {e : Nat}, GSep d line e gs ms →
      e ≤ line.length ∧ ∀ (j : Nat) (hj : j < gs.length), gs[j].stop ≤ line.length
  | [], [], _, h => ⟨Nat.le_of_eq h, fun _ hj => by simp at hj⟩
  | _ :: _, [], _, h => absurd h (by simp [GSep])
  | [], _ :: _, _, h => absurd h (by simp [GSep])
  | r :: t, (k, f) :: ms, e, h => by
    obtain ⟨h1, _, h3, _, h5⟩ := h
    obtain ⟨ih1, ih2⟩ := GSep.stop_le h5
    refine ⟨by omega, fun j hj => ?_⟩
    cases j with
    | zero => simpa using ih1
    | succ j' => simpa using ih2 j' (by simpa using hj)

/-- greedy ranges are ordered and inside the line: the Rust slicing cannot panic -/
theorem GSep.start_le_stop {d line : Bytes} {gs : List Range} {ms : List (Nat × Bytes)} {e : Nat}
    (h : GSep d line e gs ms) (a b : Nat) (hab : a ≤ b) (hb : b < gs.length) :
    (gs[a]'(by omega)).start ≤ gs[b].stop ∧ gs[b].stop ≤ line.length := by
  refine ⟨?_, h.stop_le.2 b hb⟩
  obtain ⟨hdrop, hle, _⟩ := h.drop a (by omega)
  by_cases hba : b = a
  · subst hba; exact hle
  · have hj : b - a - 1 < (gs.drop (a + 1)).length := by simp; omega
    have := hdrop.le_stop (b - a - 1) hj
    have hget : (gs.drop (a + 1))[b - a - 1] = gs[b] := by
      rw [List.getElem_drop]; congr 1; omega
    rw [hget] at this
    omega

/-- **C01, greedy contents.** -/
theorem greedy_fields_are_contents (d line : Bytes) (hd : d ≠ []) (hline : line ≠ []) :
    (fillWithFieldsLocationsGreedy [] line d).map (fun r => slice line r.start r.stop) =
      (tokenize d true false line).first :: (tokenize d true false line).rest.map (·.2) := by
  have := (greedy_fields_tiling d line hd hline).contents_eq
  simpa [contents] using this

theorem greedy_fields_length (d line : Bytes) (hd : d ≠ []) (hline : line ≠ []) :
    (fillWithFieldsLocationsGreedy [] line d).length = (tokenize d true false line).numFields := by
  have := (greedy_fields_tiling d line hd hline).length_eq
  simpa [Tok.numFields] using this

/-- **C01, greedy separators.**  Between the greedy fields `i` and `i+1` the line holds the
    delimiter repeated as many times as the tokenisation counted. -/
theorem greedy_separated (d line : Bytes) (hd : d ≠ []) (hline : line ≠ []) (i : Nat)
    (hi : i + 1 < (fillWithFieldsLocationsGreedy [] line d).length) :
    ∃ h : i < (tokenize d true false line).rest.length,
      slice line (fillWithFieldsLocationsGreedy [] line d)[i].stop
        (fillWithFieldsLocationsGreedy [] line d)[i + 1].start =
          repeatBytes d ((tokenize d true false line).rest[i]).1 := by
  have ht := greedy_fields_tiling d line hd hline
  have hl := ht.length_eq
  have h' : i < (tokenize d true false line).rest.length := by simp at hl; omega
  refine ⟨h', ?_⟩
  have := ht.sep_eq i hi (by simpa using h')
  simpa using this

theorem GSep.slice_pieceText {d line : Bytes} {gs : List Range} {tok : Tok}
    (ht : GSep d line 0 gs ((0, tok.first) :: tok.rest)) (a b : Nat)
    (hab : a ≤ b) (hb : b < gs.length) :
    slice line (gs[a]'(by omega)).start gs[b].stop =
      pieceText (repeatBytes d) tok (a + 1) (b + 1) := by
  have ha : a < gs.length := by omega
  have hl := ht.length_eq
  obtain ⟨hdrop, hle, k, hk⟩ := ht.drop a ha
  have ha' : a < ((0, tok.first) :: tok.rest).length := by omega
  have hall : ((0, tok.first) :: tok.rest).drop a =
      (k, slice line gs[a].start gs[a].stop) :: ((0, tok.first) :: tok.rest).drop (a + 1) := by
    rw [List.drop_eq_getElem_cons ha']
    congr 1
    have := List.getElem?_eq_getElem ha'
    rw [hk] at this
    exact (Option.some.inj this).symm
  have e1 : a + 1 - 1 = a := by omega
  have e2 : b + 1 - (a + 1) + 1 = (b - a) + 1 := by omega
  unfold pieceText
  simp only [e1, e2, hall, List.take_succ_cons]
  by_cases hba : b = a
  · subst hba
    simp
  · have hj : b - a - 1 < (gs.drop (a + 1)).length := by simp; omega
    have hs := hdrop.slice_eq (b - a - 1) hj
    have hst := hdrop.le_stop (b - a - 1) hj
    have hget : (gs.drop (a + 1))[b - a - 1] = gs[b] := by
      rw [List.getElem_drop]; congr 1; omega
    rw [hget] at hs hst
    have e3 : b - a - 1 + 1 = b - a := by omega
    rw [e3] at hs
    rw [← slice_append_slice line hle hst, hs]

/-- **C01, greedy interleaving.**  The bytes from the start of greedy field `a` to the end of
    greedy field `b` are the specification's `pieceText` of the parts `a+1 … b+1` (1-based), the
    separators being the delimiter runs actually found. -/
theorem greedy_slice_eq_pieceText (d line : Bytes) (hd : d ≠ []) (hline : line ≠ []) (a b : Nat)
    (hab : a ≤ b) (hb : b < (fillWithFieldsLocationsGreedy [] line d).length) :
    slice line ((fillWithFieldsLocationsGreedy [] line d)[a]'(by omega)).start
        ((fillWithFieldsLocationsGreedy [] line d)[b]).stop =
      pieceText (repeatBytes d) (tokenize d true false line) (a + 1) (b + 1) :=
  (greedy_fields_tiling d line hd hline).slice_pieceText a b hab hb

/-! ### the plain splitter in the vocabulary of the specification (`tokenize`, `pieceText`) -/

theorem joinWith_cons_flatMap (d f : Bytes) (t : List Bytes) :
    joinWith d (f :: t) = f ++ t.flatMap (fun g => d ++ g) := by
  induction t generalizing f with
  | nil => simp [joinWith]
  | cons g t ih => rw [joinWith_cons_cons, ih g]; simp [List.append_assoc]

theorem pieceText_sel_plain (d : Bytes) (k0 : Nat) (x : Bytes) (xs : List Bytes) (n : Nat) :
    (match ((k0, x) :: xs.map (fun f => (1, f))).take (n + 1) with
      | [] => []
      | (_, f) :: more => f ++ more.flatMap fun (k, g) => repeatBytes d k ++ g) =
      joinWith d ((x :: xs).take (n + 1)) := by
  simp only [List.take_succ_cons, joinWith_cons_flatMap, ← List.map_take, List.flatMap_map,
    repeatBytes_one]

/-- the specification's piece of a plain tokenisation is the fields joined by the delimiter -/
theorem pieceText_plain (d f0 : Bytes) (rest : List Bytes) (lo hi : Nat) (h1 : 1 ≤ lo)
    (h2 : lo ≤ hi) :
    pieceText (repeatBytes d) ⟨f0, rest.map fun f => (1, f)⟩ lo hi =
      joinWith d ((f0 :: rest).extract (lo - 1) hi) := by
  obtain ⟨a, rfl⟩ : ∃ a, lo = a + 1 := ⟨lo - 1, by omega⟩
  obtain ⟨n, rfl⟩ : ∃ n, hi = a + 1 + n := ⟨hi - (a + 1), by omega⟩
  have e1 : a + 1 - 1 = a := by omega
  have e2 : a + 1 + n - (a + 1) + 1 = n + 1 := by omega
  have e3 : a + 1 + n - a = n + 1 := by omega
  unfold pieceText
  simp only [e1, e2, List.extract_eq_take_drop, e3]
  cases a with
  | zero => exact pieceText_sel_plain d 0 f0 rest n
  | succ a' =>
    simp only [List.drop_succ_cons, ← List.map_drop]
    cases hdr : rest.drop a' with
    | nil => simp [joinWith]
    | cons x xs => exact pieceText_sel_plain d 1 x xs n

theorem tokenize_plain (d line : Bytes) :
    tokenize d false false line =
      ⟨(splitFields d line).headD [], (splitFields d line).tail.map fun f => (1, f)⟩ := by
  unfold tokenize
  cases splitFields d line <;> simp

theorem splitAux_ne_nil (d : Bytes) : ∀ (l : Bytes) (skip : Nat) (cur : Bytes), splitAux d skip cur l ≠ []
  | [], _, _ => by simp [splitAux]
  | _ :: t, skip + 1, cur => by simp only [splitAux]; exact splitAux_ne_nil d t skip cur
  | c :: t, 0, cur => by
    simp only [splitAux]
    split
    · simp
    · exact splitAux_ne_nil d t 0 _

theorem splitFields_ne_nil (d line : Bytes) : splitFields d line ≠ [] := splitAux_ne_nil d line 0 []

/-- **C01, interleaving, in the specification's words.** -/
theorem slice_eq_pieceText (d line : Bytes) (hd : d ≠ []) (hline : line ≠ []) (a b : Nat)
    (hab : a ≤ b) (hb : b < (fillWithFieldsLocations [] line d).length) :
    slice line ((fillWithFieldsLocations [] line d)[a]'(by omega)).start
        ((fillWithFieldsLocations [] line d)[b]).stop =
      pieceText (repeatBytes d) (tokenize d false false line) (a + 1) (b + 1) := by
  rw [slice_eq_interleave d line hd hline a b hab hb, tokenize_plain,
    pieceText_plain d _ _ (a + 1) (b + 1) (by omega) (by omega)]
  have hne := splitFields_ne_nil d line
  cases h : splitFields d line with
  | nil => exact absurd h hne
  | cons f0 rest => simp

/-! ## 5. `-p`: compressing runs of delimiters -/

theorem compressFields_ne_nil : ∀ (fs : List Bytes), fs ≠ [] → compressFields fs ≠ []
  | [], h => absurd rfl h
  | [f], _ => by simp [compressFields]
  | f :: g :: t, _ => by
    simp only [compressFields]
    split
    · exact compressFields_ne_nil (g :: t) (by simp)
    · simp

theorem slice_to_end {α : Type} (l : List α) (s : Nat) : slice l s l.length = l.drop s := by
  unfold slice
  exact List.take_of_length_le (by simp)

/-- the loop of `compress_delimiter` after the first match (`0 < prev`) -/
theorem compressAux_eq (d line : Bytes) (hd : d ≠ []) :
    ∀ (ms : List Nat) (prev : Nat), MatchesOK d line prev ms → prev ≤ line.length → 0 < prev →
      compressAux line d prev ms =
        joinWith d (compressFields (contents line (rangesBetween d.length line.length prev ms))) := by
  intro ms
  induction ms with
  | nil =>
    intro prev _ hp _
    simp only [compressAux, rangesBetween, contents, List.map_cons, List.map_nil, compressFields,
      joinWith, slice_to_end]
    by_cases h : prev < line.length
    · rw [if_pos h]
    · rw [if_neg h, List.drop_of_length_le (by omega)]
  | cons idx t ih =>
    intro prev hm hp hpos
    obtain ⟨h1, h2, h3⟩ := hm
    have hdpos := length_pos_of_ne_nil hd
    have hle : idx + d.length ≤ line.length := by
      have := h2.length_le
      simp at this; omega
    have hidx : idx ≠ 0 := by omega
    have ih' := ih (idx + d.length) h3 hle (by omega)
    simp only [compressAux, rangesBetween, contents, List.map_cons]
    rw [if_neg hidx, ih']
    cases hr : rangesBetween d.length line.length (idx + d.length) t with
    | nil => exact absurd hr (rangesBetween_ne_nil _ _ _ _)
    | cons r' t' =>
      simp only [contents, List.map_cons, compressFields]
      cases hemp : (slice line prev idx).isEmpty with
      | true => simp
      | false =>
        simp only [Bool.not_false, if_true, Bool.false_eq_true, if_false]
        rw [joinWith_cons_of_ne_nil]
        · have := compressFields_ne_nil
            (slice line r'.start r'.stop :: t'.map fun r => slice line r.start r.stop) (by simp)
          exact this

/-- **C01, `-p`.**  `compress_delimiter` rewrites the line to: the first field, then the
    non-empty inner fields and the last field, one delimiter between neighbours. -/
theorem compress_is_spec (d line : Bytes) (hd : d ≠ []) (f0 : Bytes) (rest : List Bytes)
    (hs : splitFields d line = f0 :: rest) :
    compressDelimiter line d [] = joinWith d (f0 :: compressFields rest) := by
  by_cases hline : line = []
  · subst hline
    simp only [splitFields, splitAux, List.cons.injEq] at hs
    obtain ⟨rfl, rfl⟩ := hs
    simp [compressDelimiter, findIter, findIterAux, isEmpty_eq_false_of_ne_nil hd, compressAux,
      compressFields, joinWith]
  · have hc := fields_are_contents d line hd hline
    have hm := findIter_ok d line hd
    have hdpos := length_pos_of_ne_nil hd
    have hlpos := length_pos_of_ne_nil hline
    unfold fillWithFieldsLocations at hc
    rw [isEmpty_eq_false_of_ne_nil hline] at hc
    simp only [Bool.false_eq_true, if_false] at hc
    unfold compressDelimiter
    cases hf : findIter d line with
    | nil =>
      rw [hf] at hc
      simp only [rangesBetween, List.map_cons, List.map_nil, slice_zero_length] at hc
      rw [hs] at hc
      simp only [List.cons.injEq] at hc
      obtain ⟨rfl, rfl⟩ := hc
      simp [compressAux, compressFields, joinWith, hlpos]
    | cons idx t =>
      rw [hf] at hc hm
      obtain ⟨_, h2, h3⟩ := hm
      have hle : idx + d.length ≤ line.length := by
        have := h2.length_le
        simp at this; omega
      simp only [rangesBetween, List.map_cons] at hc
      rw [hs] at hc
      simp only [List.cons.injEq] at hc
      obtain ⟨hf0, hrest⟩ := hc
      have hrest' : rest = contents line (rangesBetween d.length line.length (idx + d.length) t) :=
        hrest.symm
      have hne : compressFields rest ≠ [] := by
        apply compressFields_ne_nil
        rw [hrest']
        simpa [contents] using rangesBetween_ne_nil _ _ _ t
      simp only [compressAux]
      rw [compressAux_eq d line hd t (idx + d.length) h3 hle (by omega), ← hrest',
        joinWith_cons_of_ne_nil _ _ _ hne, ← hf0]
      by_cases hidx : idx = 0
      · subst hidx; simp [slice_self]
      · rw [if_neg hidx]
        have : (slice line 0 idx).isEmpty = false := by
          rw [← Bool.not_eq_true, slice_isEmpty_iff line (by omega) (by omega)]
          exact hidx
        simp [this]

/-! ## 6. the scanner is context-free at field boundaries

Re-scanning text made of fields and delimiters finds exactly those delimiters: this is what makes
`-r` (the printed slice is scanned again by `replace`) and `-p` (the compressed record is split
again) agree with the specification. -/

theorem not_isPrefixOf_iff {d l : Bytes} : ¬ d.isPrefixOf l = true ↔ ¬ d <+: l := by
  rw [List.isPrefixOf_iff_prefix]

theorem splitAux_cur (d : Bytes) :
    ∀ (l cur : Bytes), splitAux d 0 cur l = (splitAux d 0 [] l).modifyHead (cur ++ ·) := by
  intro l
  induction l with
  | nil => intro cur; simp [splitAux]
  | cons c t ih =>
    intro cur
    simp only [splitAux]
    by_cases hp : d.isPrefixOf (c :: t) = true
    · rw [if_pos hp, if_pos hp]; simp
    · rw [if_neg hp, if_neg hp, ih (cur ++ [c]), ih ([] ++ [c]), List.modifyHead_modifyHead]
      congr 1
      funext x
      simp

theorem splitAux_skip (d : Bytes) :
    ∀ (l : Bytes) (k : Nat), k ≤ l.length → splitAux d k [] l = splitAux d 0 [] (l.drop k) := by
  intro l
  induction l with
  | nil => intro k hk; simp at hk; subst hk; rfl
  | cons c t ih =>
    intro k hk
    cases k with
    | zero => rfl
    | succ k' =>
      simp only [splitAux, List.drop_succ_cons]
      exact ih k' (by simp at hk; omega)

/-- the scanner at an occurrence: an empty field, then what follows the occurrence -/
theorem splitFields_of_prefix (d l : Bytes) (hd : d ≠ []) (h : d <+: l) :
    splitFields d l = [] :: splitFields d (l.drop d.length) := by
  have hdpos := length_pos_of_ne_nil hd
  have hlen := h.length_le
  cases l with
  | nil =>
    have : d.length ≤ 0 := hlen
    omega
  | cons c t =>
    have hp : d.isPrefixOf (c :: t) = true := List.isPrefixOf_iff_prefix.mpr h
    unfold splitFields
    simp only [splitAux]
    rw [if_pos hp, splitAux_skip d t (d.length - 1) (by simp at hlen; omega)]
    congr 2
    have : d.length = (d.length - 1) + 1 := by omega
    rw [this, List.drop_succ_cons]
    simp

/-- the scanner away from an occurrence: the byte joins the first field of the rest -/
theorem splitFields_cons_of_not_prefix (d : Bytes) (c : UInt8) (t : Bytes) (h : ¬ d <+: c :: t) :
    splitFields d (c :: t) = (splitFields d t).modifyHead (c :: ·) := by
  have hp : ¬ d.isPrefixOf (c :: t) = true := not_isPrefixOf_iff.mpr h
  unfold splitFields
  simp only [splitAux]
  rw [if_neg hp, splitAux_cur d t ([] ++ [c])]
  congr 1

/-- `f` can be a field that is followed by a delimiter: no occurrence starts inside `f`, even
    one that would run into the delimiter that follows -/
def Field (d : Bytes) : Bytes → Prop
  | [] => True
  | c :: f => ¬ d <+: (c :: f ++ d) ∧ Field d f

/-- `f` can be the last field: it contains no occurrence -/
def NoOcc (d : Bytes) : Bytes → Prop
  | [] => True
  | c :: f => ¬ d <+: (c :: f) ∧ NoOcc d f

theorem Field.noOcc {d : Bytes} : ∀ {f : Bytes}, Field d f → NoOcc d f
  | [], _ => trivial
  | c :: f, h => ⟨fun hp => h.1 (hp.trans (List.prefix_append (c :: f) d)), Field.noOcc h.2⟩

theorem splitFields_field_append (d : Bytes) (hd : d ≠ []) :
    ∀ (f rest : Bytes), Field d f → splitFields d (f ++ d ++ rest) = f :: splitFields d rest
  | [], rest, _ => by
    rw [List.nil_append, splitFields_of_prefix d _ hd (List.prefix_append d rest),
      List.drop_left' rfl]
  | c :: f, rest, h => by
    have hnp : ¬ d <+: c :: (f ++ d ++ rest) := by
      intro hp
      apply h.1
      have h2 : (c :: f ++ d) <+: c :: (f ++ d ++ rest) := by
        have := List.prefix_append (c :: f ++ d) rest
        simp
      exact List.prefix_of_prefix_length_le hp h2 (by simp; omega)
    have ih := splitFields_field_append d hd f rest h.2
    show splitFields d (c :: (f ++ d ++ rest)) = _
    rw [splitFields_cons_of_not_prefix d c _ hnp, ih]
    rfl

theorem splitFields_noOcc (d : Bytes) : ∀ (f : Bytes), NoOcc d f → splitFields d f = [f]
  | [], _ => rfl
  | c :: f, h => by
    rw [splitFields_cons_of_not_prefix d c f h.1, splitFields_noOcc d f h.2]
    rfl

/-- a list of fields: every one but the last can be followed by a delimiter, the last has no
    occurrence -/
def FieldsOK (d : Bytes) : List Bytes → Prop
  | [] => True
  | [f] => NoOcc d f
  | f :: g :: t => Field d f ∧ FieldsOK d (g :: t)

theorem FieldsOK.tail {d f : Bytes} {t : List Bytes} (h : FieldsOK d (f :: t)) : FieldsOK d t := by
  cases t with
  | nil => trivial
  | cons g t' => exact h.2

theorem FieldsOK.cons {d f : Bytes} {t : List Bytes} (hf : Field d f) (ht : FieldsOK d t) :
    FieldsOK d (f :: t) := by
  cases t with
  | nil => exact hf.noOcc
  | cons g t' => exact ⟨hf, ht⟩

theorem FieldsOK.head {d f : Bytes} {t : List Bytes} (h : FieldsOK d (f :: t)) (ht : t ≠ []) :
    Field d f := by
  cases t with
  | nil => exact absurd rfl ht
  | cons g t' => exact h.1

/-- **the fields of a split are fields** -/
theorem splitFields_fieldsOK (d : Bytes) (hd : d ≠ []) :
    ∀ (n : Nat) (l : Bytes), l.length ≤ n → FieldsOK d (splitFields d l) := by
  have hdpos := length_pos_of_ne_nil hd
  intro n
  induction n with
  | zero =>
    intro l hl
    have : l = [] := List.eq_nil_of_length_eq_zero (by omega)
    subst this
    exact trivial
  | succ n ih =>
    intro l hl
    cases l with
    | nil => exact trivial
    | cons c t =>
      by_cases hp : d <+: c :: t
      · rw [splitFields_of_prefix d _ hd hp]
        have := ih ((c :: t).drop d.length) (by simp at hl ⊢; omega)
        exact FieldsOK.cons trivial this
      · rw [splitFields_cons_of_not_prefix d c t hp]
        have iht := ih t (by simp at hl; omega)
        have hrec := fields_reconstruct d t hd
        cases hs : splitFields d t with
        | nil => exact absurd hs (splitFields_ne_nil d t)
        | cons h0 more =>
          rw [hs] at iht hrec
          cases more with
          | nil =>
            have : h0 = t := hrec
            subst this
            exact ⟨hp, iht⟩
          | cons g t' =>
            refine ⟨⟨?_, iht.1⟩, iht.2⟩
            intro hp'
            apply hp
            rw [joinWith_cons_cons] at hrec
            rw [← hrec]
            have : (c :: h0 ++ d) <+: c :: (h0 ++ d ++ joinWith d (g :: t')) := by
              have := List.prefix_append (c :: h0 ++ d) (joinWith d (g :: t'))
              simp
            exact hp'.trans this

theorem splitFields_ok (d line : Bytes) (hd : d ≠ []) : FieldsOK d (splitFields d line) :=
  splitFields_fieldsOK d hd line.length line (Nat.le_refl _)

/-- **re-splitting a join of fields gives the fields back** -/
theorem splitFields_joinWith (d : Bytes) (hd : d ≠ []) :
    ∀ (fs : List Bytes), fs ≠ [] → FieldsOK d fs → splitFields d (joinWith d fs) = fs
  | [], h, _ => absurd rfl h
  | [f], _, h => splitFields_noOcc d f h
  | f :: g :: t, _, h => by
    rw [joinWith_cons_cons, splitFields_field_append d hd f _ h.1,
      splitFields_joinWith d hd (g :: t) (by simp) h.2]

theorem FieldsOK.compress {d : Bytes} : ∀ {fs : List Bytes}, FieldsOK d fs → FieldsOK d (compressFields fs)
  | [], _ => trivial
  | [_], h => h
  | f :: g :: t, h => by
    simp only [compressFields]
    split
    · exact FieldsOK.compress h.2
    · exact FieldsOK.cons h.1 (FieldsOK.compress h.2)

theorem FieldsOK.cons_compress {d f0 : Bytes} {rest : List Bytes} (h : FieldsOK d (f0 :: rest)) :
    FieldsOK d (f0 :: compressFields rest) := by
  cases rest with
  | nil => exact h
  | cons g t => exact FieldsOK.cons h.1 (FieldsOK.compress h.2)

/-- **C01, `-p`, second half.**  Splitting the compressed record gives the compressed fields. -/
theorem compress_resplit (d line : Bytes) (hd : d ≠ []) (f0 : Bytes) (rest : List Bytes)
    (hs : splitFields d line = f0 :: rest) :
    splitFields d (compressDelimiter line d []) = f0 :: compressFields rest := by
  rw [compress_is_spec d line hd f0 rest hs]
  apply splitFields_joinWith d hd _ (by simp)
  have := splitFields_ok d line hd
  rw [hs] at this
  exact this.cons_compress

/-- the engine tokenises the compressed record; the specification compresses the tokens -/
theorem tokenize_compress (d line : Bytes) (hd : d ≠ []) (g : Bool) :
    tokenize d g true line = tokenize d g false (compressDelimiter line d []) := by
  cases hs : splitFields d line with
  | nil => exact absurd hs (splitFields_ne_nil d line)
  | cons f0 rest =>
    unfold tokenize
    rw [compress_resplit d line hd f0 rest hs, hs]
    simp

theorem compress_ne_nil (d line : Bytes) (hd : d ≠ []) (hline : line ≠ []) :
    compressDelimiter line d [] ≠ [] := by
  cases hs : splitFields d line with
  | nil => exact absurd hs (splitFields_ne_nil d line)
  | cons f0 rest =>
    rw [compress_is_spec d line hd f0 rest hs]
    cases rest with
    | nil =>
      have := fields_reconstruct d line hd
      rw [hs] at this
      simp only [compressFields, joinWith] at this ⊢
      rw [this]; exact hline
    | cons g t =>
      have hne := compressFields_ne_nil (g :: t) (by simp)
      rw [joinWith_cons_of_ne_nil _ _ _ hne]
      intro h
      have hl := congrArg List.length h
      have := length_pos_of_ne_nil hd
      simp only [List.length_append, List.length_nil] at hl
      omega

/-! ### `replace` is "split, then join with the replacement" -/

theorem replaceMatches_eq (text r : Bytes) (dlen : Nat) :
    ∀ (ms : List Nat) (prev : Nat),
      replaceMatches text r prev (ms.map fun i => (i, i + dlen)) =
        joinWith r (contents text (rangesBetween dlen text.length prev ms)) := by
  intro ms
  induction ms with
  | nil => intro prev; simp [replaceMatches, rangesBetween, contents, joinWith, slice_to_end]
  | cons idx t ih =>
    intro prev
    simp only [List.map_cons, replaceMatches, rangesBetween, contents]
    rw [ih, joinWith_cons_of_ne_nil]
    simpa [contents] using rangesBetween_ne_nil _ _ _ t

theorem replaceAll_eq (text d r : Bytes) (hd : d ≠ []) :
    replaceAll text d r = joinWith r (splitFields d text) := by
  unfold replaceAll
  rw [replaceMatches_eq]
  by_cases ht : text = []
  · subst ht
    simp [findIter, findIterAux, isEmpty_eq_false_of_ne_nil hd, rangesBetween, contents, slice,
      splitFields, splitAux]
  · have := fields_are_contents d text hd ht
    unfold fillWithFieldsLocations at this
    rw [isEmpty_eq_false_of_ne_nil ht] at this
    simp only [Bool.false_eq_true, if_false] at this
    rw [← this]

/-! ### tokens -/

/-- a (part of a) token list: every field but the last can be followed by a delimiter, every
    separator after the first entry is made of at least one occurrence -/
def TokOK (d : Bytes) : List (Nat × Bytes) → Prop
  | [] => True
  | [(_, f)] => NoOcc d f
  | (_, f) :: (k, g) :: t => Field d f ∧ 1 ≤ k ∧ TokOK d ((k, g) :: t)

theorem TokOK.tail {d : Bytes} {x : Nat × Bytes} {t : List (Nat × Bytes)} (h : TokOK d (x :: t)) :
    TokOK d t := by
  cases t with
  | nil => trivial
  | cons y t' => exact h.2.2

theorem TokOK.drop {d : Bytes} : ∀ {l : List (Nat × Bytes)} (n : Nat), TokOK d l → TokOK d (l.drop n)
  | _, 0, h => h
  | [], _ + 1, _ => trivial
  | _ :: t, n + 1, h => TokOK.drop (l := t) n h.tail

theorem TokOK.take {d : Bytes} : ∀ {l : List (Nat × Bytes)} (n : Nat), TokOK d l → TokOK d (l.take n)
  | _, 0, _ => trivial
  | [], _ + 1, _ => trivial
  | [_], _ + 1, h => by simpa using h
  | (k0, f) :: (k, g) :: t, n + 1, h => by
    have ih := TokOK.take (l := (k, g) :: t) n h.2.2
    cases n with
    | zero => exact h.1.noOcc
    | succ n' =>
      simp only [List.take_succ_cons] at ih ⊢
      exact ⟨h.1, h.2.1, ih⟩

theorem tokOK_plain {d : Bytes} (k0 : Nat) :
    ∀ (f : Bytes) (rest : List Bytes), FieldsOK d (f :: rest) →
      TokOK d ((k0, f) :: rest.map fun g => (1, g))
  | _, [], h => h
  | _, g :: t, h => ⟨h.1, Nat.le_refl 1, tokOK_plain 1 g t h.2⟩

theorem tokOK_greedy {d : Bytes} :
    ∀ (rest : List Bytes) (k0 k : Nat) (f : Bytes), 1 ≤ k → FieldsOK d (f :: rest) →
      TokOK d ((k0, f) :: greedyMerge k rest)
  | [], _, _, _, _, h => h
  | [g], _, _, _, hk, h => ⟨h.1, hk, h.2⟩
  | g :: g' :: t, k0, k, f, hk, h => by
    simp only [greedyMerge]
    split
    · exact tokOK_greedy (g' :: t) k0 (k + 1) f (by omega) ⟨h.1, h.2.2⟩
    · have := tokOK_greedy (g' :: t) k 1 g (Nat.le_refl 1) h.2
      cases hg : greedyMerge 1 (g' :: t) with
      | nil => rw [hg] at this; exact ⟨h.1, hk, this⟩
      | cons y ys => rw [hg] at this; exact ⟨h.1, hk, this⟩

/-- the tokens of a record (without `-p`; with `-p` see `tokenize_compress`) are well formed -/
theorem tokenize_ok (d line : Bytes) (hd : d ≠ []) (g : Bool) :
    TokOK d ((0, (tokenize d g false line).first) :: (tokenize d g false line).rest) := by
  have hok := splitFields_ok d line hd
  unfold tokenize
  cases hs : splitFields d line with
  | nil => exact absurd hs (splitFields_ne_nil d line)
  | cons f0 rest =>
    rw [hs] at hok
    cases g with
    | true => simpa using tokOK_greedy rest 0 1 f0 (Nat.le_refl 1) hok
    | false => simpa using tokOK_plain 0 f0 rest hok

/-- the plain fields behind a token list: a separator of `k` occurrences hides `k - 1` empty
    fields -/
def expandToks : List (Nat × Bytes) → List Bytes
  | [] => []
  | (k, g) :: t => List.replicate (k - 1) [] ++ g :: expandToks t

theorem splitFields_repeat (d : Bytes) (hd : d ≠ []) (x : Bytes) :
    ∀ (j : Nat), splitFields d (repeatBytes d j ++ x) = List.replicate j [] ++ splitFields d x
  | 0 => by simp [repeatBytes]
  | j + 1 => by
    have := splitFields_field_append d hd [] (repeatBytes d j ++ x) trivial
    simp only [List.nil_append] at this
    show splitFields d (d ++ repeatBytes d j ++ x) = _
    rw [List.append_assoc, this, splitFields_repeat d hd x j, List.replicate_succ]
    rfl

theorem splitFields_toks (d : Bytes) (hd : d ≠ []) :
    ∀ (more : List (Nat × Bytes)) (k0 : Nat) (f : Bytes), TokOK d ((k0, f) :: more) →
      splitFields d (f ++ more.flatMap (sepField d)) = f :: expandToks more
  | [], _, f, h => by simpa [expandToks] using splitFields_noOcc d f h
  | (k, g) :: more, _, f, h => by
    obtain ⟨hf, hk, hrest⟩ := h
    obtain ⟨j, rfl⟩ : ∃ j, k = j + 1 := ⟨k - 1, by omega⟩
    have ih := splitFields_toks d hd more (j + 1) g hrest
    have e : f ++ ((j + 1, g) :: more).flatMap (sepField d) =
        f ++ d ++ (repeatBytes d j ++ (g ++ more.flatMap (sepField d))) := by
      simp [sepField, repeatBytes, List.append_assoc]
    rw [e, splitFields_field_append d hd f _ hf, splitFields_repeat d hd _ j, ih]
    simp [expandToks]

theorem flatMap_replicate_nil (r : Bytes) : ∀ (j : Nat),
    (List.replicate j ([] : Bytes)).flatMap (fun g => r ++ g) = repeatBytes r j
  | 0 => rfl
  | j + 1 => by
    rw [List.replicate_succ, List.flatMap_cons, flatMap_replicate_nil r j]
    simp [repeatBytes]

theorem expandToks_flatMap (d r : Bytes) :
    ∀ (more : List (Nat × Bytes)) (k0 : Nat) (f : Bytes), TokOK d ((k0, f) :: more) →
      (expandToks more).flatMap (fun g => r ++ g) = more.flatMap (sepField r)
  | [], _, _, _ => rfl
  | (k, g) :: more, _, f, h => by
    obtain ⟨_, hk, hrest⟩ := h
    obtain ⟨j, rfl⟩ : ∃ j, k = j + 1 := ⟨k - 1, by omega⟩
    have ih := expandToks_flatMap d r more (j + 1) g hrest
    simp only [expandToks, List.flatMap_append, List.flatMap_cons, flatMap_replicate_nil, ih,
      sepField, Nat.add_sub_cancel]
    rw [← repeatBytes_succ']
    simp [List.append_assoc]

/-- **C01, `-r`.**  Replacing the delimiter in text made of well-formed tokens replaces exactly
    the separators, occurrence by occurrence. -/
theorem replaceAll_toks (d r : Bytes) (hd : d ≠ []) (k0 : Nat) (f : Bytes)
    (more : List (Nat × Bytes)) (h : TokOK d ((k0, f) :: more)) :
    replaceAll (f ++ more.flatMap (sepField d)) d r = f ++ more.flatMap (sepField r) := by
  rw [replaceAll_eq _ d r hd, splitFields_toks d hd more k0 f h, joinWith_cons_flatMap,
    expandToks_flatMap d r more k0 f h]

theorem pieceText_replace (d r : Bytes) (hd : d ≠ []) (tok : Tok)
    (h : TokOK d ((0, tok.first) :: tok.rest)) (lo hi : Nat) :
    replaceAll (pieceText (repeatBytes d) tok lo hi) d r = pieceText (repeatBytes r) tok lo hi := by
  unfold pieceText
  have hsel := (h.drop (lo - 1)).take (hi - lo + 1)
  simp only []
  generalize List.take (hi - lo + 1) (List.drop (lo - 1) ((0, tok.first) :: tok.rest)) = sel at hsel
  cases sel with
  | nil =>
    simp [replaceAll_eq _ d r hd, splitFields, splitAux, joinWith]
  | cons x more =>
    obtain ⟨k0, f⟩ := x
    exact replaceAll_toks d r hd k0 f more hsel

end Tuc
