import Tuc.Model.Text
import Tuc.Spec.Record
/-!
# Tuc.Lemmas.Split — the splitter refinement (property C01)

The code computes byte *offsets* (`findIter`, `rangesBetween`, `fillWithFieldsLocations`), the
specification computes field *contents* (`Spec.splitFields`).  For every non-empty delimiter
(self-overlapping ones included) and every non-empty line:

* `fields_are_contents`   — slicing the line at the ranges gives the specification's fields;
* `fields_wellformed`     — the ranges tile the line: `Consecutive d.length line.length 0 ranges`;
* `slice_eq_interleave`   — the bytes from the start of field `a` to the end of field `b` are the
                            fields `a … b` with one `d` between neighbours;
* `fields_reconstruct`    — `joinWith d (splitFields d line) = line`.
-/

namespace Tuc
open Tuc.Spec

/-! ## slices -/

theorem slice_self {α : Type} (l : List α) (s : Nat) : slice l s s = [] := by
  simp [slice]

theorem slice_append_slice {α : Type} (l : List α) {s m e : Nat} (h1 : s ≤ m) (h2 : m ≤ e) :
    slice l s m ++ slice l m e = slice l s e := by
  unfold slice
  have h : e - s = (m - s) + (e - m) := by omega
  rw [h, List.take_add, List.drop_drop]
  have h' : s + (m - s) = m := by omega
  rw [h']

theorem slice_prefix_drop {α : Type} (pre l : List α) {s : Nat} (h : s ≤ pre.length) :
    slice (pre ++ l) s pre.length = pre.drop s := by
  unfold slice
  rw [List.drop_append_of_le_length h, List.take_left']
  simp

theorem slice_zero_length {α : Type} (l : List α) : slice l 0 l.length = l := by
  simp [slice]

theorem slice_of_prefix_drop {α : Type} (d l : List α) (i : Nat) (h : d <+: l.drop i) :
    slice l i (i + d.length) = d := by
  obtain ⟨t, ht⟩ := h
  unfold slice
  rw [← ht]
  have : i + d.length - i = d.length := by omega
  rw [this, List.take_left' rfl]

/-! ## joining -/

/-- `f₀ ++ d ++ f₁ ++ d ++ … ++ fₙ` -/
def joinWith (d : Bytes) : List Bytes → Bytes
  | [] => []
  | [f] => f
  | f :: g :: t => f ++ d ++ joinWith d (g :: t)

theorem joinWith_cons_cons (d f g : Bytes) (t : List Bytes) :
    joinWith d (f :: g :: t) = f ++ d ++ joinWith d (g :: t) := rfl

theorem joinWith_cons_of_ne_nil (d f : Bytes) (t : List Bytes) (h : t ≠ []) :
    joinWith d (f :: t) = f ++ d ++ joinWith d t := by
  cases t with
  | nil => exact absurd rfl h
  | cons g t => rfl

theorem joinWith_eq_intercalate (d : Bytes) (fs : List Bytes) :
    joinWith d fs = List.intercalate d fs := by
  induction fs with
  | nil => simp [joinWith, List.intercalate]
  | cons f t ih =>
    cases t with
    | nil => simp [joinWith, List.intercalate]
    | cons g t =>
      rw [joinWith_cons_cons, ih]
      simp [List.intercalate, List.intersperse, List.append_assoc]

/-! ## 1. the ranges' contents are the specification's fields -/

theorem isEmpty_eq_false_of_ne_nil {d : Bytes} (hd : d ≠ []) : d.isEmpty = false := by
  cases d with
  | nil => exact absurd rfl hd
  | cons _ _ => rfl

theorem length_pos_of_ne_nil {d : Bytes} (hd : d ≠ []) : 0 < d.length := by
  cases d with
  | nil => exact absurd rfl hd
  | cons _ _ => simp

/-- the scanning-state invariant: `line = pre ++ l`, the scanner stands at `pre.length`;
    outside a match (`skip = 0`) the open field started at `prev` and holds `pre.drop prev`,
    inside a match (`skip > 0`) the next field starts where the match ends, which is not
    beyond the end of the line. -/
theorem contents_aux (d : Bytes) (hd : d ≠ []) (line : Bytes) :
    ∀ (l pre : Bytes) (skip prev : Nat) (cur : Bytes), line = pre ++ l →
      (skip = 0 → prev ≤ pre.length ∧ cur = pre.drop prev) →
      (0 < skip → prev = pre.length + skip ∧ cur = [] ∧ skip ≤ l.length) →
      (rangesBetween d.length line.length prev (findIterAux d skip pre.length l)).map
        (fun r => slice line r.start r.stop) = splitAux d skip cur l := by
  intro l
  induction l with
  | nil =>
    intro pre skip prev cur hl h0 h1
    have hde := isEmpty_eq_false_of_ne_nil hd
    cases skip with
    | succ k => have := (h1 (by omega)).2.2; simp at this
    | zero =>
      obtain ⟨hp, hc⟩ := h0 rfl
      subst hl
      simp only [findIterAux, hde, rangesBetween, splitAux, List.map_cons, List.map_nil,
        List.append_nil, Bool.false_eq_true, if_false]
      rw [hc]
      have := slice_prefix_drop pre [] hp
      simpa using this
  | cons c t ih =>
    intro pre skip prev cur hl h0 h1
    have hl' : line = (pre ++ [c]) ++ t := by simp [hl]
    have hlen : (pre ++ [c]).length = pre.length + 1 := by simp
    cases skip with
    | succ k =>
      obtain ⟨hp, hc, hk⟩ := h1 (by omega)
      simp only [findIterAux, splitAux]
      rw [← hlen]
      apply ih (pre ++ [c]) k prev cur hl'
      · intro hk0
        subst hk0
        refine ⟨by rw [hlen]; omega, ?_⟩
        rw [hc, hp, List.drop_of_length_le (by rw [hlen]; omega)]
      · intro hk0
        refine ⟨by rw [hlen]; omega, hc, ?_⟩
        simp at hk; omega
    | zero =>
      obtain ⟨hp, hc⟩ := h0 rfl
      simp only [findIterAux, splitAux]
      by_cases hpre : d.isPrefixOf (c :: t) = true
      · rw [if_pos hpre, if_pos hpre]
        simp only [rangesBetween, List.map_cons]
        have hdl : d.length ≤ t.length + 1 := by
          have := (List.isPrefixOf_iff_prefix.mp hpre).length_le
          simpa using this
        have hdpos := length_pos_of_ne_nil hd
        congr 1
        · rw [hc, hl]; exact slice_prefix_drop pre (c :: t) hp
        · rw [← hlen]
          apply ih (pre ++ [c]) (d.length - 1) (pre.length + d.length) [] hl'
          · intro h1
            refine ⟨by rw [hlen]; omega, ?_⟩
            rw [List.drop_of_length_le (by rw [hlen]; omega)]
          · intro h1
            refine ⟨by rw [hlen]; omega, rfl, by omega⟩
      · rw [if_neg hpre, if_neg hpre]
        rw [← hlen]
        apply ih (pre ++ [c]) 0 prev (cur ++ [c]) hl'
        · intro _
          refine ⟨by rw [hlen]; omega, ?_⟩
          rw [hc, List.drop_append_of_le_length hp]
        · intro h; omega

/-- **C01, contents.** Slicing a non-empty line at the ranges the code computes gives exactly the
    fields of the specification. -/
theorem fields_are_contents (d line : Bytes) (hd : d ≠ []) (hline : line ≠ []) :
    (fillWithFieldsLocations [] line d).map (fun r => slice line r.start r.stop) =
      splitFields d line := by
  have hle : line.isEmpty = false := isEmpty_eq_false_of_ne_nil hline
  unfold fillWithFieldsLocations findIter splitFields
  rw [hle]
  simp only [Bool.false_eq_true, if_false]
  have := contents_aux d hd line line [] 0 0 [] (by simp) (by simp) (by omega)
  simpa using this

/-! ## 2. the ranges tile the line -/

/-- what `findIter` guarantees about its offsets: each is at or after `lo`, the delimiter is
    there, and the next one is searched after its end (leftmost, non-overlapping) -/
def MatchesOK (d line : Bytes) : Nat → List Nat → Prop
  | _, [] => True
  | lo, idx :: t => lo ≤ idx ∧ d <+: line.drop idx ∧ MatchesOK d line (idx + d.length) t

theorem MatchesOK.mono {d line : Bytes} {lo lo' : Nat} {ms : List Nat} (h : lo' ≤ lo)
    (hm : MatchesOK d line lo ms) : MatchesOK d line lo' ms := by
  cases ms with
  | nil => trivial
  | cons idx t => exact ⟨Nat.le_trans h hm.1, hm.2⟩

theorem findIterAux_ok (d : Bytes) (hd : d ≠ []) (line : Bytes) :
    ∀ (l pre : Bytes) (skip : Nat), line = pre ++ l → skip ≤ l.length →
      MatchesOK d line (pre.length + skip) (findIterAux d skip pre.length l) := by
  intro l
  induction l with
  | nil =>
    intro pre skip _ _
    simp [findIterAux, isEmpty_eq_false_of_ne_nil hd, MatchesOK]
  | cons c t ih =>
    intro pre skip hl hs
    have hl' : line = (pre ++ [c]) ++ t := by simp [hl]
    have hlen : (pre ++ [c]).length = pre.length + 1 := by simp
    cases skip with
    | succ k =>
      simp only [findIterAux]
      have := ih (pre ++ [c]) k hl' (by simp at hs; omega)
      rw [hlen] at this
      have e : pre.length + (k + 1) = pre.length + 1 + k := by omega
      rw [e]; exact this
    | zero =>
      simp only [findIterAux]
      by_cases hpre : d.isPrefixOf (c :: t) = true
      · rw [if_pos hpre]
        have hp := List.isPrefixOf_iff_prefix.mp hpre
        have hdl : d.length ≤ t.length + 1 := by simpa using hp.length_le
        have hdpos := length_pos_of_ne_nil hd
        refine ⟨by omega, ?_, ?_⟩
        · rw [hl, List.drop_left' rfl]; exact hp
        · have := ih (pre ++ [c]) (d.length - 1) hl' (by omega)
          rw [hlen] at this
          have e : pre.length + 1 + (d.length - 1) = pre.length + d.length := by omega
          rw [e] at this; exact this
      · rw [if_neg hpre]
        have := ih (pre ++ [c]) 0 hl' (by omega)
        rw [hlen] at this
        exact this.mono (by omega)

theorem findIter_ok (d line : Bytes) (hd : d ≠ []) : MatchesOK d line 0 (findIter d line) := by
  have := findIterAux_ok d hd line line [] 0 (by simp) (by omega)
  simpa [findIter] using this

/-- The ranges tile `line` from `s` on: the first starts at `s`, each is a valid range, between
    two neighbours there is exactly one occurrence of `d`, the last stops at the end. -/
def Tiling (d line : Bytes) : Nat → List Range → Prop
  | _, [] => False
  | s, [r] => r.start = s ∧ s ≤ r.stop ∧ r.stop = line.length
  | s, r :: r' :: t =>
    r.start = s ∧ s ≤ r.stop ∧ d <+: line.drop r.stop ∧ Tiling d line (r.stop + d.length) (r' :: t)

/-- The arithmetic part of `Tiling`, as the Rust slicing needs it:
    `start = r₀.start ≤ r₀.stop`, `rᵢ.stop + dlen = rᵢ₊₁.start ≤ rᵢ₊₁.stop`, last `stop = lineLen`. -/
def Consecutive (dlen lineLen : Nat) : Nat → List Range → Prop
  | _, [] => False
  | s, [r] => r.start = s ∧ s ≤ r.stop ∧ r.stop = lineLen
  | s, r :: r' :: t => r.start = s ∧ s ≤ r.stop ∧ Consecutive dlen lineLen (r.stop + dlen) (r' :: t)

theorem Tiling.consecutive {d line : Bytes} :
    ∀ {s : Nat} {rs : List Range}, Tiling d line s rs → Consecutive d.length line.length s rs
  | _, [], h => h
  | _, [_], h => h
  | _, _ :: r' :: t, h => ⟨h.1, h.2.1, Tiling.consecutive (rs := r' :: t) h.2.2.2⟩

theorem rangesBetween_ne_nil (dlen lineLen prev : Nat) (ms : List Nat) :
    rangesBetween dlen lineLen prev ms ≠ [] := by
  cases ms <;> simp [rangesBetween]

theorem rangesBetween_tiling (d line : Bytes) (hd : d ≠ []) :
    ∀ (ms : List Nat) (prev : Nat), MatchesOK d line prev ms → prev ≤ line.length →
      Tiling d line prev (rangesBetween d.length line.length prev ms) := by
  intro ms
  induction ms with
  | nil => intro prev _ hp; exact ⟨rfl, hp, rfl⟩
  | cons idx t ih =>
    intro prev hm hp
    obtain ⟨h1, h2, h3⟩ := hm
    have hle : idx + d.length ≤ line.length := by
      have := h2.length_le
      have := length_pos_of_ne_nil hd
      simp at *; omega
    have := ih (idx + d.length) h3 hle
    simp only [rangesBetween]
    cases hr : rangesBetween d.length line.length (idx + d.length) t with
    | nil => exact absurd hr (rangesBetween_ne_nil _ _ _ _)
    | cons r' t' =>
      rw [hr] at this
      exact ⟨rfl, h1, h2, this⟩

theorem fields_tiling (d line : Bytes) (hd : d ≠ []) (hline : line ≠ []) :
    Tiling d line 0 (fillWithFieldsLocations [] line d) := by
  unfold fillWithFieldsLocations
  rw [isEmpty_eq_false_of_ne_nil hline]
  simp only [Bool.false_eq_true, if_false]
  exact rangesBetween_tiling d line hd _ 0 (findIter_ok d line hd) (by omega)

/-- **C01, well-formedness.** The ranges of a non-empty line: the first starts at 0, every range
    has `start ≤ stop`, the next one starts `d.length` after the previous stop, the last stops at
    `line.length`. -/
theorem fields_wellformed (d line : Bytes) (hd : d ≠ []) (hline : line ≠ []) :
    Consecutive d.length line.length 0 (fillWithFieldsLocations [] line d) :=
  (fields_tiling d line hd hline).consecutive

/-! ### what `Consecutive` gives by index -/

theorem Consecutive.ne_nil {dlen n s : Nat} {rs : List Range} (h : Consecutive dlen n s rs) :
    rs ≠ [] := by
  cases rs with
  | nil => exact absurd h (by simp [Consecutive])
  | cons _ _ => simp

theorem Consecutive.length_pos {dlen n s : Nat} {rs : List Range} (h : Consecutive dlen n s rs) :
    0 < rs.length := List.length_pos_iff.mpr h.ne_nil

/-- every range is valid and inside the line -/
theorem Consecutive.getElem_bounds {dlen n : Nat} :
    ∀ {rs : List Range} {s : Nat}, Consecutive dlen n s rs → ∀ (i : Nat) (hi : i < rs.length),
      s ≤ rs[i].start ∧ rs[i].start ≤ rs[i].stop ∧ rs[i].stop ≤ n
  | [], _, h, _, _ => absurd h (by simp [Consecutive])
  | [r], _, h, i, hi => by
    have : i = 0 := by simp at hi; omega
    subst this
    obtain ⟨h1, h2, h3⟩ := h
    simp only [List.getElem_cons_zero]; omega
  | r :: r' :: t, s, h, i, hi => by
    obtain ⟨h1, h2, h3⟩ := h
    have ih := Consecutive.getElem_bounds h3
    cases i with
    | zero =>
      have := ih 0 (by simp)
      simp only [List.getElem_cons_zero] at this ⊢; omega
    | succ j =>
      have := ih j (by simpa using hi)
      simp only [List.getElem_cons_succ]; omega

theorem Consecutive.head_start {dlen n s : Nat} {rs : List Range} (h : Consecutive dlen n s rs) :
    (rs[0]'h.length_pos).start = s := by
  match rs, h with
  | [_], h => exact h.1
  | _ :: _ :: _, h => exact h.1

theorem Consecutive.last_stop {dlen n : Nat} :
    ∀ {rs : List Range} {s : Nat} (h : Consecutive dlen n s rs),
      (rs[rs.length - 1]'(by have := h.length_pos; omega)).stop = n
  | [_], _, h => h.2.2
  | _ :: r' :: t, _, h => by
    have := Consecutive.last_stop h.2.2
    simpa using this

/-- neighbours are exactly one delimiter apart -/
theorem Consecutive.succ_start {dlen n : Nat} :
    ∀ {rs : List Range} {s : Nat}, Consecutive dlen n s rs → ∀ (i : Nat) (hi : i + 1 < rs.length),
      rs[i].stop + dlen = rs[i + 1].start
  | [], _, h, _, _ => absurd h (by simp [Consecutive])
  | [_], _, _, _, hi => by simp at hi
  | r :: r' :: t, _, h, i, hi => by
    obtain ⟨_, _, h3⟩ := h
    cases i with
    | zero => simpa using (h3.head_start).symm
    | succ j =>
      have := Consecutive.succ_start h3 j (by simpa using hi)
      simpa using this

/-- ranges are ordered: this is `fields[s].start ≤ fields[e-1].end` of the Rust slicing -/
theorem Consecutive.start_le_stop {dlen n : Nat} :
    ∀ {rs : List Range} {s : Nat}, Consecutive dlen n s rs →
      ∀ (i j : Nat) (hij : i ≤ j) (hj : j < rs.length), rs[i].start ≤ rs[j].stop
  | [], _, h, _, _, _, _ => absurd h (by simp [Consecutive])
  | [r], _, h, i, j, hij, hj => by
    have : j = 0 := by simp at hj; omega
    subst this
    have : i = 0 := by omega
    subst this
    simp only [List.getElem_cons_zero]; have := h.1; have := h.2.1; omega
  | r :: r' :: t, s, h, i, j, hij, hj => by
    obtain ⟨h1, h2, h3⟩ := h
    cases j with
    | zero =>
      have : i = 0 := by omega
      subst this
      simp only [List.getElem_cons_zero]; omega
    | succ j' =>
      cases i with
      | zero =>
        have := (Consecutive.getElem_bounds h3 j' (by simpa using hj))
        simp only [List.getElem_cons_zero, List.getElem_cons_succ]; omega
      | succ i' =>
        have := Consecutive.start_le_stop h3 i' j' (by omega) (by simpa using hj)
        simpa using this

/-! ## 3. a slice over several fields keeps the inner delimiters -/

theorem Tiling.le_stop {d line : Bytes} {s : Nat} {rs : List Range} (h : Tiling d line s rs)
    (k : Nat) (hk : k < rs.length) : s ≤ rs[k].stop := by
  have := h.consecutive.getElem_bounds k hk
  omega

theorem Tiling.drop {d line : Bytes} :
    ∀ {rs : List Range} {s : Nat}, Tiling d line s rs → ∀ (a : Nat) (ha : a < rs.length),
      Tiling d line rs[a].start (rs.drop a)
  | [], _, h, _, _ => absurd h (by simp [Tiling])
  | [r], _, h, a, ha => by
    have : a = 0 := by simp at ha; omega
    subst this
    have h1 := h.1
    have h2 := h.2.1
    simp only [List.getElem_cons_zero, List.drop_zero]
    exact ⟨rfl, by omega, h.2.2⟩
  | r :: r' :: t, _, h, a, ha => by
    cases a with
    | zero =>
      obtain ⟨h1, h2, h3, h4⟩ := h
      exact ⟨rfl, by simp only [List.getElem_cons_zero]; omega, h3, h4⟩
    | succ a' =>
      have := Tiling.drop h.2.2.2 a' (by simpa using ha)
      simpa using this

/-- contents of the ranges -/
abbrev contents (line : Bytes) (rs : List Range) : List Bytes :=
  rs.map fun r => slice line r.start r.stop

theorem Tiling.slice_eq {d line : Bytes} :
    ∀ {rs : List Range} {s : Nat}, Tiling d line s rs → ∀ (k : Nat) (hk : k < rs.length),
      slice line s rs[k].stop = joinWith d ((contents line rs).take (k + 1))
  | [], _, h, _, _ => absurd h (by simp [Tiling])
  | [r], _, h, k, hk => by
    have : k = 0 := by simp at hk; omega
    subst this
    simp [contents, joinWith, h.1]
  | r :: r' :: t, s, h, k, hk => by
    obtain ⟨h1, h2, h3, h4⟩ := h
    cases k with
    | zero => simp [contents, joinWith, h1]
    | succ k' =>
      have hk' : k' < (r' :: t).length := by simpa using hk
      have ih := Tiling.slice_eq h4 k' hk'
      have hle := h4.le_stop k' hk'
      have hget : (r :: r' :: t)[k' + 1] = (r' :: t)[k'] := by simp
      rw [hget]
      have htake : (contents line (r :: r' :: t)).take (k' + 1 + 1) =
          slice line r.start r.stop :: (contents line (r' :: t)).take (k' + 1) := by
        simp [contents]
      have hne : (contents line (r' :: t)).take (k' + 1) ≠ [] := by simp [contents]
      have hsd := slice_of_prefix_drop d line r.stop h3
      rw [htake, joinWith_cons_of_ne_nil _ _ _ hne, ← ih, h1, List.append_assoc,
        ← slice_append_slice line h2 (show r.stop ≤ (r' :: t)[k'].stop by omega),
        ← slice_append_slice line (Nat.le_add_right r.stop d.length) hle, hsd]

theorem Tiling.slice_extract {d line : Bytes} {s : Nat} {rs : List Range} (ht : Tiling d line s rs)
    (a b : Nat) (hab : a ≤ b) (hb : b < rs.length) :
    slice line (rs[a]'(by omega)).start rs[b].stop =
      joinWith d ((contents line rs).extract a (b + 1)) := by
  have ha : a < rs.length := by omega
  have hdrop := ht.drop a ha
  have hk : b - a < (rs.drop a).length := by simp; omega
  have := hdrop.slice_eq (b - a) hk
  have hget : (rs.drop a)[b - a] = rs[b] := by
    rw [List.getElem_drop]; congr 1; omega
  rw [hget] at this
  rw [this, List.extract_eq_take_drop]
  simp only [contents, List.map_drop]
  congr 2
  omega

/-- **C01, interleaving.** For fields `a ≤ b` of a non-empty line, the bytes from the start of
    field `a` to the end of field `b` are the fields `a … b` of the specification with exactly
    one `d` between neighbours. -/
theorem slice_eq_interleave (d line : Bytes) (hd : d ≠ []) (hline : line ≠ []) (a b : Nat)
    (hab : a ≤ b) (hb : b < (fillWithFieldsLocations [] line d).length) :
    slice line ((fillWithFieldsLocations [] line d)[a]'(by omega)).start
        ((fillWithFieldsLocations [] line d)[b]).stop =
      joinWith d ((splitFields d line).extract a (b + 1)) := by
  rw [← fields_are_contents d line hd hline]
  exact (fields_tiling d line hd hline).slice_extract a b hab hb

/-- the number of ranges is the number of fields of the specification -/
theorem fields_length (d line : Bytes) (hd : d ≠ []) (hline : line ≠ []) :
    (fillWithFieldsLocations [] line d).length = (splitFields d line).length := by
  rw [← fields_are_contents d line hd hline]; simp

/-- **C01, reconstruction.** Joining the fields with the delimiter gives the line back. -/
theorem fields_reconstruct (d line : Bytes) (hd : d ≠ []) :
    joinWith d (splitFields d line) = line := by
  by_cases hline : line = []
  · subst hline; simp [splitFields, splitAux, joinWith]
  · have hw := fields_wellformed d line hd hline
    have hn := hw.length_pos
    have h := slice_eq_interleave d line hd hline 0 ((fillWithFieldsLocations [] line d).length - 1)
      (by omega) (by omega)
    rw [hw.head_start, hw.last_stop, slice_zero_length] at h
    have e : (fillWithFieldsLocations [] line d).length - 1 + 1 - 0 = (splitFields d line).length := by
      rw [← fields_length d line hd hline]; omega
    rw [List.extract_eq_take_drop, e] at h
    simpa using h.symm

end Tuc
