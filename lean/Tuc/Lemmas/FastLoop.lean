import Tuc.Model.FastLoop
import Tuc.Lemmas.Run
import Tuc.Lemmas.Bounds
/-!
# Lemmas for `Tuc.Props.FastLoop`: the literal loops of `fast_lane.rs` against `Tuc.Model.FastLane`
-/

namespace Tuc
namespace FastLoop
open TextLoops

@[simp] theorem obind_ok {α β : Type} (a : α) (f : α → Outcome β) : (Outcome.ok a).bind f = f a := rfl

@[simp] theorem obind_panic {α β : Type} (f : α → Outcome β) : (Outcome.panic).bind f = .panic := rfl

/-! ## 1. `trim` -/

theorem trimStartWith_eq (d : UInt8) : ∀ l : Bytes, trimStartWith d l = dropWhileEq d l := by
  intro l
  induction l with
  | nil => rfl
  | cons c t ih =>
    simp only [trimStartWith, dropWhileEq, ih]

theorem trim_eq (buffer : Bytes) (k : Trim) (d : UInt8) : trim buffer k d = fastTrim buffer k d := by
  cases k <;> simp only [trim, fastTrim, trimEndWith, trimStartWith_eq]

theorem dropWhileEq_length_le (d : UInt8) : ∀ l : Bytes, (dropWhileEq d l).length ≤ l.length := by
  intro l
  induction l with
  | nil => exact Nat.le_refl _
  | cons c t ih =>
    simp only [dropWhileEq]
    split
    · exact Nat.le_trans ih (Nat.le_succ _)
    · exact Nat.le_refl _

theorem fastTrim_length_le (buffer : Bytes) (k : Trim) (d : UInt8) :
    (fastTrim buffer k d).length ≤ buffer.length := by
  cases k with
  | left => exact dropWhileEq_length_le d buffer
  | right =>
    simp only [fastTrim, List.length_reverse]
    have := dropWhileEq_length_le d buffer.reverse
    simpa using this
  | both =>
    simp only [fastTrim, List.length_reverse]
    have h1 := dropWhileEq_length_le d (dropWhileEq d buffer).reverse
    have h2 := dropWhileEq_length_le d buffer
    simp only [List.length_reverse] at h1
    omega

/-! ## 2. the scan -/

theorem fastScan_nil (d : UInt8) (lif : Side) (pos : Nat) (curr : Int) :
    fastScan d lif pos curr [] = ([], curr) := by
  simp only [fastScan]

theorem fastScan_cons_ne (d : UInt8) (lif : Side) (pos : Nat) (curr : Int) {c : UInt8} (t : Bytes)
    (h : ¬ c = d) : fastScan d lif pos curr (c :: t) = fastScan d lif (pos + 1) curr t := by
  simp only [fastScan, if_neg h]

theorem fastScan_cons_stop (d : UInt8) (lif : Side) (pos : Nat) (curr : Int) {c : UInt8} (t : Bytes)
    (hc : c = d) (h : Side.some (curr + 1) = lif) :
    fastScan d lif pos curr (c :: t) = ([pos + 1], curr + 1) := by
  simp only [fastScan, if_pos hc, if_pos h]

theorem fastScan_cons_go (d : UInt8) (lif : Side) (pos : Nat) (curr : Int) {c : UInt8} (t : Bytes)
    (hc : c = d) (h : ¬ Side.some (curr + 1) = lif) :
    fastScan d lif pos curr (c :: t) =
      ((pos + 1) :: (fastScan d lif (pos + 1) (curr + 1) t).1,
       (fastScan d lif (pos + 1) (curr + 1) t).2) := by
  simp only [fastScan, if_pos hc, if_neg h]

theorem memchrIterFrom_length_le (d : UInt8) :
    ∀ (line : Bytes) (pos : Nat), (memchrIterFrom d pos line).length ≤ line.length := by
  intro line
  induction line with
  | nil => intro pos; exact Nat.le_refl _
  | cons c t ih =>
    intro pos
    simp only [memchrIterFrom]
    split
    · simp only [List.length_cons]; exact Nat.succ_le_succ (ih _)
    · simp only [List.length_cons]; exact Nat.le_trans (ih _) (Nat.le_succ _)

/-- the `i32` counter cannot overflow from here on: either the delimiters still to come fit, or the
    loop stops at a positive `k` that is an `i32` and has not been passed -/
def Fits (lif : Side) (curr : Int) (toCome : Nat) : Prop :=
  curr + toCome ≤ i32Max ∨ ∃ k, lif = .some k ∧ curr < k ∧ k ≤ i32Max

theorem checkedAddI32_ok {x : Int} (h0 : 0 ≤ x) (h : x + 1 ≤ i32Max) :
    checkedAddI32 x 1 = .ok (x + 1) := by
  unfold checkedAddI32
  have : i32Min ≤ x + 1 := by simp only [i32Min]; omega
  rw [if_pos ⟨this, h⟩]

/-- **the `for` loop over `memchr_iter` is `fastScan`** as long as the counter fits -/
theorem scanFor_eq (d : UInt8) (lif : Side) :
    ∀ (line : Bytes) (pos : Nat) (curr : Int) (fields : List Nat), 0 ≤ curr →
      Fits lif curr (memchrIterFrom d pos line).length →
      scanFor lif (memchrIterFrom d pos line) curr fields =
        .ok ((fastScan d lif pos curr line).2, fields ++ (fastScan d lif pos curr line).1) := by
  intro line
  induction line with
  | nil =>
    intro pos curr fields _ _
    simp only [memchrIterFrom, scanFor, fastScan_nil, List.append_nil]
  | cons c t ih =>
    intro pos curr fields h0 hfit
    by_cases hc : c = d
    · simp only [memchrIterFrom, if_pos hc, List.length_cons] at hfit ⊢
      have hadd : curr + 1 ≤ i32Max := by
        rcases hfit with h | ⟨k, _, h1, h2⟩
        · omega
        · omega
      simp only [scanFor, scanBody, checkedAddI32_ok h0 hadd, obind_ok]
      by_cases hs : Side.some (curr + 1) = lif
      · simp only [if_pos hs, obind_ok, if_true, fastScan_cons_stop d lif pos curr t hc hs, push]
      · simp only [if_neg hs, obind_ok, Bool.false_eq_true, if_false,
          fastScan_cons_go d lif pos curr t hc hs, push]
        have hfit' : Fits lif (curr + 1) (memchrIterFrom d (pos + 1) t).length := by
          rcases hfit with h | ⟨k, hk, h1, h2⟩
          · left; omega
          · right
            refine ⟨k, hk, ?_, h2⟩
            have : curr + 1 ≠ k := fun e => hs (by rw [e, hk])
            omega
        rw [ih (pos + 1) (curr + 1) _ (by omega) hfit']
        simp only [List.append_assoc, List.singleton_append]
    · simp only [memchrIterFrom, if_neg hc] at hfit ⊢
      rw [fastScan_cons_ne d lif pos curr t hc]
      exact ih (pos + 1) curr fields h0 hfit

/-! ## 3. `output_parts` -/

theorem checkedSub_one_succ (n : Nat) : checkedSub (n + 1) 1 = .ok n := by
  unfold checkedSub
  rw [if_pos (by omega)]
  rfl

theorem outputPartsLit_eq (line : Bytes) (b : UserBounds) (fields : List Nat) (opt : FastOpt) :
    outputPartsLit line b fields opt = outputParts line b fields opt := by
  unfold outputPartsLit outputParts
  generalize (if (opt.join && !b.isLast) = true then Run.ok [opt.delimiter] else Run.empty) = joiner
  cases fields with
  | nil => rfl
  | cons x xs =>
    simp only [List.length_cons, checkedSub_one_succ, orPanic, List.isEmpty_cons, Bool.false_eq_true,
      if_false, Nat.add_sub_cancel]
    cases hr : b.tryIntoRange xs.length with
    | none =>
      simp only [outputOf]
      cases b.fallback with
      | some f => rfl
      | none =>
        cases opt.fallbackOob with
        | some g => rfl
        | none => rfl
    | some se =>
      obtain ⟨s, e⟩ := se
      simp only [outputOf, index]
      cases hs : (x :: xs)[s]? with
      | none => rfl
      | some idxStart =>
        cases he : (x :: xs)[e]? with
        | none => rfl
        | some ep1 =>
          simp only [obind_ok, checkedSub, sliceRange]
          by_cases h1 : 1 ≤ ep1
          · by_cases h2 : idxStart ≤ ep1 - 1 ∧ ep1 - 1 ≤ line.length
            · simp only [if_pos h1, obind_ok, if_pos h2, if_pos (And.intro h1 h2)]
            · have h3 : ¬ (1 ≤ ep1 ∧ idxStart ≤ ep1 - 1 ∧ ep1 - 1 ≤ line.length) := fun h => h2 h.2
              simp only [if_pos h1, obind_ok, if_neg h2, if_neg h3, obind_panic]
          · have h3 : ¬ (1 ≤ ep1 ∧ idxStart ≤ ep1 - 1 ∧ ep1 - 1 ≤ line.length) := fun h => h1 h.1
            simp only [if_neg h1, if_neg h3, obind_panic]

/-! ## 4. `try_for_each` -/

theorem tryForEach_eq (buffer : Bytes) (fields : List Nat) (opt : FastOpt) :
    ∀ l : List BoF, tryForEach buffer fields opt l = fastOutputLoop buffer fields opt l := by
  intro l
  induction l with
  | nil => rfl
  | cons bof t ih =>
    cases bof with
    | filler f => simp only [tryForEach, tryForEachBody, fastOutputLoop, ih]
    | bound b => simp only [tryForEach, tryForEachBody, fastOutputLoop, ih, outputPartsLit_eq]

/-! ## 5. `cut_str_fast_lane` after the trim -/

/-- `cutStrFastLaneCore` with the trim taken out (its own `match` on `opt.trim` reduced) -/
theorem core_of_trimmed_none (buf : Bytes) (opt : FastOpt) (lif : Side) (h : opt.trim = Option.none) :
    cutStrFastLaneCore buf opt lif =
      (if buf.isEmpty then ((if !opt.onlyDelimited then Run.ok [opt.eol.byte] else Run.empty), Option.none)
       else
        let p := fastScan opt.delimiter lif 0 0 buf
        if p.2 == 0 && opt.onlyDelimited then (Run.empty, Option.some (0 :: p.1))
        else
          let fields := if Side.some p.2 ≠ lif then (0 :: p.1) ++ [buf.length + 1] else 0 :: p.1
          ((fastOutputLoop buf fields opt opt.bounds.list).seq (Run.ok [opt.eol.byte]), Option.some fields)) := by
  unfold cutStrFastLaneCore
  simp only [h]

theorem core_of_trimmed_some (buf : Bytes) (opt : FastOpt) (lif : Side) (k : Trim)
    (h : opt.trim = Option.some k) :
    cutStrFastLaneCore buf opt lif =
      (if (fastTrim buf k opt.delimiter).isEmpty then
         ((if !opt.onlyDelimited then Run.ok [opt.eol.byte] else Run.empty), Option.none)
       else
        let p := fastScan opt.delimiter lif 0 0 (fastTrim buf k opt.delimiter)
        if p.2 == 0 && opt.onlyDelimited then (Run.empty, Option.some (0 :: p.1))
        else
          let fields :=
            if Side.some p.2 ≠ lif then (0 :: p.1) ++ [(fastTrim buf k opt.delimiter).length + 1] else 0 :: p.1
          ((fastOutputLoop (fastTrim buf k opt.delimiter) fields opt opt.bounds.list).seq
             (Run.ok [opt.eol.byte]), Option.some fields)) := by
  unfold cutStrFastLaneCore
  simp only [h]

/-- the literal function on a buffer that is already trimmed -/
def afterTrim (buffer : Bytes) (opt : FastOpt) (fields : List Nat) (lif : Side) : Run × List Nat :=
  if buffer.isEmpty then
    ((if !opt.onlyDelimited then Run.ok [opt.eol.byte] else Run.empty), fields)
  else
    match scanFor lif (memchrIter opt.delimiter buffer) 0 (push (clear fields) 0) with
    | .ok st => afterScan buffer opt lif st
    | .panic => (Run.panic, push (clear fields) 0)
    | .hang => (Run.hang, push (clear fields) 0)

theorem loop_of_trimmed_none (buf : Bytes) (opt : FastOpt) (fields : List Nat) (lif : Side)
    (h : opt.trim = Option.none) :
    cutStrFastLaneLoop buf opt fields lif = afterTrim buf opt fields lif := by
  unfold cutStrFastLaneLoop afterTrim
  simp only [h]
  rfl

theorem loop_of_trimmed_some (buf : Bytes) (opt : FastOpt) (fields : List Nat) (lif : Side) (k : Trim)
    (h : opt.trim = Option.some k) :
    cutStrFastLaneLoop buf opt fields lif = afterTrim (fastTrim buf k opt.delimiter) opt fields lif := by
  unfold cutStrFastLaneLoop afterTrim
  simp only [h, trim_eq]
  rfl

/-- the normal form of the existing model on a trimmed buffer, with the vector threaded through -/
def modelAfterTrim (buffer : Bytes) (opt : FastOpt) (fields₀ : List Nat) (lif : Side) : Run × List Nat :=
  if buffer.isEmpty then ((if !opt.onlyDelimited then Run.ok [opt.eol.byte] else Run.empty), fields₀)
  else
    let p := fastScan opt.delimiter lif 0 0 buffer
    if p.2 == 0 && opt.onlyDelimited then (Run.empty, 0 :: p.1)
    else
      let fields := if Side.some p.2 ≠ lif then (0 :: p.1) ++ [buffer.length + 1] else 0 :: p.1
      ((fastOutputLoop buffer fields opt opt.bounds.list).seq (Run.ok [opt.eol.byte]), fields)

theorem model_of_trimmed_none (buf : Bytes) (opt : FastOpt) (fields₀ : List Nat) (lif : Side)
    (h : opt.trim = Option.none) :
    cutStrFastLane buf opt fields₀ lif = modelAfterTrim buf opt fields₀ lif := by
  unfold cutStrFastLane modelAfterTrim
  rw [core_of_trimmed_none buf opt lif h]
  by_cases he : buf.isEmpty = true
  · simp only [he, if_true, Option.getD_none]
  · simp only [he, Bool.false_eq_true, if_false]
    split <;> rfl

theorem model_of_trimmed_some (buf : Bytes) (opt : FastOpt) (fields₀ : List Nat) (lif : Side) (k : Trim)
    (h : opt.trim = Option.some k) :
    cutStrFastLane buf opt fields₀ lif = modelAfterTrim (fastTrim buf k opt.delimiter) opt fields₀ lif := by
  unfold cutStrFastLane modelAfterTrim
  rw [core_of_trimmed_some buf opt lif k h]
  by_cases he : (fastTrim buf k opt.delimiter).isEmpty = true
  · simp only [he, if_true, Option.getD_none]
  · simp only [he, Bool.false_eq_true, if_false]
    split <;> rfl

/-- **one trimmed record**: the literal statements compute the normal form, as long as the `i32`
    counter fits -/
theorem afterTrim_eq (buffer : Bytes) (opt : FastOpt) (fields₀ : List Nat) (lif : Side)
    (hfit : Fits lif 0 (memchrIter opt.delimiter buffer).length) :
    afterTrim buffer opt fields₀ lif = modelAfterTrim buffer opt fields₀ lif := by
  unfold afterTrim modelAfterTrim
  by_cases he : buffer.isEmpty = true
  · simp only [he, if_true]
  · simp only [he, Bool.false_eq_true, if_false]
    have hscan := scanFor_eq opt.delimiter lif buffer 0 0 (push (clear fields₀) 0) (Int.le_refl _) hfit
    unfold memchrIter
    rw [hscan]
    simp only [afterScan, push, clear, List.nil_append, tryForEach_eq,
      List.cons_append]

/-! ## 6. no index, subtraction or slice of the output loop can fail -/

/-- the offsets the scan pushes are strictly increasing and lie in `(pos, pos + len]` -/
theorem fastScan_sorted (d : UInt8) (lif : Side) :
    ∀ (line : Bytes) (pos : Nat) (curr : Int),
      (fastScan d lif pos curr line).1.Pairwise (· < ·) ∧
      ∀ x ∈ (fastScan d lif pos curr line).1, pos < x ∧ x ≤ pos + line.length := by
  intro line
  induction line with
  | nil =>
    intro pos curr
    simp only [fastScan_nil, List.Pairwise.nil, List.not_mem_nil, false_imp_iff, implies_true, and_self]
  | cons c t ih =>
    intro pos curr
    by_cases hc : c = d
    · by_cases hs : Side.some (curr + 1) = lif
      · rw [fastScan_cons_stop d lif pos curr t hc hs]
        refine ⟨List.pairwise_singleton _ _, ?_⟩
        intro x hx
        simp only [List.mem_singleton] at hx
        simp only [List.length_cons]
        omega
      · rw [fastScan_cons_go d lif pos curr t hc hs]
        obtain ⟨h1, h2⟩ := ih (pos + 1) (curr + 1)
        refine ⟨List.pairwise_cons.2 ⟨?_, h1⟩, ?_⟩
        · intro x hx
          have := h2 x hx
          omega
        · intro x hx
          simp only [List.length_cons]
          rcases List.mem_cons.1 hx with rfl | hx
          · omega
          · have := h2 x hx
            omega
    · rw [fastScan_cons_ne d lif pos curr t hc]
      obtain ⟨h1, h2⟩ := ih (pos + 1) curr
      refine ⟨h1, ?_⟩
      intro x hx
      have := h2 x hx
      simp only [List.length_cons]
      omega

/-- a vector of field starts the output loop can index safely: not empty, strictly increasing,
    nothing beyond the fake start `len + 1` -/
def GoodFields (fields : List Nat) (len : Nat) : Prop :=
  fields ≠ [] ∧ fields.Pairwise (· < ·) ∧ ∀ x ∈ fields, x ≤ len + 1

/-- what `cut_str_fast_lane` hands to the output loop -/
theorem goodFields_scan (d : UInt8) (lif : Side) (buffer : Bytes) (fake : Bool) :
    GoodFields (if fake then (0 :: (fastScan d lif 0 0 buffer).1) ++ [buffer.length + 1]
                else 0 :: (fastScan d lif 0 0 buffer).1) buffer.length := by
  obtain ⟨h1, h2⟩ := fastScan_sorted d lif buffer 0 0
  have hbase : (0 :: (fastScan d lif 0 0 buffer).1).Pairwise (· < ·) :=
    List.pairwise_cons.2 ⟨fun x hx => (h2 x hx).1, h1⟩
  have hle : ∀ x ∈ 0 :: (fastScan d lif 0 0 buffer).1, x ≤ buffer.length := by
    intro x hx
    rcases List.mem_cons.1 hx with rfl | hx
    · exact Nat.zero_le _
    · have := (h2 x hx).2; omega
  cases fake with
  | false =>
    refine ⟨by simp, hbase, ?_⟩
    intro x hx
    have := hle x hx
    omega
  | true =>
    refine ⟨by simp, ?_, ?_⟩
    · simp only [if_true]
      rw [List.pairwise_append]
      refine ⟨hbase, List.pairwise_singleton _ _, ?_⟩
      intro a ha b hb
      simp only [List.mem_singleton] at hb
      have := hle a ha
      omega
    · intro x hx
      simp only [if_true, List.mem_append, List.mem_singleton] at hx
      rcases hx with hx | rfl
      · have := hle x hx; omega
      · exact Nat.le_refl _

theorem seq_status_ne_panic {a b : Run} (ha : a.status ≠ .panic) (hb : b.status ≠ .panic) :
    (a.seq b).status ≠ .panic := by
  unfold Run.seq
  cases h : a.status with
  | ok => simpa using hb
  | fail => simp [h]
  | panic => exact absurd h ha
  | hang => simp [h]

theorem seq_status_ne_hang {a b : Run} (ha : a.status ≠ .hang) (hb : b.status ≠ .hang) :
    (a.seq b).status ≠ .hang := by
  unfold Run.seq
  cases h : a.status with
  | ok => simpa using hb
  | fail => simp [h]
  | panic => simp [h]
  | hang => exact absurd h ha

/-- `output_parts` on good fields: every index exists, `fields[r.end] - 1` does not underflow and
    the slice is inside the line -/
theorem outputParts_safe (line : Bytes) (b : UserBounds) (fields : List Nat) (opt : FastOpt)
    (hg : GoodFields fields line.length) (hz : b.l ≠ .some 0) :
    (outputParts line b fields opt).status ≠ .panic ∧ (outputParts line b fields opt).status ≠ .hang := by
  obtain ⟨hne, hpw, hle⟩ := hg
  unfold outputParts
  have hj : ∀ w : Bytes, ((Run.ok w).seq
      (if (opt.join && !b.isLast) = true then Run.ok [opt.delimiter] else Run.empty)).status = .ok := by
    intro w
    split <;> rfl
  have hemp : fields.isEmpty = false := by
    cases fields with
    | nil => exact absurd rfl hne
    | cons _ _ => rfl
  simp only [hemp, Bool.false_eq_true, if_false]
  cases hr : b.tryIntoRange (fields.length - 1) with
  | none =>
    simp only
    cases b.fallback with
    | some f => simp only [hj]; exact ⟨by simp, by simp⟩
    | none =>
      cases opt.fallbackOob with
      | some g => simp only [hj]; exact ⟨by simp, by simp⟩
      | none => exact ⟨by simp [Run.fail], by simp [Run.fail]⟩
  | some se =>
    obtain ⟨s, e⟩ := se
    obtain ⟨hse, hen⟩ := tryIntoRange_bounds b _ s e hz hr
    have hlen : 0 < fields.length := List.length_pos_iff.2 hne
    have hs : s < fields.length := by omega
    have he : e < fields.length := by omega
    have hlt : fields[s] < fields[e] := (List.pairwise_iff_getElem.1 hpw) s e hs he hse
    have hele := hle fields[e] (List.getElem_mem he)
    simp only [List.getElem?_eq_getElem hs, List.getElem?_eq_getElem he]
    rw [if_pos ⟨by omega, by omega, by omega⟩]
    simp only [hj]
    exact ⟨by simp, by simp⟩

theorem fastOutputLoop_safe (line : Bytes) (fields : List Nat) (opt : FastOpt)
    (hg : GoodFields fields line.length) :
    ∀ l : List BoF, (∀ b, BoF.bound b ∈ l → b.l ≠ .some 0) →
      (fastOutputLoop line fields opt l).status ≠ .panic ∧
      (fastOutputLoop line fields opt l).status ≠ .hang := by
  intro l
  induction l with
  | nil => intro _; exact ⟨by simp [fastOutputLoop, Run.empty], by simp [fastOutputLoop, Run.empty]⟩
  | cons bof t ih =>
    intro hz
    obtain ⟨ih1, ih2⟩ := ih (fun b hb => hz b (List.mem_cons_of_mem _ hb))
    cases bof with
    | filler f =>
      simp only [fastOutputLoop]
      exact ⟨seq_status_ne_panic (by simp [Run.ok]) ih1, seq_status_ne_hang (by simp [Run.ok]) ih2⟩
    | bound b =>
      simp only [fastOutputLoop]
      obtain ⟨h1, h2⟩ := outputParts_safe line b fields opt hg (hz b (by simp))
      exact ⟨seq_status_ne_panic h1 ih1, seq_status_ne_hang h2 ih2⟩

/-- the normal form never panics when no bound has the left index 0 -/
theorem modelAfterTrim_safe (buffer : Bytes) (opt : FastOpt) (fields₀ : List Nat) (lif : Side)
    (hz : ∀ b, BoF.bound b ∈ opt.bounds.list → b.l ≠ .some 0) :
    (modelAfterTrim buffer opt fields₀ lif).1.status ≠ .panic ∧
    (modelAfterTrim buffer opt fields₀ lif).1.status ≠ .hang := by
  unfold modelAfterTrim
  by_cases he : buffer.isEmpty = true
  · simp only [he, if_true]
    split <;> exact ⟨by simp [Run.ok, Run.empty], by simp [Run.ok, Run.empty]⟩
  · simp only [he, Bool.false_eq_true, if_false]
    split
    · exact ⟨by simp [Run.empty], by simp [Run.empty]⟩
    · have hg := goodFields_scan opt.delimiter lif buffer
        (decide (Side.some (fastScan opt.delimiter lif 0 0 buffer).2 ≠ lif))
      simp only [decide_eq_true_eq] at hg
      obtain ⟨h1, h2⟩ := fastOutputLoop_safe buffer _ opt hg opt.bounds.list hz
      exact ⟨seq_status_ne_panic h1 (by simp [Run.ok]), seq_status_ne_hang h2 (by simp [Run.ok])⟩

/-! ## 7. the whole record function, and the loop over the records -/

/-- **the `i32` counter `curr_field` (l.44, l.52) cannot overflow on a record of `len` bytes**:
    the record is shorter than 2³¹ bytes, or the scan stops early at a positive field number that
    is an `i32` (what `last_interesting_field` is whenever it is not `Continue`: the parser reads
    it with `str::parse::<i32>` and `is_sortable` makes it positive) -/
def CounterFits (lif : Side) (len : Nat) : Prop :=
  (len : Int) ≤ i32Max ∨ ∃ k, lif = .some k ∧ 0 < k ∧ k ≤ i32Max

theorem CounterFits.mono {lif : Side} {m n : Nat} (h : CounterFits lif n) (hmn : m ≤ n) :
    CounterFits lif m := by
  rcases h with h | h
  · left; omega
  · right; exact h

theorem fits_of_counterFits {lif : Side} {d : UInt8} {buffer : Bytes} (h : CounterFits lif buffer.length) :
    Fits lif 0 (memchrIter d buffer).length := by
  have := memchrIterFrom_length_le d buffer 0
  rcases h with h | h
  · left; unfold memchrIter; omega
  · right; exact h

theorem splitRecords_length_le (eol : UInt8) :
    ∀ (x cur : Bytes), ∀ r ∈ splitRecords eol cur x, r.length ≤ cur.length + x.length := by
  intro x
  induction x with
  | nil =>
    intro cur r hr
    simp only [splitRecords] at hr
    split at hr
    · simp at hr
    · simp only [List.mem_singleton] at hr
      subst hr
      simp
  | cons c t ih =>
    intro cur r hr
    simp only [splitRecords] at hr
    split at hr
    · rcases List.mem_cons.1 hr with rfl | hr
      · simp only [List.length_reverse, List.length_cons]; omega
      · have := ih [] r hr
        simp only [List.length_nil, List.length_cons] at this ⊢
        omega
    · have := ih (c :: cur) r hr
      simp only [List.length_cons] at this ⊢
      omega

theorem records_length_le (eol : UInt8) (input : Bytes) :
    ∀ r ∈ records eol input, r.length ≤ input.length := by
  intro r hr
  have := splitRecords_length_le eol input [] r hr
  simpa using this

theorem forByteRecord_eq (opt : FastOpt) (lif : Side) :
    ∀ (recs : List Bytes) (fields : List Nat),
      (∀ r ∈ recs, ∀ f, cutStrFastLaneLoop r opt f lif = cutStrFastLane r opt f lif) →
      forByteRecord opt lif recs fields = fastRecords opt lif recs fields := by
  intro recs
  induction recs with
  | nil => intro _ _; rfl
  | cons r t ih =>
    intro fields h
    simp only [forByteRecord, fastRecords]
    rw [h r (by simp) fields, ih _ (fun r' hr' => h r' (List.mem_cons_of_mem _ hr'))]

/-- the counter overflows (debug build: panic) when the scan is not stopped early and meets more
    delimiters than an `i32` can count -/
theorem scanFor_overflow (lif : Side) :
    ∀ (iter : List Nat) (curr : Int) (fields : List Nat), 0 ≤ curr → curr ≤ i32Max →
      (∀ k, lif = .some k → k ≤ curr ∨ i32Max < k) →
      i32Max < curr + iter.length →
      scanFor lif iter curr fields = .panic := by
  intro iter
  induction iter with
  | nil =>
    intro curr fields _ h1 _ h2
    simp only [List.length_nil] at h2
    omega
  | cons i t ih =>
    intro curr fields h0 h1 hk h2
    by_cases hm : curr = i32Max
    · have : checkedAddI32 curr 1 = .panic := by
        unfold checkedAddI32
        rw [if_neg (by omega)]
      simp only [scanFor, scanBody, this, obind_panic]
    · have hadd : curr + 1 ≤ i32Max := by omega
      have hs : ¬ Side.some (curr + 1) = lif := by
        intro e
        rcases hk (curr + 1) e.symm with h | h <;> omega
      simp only [scanFor, scanBody, checkedAddI32_ok h0 hadd, obind_ok, if_neg hs,
        Bool.false_eq_true, if_false]
      apply ih (curr + 1) _ (by omega) hadd
      · intro k hk'
        rcases hk k hk' with h | h
        · left; omega
        · right; exact h
      · simp only [List.length_cons] at h2
        omega

end FastLoop
end Tuc
