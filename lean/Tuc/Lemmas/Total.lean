import Tuc.Model.Args
import Tuc.Lemmas.Run
import Tuc.Lemmas.Bounds
/-!
# Tuc.Lemmas.Total — panic-freedom of the engines (property C12)

Every Rust site that can panic is a checked operation of the model that yields `Status.panic`.
This file proves, engine by engine, that these outcomes are unreachable:

* `Run.Safe r` — the run ended with status `ok` or `fail` (neither `panic` nor `hang`);
* `RangesIn n lo rs` — what the three splitters guarantee about the ranges they fill `fields`
  with, for **every** delimiter (the empty one included) and, for regex delimiters, under the
  contract of `find_iter` (`SortedMatches`: matches sorted, non-overlapping, within the line);
  it is what makes `line[fields[s].start .. fields[e-1].end]` in range;
* `LNZ l` — no bound of the list has the left index 0 (the parser never produces one); preserved
  by `complement` and `unpack`, which are also shown never to hand `fromVec` a list without bound.
-/
namespace Tuc

/-! ## runs that end with exit status 0 or 1 -/

/-- the run ended with exit status 0 or 1: no panic, no endless loop -/
def Run.Safe (r : Run) : Prop := r.status = .ok ∨ r.status = .fail

theorem Run.Safe.ne_panic {r : Run} (h : r.Safe) : r.status ≠ .panic := by
  rcases h with h | h <;> rw [h] <;> simp

theorem Run.Safe.ne_hang {r : Run} (h : r.Safe) : r.status ≠ .hang := by
  rcases h with h | h <;> rw [h] <;> simp

theorem Run.safe_ok (w : Bytes) : (Run.ok w).Safe := Or.inl rfl
theorem Run.safe_empty : Run.empty.Safe := Or.inl rfl
theorem Run.safe_fail : Run.fail.Safe := Or.inr rfl

theorem Run.Safe.pre {w : Bytes} {r : Run} (h : r.Safe) : (Run.pre w r).Safe := h

theorem Run.Safe.seq {a b : Run} (ha : a.Safe) (hb : b.Safe) : (a.seq b).Safe := by
  obtain ⟨ao, as⟩ := a
  rcases ha with ha | ha
  · simp only at ha; subst ha; exact hb
  · simp only at ha; subst ha; exact Or.inr rfl

theorem writeMaybeAsJson_safe (w : Bytes) (j : Bool) : (writeMaybeAsJson w j).Safe := by
  unfold writeMaybeAsJson
  cases j
  · exact Run.safe_ok _
  · simp only [if_true]
    split
    · exact Run.safe_ok _
    · exact Run.safe_fail

/-! ## the ranges the splitters produce lie inside the line, in order -/

/-- every range is `lo ≤ start ≤ stop ≤ n`, and the next one starts at or after its stop -/
def RangesIn (n : Nat) : Nat → List Range → Prop
  | _, [] => True
  | lo, r :: t => lo ≤ r.start ∧ r.start ≤ r.stop ∧ r.stop ≤ n ∧ RangesIn n r.stop t

theorem RangesIn.mono {n lo lo' : Nat} {rs : List Range} (h : lo' ≤ lo) (hr : RangesIn n lo rs) :
    RangesIn n lo' rs := by
  cases rs with
  | nil => trivial
  | cons r t => exact ⟨Nat.le_trans h hr.1, hr.2⟩

/-- by index: this is `fields[s].start ≤ fields[e-1].end ≤ line.len()` of the Rust slicing -/
theorem RangesIn.getElem {n : Nat} :
    ∀ {rs : List Range} {lo : Nat}, RangesIn n lo rs →
      ∀ (i j : Nat) (_ : i ≤ j) (hj : j < rs.length),
        lo ≤ rs[i].start ∧ rs[i].start ≤ rs[j].stop ∧ rs[j].stop ≤ n
  | [], _, _, _, _, _, hj => by simp at hj
  | r :: t, lo, h, i, j, hij, hj => by
    obtain ⟨h1, h2, h3, h4⟩ := h
    cases j with
    | zero =>
      have : i = 0 := by omega
      subst this
      simp only [List.getElem_cons_zero]; omega
    | succ j' =>
      cases i with
      | zero =>
        have := RangesIn.getElem h4 j' j' (Nat.le_refl _) (by simpa using hj)
        simp only [List.getElem_cons_zero, List.getElem_cons_succ]; omega
      | succ i' =>
        have := RangesIn.getElem h4 i' j' (by omega) (by simpa using hj)
        simp only [List.getElem_cons_succ]; omega

theorem RangesIn.dropLast {n : Nat} :
    ∀ {rs : List Range} {lo : Nat}, RangesIn n lo rs → RangesIn n lo rs.dropLast
  | [], _, _ => trivial
  | [_], _, _ => trivial
  | _ :: r' :: t, _, h => ⟨h.1, h.2.1, h.2.2.1, RangesIn.dropLast (rs := r' :: t) h.2.2.2⟩

theorem RangesIn.drop_one {n lo : Nat} {rs : List Range} (h : RangesIn n lo rs) :
    RangesIn n 0 (rs.drop 1) := by
  cases rs with
  | nil => trivial
  | cons r t => exact h.2.2.2.mono (Nat.zero_le _)

/-- what `find_iter` guarantees, as far as slicing is concerned: the offsets go up by at least the
    width of the needle and a needle fits at each of them -/
def MatchesIn (dlen n : Nat) : Nat → List Nat → Prop
  | _, [] => True
  | lo, idx :: t => lo ≤ idx ∧ idx + dlen ≤ n ∧ MatchesIn dlen n (idx + dlen) t

theorem MatchesIn.mono {dlen n lo lo' : Nat} {ms : List Nat} (h : lo' ≤ lo)
    (hm : MatchesIn dlen n lo ms) : MatchesIn dlen n lo' ms := by
  cases ms with
  | nil => trivial
  | cons idx t => exact ⟨Nat.le_trans h hm.1, hm.2⟩

/-- also for the empty needle (which matches at every position, `len` included) -/
theorem findIterAux_in (d : Bytes) :
    ∀ (l : Bytes) (skip pos : Nat), skip ≤ l.length →
      MatchesIn d.length (pos + l.length) (pos + skip) (findIterAux d skip pos l) := by
  intro l
  induction l with
  | nil =>
    intro skip pos hs
    simp only [findIterAux]
    split
    · rename_i hd
      have : d.length = 0 := by simpa using hd
      simp only [List.length_nil] at hs
      refine ⟨by omega, by simp [this], trivial⟩
    · trivial
  | cons c t ih =>
    intro skip pos hs
    simp only [List.length_cons] at hs
    cases skip with
    | succ k =>
      simp only [findIterAux]
      have := ih k (pos + 1) (by omega)
      simp only [List.length_cons]
      have e1 : pos + 1 + t.length = pos + (t.length + 1) := by omega
      have e2 : pos + 1 + k = pos + (k + 1) := by omega
      rw [e1, e2] at this; exact this
    | zero =>
      simp only [findIterAux]
      split
      · rename_i hpre
        have hp := List.isPrefixOf_iff_prefix.mp hpre
        have hdl : d.length ≤ t.length + 1 := by simpa using hp.length_le
        simp only [List.length_cons]
        by_cases hd0 : d.length = 0
        · have := ih 0 (pos + 1) (Nat.zero_le _)
          refine ⟨by omega, by omega, ?_⟩
          have e1 : pos + 1 + t.length = pos + (t.length + 1) := by omega
          rw [e1, hd0] at this
          rw [hd0]
          simp only [Nat.zero_sub, Nat.add_zero] at this ⊢
          exact this.mono (by omega)
        · have := ih (d.length - 1) (pos + 1) (by omega)
          refine ⟨by omega, by omega, ?_⟩
          have e1 : pos + 1 + t.length = pos + (t.length + 1) := by omega
          have e2 : pos + 1 + (d.length - 1) = pos + 0 + d.length := by omega
          rw [e1, e2] at this; exact this
      · have := ih 0 (pos + 1) (Nat.zero_le _)
        simp only [List.length_cons]
        have e1 : pos + 1 + t.length = pos + (t.length + 1) := by omega
        rw [e1] at this
        exact this.mono (by omega)

theorem findIter_in (d line : Bytes) : MatchesIn d.length line.length 0 (findIter d line) := by
  have := findIterAux_in d line 0 0 (Nat.zero_le _)
  simpa [findIter] using this

theorem rangesBetween_in (dlen n : Nat) :
    ∀ (ms : List Nat) (prev : Nat), MatchesIn dlen n prev ms → prev ≤ n →
      RangesIn n prev (rangesBetween dlen n prev ms) := by
  intro ms
  induction ms with
  | nil => intro prev _ hp; exact ⟨Nat.le_refl _, hp, Nat.le_refl _, trivial⟩
  | cons idx t ih =>
    intro prev hm hp
    obtain ⟨h1, h2, h3⟩ := hm
    have := ih (idx + dlen) h3 h2
    show prev ≤ prev ∧ prev ≤ idx ∧ idx ≤ n ∧ RangesIn n idx _
    exact ⟨Nat.le_refl _, h1, by omega, this.mono (by omega)⟩

theorem rangesBetweenGreedy_in (dlen n : Nat) :
    ∀ (ms : List Nat) (am : Bool) (prev : Nat), MatchesIn dlen n prev ms → prev ≤ n →
      RangesIn n prev (rangesBetweenGreedy dlen n am prev ms) := by
  intro ms
  induction ms with
  | nil => intro am prev _ hp; exact ⟨Nat.le_refl _, hp, Nat.le_refl _, trivial⟩
  | cons idx t ih =>
    intro am prev hm hp
    obtain ⟨h1, h2, h3⟩ := hm
    have := ih true (idx + dlen) h3 h2
    simp only [rangesBetweenGreedy]
    split
    · exact this.mono (by omega)
    · show prev ≤ prev ∧ prev ≤ idx ∧ idx ≤ n ∧ RangesIn n idx _
      exact ⟨Nat.le_refl _, h1, by omega, this.mono (by omega)⟩

theorem fillWithFieldsLocations_in (buf : List Range) (line d : Bytes) :
    RangesIn line.length 0 (fillWithFieldsLocations buf line d) := by
  unfold fillWithFieldsLocations
  split
  · trivial
  · exact rangesBetween_in _ _ _ 0 (findIter_in d line) (Nat.zero_le _)

theorem fillWithFieldsLocationsGreedy_in (buf : List Range) (line d : Bytes) :
    RangesIn line.length 0 (fillWithFieldsLocationsGreedy buf line d) := by
  unfold fillWithFieldsLocationsGreedy
  split
  · exact fillWithFieldsLocations_in buf line d
  · split
    · trivial
    · exact rangesBetweenGreedy_in _ _ _ false 0 (findIter_in d line) (Nat.zero_le _)

/-- the contract of `Regex::find_iter`: matches are reported in order, do not overlap and lie
    within the haystack -/
def SortedMatches (n : Nat) : Nat → List (Nat × Nat) → Prop
  | _, [] => True
  | lo, (s, e) :: t => lo ≤ s ∧ s ≤ e ∧ e ≤ n ∧ SortedMatches n e t

/-- a `RegexBag` whose two matchers honour the contract of `find_iter` on every haystack -/
def RegexBag.OK (bag : RegexBag) : Prop :=
  ∀ line : Bytes, SortedMatches line.length 0 (bag.normal line) ∧
    SortedMatches line.length 0 (bag.greedy line)

theorem rangesBetweenMatches_in (n : Nat) :
    ∀ (ms : List (Nat × Nat)) (prev : Nat), SortedMatches n prev ms → prev ≤ n →
      RangesIn n prev (rangesBetweenMatches n prev ms) := by
  intro ms
  induction ms with
  | nil => intro prev _ hp; exact ⟨Nat.le_refl _, hp, Nat.le_refl _, trivial⟩
  | cons m t ih =>
    intro prev hm hp
    obtain ⟨s, e⟩ := m
    obtain ⟨h1, h2, h3, h4⟩ := hm
    have := ih e h4 h3
    show prev ≤ prev ∧ prev ≤ s ∧ s ≤ n ∧ RangesIn n s _
    exact ⟨Nat.le_refl _, h1, by omega, this.mono (by omega)⟩

theorem fillWithFieldsLocationsUsingRegex_in (buf : List Range) (line : Bytes)
    (ms : List (Nat × Nat)) (h : SortedMatches line.length 0 ms) :
    RangesIn line.length 0 (fillWithFieldsLocationsUsingRegex buf line ms) := by
  unfold fillWithFieldsLocationsUsingRegex
  split
  · trivial
  · exact rangesBetweenMatches_in _ _ 0 h (Nat.zero_le _)

/-! ## bounds lists: `fromVec` is never handed a list without bound -/

/-- no bound of the list has the left index 0 (all the slicing needs; the parser never produces
    an index 0 on either side) -/
def LNZ (l : List BoF) : Prop := ∀ b, BoF.bound b ∈ l → b.l ≠ .some 0

theorem LNZ.of_nonzero {l : List BoF} (h : ∀ b, BoF.bound b ∈ l → b.Nonzero) : LNZ l := by
  intro b hb h0
  have := (h b hb).1
  rw [h0] at this
  exact this rfl

theorem LNZ.tail {x : BoF} {t : List BoF} (h : LNZ (x :: t)) : LNZ t :=
  fun b hb => h b (List.mem_cons_of_mem _ hb)

theorem mem_boundsOnly_t {l : List BoF} {b : UserBounds} : b ∈ boundsOnly l ↔ BoF.bound b ∈ l := by
  induction l with
  | nil => simp [boundsOnly]
  | cons x t ih =>
    cases x with
    | bound b' => simp [boundsOnly, ih]
    | filler f => simp [boundsOnly, ih]

theorem markLast_eq_none_iff : ∀ (l : List BoF), markLast l = none ↔ boundsOnly l = []
  | [] => by simp [markLast, boundsOnly]
  | .filler f :: t => by
    simp only [markLast, boundsOnly, Option.map_eq_none_iff]
    exact markLast_eq_none_iff t
  | .bound b :: t => by
    simp only [markLast, boundsOnly]
    cases markLast t <;> simp

/-- `markLast` only touches the `is_last` flag -/
theorem markLast_sides : ∀ (l l' : List BoF), markLast l = some l' →
    ∀ b, BoF.bound b ∈ l' → ∃ b0, BoF.bound b0 ∈ l ∧ b0.l = b.l ∧ b0.r = b.r
  | [], _, h => by simp [markLast] at h
  | .filler f :: t, l', h => by
    simp only [markLast, Option.map_eq_some_iff] at h
    obtain ⟨t', ht, rfl⟩ := h
    intro b hb
    simp only [List.mem_cons, reduceCtorEq, false_or] at hb
    obtain ⟨b0, h0, h1⟩ := markLast_sides t t' ht b hb
    exact ⟨b0, List.mem_cons_of_mem _ h0, h1⟩
  | .bound x :: t, l', h => by
    simp only [markLast] at h
    cases hm : markLast t with
    | none =>
      simp only [hm, Option.some.injEq] at h
      subst h
      intro b hb
      simp only [List.mem_cons, BoF.bound.injEq] at hb
      rcases hb with rfl | hb
      · exact ⟨x, by simp, rfl, rfl⟩
      · exact ⟨b, by simp [hb], rfl, rfl⟩
    | some t' =>
      simp only [hm, Option.some.injEq] at h
      subst h
      intro b hb
      simp only [List.mem_cons, BoF.bound.injEq] at hb
      rcases hb with rfl | hb
      · exact ⟨b, by simp, rfl, rfl⟩
      · obtain ⟨b0, h0, h1⟩ := markLast_sides t t' hm b hb
        exact ⟨b0, List.mem_cons_of_mem _ h0, h1⟩

theorem fromVec_ne_panic (l : List BoF) (h : boundsOnly l ≠ []) : fromVec l ≠ .panic := by
  unfold fromVec
  cases hm : markLast l with
  | none => exact absurd ((markLast_eq_none_iff l).1 hm) h
  | some l' => simp

theorem fromVec_sides (l : List BoF) (u : UserBoundsList) (h : fromVec l = .ok u) :
    ∀ b, BoF.bound b ∈ u.list → ∃ b0, BoF.bound b0 ∈ l ∧ b0.l = b.l ∧ b0.r = b.r := by
  unfold fromVec at h
  cases hm : markLast l with
  | none => simp [hm] at h
  | some l' =>
    simp only [hm, Res.ok.injEq] at h
    subst h
    exact markLast_sides l l' hm

theorem fromVec_lnz (l : List BoF) (u : UserBoundsList) (h : fromVec l = .ok u) (hl : LNZ l) :
    LNZ u.list := by
  intro b hb
  obtain ⟨b0, h0, h1, _⟩ := fromVec_sides l u h b hb
  rw [← h1]; exact hl b0 h0

theorem fromVec_ne_fail (l : List BoF) : fromVec l ≠ .fail := by
  unfold fromVec
  cases markLast l <;> simp

/-- `complement_std_range` produces ranges with a positive 1-based left index -/
theorem complementBof_lnz (n : Nat) (x : BoF) (hx : ∀ b, x = .bound b → b.l ≠ .some 0) :
    LNZ (complementBof n x) := by
  cases x with
  | filler f => intro b hb; simp [complementBof] at hb
  | bound b0 =>
    intro b hb
    unfold complementBof at hb
    cases hc : b0.complement n with
    | none =>
      simp only [hc, List.mem_singleton, BoF.bound.injEq] at hb
      subst hb
      exact hx b0 rfl
    | some bs =>
      simp only [hc, List.mem_map, BoF.bound.injEq, exists_eq_right] at hb
      unfold UserBounds.complement at hc
      simp only [Option.map_eq_some_iff] at hc
      obtain ⟨r, _, rfl⟩ := hc
      simp only [List.mem_map] at hb
      obtain ⟨q, _, rfl⟩ := hb
      simp only [UserBounds.ofRange, ne_eq, Side.some.injEq]
      omega

theorem flatMap_lnz (f : BoF → List BoF) (l : List BoF)
    (h : ∀ x ∈ l, LNZ (f x)) : LNZ (l.flatMap f) := by
  intro b hb
  simp only [List.mem_flatMap] at hb
  obtain ⟨x, hx, hbx⟩ := hb
  exact h x hx b hbx

theorem complementList_ok (l : List BoF) (n : Nat) (hl : LNZ l) :
    complementList l n ≠ .panic ∧ ∀ u, complementList l n = .ok u → LNZ u.list := by
  unfold complementList
  simp only
  split
  · exact ⟨by simp, by intro u h; cases h⟩
  · rename_i hne
    refine ⟨fromVec_ne_panic _ (by simpa using hne), ?_⟩
    intro u hu
    refine fromVec_lnz _ u hu (flatMap_lnz _ _ ?_)
    intro x hx
    exact complementBof_lnz n x (fun b hb => hl b (hb ▸ hx))

theorem unpackBof_lnz (n : Nat) (x : BoF) (hx : ∀ b, x = .bound b → b.l ≠ .some 0) :
    LNZ (unpackBof n x) := by
  cases x with
  | filler f => intro b hb; simp [unpackBof] at hb
  | bound b0 =>
    intro b hb
    simp only [unpackBof, List.mem_map, BoF.bound.injEq, exists_eq_right] at hb
    unfold UserBounds.unpack at hb
    split at hb
    · simp only [List.mem_map, List.mem_range] at hb
      obtain ⟨i, _, rfl⟩ := hb
      simp only [UserBounds.single, ne_eq, Side.some.injEq]
      omega
    · simp only [List.mem_singleton] at hb
      subst hb
      exact hx b0 rfl

/-- a bound with a non-zero left index unpacks to at least one bound -/
theorem unpack_ne_nil (b : UserBounds) (n : Nat) (hz : b.l ≠ .some 0) : b.unpack n ≠ [] := by
  unfold UserBounds.unpack
  cases hr : b.tryIntoRange n with
  | none => simp
  | some p =>
    obtain ⟨s, e⟩ := p
    have := tryIntoRange_bounds b n s e hz hr
    simp only [ne_eq, List.map_eq_nil_iff, List.range_eq_nil]
    omega

theorem boundsOnly_flatMap_unpack_ne_nil (l : List BoF) (n : Nat) (hl : LNZ l)
    (h : boundsOnly l ≠ []) : boundsOnly (l.flatMap (unpackBof n)) ≠ [] := by
  cases hb : boundsOnly l with
  | nil => exact absurd hb h
  | cons b _ =>
    have hmem : BoF.bound b ∈ l := mem_boundsOnly_t.1 (by rw [hb]; simp)
    have hne := unpack_ne_nil b n (hl b hmem)
    cases hu : b.unpack n with
    | nil => exact absurd hu hne
    | cons u _ =>
      have : BoF.bound u ∈ l.flatMap (unpackBof n) := by
        simp only [List.mem_flatMap]
        exact ⟨.bound b, hmem, by simp [unpackBof, hu]⟩
      intro hnil
      have := mem_boundsOnly_t.2 this
      rw [hnil] at this
      simp at this

theorem unpackList_ok (l : List BoF) (n : Nat) (hl : LNZ l) (h : boundsOnly l ≠ []) :
    unpackList l n ≠ .panic ∧ unpackList l n ≠ .fail ∧
      ∀ u, unpackList l n = .ok u → LNZ u.list := by
  unfold unpackList
  refine ⟨fromVec_ne_panic _ (boundsOnly_flatMap_unpack_ne_nil l n hl h), fromVec_ne_fail _, ?_⟩
  intro u hu
  refine fromVec_lnz _ u hu (flatMap_lnz _ _ ?_)
  intro x hx
  exact unpackBof_lnz n x (fun b hb => hl b (hb ▸ hx))

theorem boundsOnly_ne_nil_of_any_needsUnpack (l : List BoF) (h : l.any needsUnpack = true) :
    boundsOnly l ≠ [] := by
  simp only [List.any_eq_true] at h
  obtain ⟨x, hx, hn⟩ := h
  cases x with
  | filler f => simp [needsUnpack] at hn
  | bound b =>
    intro hnil
    have := mem_boundsOnly_t.2 hx
    rw [hnil] at this
    simp at this

/-! ## the general engine -/

theorem outputBof_safe (line : Bytes) (fields : List Range) (opt : Opt) (cwr : Bool) (x : BoF)
    (hf : RangesIn line.length 0 fields) (hx : ∀ b, x = .bound b → b.l ≠ .some 0) :
    (outputBof line fields fields.length opt cwr x).Safe := by
  cases x with
  | filler f => exact Run.safe_ok _
  | bound b =>
    have hj : (if opt.join && !b.isLast then Run.ok (opt.replaceDelimiter.getD opt.delimiter)
        else Run.empty).Safe := by
      split
      · exact Run.safe_ok _
      · exact Run.safe_empty
    simp only [outputBof]
    cases hr : b.tryIntoRange fields.length with
    | some p =>
      obtain ⟨s, e⟩ := p
      have hb := tryIntoRange_bounds b fields.length s e (hx b rfl) hr
      have hs : s < fields.length := by omega
      have he : e - 1 < fields.length := by omega
      simp only [List.getElem?_eq_getElem hs, List.getElem?_eq_getElem he]
      have := hf.getElem s (e - 1) (by omega) he
      rw [if_pos ⟨this.2.1, this.2.2⟩]
      exact (writeMaybeAsJson_safe _ _).seq hj
    | none =>
      simp only
      cases b.fallback with
      | some f => exact (writeMaybeAsJson_safe _ _).seq hj
      | none =>
        cases opt.fallbackOob with
        | some f => exact (writeMaybeAsJson_safe _ _).seq hj
        | none => exact Run.safe_fail

theorem outputLoop_safe (line : Bytes) (fields : List Range) (opt : Opt) (cwr : Bool)
    (hf : RangesIn line.length 0 fields) (l : List BoF) (hl : LNZ l) :
    (outputLoop line fields fields.length opt cwr l).Safe := by
  induction l with
  | nil => exact Run.safe_empty
  | cons x t ih =>
    simp only [outputLoop]
    exact (outputBof_safe line fields opt cwr x hf (fun b hb => hl b (by simp [hb]))).seq
      (ih hl.tail)

theorem emitRecord_safe (line : Bytes) (fields : List Range) (opt : Opt) (cwr : Bool) (eol : Bytes)
    (hf : RangesIn line.length 0 fields) (hl : LNZ opt.bounds.list) :
    (emitRecord line fields opt cwr eol).Safe := by
  unfold emitRecord
  simp only
  split
  · exact Run.safe_empty
  · have hopen : (if opt.json then Run.ok [0x5B] else Run.empty).Safe := by
      split
      · exact Run.safe_ok _
      · exact Run.safe_empty
    have hclose : (if opt.json then Run.ok [0x5D] else Run.empty).Safe := by
      split
      · exact Run.safe_ok _
      · exact Run.safe_empty
    refine hopen.seq ?_
    -- what is in force after the complement step
    have hcomp : (if opt.complement then complementList opt.bounds.list fields.length
          else Res.ok opt.bounds) ≠ .panic ∧
        ∀ u, (if opt.complement then complementList opt.bounds.list fields.length
          else Res.ok opt.bounds) = .ok u → LNZ u.list := by
      split
      · exact complementList_ok _ _ hl
      · exact ⟨by simp, by intro u hu; cases hu; exact hl⟩
    generalize (if opt.complement then complementList opt.bounds.list fields.length
          else Res.ok opt.bounds) = ac at hcomp
    cases ac with
    | fail => exact Run.safe_fail
    | panic => exact absurd rfl hcomp.1
    | ok bounds =>
      have hb := hcomp.2 bounds rfl
      simp only
      have hunp : (if (opt.json || (opt.boundsType = .characters && opt.replaceDelimiter.isSome))
              && bounds.list.any needsUnpack
            then unpackList bounds.list fields.length else Res.ok bounds) ≠ .panic ∧
          ∀ u, (if (opt.json || (opt.boundsType = .characters && opt.replaceDelimiter.isSome))
              && bounds.list.any needsUnpack
            then unpackList bounds.list fields.length else Res.ok bounds) = .ok u → LNZ u.list := by
        split
        · rename_i hc
          simp only [Bool.and_eq_true] at hc
          have := unpackList_ok bounds.list fields.length hb
            (boundsOnly_ne_nil_of_any_needsUnpack _ hc.2)
          exact ⟨this.1, this.2.2⟩
        · exact ⟨by simp, by intro u hu; cases hu; exact hb⟩
      generalize (if (opt.json || (opt.boundsType = .characters && opt.replaceDelimiter.isSome))
              && bounds.list.any needsUnpack
            then unpackList bounds.list fields.length else Res.ok bounds) = un at hunp
      cases un with
      | fail => exact Run.safe_fail
      | panic => exact absurd rfl hunp.1
      | ok bounds' =>
        exact ((outputLoop_safe line fields opt cwr hf _ (hunp.2 bounds' rfl)).seq hclose).seq
          (Run.safe_ok _)

/-- the line after the trim pass of `cut_str` -/
def trimOf (opt : Opt) (line : Bytes) : Bytes :=
  match opt.trim with
  | some kind =>
    match opt.regexBag with
    | some bag => trimRegex line kind (bag.greedy line)
    | none => trimLiteral line kind opt.delimiter
  | none => line

/-- the ranges `cut_str` leaves in `fields` for the (trimmed, maybe compressed) line -/
def engineFields (opt : Opt) (line delimiter : Bytes) (useRegex : Bool) : List Range :=
  let fields : List Range :=
    match useRegex, opt.regexBag with
    | true, some bag =>
      fillWithFieldsLocationsUsingRegex [] line
        ((if opt.greedyDelimiter then bag.greedy else bag.normal) line)
    | _, _ =>
      if opt.greedyDelimiter then fillWithFieldsLocationsGreedy [] line delimiter
      else fillWithFieldsLocations [] line delimiter
  if opt.boundsType = .characters && fields.length > 2 then fields.dropLast.drop 1 else fields

/-- `cut_str` after its two up-front tests and the trim pass -/
def afterTrim (line : Bytes) (opt : Opt) (eol : Bytes) : Run × Option (List Range) × Option Bytes :=
  if line.isEmpty then
    ((if !opt.onlyDelimited then Run.ok eol else Run.empty), none, none)
  else
    let shouldCompress :=
      opt.compressDelimiter && (opt.boundsType = .fields || opt.boundsType = .lines)
    let st : Option (Bytes × Bytes × Bool × Option Bytes × Bool) :=
      if shouldCompress then
        match opt.regexBag with
        | some bag =>
          match opt.replaceDelimiter with
          | some nd => some (replaceMatches line nd 0 (bag.greedy line), nd, false, none, true)
          | none => none
        | none =>
          let c := compressDelimiter line opt.delimiter []
          some (c, opt.delimiter, false, some c, false)
      else some (line, opt.delimiter, opt.regexBag.isSome, none, false)
    match st with
    | none => (Run.panic, none, none)
    | some (line, delimiter, useRegex, buf, compressedWithRegex) =>
      (emitRecord line (engineFields opt line delimiter useRegex) opt compressedWithRegex eol,
        some (engineFields opt line delimiter useRegex), buf)

theorem cutStrCore_eq (line : Bytes) (opt : Opt) (eol : Bytes) :
    cutStrCore line opt eol =
      if opt.regexBag.isSome && opt.compressDelimiter && opt.replaceDelimiter.isNone then
        (Run.fail, none, none)
      else if opt.regexBag.isSome && opt.join && opt.replaceDelimiter.isNone then
        (Run.fail, none, none)
      else afterTrim (trimOf opt line) opt eol := rfl

theorem engineFields_in (opt : Opt) (hbag : ∀ bag, opt.regexBag = some bag → bag.OK)
    (line delimiter : Bytes) (useRegex : Bool) :
    RangesIn line.length 0 (engineFields opt line delimiter useRegex) := by
  have h : RangesIn line.length 0
      (match useRegex, opt.regexBag with
        | true, some bag =>
          fillWithFieldsLocationsUsingRegex [] line
            ((if opt.greedyDelimiter then bag.greedy else bag.normal) line)
        | _, _ =>
          if opt.greedyDelimiter then fillWithFieldsLocationsGreedy [] line delimiter
          else fillWithFieldsLocations [] line delimiter) := by
    split
    · rename_i bag hre
      apply fillWithFieldsLocationsUsingRegex_in
      split
      · exact (hbag bag hre line).2
      · exact (hbag bag hre line).1
    · split
      · exact fillWithFieldsLocationsGreedy_in _ _ _
      · exact fillWithFieldsLocations_in _ _ _
  have key : ∀ fs : List Range, RangesIn line.length 0 fs →
      RangesIn line.length 0
        (if opt.boundsType = .characters && fs.length > 2 then fs.dropLast.drop 1 else fs) := by
    intro fs hfs
    split
    · exact hfs.dropLast.drop_one
    · exact hfs
  exact key _ h

theorem afterTrim_safe (line : Bytes) (opt : Opt) (eol : Bytes)
    (hbag : ∀ bag, opt.regexBag = some bag → bag.OK) (hl : LNZ opt.bounds.list)
    (hc1 : ¬ (opt.regexBag.isSome && opt.compressDelimiter && opt.replaceDelimiter.isNone) = true) :
    (afterTrim line opt eol).1.Safe := by
  unfold afterTrim
  split
  · simp only
    split
    · exact Run.safe_ok _
    · exact Run.safe_empty
  · simp only
    by_cases hsc : (opt.compressDelimiter &&
        (decide (opt.boundsType = .fields) || decide (opt.boundsType = .lines))) = true
    · rw [if_pos hsc]
      cases hre : opt.regexBag with
      | none =>
        simp only
        exact emitRecord_safe _ _ opt _ eol (engineFields_in opt hbag _ _ _) hl
      | some bag =>
        cases hrd : opt.replaceDelimiter with
        | none =>
          exfalso
          apply hc1
          simp only [Bool.and_eq_true] at hsc
          simp [hre, hrd, hsc.1]
        | some nd =>
          simp only
          exact emitRecord_safe _ _ opt _ eol (engineFields_in opt hbag _ _ _) hl
    · rw [if_neg hsc]
      simp only
      exact emitRecord_safe _ _ opt _ eol (engineFields_in opt hbag _ _ _) hl

/-- **`cut_str` never panics**: any line, any option set; a regex delimiter only has to honour the
    contract of `find_iter`.  (The `unwrap()` of the replacement after a regex compress is excluded
    by the first test of the function.) -/
theorem cutStrCore_safe (line : Bytes) (opt : Opt) (eol : Bytes)
    (hbag : ∀ bag, opt.regexBag = some bag → bag.OK) (hl : LNZ opt.bounds.list) :
    (cutStrCore line opt eol).1.Safe := by
  rw [cutStrCore_eq]
  split
  · exact Run.safe_fail
  · rename_i hc1
    split
    · exact Run.safe_fail
    · exact afterTrim_safe _ opt eol hbag hl hc1

theorem cutStr_safe (line : Bytes) (opt : Opt) (f₀ : List Range) (b₀ eol : Bytes)
    (hbag : ∀ bag, opt.regexBag = some bag → bag.OK) (hl : LNZ opt.bounds.list) :
    (cutStr line opt f₀ b₀ eol).1.Safe := cutStrCore_safe line opt eol hbag hl

theorem cutRecords_safe (opt : Opt) (hbag : ∀ bag, opt.regexBag = some bag → bag.OK)
    (hl : LNZ opt.bounds.list) (recs : List Bytes) :
    ∀ (f₀ : List Range) (b₀ : Bytes), (cutRecords opt recs f₀ b₀).Safe := by
  induction recs with
  | nil => intro _ _; exact Run.safe_empty
  | cons r t ih =>
    intro f₀ b₀
    simp only [cutRecords]
    exact (cutStr_safe r opt f₀ b₀ _ hbag hl).seq (ih _ _)

/-- **the general engine never panics** -/
theorem readAndCutStr_safe (opt : Opt) (hbag : ∀ bag, opt.regexBag = some bag → bag.OK)
    (hl : LNZ opt.bounds.list) (input : Bytes) : (readAndCutStr opt input).Safe :=
  cutRecords_safe opt hbag hl _ _ _

/-! ## line mode -/

theorem fwdEnd_safe (o : Opt) : ∀ (rest : List BoF) (a : Bool), (fwdEnd o rest a).Safe
  | [], _ => Run.safe_ok _
  | .filler f :: t, a => by
    simp only [fwdEnd]; exact (fwdEnd_safe o t a).pre
  | .bound b :: t, a => by
    simp only [fwdEnd]
    split
    · split
      · exact Run.safe_fail
      · exact (fwdEnd_safe o t false).pre
    · cases b.fallback with
      | some f => exact (fwdEnd_safe o t false).pre
      | none =>
        cases o.fallbackOob with
        | some f => exact (fwdEnd_safe o t false).pre
        | none => exact Run.safe_fail

/-- the one-line-at-a-time path has no panic site at all -/
theorem fwdLines_safe (o : Opt) : ∀ (ls : List Bytes) (idx : Int) (rest : List BoF) (a : Bool),
    (fwdLines o ls idx rest a).Safe
  | [], _, rest, a => fwdEnd_safe o rest a
  | line :: t, idx, rest, a => by
    simp only [fwdLines]
    split
    · exact Run.safe_fail
    · split
      · exact Run.safe_ok _
      · exact (fwdLines_safe o t _ _ _).pre

theorem cutLinesForwardOnly_safe (o : Opt) (input : Bytes) : (cutLinesForwardOnly o input).Safe :=
  fwdLines_safe o _ _ _ _

theorem cutLines_safe (o : Opt) (hbag : ∀ bag, o.regexBag = some bag → bag.OK)
    (hl : LNZ o.bounds.list) (input : Bytes) : (cutLines o input).Safe := by
  unfold cutLines
  split
  · exact Run.safe_fail
  · exact cutStr_safe _ o _ _ _ hbag hl

/-- **line mode never panics** -/
theorem readAndCutLines_safe (o : Opt) (hbag : ∀ bag, o.regexBag = some bag → bag.OK)
    (hl : LNZ o.bounds.list) (input : Bytes) : (readAndCutLines o input).Safe := by
  unfold readAndCutLines
  split
  · exact cutLinesForwardOnly_safe o input
  · exact cutLines_safe o hbag hl input

/-! ## byte mode -/

theorem cutBytesLoop_safe (data : Bytes) (o : Opt) (l : List BoF) (hl : LNZ l) :
    (cutBytesLoop data o l).Safe := by
  induction l with
  | nil => exact Run.safe_empty
  | cons x t ih =>
    have iht := ih hl.tail
    cases x with
    | filler f => simp only [cutBytesLoop]; exact iht.pre
    | bound b =>
      simp only [cutBytesLoop]
      cases hr : b.tryIntoRange data.length with
      | some p =>
        obtain ⟨s, e⟩ := p
        have hb := tryIntoRange_bounds b data.length s e (hl b (by simp)) hr
        have : s ≤ e ∧ e ≤ data.length := ⟨by omega, hb.2⟩
        simp only [this, and_self, if_true]
        exact iht.pre
      | none =>
        simp only
        cases b.fallback with
        | some f => exact iht.pre
        | none =>
          cases o.fallbackOob with
          | some f => exact iht.pre
          | none => exact Run.safe_fail

/-- **byte mode never panics** -/
theorem readAndCutBytes_safe (o : Opt) (hl : LNZ o.bounds.list) (data : Bytes) :
    (readAndCutBytes o data).Safe := by
  unfold readAndCutBytes
  split
  · exact Run.safe_empty
  · exact cutBytesLoop_safe data o _ hl

/-! ## `-M`: the chunk machine -/

/-- no written index is negative (what `ForwardBounds::try_from` checks first) -/
def NoNeg (l : List BoF) : Prop := ∀ b, BoF.bound b ∈ l → b.l.isNeg = false ∧ b.r.isNeg = false

theorem oppSign_false (v idx : Int) (hv : ¬ v < 0) (hidx : 1 ≤ idx) : oppSign v idx = false := by
  simp only [oppSign, Bool.or_eq_false_iff, Bool.and_eq_false_iff, decide_eq_false_iff_not]
  omega

/-- `matches` fails (the `unwrap()` in `print_bof`) only on a sign mismatch -/
theorem matches_isSome (b : UserBounds) (idx : Int) (hidx : 1 ≤ idx)
    (hb : b.l.isNeg = false ∧ b.r.isNeg = false) : ∃ m, b.matches idx = some m := by
  obtain ⟨h1, h2⟩ := hb
  unfold UserBounds.matches
  cases hl : b.l with
  | cont =>
    cases hr : b.r with
    | cont => simp
    | some r =>
      rw [hr] at h2
      simp only [Side.isNeg, decide_eq_false_iff_not] at h2
      simp [oppSign_false r idx h2 hidx]
  | some l =>
    rw [hl] at h1
    simp only [Side.isNeg, decide_eq_false_iff_not] at h1
    cases hr : b.r with
    | cont => simp [oppSign_false l idx h1 hidx]
    | some r =>
      rw [hr] at h2
      simp only [Side.isNeg, decide_eq_false_iff_not] at h2
      simp [oppSign_false l idx h1 hidx, oppSign_false r idx h2 hidx]

theorem printBof_isSome (o : StreamOpt) (hb : NoNeg o.bounds) (bofIdx : Nat) (cf : Int)
    (hcf : 1 ≤ cf) (tr : Bool) (p : Bytes) (fc : Bool) :
    ∃ w i, printBof o bofIdx cf tr p fc = some (w, i) := by
  unfold printBof
  split
  rename_i w0 i _
  simp only
  cases hi : o.bounds[i]? with
  | none => exact ⟨_, _, rfl⟩
  | some x =>
    cases x with
    | filler f => exact ⟨_, _, rfl⟩
    | bound b =>
      have hmem : BoF.bound b ∈ o.bounds := List.mem_of_getElem? hi
      obtain ⟨m, hm⟩ := matches_isSome b cf hcf (hb b hmem)
      simp only [hm]
      cases m with
      | false => exact ⟨_, _, rfl⟩
      | true =>
        simp only
        split
        · exact ⟨_, _, rfl⟩
        · exact ⟨_, _, rfl⟩

theorem printFillerOrFallbacks_safe (o : StreamOpt) (n : Int) (hn : 1 ≤ n) :
    ∀ (l : List BoF), NoNeg l → (printFillerOrFallbacks o n l).Safe
  | [], _ => Run.safe_empty
  | .filler f :: t, h => by
    simp only [printFillerOrFallbacks]
    exact (Run.safe_ok _).seq
      (printFillerOrFallbacks_safe o n hn t (fun b hb => h b (List.mem_cons_of_mem _ hb)))
  | .bound b :: t, h => by
    have iht := printFillerOrFallbacks_safe o n hn t (fun b hb => h b (List.mem_cons_of_mem _ hb))
    obtain ⟨m, hm⟩ := matches_isSome b n hn (h b (by simp))
    simp only [printFillerOrFallbacks, hm]
    split
    · exact iht
    · cases b.fallback with
      | some f => exact (Run.safe_ok _).seq iht
      | none =>
        cases o.fallbackOob with
        | some f => exact (Run.safe_ok _).seq iht
        | none => exact Run.safe_fail

theorem NoNeg.drop {l : List BoF} (h : NoNeg l) (i : Nat) : NoNeg (l.drop i) :=
  fun b hb => h b (List.mem_of_mem_drop hb)

theorem endOfRecord_safe (o : StreamOpt) (hb : NoNeg o.bounds) (st : SState)
    (hcf : 1 ≤ st.currField) : (endOfRecord o st).Safe := by
  unfold endOfRecord
  obtain ⟨w, i, h⟩ := printBof_isSome o hb st.bofIdx st.currField hcf st.trunc st.piece true
  simp only [h]
  exact (Run.safe_ok _).seq
    ((printFillerOrFallbacks_safe o _ hcf _ (hb.drop i)).seq (Run.safe_ok _))

/-- one step: what is written is no panic, and `curr_field ≥ 1` is kept -/
theorem streamStep_safe (o : StreamOpt) (hb : NoNeg o.bounds) (st : SState)
    (hcf : 1 ≤ st.currField) (c : UInt8) (last : Bool) :
    (streamStep o st c last).1.Safe ∧ 1 ≤ (streamStep o st c last).2.currField := by
  unfold streamStep
  split
  · split
    · exact ⟨Run.safe_ok _, Int.le_refl 1⟩
    · exact ⟨Run.safe_empty, hcf⟩
  · split
    · split
      · exact ⟨Run.safe_ok _, Int.le_refl 1⟩
      · exact ⟨endOfRecord_safe o hb st hcf, Int.le_refl 1⟩
    · split
      · obtain ⟨w, i, h⟩ := printBof_isSome o hb st.bofIdx st.currField hcf st.trunc st.piece true
        simp only [h]
        split
        · exact ⟨(Run.safe_ok _).seq (printFillerOrFallbacks_safe o _ hcf _ (hb.drop i)), hcf⟩
        · refine ⟨Run.safe_ok _, ?_⟩
          simp only
          omega
      · simp only
        split
        · obtain ⟨w, i, h⟩ :=
            printBof_isSome o hb st.bofIdx st.currField hcf st.trunc (st.piece ++ [c]) false
          simp only [h]
          exact ⟨Run.safe_ok _, hcf⟩
        · exact ⟨Run.safe_empty, hcf⟩

theorem streamEof_safe (o : StreamOpt) (hb : NoNeg o.bounds) (st : SState)
    (hcf : 1 ≤ st.currField) : (streamEof o st).Safe := by
  unfold streamEof
  split
  · exact Run.safe_empty
  · split
    · exact Run.safe_ok _
    · split
      · exact endOfRecord_safe o hb st hcf
      · obtain ⟨w, i, h⟩ := printBof_isSome o hb st.bofIdx st.currField hcf st.trunc st.piece false
        simp only [h]
        exact (Run.safe_ok _).seq (endOfRecord_safe o hb _ hcf)

theorem streamRun_safe (o : StreamOpt) (hb : NoNeg o.bounds) :
    ∀ (l : List (UInt8 × Bool)) (st : SState), 1 ≤ st.currField → (streamRun o st l).Safe
  | [], st, h => streamEof_safe o hb st h
  | (c, last) :: t, st, h => by
    simp only [streamRun]
    have := streamStep_safe o hb st h c last
    exact this.1.seq (streamRun_safe o hb t _ this.2)

theorem isForwardOnly_noNeg (l : List BoF) (h : isForwardOnly l = true) : NoNeg l := by
  unfold isForwardOnly at h
  simp only [Bool.and_eq_true, Bool.not_eq_true'] at h
  have hn := h.2
  unfold hasNegativeIndices at hn
  intro b hb
  have := List.any_eq_false.1 hn b (mem_boundsOnly_t.2 hb)
  simpa using this

theorem forwardBoundsOf_noNeg (l : UserBoundsList) (bs : List BoF)
    (h : forwardBoundsOf l = some bs) : NoNeg bs := by
  unfold forwardBoundsOf at h
  split at h
  · simp at h
  · split at h
    · rename_i hfw
      split at h
      · split at h
        · rename_i l' hl'
          simp only [Option.some.injEq] at h
          subst h
          intro b hb
          obtain ⟨b0, h0, h1, h2⟩ := fromVec_sides _ _ hl' b hb
          rw [← h1, ← h2]
          exact isForwardOnly_noNeg _ hfw b0 h0
        · simp at h
      · simp at h
    · simp at h

theorem streamOptOf_forward (o : Opt) (so : StreamOpt) (h : streamOptOf o = some so) :
    forwardBoundsOf o.bounds = some so.bounds := by
  unfold streamOptOf at h
  split at h
  · simp only at h
    split at h
    · simp at h
    · split at h
      · simp at h
      · split at h
        · simp at h
        · rename_i bs hbs
          split at h
          · simp at h
          · simp only [Option.some.injEq] at h
            subst h
            exact hbs
  · simp at h

/-- **`-M` never panics**: whatever `StreamOpt::try_from` accepts, every segmentation of every
    input.  (No hypothesis on the bounds: `ForwardBounds::try_from` has refused negative indexes,
    and `curr_field ≥ 1` is an invariant of the machine, so `matches(..).unwrap()` cannot fail.) -/
theorem cutBytesStream_safe (o : Opt) (so : StreamOpt) (h : streamOptOf o = some so)
    (segs : List Bytes) : (cutBytesStream so segs).Safe :=
  streamRun_safe so (forwardBoundsOf_noNeg _ _ (streamOptOf_forward o so h)) _ _ (by decide)

/-! ## `main`: a write fault never produces a panic -/

theorem deliver_safe (r : Run) (lim : Option Nat) (h : r.Safe) : (deliver r lim).Safe := by
  unfold deliver
  cases lim with
  | none => exact h
  | some k =>
    simp only
    split
    · exact h
    · rcases h with h | h
      · exact Or.inr (by simp [h])
      · exact Or.inr (by simp [h])

end Tuc
