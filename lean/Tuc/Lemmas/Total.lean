import Tuc.Model.Args
import Tuc.Lemmas.Run
import Tuc.Lemmas.Bounds
/-!
# Tuc.Lemmas.Total — panic-freedom of the engines (property C12)

Every Rust site that can panic is a checked operation of the model that yields `Status.panic`.
This file proves, engine by engine, that these outcomes are unreachable:

* `Run.Safe r` — the run ended with status `ok` or `fail` (neither `panic` nor `hang`);
* `RangesIn n lo rs` — what the three splitters guarantee about the ranges they fill `fields`
  with, for **every** delimiter (the empty one included) and, for regex delimiters, under the
  contract of `find_iter` (`SortedMatches`: matches sorted, non-overlapping, within the line);
  it is what makes `line[fields[s].start .. fields[e-1].end]` in range;
* `LNZ l` — no bound of the list has the left index 0 (the parser never produces one); preserved
  by `complement` and `unpack`, which are also shown never to hand `fromVec` a list without bound.
-/
namespace Tuc

/-! ## runs that end with exit status 0 or 1 -/

/-- the run ended with exit status 0 or 1: no panic, no endless loop -/
def Run.Safe (r : Run) : Prop := r.status = .ok ∨ r.status = .fail

theorem Run.Safe.ne_panic {r : Run} (h : r.Safe) : r.status ≠ .panic := by
  rcases h with h | h <;> rw [h] <;> simp

theorem Run.Safe.ne_hang {r : Run} (h : r.Safe) : r.status ≠ .hang := by
  rcases h with h | h <;> rw [h] <;> simp

theorem Run.safe_ok (w : Bytes) : (Run.ok w).Safe := Or.inl rfl
theorem Run.safe_empty : Run.empty.Safe := Or.inl rfl
theorem Run.safe_fail : Run.fail.Safe := Or.inr rfl

theorem Run.Safe.pre {w : Bytes} {r : Run} (h : r.Safe) : (Run.pre w r).Safe := h

theorem Run.Safe.seq {a b : Run} (ha : a.Safe) (hb : b.Safe) : (a.seq b).Safe := by
  obtain ⟨ao, as⟩ := a
  rcases ha with ha | ha
  · simp only at ha; subst ha; exact hb
  · simp only at ha; subst ha; exact Or.inr rfl

theorem writeMaybeAsJson_safe (w : Bytes) (j : Bool) : (writeMaybeAsJson w j).Safe := by
  unfold writeMaybeAsJson
  cases j
  · exact Run.safe_ok _
  · simp only [if_true]
    split
    · exact Run.safe_ok _
    · exact Run.safe_fail

/-! ## the ranges the splitters produce lie inside the line, in order -/

/-- every range is `lo ≤ start ≤ stop ≤ n`, and the next one starts at or after its stop -/
def RangesIn (n : Nat) : Nat → List Range → Prop
  | _, [] => True
  | lo, r :: t => lo ≤ r.start ∧ r.start ≤ r.stop ∧ r.stop ≤ n ∧ RangesIn n r.stop t

theorem RangesIn.mono {n lo lo' : Nat} {rs : List Range} (h : lo' ≤ lo) (hr : RangesIn n lo rs) :
    RangesIn n lo' rs := by
  cases rs with
  | nil => trivial
  | cons r t => exact ⟨Nat.le_trans h hr.1, hr.2⟩

/-- by index: this is `fields[s].start ≤ fields[e-1].end ≤ line.len()` of the Rust slicing -/
theorem RangesIn.getElem {n : Nat} :
    ∀ {rs : List Range} {lo : Nat}, RangesIn n lo rs →
      ∀ (i j : Nat) (_ : i ≤ j) (hj : j < rs.length),
        lo ≤ rs[i].start ∧ rs[i].start ≤ rs[j].stop ∧ rs[j].stop ≤ n
  | [], _, _, _, _, _, hj => by simp at hj
  | r :: t, lo, h, i, j, hij, hj => by
    obtain ⟨h1, h2, h3, h4⟩ := h
    cases j with
    | zero =>
      have : i = 0 := by omega
      subst this
      simp only [List.getElem_cons_zero]; omega
    | succ j' =>
      cases i with
      | zero =>
        have := RangesIn.getElem h4 j' j' (Nat.le_refl _) (by simpa using hj)
        simp only [List.getElem_cons_zero, List.getElem_cons_succ]; omega
      | succ i' =>
        have := RangesIn.getElem h4 i' j' (by omega) (by simpa using hj)
        simp only [List.getElem_cons_succ]; omega

theorem RangesIn.dropLast {n : Nat} :
    ∀ {rs : List Range} {lo : Nat}, RangesIn n lo rs → RangesIn n lo rs.dropLast
  | [], _, _ => trivial
  | [_], _, _ => trivial
  | _ :: r' :: t, _, h => ⟨h.1, h.2.1, h.2.2.1, RangesIn.dropLast (rs := r' :: t) h.2.2.2⟩

theorem RangesIn.drop_one {n lo : Nat} {rs : List Range} (h : RangesIn n lo rs) :
    RangesIn n 0 (rs.drop 1) := by
  cases rs with
  | nil => trivial
  | cons r t => exact h.2.2.2.mono (Nat.zero_le _)

/-- what `find_iter` guarantees, as far as slicing is concerned: the offsets go up by at least the
    width of the needle and a needle fits at each of them -/
def MatchesIn (dlen n : Nat) : Nat → List Nat → Prop
  | _, [] => True
  | lo, idx :: t => lo ≤ idx ∧ idx + dlen ≤ n ∧ MatchesIn dlen n (idx + dlen) t

theorem MatchesIn.mono {dlen n lo lo' : Nat} {ms : List Nat} (h : lo' ≤ lo)
    (hm : MatchesIn dlen n lo ms) : MatchesIn dlen n lo' ms := by
  cases ms with
  | nil => trivial
  | cons idx t => exact ⟨Nat.le_trans h hm.1, hm.2⟩

/-- also for the empty needle (which matches at every position, `len` included) -/
theorem findIterAux_in (d : Bytes) :
    ∀ (l : Bytes) (skip pos : Nat), skip ≤ l.length →
      MatchesIn d.length (pos + l.length) (pos + skip) (findIterAux d skip pos l) := by
  intro l
  induction l with
  | nil =>
    intro skip pos hs
    simp only [findIterAux]
    split
    · rename_i hd
      have : d.length = 0 := by simpa using hd
      simp only [List.length_nil] at hs
      refine ⟨by omega, by simp [this], trivial⟩
    · trivial
  | cons c t ih =>
    intro skip pos hs
    simp only [List.length_cons] at hs
    cases skip with
    | succ k =>
      simp only [findIterAux]
      have := ih k (pos + 1) (by omega)
      simp only [List.length_cons]
      have e1 : pos + 1 + t.length = pos + (t.length + 1) := by omega
      have e2 : pos + 1 + k = pos + (k + 1) := by omega
      rw [e1, e2] at this; exact this
    | zero =>
      simp only [findIterAux]
      split
      · rename_i hpre
        have hp := List.isPrefixOf_iff_prefix.mp hpre
        have hdl : d.length ≤ t.length + 1 := by simpa using hp.length_le
        simp only [List.length_cons]
        by_cases hd0 : d.length = 0
        · have := ih 0 (pos + 1) (Nat.zero_le _)
          refine ⟨by omega, by omega, ?_⟩
          have e1 : pos + 1 + t.length = pos + (t.length + 1) := by omega
          rw [e1, hd0] at this
          rw [hd0]
          simp only [Nat.zero_sub, Nat.add_zero] at this ⊢
          exact this.mono (by omega)
        · have := ih (d.length - 1) (pos + 1) (by omega)
          refine ⟨by omega, by omega, ?_⟩
          have e1 : pos + 1 + t.length = pos + (t.length + 1) := by omega
          have e2 : pos + 1 + (d.length - 1) = pos + 0 + d.length := by omega
          rw [e1, e2] at this; exact this
      · have := ih 0 (pos + 1) (Nat.zero_le _)
        simp only [List.length_cons]
        have e1 : pos + 1 + t.length = pos + (t.length + 1) := by omega
        rw [e1] at this
        exact this.mono (by omega)

theorem findIter_in (d line : Bytes) : MatchesIn d.length line.length 0 (findIter d line) := by
  have := findIterAux_in d line 0 0 (Nat.zero_le _)
  simpa [findIter] using this

theorem rangesBetween_in (dlen n : Nat) :
    ∀ (ms : List Nat) (prev : Nat), MatchesIn dlen n prev ms → prev ≤ n →
      RangesIn n prev (rangesBetween dlen n prev ms) := by
  intro ms
  induction ms with
  | nil => intro prev _ hp; exact ⟨Nat.le_refl _, hp, Nat.le_refl _, trivial⟩
  | cons idx t ih =>
    intro prev hm hp
    obtain ⟨h1, h2, h3⟩ := hm
    have := ih (idx + dlen) h3 h2
    show prev ≤ prev ∧ prev ≤ idx ∧ idx ≤ n ∧ RangesIn n idx _
    exact ⟨Nat.le_refl _, h1, by omega, this.mono (by omega)⟩

theorem rangesBetweenGreedy_in (dlen n : Nat) :
    ∀ (ms : List Nat) (am : Bool) (prev : Nat), MatchesIn dlen n prev ms → prev ≤ n →
      RangesIn n prev (rangesBetweenGreedy dlen n am prev ms) := by
  intro ms
  induction ms with
  | nil => intro am prev _ hp; exact ⟨Nat.le_refl _, hp, Nat.le_refl _, trivial⟩
  | cons idx t ih =>
    intro am prev hm hp
    obtain ⟨h1, h2, h3⟩ := hm
    have := ih true (idx + dlen) h3 h2
    simp only [rangesBetweenGreedy]
    split
    · exact this.mono (by omega)
    · show prev ≤ prev ∧ prev ≤ idx ∧ idx ≤ n ∧ RangesIn n idx _
      exact ⟨Nat.le_refl _, h1, by omega, this.mono (by omega)⟩

theorem fillWithFieldsLocations_in (buf : List Range) (line d : Bytes) :
    RangesIn line.length 0 (fillWithFieldsLocations buf line d) := by
  unfold fillWithFieldsLocations
  split
  · trivial
  · exact rangesBetween_in _ _ _ 0 (findIter_in d line) (Nat.zero_le _)

theorem fillWithFieldsLocationsGreedy_in (buf : List Range) (line d : Bytes) :
    RangesIn line.length 0 (fillWithFieldsLocationsGreedy buf line d) := by
  unfold fillWithFieldsLocationsGreedy
  split
  · exact fillWithFieldsLocations_in buf line d
  · split
    · trivial
    · exact rangesBetweenGreedy_in _ _ _ false 0 (findIter_in d line) (Nat.zero_le _)

/-- the contract of `Regex::find_iter`: matches are reported in order, do not overlap and lie
    within the haystack -/
def SortedMatches (n : Nat) : Nat → List (Nat × Nat) → Prop
  | _, [] => True
  | lo, (s, e) :: t => lo ≤ s ∧ s ≤ e ∧ e ≤ n ∧ SortedMatches n e t

/-- a `RegexBag` whose two matchers honour the contract of `find_iter` on every haystack -/
def RegexBag.OK (bag : RegexBag) : Prop :=
  ∀ line : Bytes, SortedMatches line.length 0 (bag.normal line) ∧
    SortedMatches line.length 0 (bag.greedy line)

theorem rangesBetweenMatches_in (n : Nat) :
    ∀ (ms : List (Nat × Nat)) (prev : Nat), SortedMatches n prev ms → prev ≤ n →
      RangesIn n prev (rangesBetweenMatches n prev ms) := by
  intro ms
  induction ms with
  | nil => intro prev _ hp; exact ⟨Nat.le_refl _, hp, Nat.le_refl _, trivial⟩
  | cons m t ih =>
    intro prev hm hp
    obtain ⟨s, e⟩ := m
    obtain ⟨h1, h2, h3, h4⟩ := hm
    have := ih e h4 h3
    show prev ≤ prev ∧ prev ≤ s ∧ s ≤ n ∧ RangesIn n s _
    exact ⟨Nat.le_refl _, h1, by omega, this.mono (by omega)⟩

theorem fillWithFieldsLocationsUsingRegex_in (buf : List Range) (line : Bytes)
    (ms : List (Nat × Nat)) (h : SortedMatches line.length 0 ms) :
    RangesIn line.length 0 (fillWithFieldsLocationsUsingRegex buf line ms) := by
  unfold fillWithFieldsLocationsUsingRegex
  split
  · trivial
  · exact rangesBetweenMatches_in _ _ 0 h (Nat.zero_le _)

end Tuc
