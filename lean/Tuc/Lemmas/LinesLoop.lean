import Tuc.Model.LinesLoop
import Tuc.Lemmas.FastLoop
import Tuc.Lemmas.Run
import Tuc.Lemmas.StreamSpec
import Tuc.Props.C05Utf8
/-!
# Lemmas for `Tuc.Props.LinesLoop`: the literal loops of `cut_lines.rs` against `Tuc.Model.Lines`
-/

namespace Tuc
namespace LinesLoop
open FastLoop

/-! ## 1. the reader -/

theorem readUntil_noeol (d : UInt8) : ∀ x : Bytes, (∀ c ∈ x, c ≠ d) → readUntil d x = (x, []) := by
  intro x
  induction x with
  | nil => intro _; rfl
  | cons c t ih =>
    intro h
    have hc : ¬ c = d := h c (by simp)
    have := ih (fun y hy => h y (by simp [hy]))
    simp only [readUntil, if_neg hc, this]

theorem readUntil_eol (d : UInt8) (rest : Bytes) :
    ∀ l : Bytes, (∀ c ∈ l, c ≠ d) → readUntil d (l ++ d :: rest) = (l ++ [d], rest) := by
  intro l
  induction l with
  | nil => intro _; simp only [List.nil_append, readUntil, if_true]
  | cons c t ih =>
    intro h
    have hc : ¬ c = d := h c (by simp)
    have := ih (fun y hy => h y (by simp [hy]))
    simp only [List.cons_append, readUntil, if_neg hc, this]

theorem stripEol_append_eol (eol : UInt8) (l : Bytes) : stripEol eol (l ++ [eol]) = l := by
  unfold stripEol
  simp

theorem stripEol_noeol (eol : UInt8) (x : Bytes) (h : ∀ c ∈ x, c ≠ eol) : stripEol eol x = x := by
  unfold stripEol
  cases hl : x.getLast? with
  | none => rfl
  | some c =>
    have hc : c ∈ x := List.mem_of_getLast? hl
    simp only [if_neg (h c hc)]

theorem validUtf8_append_eol (e : EOL) (l : Bytes) (h : ∀ c ∈ l, c ≠ e.byte) :
    validUtf8 (l ++ [e.byte]) = validUtf8 l := by
  rw [Bool.eq_iff_iff]
  constructor
  · intro hv
    have hrec : records e.byte (l ++ [e.byte]) = [l] := by
      rw [records_of_eol e.byte l [] h]
      rfl
    exact validUtf8_records e.byte (EOL.byte_ascii e) _ hv l (by rw [hrec]; simp)
  · intro hv
    exact validUtf8_append l [e.byte] hv (by cases e <;> decide)

/-- what one call of `read_until(eol)` delivers on a reader that is not at its end, against the
    record splitter of the model -/
theorem reader_step (e : EOL) (stdin : Bytes) (hne : stdin ≠ []) :
    ∃ raw rest, readUntil e.byte stdin = (raw, rest) ∧ raw ≠ [] ∧ rest.length < stdin.length ∧
      records e.byte stdin = stripEol e.byte raw :: records e.byte rest ∧
      validUtf8 raw = validUtf8 (stripEol e.byte raw) := by
  rcases exists_first_eol e.byte stdin with h | ⟨l, rest, h1, h2⟩
  · refine ⟨stdin, [], readUntil_noeol _ _ h, hne, ?_, ?_, ?_⟩
    · cases stdin with
      | nil => exact absurd rfl hne
      | cons _ _ => simp
    · rw [records_of_noeol e.byte stdin h, stripEol_noeol _ _ h]
      have : stdin.isEmpty = false := by
        cases stdin with
        | nil => exact absurd rfl hne
        | cons _ _ => rfl
      simp only [this, Bool.false_eq_true, if_false]
      rfl
    · rw [stripEol_noeol _ _ h]
  · subst h1
    refine ⟨l ++ [e.byte], rest, readUntil_eol _ _ _ h2, by simp, by simp; omega, ?_, ?_⟩
    · rw [records_of_eol e.byte l rest h2, stripEol_append_eol]
    · rw [stripEol_append_eol, validUtf8_append_eol e l h2]

theorem readLineWithEol_nil (e : EOL) : readLineWithEol [] e = (.none, []) := by
  cases e <;> rfl

theorem readLineWithEol_eq (e : EOL) (stdin raw rest : Bytes) (h : readUntil e.byte stdin = (raw, rest))
    (hne : raw ≠ []) :
    readLineWithEol stdin e = (if validUtf8 raw then .someOk raw else .someErr, rest) := by
  have hlen : (raw.length == 0) = false := by
    cases raw with
    | nil => exact absurd rfl hne
    | cons _ _ => rfl
  cases e with
  | newline =>
    have h' : readUntil 10 stdin = (raw, rest) := h
    unfold readLineWithEol
    simp only [h', List.nil_append]
    by_cases hv : validUtf8 raw = true
    · simp only [hv, if_true, hlen, Bool.false_eq_true, if_false]
    · simp only [hv, Bool.false_eq_true, if_false]
  | zero =>
    unfold readLineWithEol
    simp only [h, List.nil_append]
    by_cases hv : validUtf8 raw = true
    · simp only [hv, if_true, hlen, Bool.false_eq_true, if_false]
    · simp only [hv, Bool.false_eq_true, if_false]

/-! ## 2. `Run` algebra -/

theorem ok_seq_ok (a b : Bytes) : (Run.ok a).seq (Run.ok b) = Run.ok (a ++ b) := rfl

theorem empty_eq_ok : Run.empty = Run.ok [] := rfl

theorem joinWrite_eq (opt : Opt) (pre : List BoF) (x : BoF) (t : List BoF)
    (h : opt.bounds.list = pre ++ x :: t) :
    joinWrite opt (pre.length + 1) = Run.ok (lineJoiner opt t) := by
  unfold joinWrite lineJoiner
  rw [h]
  have : (pre.length + 1 != (pre ++ x :: t).length) = !t.isEmpty := by
    cases t <;> simp
  rw [this]
  split <;> rfl

/-! ## 3. the equations of the normal form, with projections -/

theorem fwdLine_nil (o : Opt) (line : Bytes) (idx : Int) (a : Bool) :
    fwdLine o line idx [] a = ([], [], a) := by
  simp only [fwdLine]

theorem fwdLine_filler (o : Opt) (line : Bytes) (idx : Int) (f : Bytes) (t : List BoF) (a : Bool) :
    fwdLine o line idx (.filler f :: t) a =
      (f ++ lineJoiner o t ++ (fwdLine o line idx t a).1, (fwdLine o line idx t a).2.1,
        (fwdLine o line idx t a).2.2) := by
  simp only [fwdLine]

theorem fwdLine_nomatch (o : Opt) (line : Bytes) (idx : Int) (b : UserBounds) (t : List BoF) (a : Bool)
    (hm : ¬ (b.matches idx).getD false = true) :
    fwdLine o line idx (.bound b :: t) a = ([], .bound b :: t, a) := by
  simp only [fwdLine, if_neg hm]

theorem fwdLine_stay (o : Opt) (line : Bytes) (idx : Int) (b : UserBounds) (t : List BoF) (a : Bool)
    (hm : (b.matches idx).getD false = true) (hr : ¬ b.r = .some idx) :
    fwdLine o line idx (.bound b :: t) a =
      ((if a then [o.eol.byte] else []) ++ line, .bound b :: t, true) := by
  simp only [fwdLine, if_pos hm, if_neg hr]

theorem fwdLine_next (o : Opt) (line : Bytes) (idx : Int) (b : UserBounds) (t : List BoF) (a : Bool)
    (hm : (b.matches idx).getD false = true) (hr : b.r = .some idx) :
    fwdLine o line idx (.bound b :: t) a =
      ((if a then [o.eol.byte] else []) ++ line ++ lineJoiner o t ++ (fwdLine o line idx t false).1,
        (fwdLine o line idx t false).2.1, (fwdLine o line idx t false).2.2) := by
  simp only [fwdLine, if_pos hm, if_pos hr]

theorem fwdLines_nil (o : Opt) (idx : Int) (rest : List BoF) (a : Bool) :
    fwdLines o [] idx rest a = fwdEnd o rest a := by
  simp only [fwdLines]

theorem fwdLines_cons (o : Opt) (line : Bytes) (t : List Bytes) (idx : Int) (rest : List BoF) (a : Bool) :
    fwdLines o (line :: t) idx rest a =
      if !validUtf8 line then Run.fail
      else if (fwdLine o line (idx + 1) rest a).2.1.isEmpty then
        Run.ok ((fwdLine o line (idx + 1) rest a).1 ++ [o.eol.byte])
      else Run.pre (fwdLine o line (idx + 1) rest a).1
        (fwdLines o t (idx + 1) (fwdLine o line (idx + 1) rest a).2.1 (fwdLine o line (idx + 1) rest a).2.2) := by
  simp only [fwdLines]

/-! ## 4. the loop over the bounds for one line (l.29-69) -/

theorem getElem?_at (pre : List BoF) (x : BoF) (t : List BoF) : (pre ++ x :: t)[pre.length]? = Option.some x := by
  simp

theorem innerBody_filler (opt : Opt) (line : Bytes) (idx : Int) (a : Bool) (pre : List BoF) (f : Bytes)
    (t : List BoF) (h : opt.bounds.list = pre ++ .filler f :: t) :
    innerBody opt line ⟨idx, pre.length, a⟩ =
      (Run.ok (f ++ lineJoiner opt t), ⟨idx, pre.length + 1, a⟩, true) := by
  have hget : opt.bounds.list[pre.length]? = Option.some (.filler f) := by rw [h]; exact getElem?_at _ _ _
  simp only [innerBody, hget, joinWrite_eq opt pre _ t h, ok_seq_ok]

theorem innerBody_nomatch (opt : Opt) (line : Bytes) (idx : Int) (a : Bool) (pre : List BoF) (b : UserBounds)
    (t : List BoF) (h : opt.bounds.list = pre ++ .bound b :: t)
    (hm : ¬ (b.matches idx).getD false = true) :
    innerBody opt line ⟨idx, pre.length, a⟩ = (Run.empty, ⟨idx, pre.length, a⟩, false) := by
  have hget : opt.bounds.list[pre.length]? = Option.some (.bound b) := by rw [h]; exact getElem?_at _ _ _
  simp only [innerBody, hget, if_neg hm]

theorem innerBody_stay (opt : Opt) (line : Bytes) (idx : Int) (a : Bool) (pre : List BoF) (b : UserBounds)
    (t : List BoF) (h : opt.bounds.list = pre ++ .bound b :: t)
    (hm : (b.matches idx).getD false = true) (hr : ¬ b.r = .some idx) :
    innerBody opt line ⟨idx, pre.length, a⟩ =
      (Run.ok ((if a then [opt.eol.byte] else []) ++ line), ⟨idx, pre.length, true⟩, false) := by
  have hget : opt.bounds.list[pre.length]? = Option.some (.bound b) := by rw [h]; exact getElem?_at _ _ _
  simp only [innerBody, hget, if_pos hm, if_neg hr]
  cases a <;> rfl

theorem innerBody_next (opt : Opt) (line : Bytes) (idx : Int) (a : Bool) (pre : List BoF) (b : UserBounds)
    (t : List BoF) (h : opt.bounds.list = pre ++ .bound b :: t)
    (hm : (b.matches idx).getD false = true) (hr : b.r = .some idx) :
    innerBody opt line ⟨idx, pre.length, a⟩ =
      (Run.ok ((if a then [opt.eol.byte] else []) ++ line ++ lineJoiner opt t),
        ⟨idx, pre.length + 1, false⟩, true) := by
  have hget : opt.bounds.list[pre.length]? = Option.some (.bound b) := by rw [h]; exact getElem?_at _ _ _
  simp only [innerBody, hget, if_pos hm, if_pos hr, joinWrite_eq opt pre _ t h]
  cases a <;> rfl

/-- **the loop over the bounds for one line is `fwdLine`**: it writes the same bytes, stops at the
    same element of the list, leaves the same `add_newline_next` — and `bounds.len() + 1` units of
    fuel (any amount above the number of pending elements) are enough -/
theorem innerWhile_eq (opt : Opt) (line : Bytes) (idx : Int) :
    ∀ (rest pre : List BoF) (fuel : Nat) (a : Bool), opt.bounds.list = pre ++ rest →
      rest.length < fuel →
      ∃ pre', opt.bounds.list = pre' ++ (fwdLine opt line idx rest a).2.1 ∧
        innerWhile opt line fuel ⟨idx, pre.length, a⟩ =
          (Run.ok (fwdLine opt line idx rest a).1,
            ⟨idx, pre'.length, (fwdLine opt line idx rest a).2.2⟩) := by
  intro rest
  induction rest with
  | nil =>
    intro pre fuel a h hf
    obtain ⟨f, rfl⟩ : ∃ f, fuel = f + 1 := ⟨fuel - 1, by omega⟩
    refine ⟨pre, by rw [fwdLine_nil]; exact h, ?_⟩
    have hlt : ¬ pre.length < opt.bounds.list.length := by rw [h]; simp
    simp only [innerWhile, if_neg hlt, fwdLine_nil]
    rfl
  | cons x t ih =>
    intro pre fuel a h hf
    obtain ⟨f, rfl⟩ : ∃ f, fuel = f + 1 := ⟨fuel - 1, by omega⟩
    have hlt : pre.length < opt.bounds.list.length := by rw [h]; simp
    have h' : opt.bounds.list = (pre ++ [x]) ++ t := by rw [h]; simp
    have hf' : t.length < f := by simp only [List.length_cons] at hf; omega
    have hlen : (pre ++ [x]).length = pre.length + 1 := by simp
    cases x with
    | filler fl =>
      obtain ⟨pre', e1, e2⟩ := ih (pre ++ [.filler fl]) f a h' hf'
      rw [hlen] at e2
      refine ⟨pre', by rw [fwdLine_filler]; exact e1, ?_⟩
      simp only [innerWhile, if_pos hlt, innerBody_filler opt line idx a pre fl t h, if_true, e2,
        ok_seq_ok, fwdLine_filler]
    | bound b =>
      by_cases hm : (b.matches idx).getD false = true
      · by_cases hr : b.r = .some idx
        · obtain ⟨pre', e1, e2⟩ := ih (pre ++ [.bound b]) f false h' hf'
          rw [hlen] at e2
          refine ⟨pre', by rw [fwdLine_next _ _ _ _ _ _ hm hr]; exact e1, ?_⟩
          simp only [innerWhile, if_pos hlt, innerBody_next opt line idx a pre b t h hm hr, if_true, e2,
            ok_seq_ok, fwdLine_next _ _ _ _ _ _ hm hr]
        · refine ⟨pre, by rw [fwdLine_stay _ _ _ _ _ _ hm hr]; exact h, ?_⟩
          simp only [innerWhile, if_pos hlt, innerBody_stay opt line idx a pre b t h hm hr,
            Bool.false_eq_true, if_false, fwdLine_stay _ _ _ _ _ _ hm hr]
      · refine ⟨pre, by rw [fwdLine_nomatch _ _ _ _ _ _ hm]; exact h, ?_⟩
        simp only [innerWhile, if_pos hlt, innerBody_nomatch opt line idx a pre b t h hm,
          Bool.false_eq_true, if_false, fwdLine_nomatch _ _ _ _ _ _ hm]
        rfl

/-! ## 5. the epilogue (l.78-112) -/

/-- **the epilogue and the final EOL are `fwdEnd`** -/
theorem epilogueWhile_eq (opt : Opt) (idx : Int) :
    ∀ (rest pre : List BoF) (fuel : Nat) (a : Bool), opt.bounds.list = pre ++ rest →
      rest.length < fuel →
      (epilogueWhile opt fuel ⟨idx, pre.length, a⟩).1.seq (Run.ok [opt.eol.byte]) = fwdEnd opt rest a := by
  intro rest
  induction rest with
  | nil =>
    intro pre fuel a h hf
    obtain ⟨f, rfl⟩ : ∃ f, fuel = f + 1 := ⟨fuel - 1, by omega⟩
    have hget : opt.bounds.list[pre.length]? = Option.none := by rw [h]; simp
    simp only [epilogueWhile, hget, fwdEnd, Run.empty_seq]
  | cons x t ih =>
    intro pre fuel a h hf
    obtain ⟨f, rfl⟩ : ∃ f, fuel = f + 1 := ⟨fuel - 1, by omega⟩
    have hget : opt.bounds.list[pre.length]? = Option.some x := by rw [h]; exact getElem?_at _ _ _
    have h' : opt.bounds.list = (pre ++ [x]) ++ t := by rw [h]; simp
    have hf' : t.length < f := by simp only [List.length_cons] at hf; omega
    have hlen : (pre ++ [x]).length = pre.length + 1 := by simp
    have hj := joinWrite_eq opt pre x t h
    have step : ∀ (out : Bytes) (a' : Bool),
        (((Run.ok out).seq (joinWrite opt (pre.length + 1))).seq
          (epilogueWhile opt f ⟨idx, pre.length + 1, a'⟩).1).seq (Run.ok [opt.eol.byte]) =
        Run.pre (out ++ lineJoiner opt t) (fwdEnd opt t a') := by
      intro out a'
      have := ih (pre ++ [x]) f a' h' hf'
      rw [hlen] at this
      rw [hj, ok_seq_ok, Run.seq_assoc, this, Run.seq_ok]
    cases x with
    | filler fl =>
      simp only [epilogueWhile, hget, epilogueOutput, fwdEnd]
      exact step fl a
    | bound b =>
      cases a with
      | true =>
        by_cases hr : b.r = Side.cont
        · simp only [epilogueWhile, hget, epilogueOutput, if_true, fwdEnd, hr, ne_eq, not_true_eq_false,
            if_false]
          have := step [] false
          simpa using this
        · simp only [epilogueWhile, hget, epilogueOutput, if_true, fwdEnd, ne_eq, hr, not_false_eq_true]
          rfl
      | false =>
        cases hfb : b.fallback with
        | some fb =>
          simp only [epilogueWhile, hget, epilogueOutput, Bool.false_eq_true, if_false, fwdEnd, hfb]
          exact step fb false
        | none =>
          cases hgf : opt.fallbackOob with
          | some g =>
            simp only [epilogueWhile, hget, epilogueOutput, Bool.false_eq_true, if_false, fwdEnd, hfb, hgf]
            exact step g false
          | none =>
            simp only [epilogueWhile, hget, epilogueOutput, Bool.false_eq_true, if_false, fwdEnd, hfb, hgf]
            rfl

/-! ## 6. the loop over the reader (l.19-75), followed by the epilogue -/

/-- the rest of `cut_lines_forward_only` after the read loop has produced `w` -/
def finish (opt : Opt) (w : Run × Vars) : Run :=
  (w.1.seq (epilogueWhile opt (opt.bounds.list.length + 1) w.2).1).seq (Run.ok [opt.eol.byte])

theorem finish_pre (opt : Opt) (out : Bytes) (r : Run) (v : Vars) :
    finish opt ((Run.ok out).seq r, v) = Run.pre out (finish opt (r, v)) := by
  unfold finish
  rw [Run.seq_assoc, Run.seq_assoc, Run.seq_ok, Run.seq_assoc]

theorem finish_fail (opt : Opt) (v : Vars) : finish opt (Run.fail, v) = Run.fail := rfl

/-- **the read loop, the epilogue and the final EOL are `fwdLines`**, as long as the `i32` line
    counter fits; `len + 1` units of fuel (any amount above the number of bytes still to read) are
    enough -/
theorem readWhile_eq (opt : Opt) :
    ∀ (fuel : Nat) (stdin : Bytes) (pre rest : List BoF) (idx : Int) (a : Bool),
      opt.bounds.list = pre ++ rest → stdin.length < fuel → 0 ≤ idx →
      idx + (records opt.eol.byte stdin).length ≤ i32Max →
      finish opt (readWhile opt fuel stdin ⟨idx, pre.length, a⟩) =
        fwdLines opt (records opt.eol.byte stdin) idx rest a := by
  intro fuel
  induction fuel with
  | zero => intro stdin _ _ _ _ _ h; omega
  | succ fuel ih =>
    intro stdin pre rest idx a h hf h0 hfit
    have hL : rest.length < opt.bounds.list.length + 1 := by rw [h]; simp; omega
    by_cases hne : stdin = []
    · subst hne
      have hrec : records opt.eol.byte [] = [] := rfl
      simp only [readWhile, readLineWithEol_nil, hrec, fwdLines_nil, finish, Run.empty_seq]
      exact epilogueWhile_eq opt idx rest pre _ a h hL
    · obtain ⟨raw, rest', e1, e2, e3, e4, e5⟩ := reader_step opt.eol stdin hne
      rw [e4] at hfit ⊢
      simp only [List.length_cons] at hfit
      have hadd : checkedAddI32 idx 1 = .ok (idx + 1) := checkedAddI32_ok h0 (by omega)
      rw [fwdLines_cons]
      by_cases hv : validUtf8 raw = true
      · have hv' : validUtf8 (stripEol opt.eol.byte raw) = true := by rw [← e5]; exact hv
        obtain ⟨pre', p1, p2⟩ := innerWhile_eq opt (stripEol opt.eol.byte raw) (idx + 1) rest pre
          (opt.bounds.list.length + 1) a h hL
        simp only [readWhile, readLineWithEol_eq opt.eol stdin raw rest' e1 e2, hv, if_true, hadd, p2,
          hv', Bool.not_true, Bool.false_eq_true, if_false]
        generalize (fwdLine opt (stripEol opt.eol.byte raw) (idx + 1) rest a) = r at p1 ⊢
        obtain ⟨w, rest'', a'⟩ := r
        simp only at p1 ⊢
        by_cases hre : rest'' = []
        · subst hre
          have hlen : (pre'.length == opt.bounds.list.length) = true := by
            rw [p1]; simp
          simp only [hlen, if_true, List.isEmpty_nil]
          have := epilogueWhile_eq opt (idx + 1) [] pre' (opt.bounds.list.length + 1) a' p1 (by simp)
          unfold finish
          rw [Run.seq_assoc, this]
          rfl
        · have hlen : (pre'.length == opt.bounds.list.length) = false := by
            rw [p1]
            cases rest'' with
            | nil => exact absurd rfl hre
            | cons _ _ => simp
          have hemp : rest''.isEmpty = false := by
            cases rest'' with
            | nil => exact absurd rfl hre
            | cons _ _ => rfl
          simp only [hlen, Bool.false_eq_true, if_false, hemp]
          rw [finish_pre]
          congr 1
          exact ih rest' pre' rest'' (idx + 1) a' p1 (by omega) (by omega) (by omega)
      · have hv' : validUtf8 (stripEol opt.eol.byte raw) = false := by
          rw [← e5]; simpa using hv
        simp only [readWhile, readLineWithEol_eq opt.eol stdin raw rest' e1 e2, hv, Bool.false_eq_true,
          if_false, hadd, hv', Bool.not_false, if_true]
        rfl

/-! ## 7. the `i32` line counter does overflow when the loop is not left early -/

/-- an open bound at the end of the list is never exhausted by `fwdLine` -/
theorem fwdLine_keeps_open (o : Opt) (line : Bytes) (idx : Int) (b : UserBounds) (hb : b.r = .cont) :
    ∀ (r0 : List BoF) (a : Bool),
      ∃ r1, (fwdLine o line idx (r0 ++ [.bound b]) a).2.1 = r1 ++ [.bound b] := by
  intro r0
  induction r0 with
  | nil =>
    intro a
    have hr : ¬ b.r = .some idx := by rw [hb]; intro h; cases h
    by_cases hm : (b.matches idx).getD false = true
    · exact ⟨[], by rw [List.nil_append, fwdLine_stay _ _ _ _ _ _ hm hr]⟩
    · exact ⟨[], by rw [List.nil_append, fwdLine_nomatch _ _ _ _ _ _ hm]⟩
  | cons x t ih =>
    intro a
    cases x with
    | filler f =>
      obtain ⟨r1, h1⟩ := ih a
      exact ⟨r1, by rw [List.cons_append, fwdLine_filler]; exact h1⟩
    | bound b' =>
      by_cases hm : (b'.matches idx).getD false = true
      · by_cases hr : b'.r = .some idx
        · obtain ⟨r1, h1⟩ := ih false
          exact ⟨r1, by rw [List.cons_append, fwdLine_next _ _ _ _ _ _ hm hr]; exact h1⟩
        · exact ⟨.bound b' :: t, by rw [List.cons_append, fwdLine_stay _ _ _ _ _ _ hm hr]⟩
      · exact ⟨.bound b' :: t, by rw [List.cons_append, fwdLine_nomatch _ _ _ _ _ _ hm]⟩

theorem seq_ok_status (w : Bytes) (r : Run) : ((Run.ok w).seq r).status = r.status := rfl

/-- **the read loop panics on the 2³¹-th line** (debug build; the release build wraps `line_idx`
    to `i32::MIN`) when the list ends with an open bound — so that the loop is never left early —
    and every line is UTF-8 -/
theorem readWhile_overflow (opt : Opt) (b : UserBounds) (hb : b.r = .cont) :
    ∀ (fuel : Nat) (stdin : Bytes) (pre r0 : List BoF) (idx : Int) (a : Bool),
      opt.bounds.list = pre ++ (r0 ++ [.bound b]) → stdin.length < fuel → 0 ≤ idx → idx ≤ i32Max →
      (∀ l ∈ records opt.eol.byte stdin, validUtf8 l = true) →
      i32Max < idx + (records opt.eol.byte stdin).length →
      (readWhile opt fuel stdin ⟨idx, pre.length, a⟩).1.status = .panic := by
  intro fuel
  induction fuel with
  | zero => intro stdin _ _ _ _ _ h; omega
  | succ fuel ih =>
    intro stdin pre r0 idx a h hf h0 hmax hval hmany
    by_cases hne : stdin = []
    · subst hne
      have hrec : records opt.eol.byte [] = [] := rfl
      rw [hrec] at hmany
      simp only [List.length_nil] at hmany
      omega
    · obtain ⟨raw, rest', e1, e2, e3, e4, e5⟩ := reader_step opt.eol stdin hne
      rw [e4] at hmany hval
      simp only [List.length_cons] at hmany
      have hv : validUtf8 raw = true := by rw [e5]; exact hval _ (by simp)
      by_cases hm : idx = i32Max
      · have hadd : checkedAddI32 idx 1 = .panic := by
          unfold checkedAddI32
          rw [if_neg (by omega)]
        simp only [readWhile, readLineWithEol_eq opt.eol stdin raw rest' e1 e2, hv, if_true, hadd]
        rfl
      · have hadd : checkedAddI32 idx 1 = .ok (idx + 1) := checkedAddI32_ok h0 (by omega)
        have hL : (r0 ++ [BoF.bound b]).length < opt.bounds.list.length + 1 := by rw [h]; simp; omega
        obtain ⟨pre', p1, p2⟩ := innerWhile_eq opt (stripEol opt.eol.byte raw) (idx + 1)
          (r0 ++ [.bound b]) pre (opt.bounds.list.length + 1) a h hL
        obtain ⟨r1, hr1⟩ := fwdLine_keeps_open opt (stripEol opt.eol.byte raw) (idx + 1) b hb r0 a
        rw [hr1] at p1
        have hlen : (pre'.length == opt.bounds.list.length) = false := by
          rw [p1]; simp
        simp only [readWhile, readLineWithEol_eq opt.eol stdin raw rest' e1 e2, hv, if_true, hadd, p2,
          hlen, Bool.false_eq_true, if_false, seq_ok_status]
        exact ih rest' pre' r1 (idx + 1) _ p1 (by omega) (by omega) (by omega)
          (fun l hl => hval l (List.mem_cons_of_mem _ hl)) (by omega)

end LinesLoop
end Tuc
