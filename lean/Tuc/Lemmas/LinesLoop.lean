import Tuc.Model.LinesLoop
import Tuc.Lemmas.Run
import Tuc.Lemmas.StreamSpec
import Tuc.Props.C05Utf8
/-!
# Lemmas for `Tuc.Props.LinesLoop`: the literal loops of `cut_lines.rs` against `Tuc.Model.Lines`
-/

namespace Tuc
namespace LinesLoop

/-! ## 1. the reader -/

theorem readUntil_noeol (d : UInt8) : ∀ x : Bytes, (∀ c ∈ x, c ≠ d) → readUntil d x = (x, []) := by
  intro x
  induction x with
  | nil => intro _; rfl
  | cons c t ih =>
    intro h
    have hc : ¬ c = d := h c (by simp)
    have := ih (fun y hy => h y (by simp [hy]))
    simp only [readUntil, if_neg hc, this]

theorem readUntil_eol (d : UInt8) (rest : Bytes) :
    ∀ l : Bytes, (∀ c ∈ l, c ≠ d) → readUntil d (l ++ d :: rest) = (l ++ [d], rest) := by
  intro l
  induction l with
  | nil => intro _; simp only [List.nil_append, readUntil, if_true]
  | cons c t ih =>
    intro h
    have hc : ¬ c = d := h c (by simp)
    have := ih (fun y hy => h y (by simp [hy]))
    simp only [List.cons_append, readUntil, if_neg hc, this]

theorem stripEol_append_eol (eol : UInt8) (l : Bytes) : stripEol eol (l ++ [eol]) = l := by
  unfold stripEol
  simp

theorem stripEol_noeol (eol : UInt8) (x : Bytes) (h : ∀ c ∈ x, c ≠ eol) : stripEol eol x = x := by
  unfold stripEol
  cases hl : x.getLast? with
  | none => rfl
  | some c =>
    have hc : c ∈ x := List.mem_of_getLast? hl
    simp only [if_neg (h c hc)]

theorem validUtf8_append_eol (e : EOL) (l : Bytes) (h : ∀ c ∈ l, c ≠ e.byte) :
    validUtf8 (l ++ [e.byte]) = validUtf8 l := by
  rw [Bool.eq_iff_iff]
  constructor
  · intro hv
    have hrec : records e.byte (l ++ [e.byte]) = [l] := by
      rw [records_of_eol e.byte l [] h]
      rfl
    exact validUtf8_records e.byte (EOL.byte_ascii e) _ hv l (by rw [hrec]; simp)
  · intro hv
    exact validUtf8_append l [e.byte] hv (by cases e <;> decide)

/-- what one call of `read_until(eol)` delivers on a reader that is not at its end, against the
    record splitter of the model -/
theorem reader_step (e : EOL) (stdin : Bytes) (hne : stdin ≠ []) :
    ∃ raw rest, readUntil e.byte stdin = (raw, rest) ∧ raw ≠ [] ∧ rest.length < stdin.length ∧
      records e.byte stdin = stripEol e.byte raw :: records e.byte rest ∧
      validUtf8 raw = validUtf8 (stripEol e.byte raw) := by
  rcases exists_first_eol e.byte stdin with h | ⟨l, rest, h1, h2⟩
  · refine ⟨stdin, [], readUntil_noeol _ _ h, hne, ?_, ?_, ?_⟩
    · cases stdin with
      | nil => exact absurd rfl hne
      | cons _ _ => simp
    · rw [records_of_noeol e.byte stdin h, stripEol_noeol _ _ h]
      have : stdin.isEmpty = false := by
        cases stdin with
        | nil => exact absurd rfl hne
        | cons _ _ => rfl
      simp only [this, Bool.false_eq_true, if_false]
      rfl
    · rw [stripEol_noeol _ _ h]
  · subst h1
    refine ⟨l ++ [e.byte], rest, readUntil_eol _ _ _ h2, by simp, by simp; omega, ?_, ?_⟩
    · rw [records_of_eol e.byte l rest h2, stripEol_append_eol]
    · rw [stripEol_append_eol, validUtf8_append_eol e l h2]

theorem readLineWithEol_nil (e : EOL) : readLineWithEol [] e = (.none, []) := by
  cases e <;> rfl

theorem readLineWithEol_eq (e : EOL) (stdin raw rest : Bytes) (h : readUntil e.byte stdin = (raw, rest))
    (hne : raw ≠ []) :
    readLineWithEol stdin e = (if validUtf8 raw then .someOk raw else .someErr, rest) := by
  have hlen : (raw.length == 0) = false := by
    cases raw with
    | nil => exact absurd rfl hne
    | cons _ _ => rfl
  cases e with
  | newline =>
    have h' : readUntil 10 stdin = (raw, rest) := h
    unfold readLineWithEol
    simp only [h', List.nil_append]
    by_cases hv : validUtf8 raw = true
    · simp only [hv, if_true, hlen, Bool.false_eq_true, if_false]
    · simp only [hv, Bool.false_eq_true, if_false]
  | zero =>
    unfold readLineWithEol
    simp only [h, List.nil_append]
    by_cases hv : validUtf8 raw = true
    · simp only [hv, if_true, hlen, Bool.false_eq_true, if_false]
    · simp only [hv, Bool.false_eq_true, if_false]

/-! ## 2. `Run` algebra -/

theorem ok_seq_ok (a b : Bytes) : (Run.ok a).seq (Run.ok b) = Run.ok (a ++ b) := rfl

theorem empty_eq_ok : Run.empty = Run.ok [] := rfl

theorem joinWrite_eq (opt : Opt) (pre : List BoF) (x : BoF) (t : List BoF)
    (h : opt.bounds.list = pre ++ x :: t) :
    joinWrite opt (pre.length + 1) = Run.ok (lineJoiner opt t) := by
  unfold joinWrite lineJoiner
  rw [h]
  have : (pre.length + 1 != (pre ++ x :: t).length) = !t.isEmpty := by
    cases t <;> simp
  rw [this]
  split <;> rfl

/-! ## 3. the equations of the normal form, with projections -/

theorem fwdLine_nil (o : Opt) (line : Bytes) (idx : Int) (a : Bool) :
    fwdLine o line idx [] a = ([], [], a) := by
  simp only [fwdLine]

theorem fwdLine_filler (o : Opt) (line : Bytes) (idx : Int) (f : Bytes) (t : List BoF) (a : Bool) :
    fwdLine o line idx (.filler f :: t) a =
      (f ++ lineJoiner o t ++ (fwdLine o line idx t a).1, (fwdLine o line idx t a).2.1,
        (fwdLine o line idx t a).2.2) := by
  simp only [fwdLine]

theorem fwdLine_nomatch (o : Opt) (line : Bytes) (idx : Int) (b : UserBounds) (t : List BoF) (a : Bool)
    (hm : ¬ (b.matches idx).getD false = true) :
    fwdLine o line idx (.bound b :: t) a = ([], .bound b :: t, a) := by
  simp only [fwdLine, if_neg hm]

theorem fwdLine_stay (o : Opt) (line : Bytes) (idx : Int) (b : UserBounds) (t : List BoF) (a : Bool)
    (hm : (b.matches idx).getD false = true) (hr : ¬ b.r = .some idx) :
    fwdLine o line idx (.bound b :: t) a =
      ((if a then [o.eol.byte] else []) ++ line, .bound b :: t, true) := by
  simp only [fwdLine, if_pos hm, if_neg hr]

theorem fwdLine_next (o : Opt) (line : Bytes) (idx : Int) (b : UserBounds) (t : List BoF) (a : Bool)
    (hm : (b.matches idx).getD false = true) (hr : b.r = .some idx) :
    fwdLine o line idx (.bound b :: t) a =
      ((if a then [o.eol.byte] else []) ++ line ++ lineJoiner o t ++ (fwdLine o line idx t false).1,
        (fwdLine o line idx t false).2.1, (fwdLine o line idx t false).2.2) := by
  simp only [fwdLine, if_pos hm, if_pos hr]

theorem fwdLines_nil (o : Opt) (idx : Int) (rest : List BoF) (a : Bool) :
    fwdLines o [] idx rest a = fwdEnd o rest a := by
  simp only [fwdLines]

theorem fwdLines_cons (o : Opt) (line : Bytes) (t : List Bytes) (idx : Int) (rest : List BoF) (a : Bool) :
    fwdLines o (line :: t) idx rest a =
      if !validUtf8 line then Run.fail
      else if (fwdLine o line (idx + 1) rest a).2.1.isEmpty then
        Run.ok ((fwdLine o line (idx + 1) rest a).1 ++ [o.eol.byte])
      else Run.pre (fwdLine o line (idx + 1) rest a).1
        (fwdLines o t (idx + 1) (fwdLine o line (idx + 1) rest a).2.1 (fwdLine o line (idx + 1) rest a).2.2) := by
  simp only [fwdLines]

/-! ## 4. the counter: `line_idx` / `past_last_index` against the unbounded index of the model -/

/-- what the repaired loop relies on past the last `i32` index: every written side is at most
    `i32::MAX`, and an open-ended bound does not start at a negative index (both hold for every
    bound of a forward-only list the parser produced) -/
def PastOk (b : UserBounds) : Prop :=
  (∀ v, b.l = .some v → v ≤ i32Max) ∧ (∀ w, b.r = .some w → w ≤ i32Max) ∧
  (b.r = .cont → ∀ v, b.l = .some v → 0 ≤ v)

/-- the pair `(line_idx, past_last_index)` stands for the model's index `idx`: equal to it while
    it fits, stuck at `i32::MAX` with the flag set afterwards -/
def Tracks (idx lineIdx : Int) (past : Bool) : Prop :=
  (past = false ∧ lineIdx = idx ∧ 0 ≤ idx ∧ idx ≤ i32Max) ∨
  (past = true ∧ lineIdx = i32Max ∧ i32Max < idx)

/-- l.23-26: one more line -/
theorem tracks_step {idx lineIdx : Int} {past : Bool} (h : Tracks idx lineIdx past) :
    (idx < i32Max ∧ past = false ∧ i32CheckedAdd lineIdx 1 = Option.some (idx + 1)) ∨
    (i32Max ≤ idx ∧ i32CheckedAdd lineIdx 1 = Option.none ∧ lineIdx = i32Max) := by
  rcases h with ⟨hp, rfl, h0, h1⟩ | ⟨hp, rfl, h1⟩
  · by_cases hm : lineIdx < i32Max
    · left
      refine ⟨hm, hp, ?_⟩
      unfold i32CheckedAdd
      rw [if_pos ⟨by simp only [i32Min]; omega, by omega⟩]
    · right
      refine ⟨by omega, ?_, by omega⟩
      unfold i32CheckedAdd
      rw [if_neg (by omega)]
  · right
    refine ⟨by omega, ?_, rfl⟩
    unfold i32CheckedAdd
    rw [if_neg (by omega)]

/-- **past the last `i32` index `matches` is "open-ended"** (l.52-56) -/
theorem isMatch_eq {idx lineIdx : Int} {past : Bool} (h : Tracks idx lineIdx past) (b : UserBounds)
    (hb : past = true → PastOk b) :
    (if past then decide (b.r = Side.cont) else (b.matches lineIdx).getD false) =
      (b.matches idx).getD false := by
  rcases h with ⟨hp, rfl, _, _⟩ | ⟨hp, _, hbig⟩
  · simp only [hp, Bool.false_eq_true, if_false]
  · obtain ⟨hl, hr, hneg⟩ := hb hp
    simp only [hp, if_true]
    unfold UserBounds.matches
    cases hbl : b.l with
    | cont =>
      cases hbr : b.r with
      | cont => simp
      | some w =>
        have := hr w hbr
        by_cases ho : oppSign w idx = true
        · simp [ho]
        · have : ¬ idx ≤ w := by omega
          simp [ho, this]
    | some v =>
      have hv := hl v hbl
      cases hbr : b.r with
      | cont =>
        have h0 := hneg hbr v hbl
        have ho : oppSign v idx = false := by
          simp only [oppSign, Bool.or_eq_false_iff, Bool.and_eq_false_iff, decide_eq_false_iff_not]
          constructor
          · right; omega
          · left; omega
        have : v ≤ idx := by omega
        simp [ho, this]
      | some w =>
        have := hr w hbr
        by_cases ho1 : oppSign v idx = true
        · simp [ho1]
        · by_cases ho2 : oppSign w idx = true
          · simp [ho1, ho2]
          · have : ¬ idx ≤ w := by omega
            simp [ho1, ho2, this]

/-- **past the last `i32` index no bound is exhausted** (l.66) -/
theorem exhausted_eq {idx lineIdx : Int} {past : Bool} (h : Tracks idx lineIdx past) (b : UserBounds)
    (hb : past = true → PastOk b) :
    (!past && decide (b.r = Side.some lineIdx)) = decide (b.r = Side.some idx) := by
  rcases h with ⟨hp, rfl, _, _⟩ | ⟨hp, _, hbig⟩
  · simp only [hp, Bool.not_false, Bool.true_and]
  · obtain ⟨_, hr, _⟩ := hb hp
    have : ¬ b.r = Side.some idx := by
      intro e
      have := hr idx e
      omega
    simp [hp, this]

/-! ## 5a. the loop over the bounds for one line (l.35-81) -/

theorem getElem?_at (pre : List BoF) (x : BoF) (t : List BoF) : (pre ++ x :: t)[pre.length]? = Option.some x := by
  simp

theorem innerBody_filler (opt : Opt) (line : Bytes) (li : Int) (p a : Bool) (pre : List BoF) (f : Bytes)
    (t : List BoF) (h : opt.bounds.list = pre ++ .filler f :: t) :
    innerBody opt line ⟨li, p, pre.length, a⟩ =
      (Run.ok (f ++ lineJoiner opt t), ⟨li, p, pre.length + 1, a⟩, true) := by
  have hget : opt.bounds.list[pre.length]? = Option.some (.filler f) := by rw [h]; exact getElem?_at _ _ _
  simp only [innerBody, hget, joinWrite_eq opt pre _ t h, ok_seq_ok]

theorem innerBody_nomatch (opt : Opt) (line : Bytes) (li : Int) (p a : Bool) (pre : List BoF) (b : UserBounds)
    (t : List BoF) (h : opt.bounds.list = pre ++ .bound b :: t)
    (hm : ¬ (if p then decide (b.r = Side.cont) else (b.matches li).getD false) = true) :
    innerBody opt line ⟨li, p, pre.length, a⟩ = (Run.empty, ⟨li, p, pre.length, a⟩, false) := by
  have hget : opt.bounds.list[pre.length]? = Option.some (.bound b) := by rw [h]; exact getElem?_at _ _ _
  simp only [innerBody, hget, if_neg hm]

theorem innerBody_stay (opt : Opt) (line : Bytes) (li : Int) (p a : Bool) (pre : List BoF) (b : UserBounds)
    (t : List BoF) (h : opt.bounds.list = pre ++ .bound b :: t)
    (hm : (if p then decide (b.r = Side.cont) else (b.matches li).getD false) = true)
    (hr : ¬ (!p && decide (b.r = Side.some li)) = true) :
    innerBody opt line ⟨li, p, pre.length, a⟩ =
      (Run.ok ((if a then [opt.eol.byte] else []) ++ line), ⟨li, p, pre.length, true⟩, false) := by
  have hget : opt.bounds.list[pre.length]? = Option.some (.bound b) := by rw [h]; exact getElem?_at _ _ _
  simp only [innerBody, hget, if_pos hm, if_neg hr]
  cases a <;> rfl

theorem innerBody_next (opt : Opt) (line : Bytes) (li : Int) (p a : Bool) (pre : List BoF) (b : UserBounds)
    (t : List BoF) (h : opt.bounds.list = pre ++ .bound b :: t)
    (hm : (if p then decide (b.r = Side.cont) else (b.matches li).getD false) = true)
    (hr : (!p && decide (b.r = Side.some li)) = true) :
    innerBody opt line ⟨li, p, pre.length, a⟩ =
      (Run.ok ((if a then [opt.eol.byte] else []) ++ line ++ lineJoiner opt t),
        ⟨li, p, pre.length + 1, false⟩, true) := by
  have hget : opt.bounds.list[pre.length]? = Option.some (.bound b) := by rw [h]; exact getElem?_at _ _ _
  simp only [innerBody, hget, if_pos hm, if_pos hr, joinWrite_eq opt pre _ t h]
  cases a <;> rfl

/-- **the loop over the bounds for one line is `fwdLine`** at the index the counter stands for: it
    writes the same bytes, stops at the same element of the list, leaves the same
    `add_newline_next` — and `bounds.len() + 1` units of fuel (any amount above the number of
    pending elements) are enough -/
theorem innerWhile_eq (opt : Opt) (line : Bytes) (idx li : Int) (p : Bool) (htr : Tracks idx li p) :
    ∀ (rest pre : List BoF) (fuel : Nat) (a : Bool), opt.bounds.list = pre ++ rest →
      rest.length < fuel → (p = true → ∀ b, BoF.bound b ∈ rest → PastOk b) →
      ∃ pre', opt.bounds.list = pre' ++ (fwdLine opt line idx rest a).2.1 ∧
        innerWhile opt line fuel ⟨li, p, pre.length, a⟩ =
          (Run.ok (fwdLine opt line idx rest a).1,
            ⟨li, p, pre'.length, (fwdLine opt line idx rest a).2.2⟩) := by
  intro rest
  induction rest with
  | nil =>
    intro pre fuel a h hf _
    obtain ⟨f, rfl⟩ : ∃ f, fuel = f + 1 := ⟨fuel - 1, by omega⟩
    refine ⟨pre, by rw [fwdLine_nil]; exact h, ?_⟩
    have hlt : ¬ pre.length < opt.bounds.list.length := by rw [h]; simp
    simp only [innerWhile, if_neg hlt, fwdLine_nil]
    rfl
  | cons x t ih =>
    intro pre fuel a h hf hok
    obtain ⟨f, rfl⟩ : ∃ f, fuel = f + 1 := ⟨fuel - 1, by omega⟩
    have hlt : pre.length < opt.bounds.list.length := by rw [h]; simp
    have h' : opt.bounds.list = (pre ++ [x]) ++ t := by rw [h]; simp
    have hf' : t.length < f := by simp only [List.length_cons] at hf; omega
    have hlen : (pre ++ [x]).length = pre.length + 1 := by simp
    have hok' : p = true → ∀ b, BoF.bound b ∈ t → PastOk b :=
      fun hp b hb => hok hp b (List.mem_cons_of_mem _ hb)
    cases x with
    | filler fl =>
      obtain ⟨pre', e1, e2⟩ := ih (pre ++ [.filler fl]) f a h' hf' hok'
      rw [hlen] at e2
      refine ⟨pre', by rw [fwdLine_filler]; exact e1, ?_⟩
      simp only [innerWhile, if_pos hlt, innerBody_filler opt line li p a pre fl t h, if_true, e2,
        ok_seq_ok, fwdLine_filler]
    | bound b =>
      have hb : p = true → PastOk b := fun hp => hok hp b (by simp)
      have hM := isMatch_eq htr b hb
      have hE := exhausted_eq htr b hb
      by_cases hm : (b.matches idx).getD false = true
      · have hm' := hM.trans hm
        by_cases hr : b.r = .some idx
        · have hr' : (!p && decide (b.r = Side.some li)) = true := by rw [hE]; simpa using hr
          obtain ⟨pre', e1, e2⟩ := ih (pre ++ [.bound b]) f false h' hf' hok'
          rw [hlen] at e2
          refine ⟨pre', by rw [fwdLine_next _ _ _ _ _ _ hm hr]; exact e1, ?_⟩
          simp only [innerWhile, if_pos hlt, innerBody_next opt line li p a pre b t h hm' hr', if_true, e2,
            ok_seq_ok, fwdLine_next _ _ _ _ _ _ hm hr]
        · have hr' : ¬ (!p && decide (b.r = Side.some li)) = true := by rw [hE]; simpa using hr
          refine ⟨pre, by rw [fwdLine_stay _ _ _ _ _ _ hm hr]; exact h, ?_⟩
          simp only [innerWhile, if_pos hlt, innerBody_stay opt line li p a pre b t h hm' hr',
            Bool.false_eq_true, if_false, fwdLine_stay _ _ _ _ _ _ hm hr]
      · have hm' : ¬ (if p then decide (b.r = Side.cont) else (b.matches li).getD false) = true := by
          rw [hM]; exact hm
        refine ⟨pre, by rw [fwdLine_nomatch _ _ _ _ _ _ hm]; exact h, ?_⟩
        simp only [innerWhile, if_pos hlt, innerBody_nomatch opt line li p a pre b t h hm',
          Bool.false_eq_true, if_false, fwdLine_nomatch _ _ _ _ _ _ hm]
        rfl

/-! ## 5. the epilogue (l.90-124) -/

/-- **the epilogue and the final EOL are `fwdEnd`** -/
theorem epilogueWhile_eq (opt : Opt) (li : Int) (p : Bool) :
    ∀ (rest pre : List BoF) (fuel : Nat) (a : Bool), opt.bounds.list = pre ++ rest →
      rest.length < fuel →
      (epilogueWhile opt fuel ⟨li, p, pre.length, a⟩).1.seq (Run.ok [opt.eol.byte]) = fwdEnd opt rest a := by
  intro rest
  induction rest with
  | nil =>
    intro pre fuel a h hf
    obtain ⟨f, rfl⟩ : ∃ f, fuel = f + 1 := ⟨fuel - 1, by omega⟩
    have hget : opt.bounds.list[pre.length]? = Option.none := by rw [h]; simp
    simp only [epilogueWhile, hget, fwdEnd, Run.empty_seq]
  | cons x t ih =>
    intro pre fuel a h hf
    obtain ⟨f, rfl⟩ : ∃ f, fuel = f + 1 := ⟨fuel - 1, by omega⟩
    have hget : opt.bounds.list[pre.length]? = Option.some x := by rw [h]; exact getElem?_at _ _ _
    have h' : opt.bounds.list = (pre ++ [x]) ++ t := by rw [h]; simp
    have hf' : t.length < f := by simp only [List.length_cons] at hf; omega
    have hlen : (pre ++ [x]).length = pre.length + 1 := by simp
    have hj := joinWrite_eq opt pre x t h
    have step : ∀ (out : Bytes) (a' : Bool),
        (((Run.ok out).seq (joinWrite opt (pre.length + 1))).seq
          (epilogueWhile opt f ⟨li, p, pre.length + 1, a'⟩).1).seq (Run.ok [opt.eol.byte]) =
        Run.pre (out ++ lineJoiner opt t) (fwdEnd opt t a') := by
      intro out a'
      have := ih (pre ++ [x]) f a' h' hf'
      rw [hlen] at this
      rw [hj, ok_seq_ok, Run.seq_assoc, this, Run.seq_ok]
    cases x with
    | filler fl =>
      simp only [epilogueWhile, hget, epilogueOutput, fwdEnd]
      exact step fl a
    | bound b =>
      cases a with
      | true =>
        by_cases hr : b.r = Side.cont
        · simp only [epilogueWhile, hget, epilogueOutput, if_true, fwdEnd, hr, ne_eq, not_true_eq_false,
            if_false]
          have := step [] false
          simpa using this
        · simp only [epilogueWhile, hget, epilogueOutput, if_true, fwdEnd, ne_eq, hr, not_false_eq_true]
          rfl
      | false =>
        cases hfb : b.fallback with
        | some fb =>
          simp only [epilogueWhile, hget, epilogueOutput, Bool.false_eq_true, if_false, fwdEnd, hfb]
          exact step fb false
        | none =>
          cases hgf : opt.fallbackOob with
          | some g =>
            simp only [epilogueWhile, hget, epilogueOutput, Bool.false_eq_true, if_false, fwdEnd, hfb, hgf]
            exact step g false
          | none =>
            simp only [epilogueWhile, hget, epilogueOutput, Bool.false_eq_true, if_false, fwdEnd, hfb, hgf]
            rfl

/-! ## 6. the loop over the reader (l.22-87), followed by the epilogue -/

/-- the rest of `cut_lines_forward_only` after the read loop has produced `w` -/
def finish (opt : Opt) (w : Run × Vars) : Run :=
  (w.1.seq (epilogueWhile opt (opt.bounds.list.length + 1) w.2).1).seq (Run.ok [opt.eol.byte])

theorem finish_pre (opt : Opt) (out : Bytes) (r : Run) (v : Vars) :
    finish opt ((Run.ok out).seq r, v) = Run.pre out (finish opt (r, v)) := by
  unfold finish
  rw [Run.seq_assoc, Run.seq_assoc, Run.seq_ok, Run.seq_assoc]

theorem finish_fail (opt : Opt) (v : Vars) : finish opt (Run.fail, v) = Run.fail := rfl

/-- **the read loop, the epilogue and the final EOL are `fwdLines`** from any state of the counter
    that stands for the model's index, when every bound is `PastOk` — or, for any bounds at all,
    when the lines still to come do not take the index past `i32::MAX`; `len + 1` units of fuel
    (any amount above the number of bytes still to read) are enough -/
theorem readWhile_eq (opt : Opt) :
    ∀ (fuel : Nat) (stdin : Bytes) (pre rest : List BoF) (idx li : Int) (p a : Bool),
      opt.bounds.list = pre ++ rest → stdin.length < fuel → Tracks idx li p →
      ((∀ b, BoF.bound b ∈ opt.bounds.list → PastOk b) ∨
        idx + (records opt.eol.byte stdin).length ≤ i32Max) →
      finish opt (readWhile opt fuel stdin ⟨li, p, pre.length, a⟩) =
        fwdLines opt (records opt.eol.byte stdin) idx rest a := by
  intro fuel
  induction fuel with
  | zero => intro stdin _ _ _ _ _ _ _ h; omega
  | succ fuel ih =>
    intro stdin pre rest idx li p a h hf htr hG
    have hL : rest.length < opt.bounds.list.length + 1 := by rw [h]; simp; omega
    by_cases hne : stdin = []
    · subst hne
      have hrec : records opt.eol.byte [] = [] := rfl
      simp only [readWhile, readLineWithEol_nil, hrec, fwdLines_nil, finish, Run.empty_seq]
      exact epilogueWhile_eq opt li p rest pre _ a h hL
    · obtain ⟨raw, rest', e1, e2, e3, e4, e5⟩ := reader_step opt.eol stdin hne
      rw [e4] at hG ⊢
      simp only [List.length_cons] at hG
      -- l.23-26: the counter after this line
      obtain ⟨li', p', hstep, htr'⟩ : ∃ li' p',
          nextLine ⟨li, p, pre.length, a⟩ = ⟨li', p', pre.length, a⟩ ∧
          Tracks (idx + 1) li' p' := by
        rcases tracks_step htr with ⟨h1, hp, hadd⟩ | ⟨h1, hadd, hli⟩
        · refine ⟨idx + 1, p, by simp only [nextLine, hadd], ?_⟩
          left
          rcases htr with ⟨_, _, h0, _⟩ | ⟨hp', _, _⟩
          · exact ⟨hp, rfl, by omega, by omega⟩
          · rw [hp] at hp'; cases hp'
        · refine ⟨li, true, by simp only [nextLine, hadd], ?_⟩
          right
          exact ⟨rfl, hli, by omega⟩
      have hG' : (∀ b, BoF.bound b ∈ opt.bounds.list → PastOk b) ∨
          idx + 1 + (records opt.eol.byte rest').length ≤ i32Max := by
        rcases hG with hG | hG
        · left; exact hG
        · right; omega
      have hok : p' = true → ∀ b, BoF.bound b ∈ rest → PastOk b := by
        intro hp' b hb
        rcases hG' with hG' | hG'
        · exact hG' b (by rw [h]; exact List.mem_append_right _ hb)
        · rcases htr' with ⟨hp'', _⟩ | ⟨_, _, hbig⟩
          · rw [hp'] at hp''; cases hp''
          · omega
      rw [fwdLines_cons]
      by_cases hv : validUtf8 raw = true
      · have hv' : validUtf8 (stripEol opt.eol.byte raw) = true := by rw [← e5]; exact hv
        obtain ⟨pre', p1, p2⟩ := innerWhile_eq opt (stripEol opt.eol.byte raw) (idx + 1) li' p' htr'
          rest pre (opt.bounds.list.length + 1) a h hL hok
        simp only [readWhile, readLineWithEol_eq opt.eol stdin raw rest' e1 e2, hv, if_true, hstep, p2,
          hv', Bool.not_true, Bool.false_eq_true, if_false]
        generalize (fwdLine opt (stripEol opt.eol.byte raw) (idx + 1) rest a) = r at p1 ⊢
        obtain ⟨w, rest'', a'⟩ := r
        simp only at p1 ⊢
        by_cases hre : rest'' = []
        · subst hre
          have hlen : (pre'.length == opt.bounds.list.length) = true := by
            rw [p1]; simp
          simp only [hlen, if_true, List.isEmpty_nil]
          have := epilogueWhile_eq opt li' p' [] pre' (opt.bounds.list.length + 1) a' p1 (by simp)
          unfold finish
          rw [Run.seq_assoc, this]
          rfl
        · have hlen : (pre'.length == opt.bounds.list.length) = false := by
            rw [p1]
            cases rest'' with
            | nil => exact absurd rfl hre
            | cons _ _ => simp
          have hemp : rest''.isEmpty = false := by
            cases rest'' with
            | nil => exact absurd rfl hre
            | cons _ _ => rfl
          simp only [hlen, Bool.false_eq_true, if_false, hemp]
          rw [finish_pre]
          congr 1
          exact ih rest' pre' rest'' (idx + 1) li' p' a' p1 (by omega) htr' hG'
      · have hv' : validUtf8 (stripEol opt.eol.byte raw) = false := by
          rw [← e5]; simpa using hv
        simp only [readWhile, readLineWithEol_eq opt.eol stdin raw rest' e1 e2, hv, Bool.false_eq_true,
          if_false, hstep, hv', Bool.not_false, if_true]
        rfl

end LinesLoop
end Tuc
