import Tuc.Model.CutStr
import Tuc.Spec.Record
import Tuc.Lemmas.Run
import Tuc.Lemmas.Bounds
import Tuc.Lemmas.Split
/-!
# Tuc.Lemmas.CutStrSpec — the general field engine refines the per-record specification
-/

namespace Tuc
open Tuc.Spec

/-- the record after `-t` -/
def trimmed (opt : Opt) (line : Bytes) : Bytes :=
  match opt.trim with
  | some k => trimLiteral line k opt.delimiter
  | none => line

/-- the record the ranges point into: after `-p` -/
def compressed (opt : Opt) (line' : Bytes) : Bytes :=
  if opt.compressDelimiter then compressDelimiter line' opt.delimiter [] else line'

def fieldsOf (opt : Opt) (line2 : Bytes) : List Range :=
  if opt.greedyDelimiter then fillWithFieldsLocationsGreedy [] line2 opt.delimiter
  else fillWithFieldsLocations [] line2 opt.delimiter

set_option linter.unusedSimpArgs false in
/-- `cut_str` in field mode with a literal delimiter, passes made explicit -/
theorem cutStrCore_fields (line : Bytes) (opt : Opt) (eol : Bytes) (hre : opt.regexBag = none)
    (hty : opt.boundsType = .fields) :
    (cutStrCore line opt eol).1 =
      if (trimmed opt line).isEmpty then (if !opt.onlyDelimited then Run.ok eol else Run.empty)
      else emitRecord (compressed opt (trimmed opt line))
        (fieldsOf opt (compressed opt (trimmed opt line))) opt false eol := by
  unfold cutStrCore trimmed
  simp only [hre, hty, Option.isSome_none, Bool.false_and, Bool.false_eq_true, if_false]
  cases opt.trim <;> simp only [] <;> split <;> rename_i he
  all_goals first
    | (simp only [he, if_true]; done)
    | (cases hc : opt.compressDelimiter <;> simp [he, compressed, fieldsOf, hc])

/-- how the specification renders a separator of `k` occurrences -/
def sepOf (opt : Opt) : Nat → Bytes := fun k =>
  match opt.replaceDelimiter with
  | some r => repeatBytes r k
  | none => repeatBytes opt.delimiter k

/-- the specification in field mode, passes made explicit -/
theorem specRecord_fields (line : Bytes) (opt : Opt) (hty : opt.boundsType = .fields)
    (hjson : opt.json = false) (hcompl : opt.complement = false) :
    specRecord (cfgOf opt) line =
      if (trimmed opt line).isEmpty then (if opt.onlyDelimited then Run.empty else Run.ok [opt.eol.byte])
      else
        if opt.onlyDelimited &&
          (tokenize opt.delimiter opt.greedyDelimiter opt.compressDelimiter (trimmed opt line)).numFields == 1
        then Run.empty
        else
          (emit (cfgOf opt)
            (tokenize opt.delimiter opt.greedyDelimiter opt.compressDelimiter (trimmed opt line))
            (sepOf opt) (opt.replaceDelimiter.getD opt.delimiter) opt.bounds.list).seq
              (Run.ok [opt.eol.byte]) := by
  unfold specRecord trimmed
  simp only [cfgOf, hty, hjson, hcompl]
  cases opt.trim <;> simp <;> rfl

/-! ## the ranges against the tokens -/

/-- what the output loop needs to know about the ranges `fields` into `line`, in terms of the
    tokens of the specification -/
structure Refines (d line : Bytes) (fields : List Range) (tok : Tok) : Prop where
  len : fields.length = tok.numFields
  inb : ∀ (a b : Nat) (hab : a ≤ b) (hb : b < fields.length),
    (fields[a]'(by omega)).start ≤ fields[b].stop ∧ fields[b].stop ≤ line.length
  piece : ∀ (a b : Nat) (hab : a ≤ b) (hb : b < fields.length),
    slice line (fields[a]'(by omega)).start fields[b].stop =
      pieceText (repeatBytes d) tok (a + 1) (b + 1)
  ok : TokOK d ((0, tok.first) :: tok.rest)

theorem refines_plain (d line : Bytes) (hd : d ≠ []) (hline : line ≠ []) :
    Refines d line (fillWithFieldsLocations [] line d) (tokenize d false false line) where
  len := by
    rw [fields_length d line hd hline, tokenize_plain]
    have := splitFields_ne_nil d line
    cases hs : splitFields d line with
    | nil => exact absurd hs this
    | cons f t => simp [Tok.numFields]
  inb a b hab hb := by
    have hw := fields_wellformed d line hd hline
    exact ⟨hw.start_le_stop a b hab hb, (hw.getElem_bounds b hb).2.2⟩
  piece a b hab hb := slice_eq_pieceText d line hd hline a b hab hb
  ok := tokenize_ok d line hd false

theorem refines_greedy (d line : Bytes) (hd : d ≠ []) (hline : line ≠ []) :
    Refines d line (fillWithFieldsLocationsGreedy [] line d) (tokenize d true false line) where
  len := greedy_fields_length d line hd hline
  inb a b hab hb := (greedy_fields_tiling d line hd hline).start_le_stop a b hab hb
  piece a b hab hb := greedy_slice_eq_pieceText d line hd hline a b hab hb
  ok := tokenize_ok d line hd true

/-- whatever the options, the engine's record and ranges refine the specification's tokens -/
theorem refines_engine (opt : Opt) (line' : Bytes) (hd : opt.delimiter ≠ []) (hline : line' ≠ []) :
    Refines opt.delimiter (compressed opt line') (fieldsOf opt (compressed opt line'))
      (tokenize opt.delimiter opt.greedyDelimiter opt.compressDelimiter line') := by
  unfold compressed fieldsOf
  cases hp : opt.compressDelimiter with
  | false =>
    cases hg : opt.greedyDelimiter with
    | false => simpa using refines_plain opt.delimiter line' hd hline
    | true => simpa using refines_greedy opt.delimiter line' hd hline
  | true =>
    have hne := compress_ne_nil opt.delimiter line' hd hline
    rw [tokenize_compress opt.delimiter line' hd]
    cases hg : opt.greedyDelimiter with
    | false => simpa using refines_plain opt.delimiter _ hd hne
    | true => simpa using refines_greedy opt.delimiter _ hd hne

/-! ## the output loop -/

/-- `is_last` is set on exactly the last bound of the list (`markLast`, `fromVec`) -/
def LastMarked : List BoF → Prop
  | [] => True
  | .filler _ :: t => LastMarked t
  | .bound b :: t => (b.isLast = true ↔ countBounds t = 0) ∧ LastMarked t

theorem resolve_some {b : UserBounds} {n lo hi : Nat} (h : resolve b n = some (lo, hi)) :
    lo ≤ hi ∧ 1 ≤ lo := by
  unfold resolve at h
  cases h1 : resolveSide b.l n 1 with
  | none => simp [h1] at h
  | some lo' =>
    cases h2 : resolveSide b.r n n with
    | none => simp [h1, h2] at h
    | some hi' =>
      simp only [h1, h2] at h
      by_cases hc : lo' ≤ hi' ∧ 1 ≤ lo'
      · rw [if_pos hc] at h
        simp only [Option.some.injEq, Prod.mk.injEq] at h
        omega
      · rw [if_neg hc] at h; cases h

theorem joiner_algebra (x J : Bytes) (join isLast : Bool) (c : Nat) (R : Run)
    (h : isLast = true ↔ c = 0) :
    ((Run.ok x).seq (if join && !isLast then Run.ok J else Run.empty)).seq R =
      Run.pre (x ++ (if join && decide (c > 0) then J else [])) R := by
  cases join <;> cases isLast <;> simp at h <;>
    simp [Run.seq, Run.ok, Run.pre, Run.empty, h, List.append_assoc]

/-- the text the engine prints for a resolvable bound is the specification's piece -/
theorem bound_text (opt : Opt) (line : Bytes) (fields : List Range) (tok : Tok)
    (hR : Refines opt.delimiter line fields tok) (hd : opt.delimiter ≠ [])
    (hre : opt.regexBag = none) (hty : opt.boundsType = .fields)
    (a b : Nat) (hab : a ≤ b) (hb : b < fields.length) :
    maybeReplaceDelimiter (slice line (fields[a]'(by omega)).start fields[b].stop) opt false =
      pieceText (sepOf opt) tok (a + 1) (b + 1) := by
  unfold maybeReplaceDelimiter sepOf
  rw [hR.piece a b hab hb]
  simp only [hty, hre]
  cases opt.replaceDelimiter with
  | none => simp
  | some r => simpa using pieceText_replace opt.delimiter r hd tok hR.ok (a + 1) (b + 1)

/-- what the specification prints for a bound: the piece, else the bound's own fallback, else the
    generic one -/
def specText (opt : Opt) (tok : Tok) (b : UserBounds) : Option Bytes :=
  match resolve b tok.numFields with
  | some (lo, hi) => some (pieceText (sepOf opt) tok lo hi)
  | none =>
    match b.fallback with
    | some f => some f
    | none => opt.fallbackOob

/-- one bound of the output loop, followed by the rest `R` of the run -/
theorem outputBof_bound (opt : Opt) (line : Bytes) (fields : List Range) (tok : Tok)
    (hR : Refines opt.delimiter line fields tok) (hd : opt.delimiter ≠ [])
    (hre : opt.regexBag = none) (hty : opt.boundsType = .fields) (hjson : opt.json = false)
    (b : UserBounds) (hz : b.Nonzero) (c : Nat) (hL : b.isLast = true ↔ c = 0) (R : Run) :
    (outputBof line fields fields.length opt false (.bound b)).seq R =
      match specText opt tok b with
      | none => Run.fail
      | some x =>
        Run.pre (x ++ (if opt.join && decide (c > 0) then opt.replaceDelimiter.getD opt.delimiter
          else [])) R := by
  unfold outputBof specText
  simp only []
  rw [tryIntoRange_eq_resolve b fields.length hz, hR.len]
  cases hres : resolve b tok.numFields with
  | none =>
    simp only [Option.map_none]
    cases b.fallback with
    | some f => simp only [writeMaybeAsJson, hjson]; exact joiner_algebra _ _ _ _ _ _ hL
    | none =>
      cases opt.fallbackOob with
      | some f => simp only [writeMaybeAsJson, hjson]; exact joiner_algebra _ _ _ _ _ _ hL
      | none => simp [Run.seq, Run.fail]
  | some p =>
    obtain ⟨lo, hi⟩ := p
    have htr : b.tryIntoRange fields.length = some (lo - 1, hi) := by
      rw [tryIntoRange_eq_resolve b fields.length hz, hR.len, hres]; rfl
    have hzl : b.l ≠ .some 0 := by
      intro h0
      have := hz.1
      rw [h0] at this
      exact this rfl
    obtain ⟨h1, h2⟩ := tryIntoRange_bounds b _ _ _ hzl htr
    obtain ⟨h3, h4⟩ := resolve_some hres
    have hs : lo - 1 < fields.length := by omega
    have he : hi - 1 < fields.length := by omega
    have hin := hR.inb (lo - 1) (hi - 1) (by omega) he
    have htext := bound_text opt line fields tok hR hd hre hty (lo - 1) (hi - 1) (by omega) he
    have e1 : lo - 1 + 1 = lo := by omega
    have e2 : hi - 1 + 1 = hi := by omega
    rw [e1, e2] at htext
    simp only [Option.map_some, List.getElem?_eq_getElem hs, List.getElem?_eq_getElem he]
    rw [if_pos hin, htext]
    simp only [writeMaybeAsJson, hjson]
    exact joiner_algebra _ _ _ _ _ _ hL

/-- **the output loop is the specification's `emit`** -/
theorem outputLoop_eq_emit (opt : Opt) (line : Bytes) (fields : List Range) (tok : Tok)
    (hR : Refines opt.delimiter line fields tok) (hd : opt.delimiter ≠ [])
    (hre : opt.regexBag = none) (hty : opt.boundsType = .fields) (hjson : opt.json = false) :
    ∀ (bofs : List BoF), (∀ b, BoF.bound b ∈ bofs → b.Nonzero) → LastMarked bofs →
      outputLoop line fields fields.length opt false bofs =
        emit (cfgOf opt) tok (sepOf opt) (opt.replaceDelimiter.getD opt.delimiter) bofs
  | [], _, _ => rfl
  | .filler f :: t, hz, hL => by
    have ih := outputLoop_eq_emit opt line fields tok hR hd hre hty hjson t
      (fun b hb => hz b (List.mem_cons_of_mem _ hb)) hL
    simp only [outputLoop, outputBof, emit, Run.seq_ok, ih]
  | .bound b :: t, hz, hL => by
    have ih := outputLoop_eq_emit opt line fields tok hR hd hre hty hjson t
      (fun b hb => hz b (List.mem_cons_of_mem _ hb)) hL.2
    have hb := outputBof_bound opt line fields tok hR hd hre hty hjson b
      (hz b (List.mem_cons_self ..)) (countBounds t) hL.1
      (outputLoop line fields fields.length opt false t)
    simp only [outputLoop]
    rw [hb, ih]
    unfold specText
    simp only [emit, cfgOf, hjson]
    cases resolve b tok.numFields with
    | some p => simp
    | none =>
      cases b.fallback with
      | some f => simp
      | none => cases opt.fallbackOob <;> simp

/-- everything after the ranges are known, without `--json` and `-m` -/
theorem emitRecord_plain (line : Bytes) (fields : List Range) (opt : Opt) (eol : Bytes)
    (hjson : opt.json = false) (hcompl : opt.complement = false)
    (hty : opt.boundsType = .fields) :
    emitRecord line fields opt false eol =
      if opt.onlyDelimited && fields.length == 1 then Run.empty
      else (outputLoop line fields fields.length opt false opt.bounds.list).seq (Run.ok eol) := by
  unfold emitRecord
  simp [hjson, hcompl, hty]

/-- **C01, one record.**  The general engine in field mode with a literal non-empty delimiter —
    any of `-g -p -t -s -j -r`, fallbacks, format fillers; no `--json`, no `-m`, no regex —
    writes for every record exactly what the per-record specification says, and ends as it says
    (never a panic). -/
theorem cutStr_eq_spec (opt : Opt) (line : Bytes) (hd : opt.delimiter ≠ [])
    (hre : opt.regexBag = none) (hty : opt.boundsType = .fields) (hjson : opt.json = false)
    (hcompl : opt.complement = false)
    (hz : ∀ b, BoF.bound b ∈ opt.bounds.list → b.Nonzero) (hL : LastMarked opt.bounds.list) :
    (cutStrCore line opt [opt.eol.byte]).1 = specRecord (cfgOf opt) line := by
  rw [cutStrCore_fields line opt _ hre hty, specRecord_fields line opt hty hjson hcompl]
  by_cases he : (trimmed opt line).isEmpty = true
  · rw [if_pos he, if_pos he]
    cases opt.onlyDelimited <;> simp
  · rw [if_neg he, if_neg he]
    have hne : trimmed opt line ≠ [] := by
      intro h; rw [h] at he; exact he rfl
    have hR := refines_engine opt (trimmed opt line) hd hne
    rw [emitRecord_plain _ _ _ _ hjson hcompl hty,
      outputLoop_eq_emit opt _ _ _ hR hd hre hty hjson opt.bounds.list hz hL, hR.len]

end Tuc
