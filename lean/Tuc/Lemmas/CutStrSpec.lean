import Tuc.Model.CutStr
import Tuc.Spec.Record
import Tuc.Lemmas.Run
import Tuc.Lemmas.Bounds
import Tuc.Lemmas.Split
/-!
# Tuc.Lemmas.CutStrSpec — the general field engine refines the per-record specification
-/

namespace Tuc
open Tuc.Spec

/-- the record after `-t` -/
def trimmed (opt : Opt) (line : Bytes) : Bytes :=
  match opt.trim with
  | some k => trimLiteral line k opt.delimiter
  | none => line

/-- the record the ranges point into: after `-p` -/
def compressed (opt : Opt) (line' : Bytes) : Bytes :=
  if opt.compressDelimiter then compressDelimiter line' opt.delimiter [] else line'

def fieldsOf (opt : Opt) (line2 : Bytes) : List Range :=
  if opt.greedyDelimiter then fillWithFieldsLocationsGreedy [] line2 opt.delimiter
  else fillWithFieldsLocations [] line2 opt.delimiter

set_option linter.unusedSimpArgs false in
/-- `cut_str` in field mode with a literal delimiter, passes made explicit -/
theorem cutStrCore_fields (line : Bytes) (opt : Opt) (eol : Bytes) (hre : opt.regexBag = none)
    (hty : opt.boundsType = .fields ∨ opt.boundsType = .lines) :
    (cutStrCore line opt eol).1 =
      if (trimmed opt line).isEmpty then (if !opt.onlyDelimited then Run.ok eol else Run.empty)
      else emitRecord (compressed opt (trimmed opt line))
        (fieldsOf opt (compressed opt (trimmed opt line))) opt false eol := by
  unfold cutStrCore trimmed
  rcases hty with hty | hty <;>
    simp only [hre, hty, Option.isSome_none, Bool.false_and, Bool.false_eq_true, if_false] <;>
    cases opt.trim <;> simp only [] <;> split <;> rename_i he
  all_goals first
    | (simp only [he, if_true]; done)
    | (cases hc : opt.compressDelimiter <;> simp [he, compressed, fieldsOf, hc])

/-- how the specification renders a separator of `k` occurrences -/
def sepOf (opt : Opt) : Nat → Bytes := fun k =>
  match opt.replaceDelimiter with
  | some r => repeatBytes r k
  | none => repeatBytes opt.delimiter k

/-- the specification in field mode, passes made explicit -/
def specBofs (opt : Opt) (n : Nat) : List BoF :=
  if opt.complement then mapBounds (complementBound · n) opt.bounds.list else opt.bounds.list

theorem specRecord_fields (line : Bytes) (opt : Opt) (hty : opt.boundsType = .fields ∨ opt.boundsType = .lines)
    (hjson : opt.json = false) :
    specRecord (cfgOf opt) line =
      if (trimmed opt line).isEmpty then (if opt.onlyDelimited then Run.empty else Run.ok [opt.eol.byte])
      else
        if opt.onlyDelimited &&
          (tokenize opt.delimiter opt.greedyDelimiter opt.compressDelimiter (trimmed opt line)).numFields == 1
        then Run.empty
        else
          if opt.complement && countBounds (specBofs opt
            (tokenize opt.delimiter opt.greedyDelimiter opt.compressDelimiter (trimmed opt line)).numFields) == 0
          then Run.fail
          else
          (emit (cfgOf opt)
            (tokenize opt.delimiter opt.greedyDelimiter opt.compressDelimiter (trimmed opt line))
            (sepOf opt) (opt.replaceDelimiter.getD opt.delimiter)
            (specBofs opt
              (tokenize opt.delimiter opt.greedyDelimiter opt.compressDelimiter (trimmed opt line)).numFields)).seq
              (Run.ok [opt.eol.byte]) := by
  unfold specRecord trimmed specBofs
  rcases hty with hty | hty <;> simp only [cfgOf, hty, hjson] <;>
    cases opt.trim <;> cases opt.complement <;> simp <;> rfl

/-! ## the ranges against the tokens -/

/-- what the output loop needs to know about the ranges `fields` into `line`, in terms of the
    tokens of the specification -/
structure Refines (d line : Bytes) (fields : List Range) (tok : Tok) : Prop where
  len : fields.length = tok.numFields
  inb : ∀ (a b : Nat) (hab : a ≤ b) (hb : b < fields.length),
    (fields[a]'(by omega)).start ≤ fields[b].stop ∧ fields[b].stop ≤ line.length
  piece : ∀ (a b : Nat) (hab : a ≤ b) (hb : b < fields.length),
    slice line (fields[a]'(by omega)).start fields[b].stop =
      pieceText (repeatBytes d) tok (a + 1) (b + 1)
  ok : TokOK d ((0, tok.first) :: tok.rest)

theorem refines_plain (d line : Bytes) (hd : d ≠ []) (hline : line ≠ []) :
    Refines d line (fillWithFieldsLocations [] line d) (tokenize d false false line) where
  len := by
    rw [fields_length d line hd hline, tokenize_plain]
    have := splitFields_ne_nil d line
    cases hs : splitFields d line with
    | nil => exact absurd hs this
    | cons f t => simp [Tok.numFields]
  inb a b hab hb := by
    have hw := fields_wellformed d line hd hline
    exact ⟨hw.start_le_stop a b hab hb, (hw.getElem_bounds b hb).2.2⟩
  piece a b hab hb := slice_eq_pieceText d line hd hline a b hab hb
  ok := tokenize_ok d line hd false

theorem refines_greedy (d line : Bytes) (hd : d ≠ []) (hline : line ≠ []) :
    Refines d line (fillWithFieldsLocationsGreedy [] line d) (tokenize d true false line) where
  len := greedy_fields_length d line hd hline
  inb a b hab hb := (greedy_fields_tiling d line hd hline).start_le_stop a b hab hb
  piece a b hab hb := greedy_slice_eq_pieceText d line hd hline a b hab hb
  ok := tokenize_ok d line hd true

/-- whatever the options, the engine's record and ranges refine the specification's tokens -/
theorem refines_engine (opt : Opt) (line' : Bytes) (hd : opt.delimiter ≠ []) (hline : line' ≠ []) :
    Refines opt.delimiter (compressed opt line') (fieldsOf opt (compressed opt line'))
      (tokenize opt.delimiter opt.greedyDelimiter opt.compressDelimiter line') := by
  unfold compressed fieldsOf
  cases hp : opt.compressDelimiter with
  | false =>
    cases hg : opt.greedyDelimiter with
    | false => simpa using refines_plain opt.delimiter line' hd hline
    | true => simpa using refines_greedy opt.delimiter line' hd hline
  | true =>
    have hne := compress_ne_nil opt.delimiter line' hd hline
    rw [tokenize_compress opt.delimiter line' hd]
    cases hg : opt.greedyDelimiter with
    | false => simpa using refines_plain opt.delimiter _ hd hne
    | true => simpa using refines_greedy opt.delimiter _ hd hne

/-! ## the output loop -/

/-- `is_last` is set on exactly the last bound of the list (`markLast`, `fromVec`) -/
def LastMarked : List BoF → Prop
  | [] => True
  | .filler _ :: t => LastMarked t
  | .bound b :: t => (b.isLast = true ↔ countBounds t = 0) ∧ LastMarked t

theorem resolve_some {b : UserBounds} {n lo hi : Nat} (h : resolve b n = some (lo, hi)) :
    lo ≤ hi ∧ 1 ≤ lo := by
  unfold resolve at h
  cases h1 : resolveSide b.l n 1 with
  | none => simp [h1] at h
  | some lo' =>
    cases h2 : resolveSide b.r n n with
    | none => simp [h1, h2] at h
    | some hi' =>
      simp only [h1, h2] at h
      by_cases hc : lo' ≤ hi' ∧ 1 ≤ lo'
      · rw [if_pos hc] at h
        simp only [Option.some.injEq, Prod.mk.injEq] at h
        omega
      · rw [if_neg hc] at h; cases h

theorem joiner_algebra (x J : Bytes) (join isLast : Bool) (c : Nat) (R : Run)
    (h : isLast = true ↔ c = 0) :
    ((Run.ok x).seq (if join && !isLast then Run.ok J else Run.empty)).seq R =
      Run.pre (x ++ (if join && decide (c > 0) then J else [])) R := by
  cases join <;> cases isLast <;> simp at h <;>
    simp [Run.seq, Run.ok, Run.pre, Run.empty, h, List.append_assoc]

/-- the text the engine prints for a resolvable bound is the specification's piece -/
theorem bound_text (opt : Opt) (line : Bytes) (fields : List Range) (tok : Tok)
    (hR : Refines opt.delimiter line fields tok) (hd : opt.delimiter ≠ [])
    (hre : opt.regexBag = none) (hty : opt.boundsType = .fields ∨ opt.boundsType = .lines)
    (a b : Nat) (hab : a ≤ b) (hb : b < fields.length) :
    maybeReplaceDelimiter (slice line (fields[a]'(by omega)).start fields[b].stop) opt false =
      pieceText (sepOf opt) tok (a + 1) (b + 1) := by
  unfold maybeReplaceDelimiter sepOf
  rw [hR.piece a b hab hb]
  have hnc : ¬ opt.boundsType = .characters := by
    rcases hty with hty | hty <;> rw [hty] <;> intro h <;> cases h
  rw [if_neg hnc]
  simp only [hre]
  cases opt.replaceDelimiter with
  | none => simp
  | some r => simpa using pieceText_replace opt.delimiter r hd tok hR.ok (a + 1) (b + 1)

/-- what the specification prints for a bound: the piece, else the bound's own fallback, else the
    generic one -/
def specText (opt : Opt) (tok : Tok) (b : UserBounds) : Option Bytes :=
  match resolve b tok.numFields with
  | some (lo, hi) => some (pieceText (sepOf opt) tok lo hi)
  | none =>
    match b.fallback with
    | some f => some f
    | none => opt.fallbackOob

/-- one bound of the output loop, followed by the rest `R` of the run -/
theorem outputBof_bound (opt : Opt) (line : Bytes) (fields : List Range) (tok : Tok)
    (hR : Refines opt.delimiter line fields tok) (hd : opt.delimiter ≠ [])
    (hre : opt.regexBag = none) (hty : opt.boundsType = .fields ∨ opt.boundsType = .lines)
    (hjson : opt.json = false)
    (b : UserBounds) (hz : b.Nonzero) (c : Nat) (hL : b.isLast = true ↔ c = 0) (R : Run) :
    (outputBof line fields fields.length opt false (.bound b)).seq R =
      match specText opt tok b with
      | none => Run.fail
      | some x =>
        Run.pre (x ++ (if opt.join && decide (c > 0) then opt.replaceDelimiter.getD opt.delimiter
          else [])) R := by
  unfold outputBof specText
  simp only []
  rw [tryIntoRange_eq_resolve b fields.length hz, hR.len]
  cases hres : resolve b tok.numFields with
  | none =>
    simp only [Option.map_none]
    cases b.fallback with
    | some f => simp only [writeMaybeAsJson, hjson]; exact joiner_algebra _ _ _ _ _ _ hL
    | none =>
      cases opt.fallbackOob with
      | some f => simp only [writeMaybeAsJson, hjson]; exact joiner_algebra _ _ _ _ _ _ hL
      | none => simp [Run.seq, Run.fail]
  | some p =>
    obtain ⟨lo, hi⟩ := p
    have htr : b.tryIntoRange fields.length = some (lo - 1, hi) := by
      rw [tryIntoRange_eq_resolve b fields.length hz, hR.len, hres]; rfl
    have hzl : b.l ≠ .some 0 := by
      intro h0
      have := hz.1
      rw [h0] at this
      exact this rfl
    obtain ⟨h1, h2⟩ := tryIntoRange_bounds b _ _ _ hzl htr
    obtain ⟨h3, h4⟩ := resolve_some hres
    have hs : lo - 1 < fields.length := by omega
    have he : hi - 1 < fields.length := by omega
    have hin := hR.inb (lo - 1) (hi - 1) (by omega) he
    have htext := bound_text opt line fields tok hR hd hre hty (lo - 1) (hi - 1) (by omega) he
    have e1 : lo - 1 + 1 = lo := by omega
    have e2 : hi - 1 + 1 = hi := by omega
    rw [e1, e2] at htext
    simp only [Option.map_some, List.getElem?_eq_getElem hs, List.getElem?_eq_getElem he]
    rw [if_pos hin, htext]
    simp only [writeMaybeAsJson, hjson]
    exact joiner_algebra _ _ _ _ _ _ hL

/-- **the output loop is the specification's `emit`** -/
theorem outputLoop_eq_emit (opt : Opt) (line : Bytes) (fields : List Range) (tok : Tok)
    (hR : Refines opt.delimiter line fields tok) (hd : opt.delimiter ≠ [])
    (hre : opt.regexBag = none) (hty : opt.boundsType = .fields ∨ opt.boundsType = .lines)
    (hjson : opt.json = false) :
    ∀ (bofs : List BoF), (∀ b, BoF.bound b ∈ bofs → b.Nonzero) → LastMarked bofs →
      outputLoop line fields fields.length opt false bofs =
        emit (cfgOf opt) tok (sepOf opt) (opt.replaceDelimiter.getD opt.delimiter) bofs
  | [], _, _ => rfl
  | .filler f :: t, hz, hL => by
    have ih := outputLoop_eq_emit opt line fields tok hR hd hre hty hjson t
      (fun b hb => hz b (List.mem_cons_of_mem _ hb)) hL
    simp only [outputLoop, outputBof, emit, Run.seq_ok, ih]
  | .bound b :: t, hz, hL => by
    have ih := outputLoop_eq_emit opt line fields tok hR hd hre hty hjson t
      (fun b hb => hz b (List.mem_cons_of_mem _ hb)) hL.2
    have hb := outputBof_bound opt line fields tok hR hd hre hty hjson b
      (hz b (List.mem_cons_self ..)) (countBounds t) hL.1
      (outputLoop line fields fields.length opt false t)
    simp only [outputLoop]
    rw [hb, ih]
    unfold specText
    simp only [emit, cfgOf, hjson]
    cases resolve b tok.numFields with
    | some p => simp
    | none =>
      cases b.fallback with
      | some f => simp
      | none => cases opt.fallbackOob <;> simp

/-- everything after the ranges are known, without `--json` -/
theorem emitRecord_fields (line : Bytes) (fields : List Range) (opt : Opt) (eol : Bytes)
    (hjson : opt.json = false) (hty : opt.boundsType = .fields ∨ opt.boundsType = .lines) :
    emitRecord line fields opt false eol =
      if opt.onlyDelimited && fields.length == 1 then Run.empty
      else
        match (if opt.complement then complementList opt.bounds.list fields.length
               else .ok opt.bounds) with
        | .fail => Run.fail
        | .panic => Run.panic
        | .ok bounds =>
          (outputLoop line fields fields.length opt false bounds.list).seq (Run.ok eol) := by
  unfold emitRecord
  rcases hty with hty | hty <;> simp only [hjson, hty] <;> split
  all_goals first
    | rfl
    | (simp only [Bool.false_or, Bool.false_eq_true, if_false, Run.empty_seq, Run.seq_empty]
       split <;> simp [*])

/-! ## `markLast` establishes `LastMarked` -/

theorem countBounds_eq_zero_of_markLast_none : ∀ (l : List BoF), markLast l = none → countBounds l = 0
  | [], _ => rfl
  | .filler f :: t, h => by
    simp only [markLast, Option.map_eq_none_iff] at h
    simpa [countBounds] using countBounds_eq_zero_of_markLast_none t h
  | .bound b :: t, h => by
    simp only [markLast] at h
    cases hm : markLast t <;> simp [hm] at h

theorem countBounds_pos_of_markLast_some : ∀ (l l' : List BoF), markLast l = some l' →
    0 < countBounds l ∧ countBounds l' = countBounds l
  | [], _, h => by simp [markLast] at h
  | .filler f :: t, l', h => by
    simp only [markLast, Option.map_eq_some_iff] at h
    obtain ⟨t', ht, rfl⟩ := h
    simpa [countBounds] using countBounds_pos_of_markLast_some t t' ht
  | .bound b :: t, l', h => by
    simp only [markLast] at h
    cases hm : markLast t with
    | none =>
      simp only [hm, Option.some.injEq] at h
      subst h
      simp [countBounds]
    | some t' =>
      simp only [hm, Option.some.injEq] at h
      subst h
      have := countBounds_pos_of_markLast_some t t' hm
      simp [countBounds, this.2]

/-- a list whose `is_last` flags are all clear (what the parser and the `-m` / unpack rewrites
    produce) -/
def NoneMarked (l : List BoF) : Prop := ∀ b, BoF.bound b ∈ l → b.isLast = false

theorem lastMarked_of_noneMarked_of_no_bounds : ∀ (l : List BoF), countBounds l = 0 → LastMarked l
  | [], _ => trivial
  | .filler _ :: t, h => lastMarked_of_noneMarked_of_no_bounds t (by simpa [countBounds] using h)
  | .bound _ :: t, h => by simp [countBounds] at h

/-- **`markLast` (hence `fromVec`, `from_str`) produces a `LastMarked` list** from a list whose
    flags are clear -/
theorem markLast_lastMarked : ∀ (l l' : List BoF), NoneMarked l → markLast l = some l' → LastMarked l'
  | [], _, _, h => by simp [markLast] at h
  | .filler f :: t, l', hn, h => by
    simp only [markLast, Option.map_eq_some_iff] at h
    obtain ⟨t', ht, rfl⟩ := h
    exact markLast_lastMarked t t' (fun b hb => hn b (List.mem_cons_of_mem _ hb)) ht
  | .bound b :: t, l', hn, h => by
    have hb : b.isLast = false := hn b (List.mem_cons_self ..)
    simp only [markLast] at h
    cases hm : markLast t with
    | none =>
      simp only [hm, Option.some.injEq] at h
      subst h
      have h0 := countBounds_eq_zero_of_markLast_none t hm
      exact ⟨by simp [h0], lastMarked_of_noneMarked_of_no_bounds t h0⟩
    | some t' =>
      simp only [hm, Option.some.injEq] at h
      subst h
      have hc := countBounds_pos_of_markLast_some t t' hm
      refine ⟨?_, markLast_lastMarked t t' (fun b hb => hn b (List.mem_cons_of_mem _ hb)) hm⟩
      rw [hb, hc.2]
      constructor
      · intro h; cases h
      · intro h; omega

theorem fromVec_lastMarked (l : List BoF) (ubl : UserBoundsList) (hn : NoneMarked l)
    (h : fromVec l = .ok ubl) : LastMarked ubl.list := by
  unfold fromVec at h
  cases hm : markLast l with
  | none => simp [hm] at h
  | some l' =>
    simp only [hm, Res.ok.injEq] at h
    subst h
    exact markLast_lastMarked l l' hn hm

/-! ## `-m`: the complemented list -/

/-- forget the `is_last` flag -/
def eraseLast : BoF → BoF
  | .bound b => .bound { b with isLast := false }
  | .filler f => .filler f

theorem countBounds_map_eraseLast : ∀ (l : List BoF), countBounds (l.map eraseLast) = countBounds l
  | [] => rfl
  | .filler _ :: t => by simpa [countBounds, eraseLast] using countBounds_map_eraseLast t
  | .bound _ :: t => by simpa [countBounds, eraseLast] using countBounds_map_eraseLast t

/-- the specification never looks at `is_last` -/
theorem emit_eraseLast (cfg : Cfg) (tok : Tok) (sep : Nat → Bytes) (j : Bytes) :
    ∀ (l : List BoF), emit cfg tok sep j (l.map eraseLast) = emit cfg tok sep j l
  | [] => rfl
  | .filler f :: t => by
    simp only [List.map_cons, eraseLast, emit, emit_eraseLast cfg tok sep j t]
  | .bound b :: t => by
    simp only [List.map_cons, eraseLast, emit, emit_eraseLast cfg tok sep j t,
      countBounds_map_eraseLast]
    rfl

theorem markLast_eraseLast : ∀ (l l' : List BoF), markLast l = some l' →
    l'.map eraseLast = l.map eraseLast
  | [], _, h => by simp [markLast] at h
  | .filler f :: t, l', h => by
    simp only [markLast, Option.map_eq_some_iff] at h
    obtain ⟨t', ht, rfl⟩ := h
    simp [markLast_eraseLast t t' ht]
  | .bound b :: t, l', h => by
    simp only [markLast] at h
    cases hm : markLast t with
    | none =>
      simp only [hm, Option.some.injEq] at h
      subst h
      simp [eraseLast]
    | some t' =>
      simp only [hm, Option.some.injEq] at h
      subst h
      simp [markLast_eraseLast t t' hm]

def AllNonzero (l : List BoF) : Prop := ∀ b, BoF.bound b ∈ l → b.Nonzero

theorem allNonzero_of_eraseLast_eq {l l' : List BoF} (h : l'.map eraseLast = l.map eraseLast)
    (hl : AllNonzero l) : AllNonzero l' := by
  intro b hb
  have : eraseLast (.bound b) ∈ l.map eraseLast := by
    rw [← h]; exact List.mem_map_of_mem hb
  obtain ⟨x, hx, hxe⟩ := List.mem_map.mp this
  cases x with
  | filler f => simp [eraseLast] at hxe
  | bound b0 =>
    have h0 := hl b0 hx
    simp only [eraseLast, BoF.bound.injEq, UserBounds.mk.injEq] at hxe
    exact ⟨hxe.1 ▸ h0.1, hxe.2.1 ▸ h0.2⟩

theorem complementBound_nonzero (b : UserBounds) (n : Nat) (hz : b.Nonzero) :
    ∀ c ∈ complementBound b n, c.Nonzero := by
  intro c hc
  unfold complementBound at hc
  cases hres : resolve b n with
  | none =>
    simp only [hres, List.mem_singleton] at hc
    subst hc
    exact hz
  | some p =>
    obtain ⟨lo, hi⟩ := p
    simp only [hres, List.mem_append] at hc
    rcases hc with hc | hc
    · by_cases h1 : 1 < lo
      · simp only [h1, if_true, List.mem_singleton] at hc
        subst hc
        exact ⟨by simp [Side.Nonzero], by simp only [Side.Nonzero]; omega⟩
      · simp [h1] at hc
    · by_cases h2 : hi < n
      · simp only [h2, if_true, List.mem_singleton] at hc
        subst hc
        exact ⟨by simp only [Side.Nonzero]; omega, by simp only [Side.Nonzero]; omega⟩
      · simp [h2] at hc

/-- the engine's complement of one element is the specification's -/
theorem complementBof_eq_spec (b : UserBounds) (n : Nat) (hz : b.Nonzero) :
    complementBof n (.bound b) = (complementBound b n).map .bound := by
  have hr := tryIntoRange_eq_resolve b n hz
  cases hres : resolve b n with
  | none =>
    rw [hres] at hr
    simp [complementBof, UserBounds.complement, hr, complementBound, hres]
  | some p =>
    obtain ⟨lo, hi⟩ := p
    rw [hres] at hr
    simp only [Option.map_some] at hr
    -- `UserBounds.complement` against `complementBound`, as in C15
    have hzl : b.l ≠ .some 0 := by
      intro h0; have := hz.1; rw [h0] at this; exact this rfl
    have hb := tryIntoRange_bounds b n (lo - 1) hi hzl hr
    obtain ⟨_, hlo⟩ := resolve_some hres
    have hcompl : b.complement n = some (complementBound b n) := by
      simp only [UserBounds.complement, hr, Option.map_some, complementBound, hres]
      congr 1
      unfold complementStdRange
      by_cases h1 : lo - 1 = 0
      · have hlo1 : ¬ (1 < lo) := by omega
        rw [h1]
        simp only [hlo1, if_false, List.nil_append]
        by_cases h2 : hi = n
        · have : ¬ (hi < n) := by omega
          simp [h2]
        · have : hi < n := by omega
          simp only [h2, if_false, this, if_true, List.map_cons, List.map_nil, UserBounds.ofRange]
      · have hlo1 : 1 < lo := by omega
        obtain ⟨k, hk⟩ : ∃ k, lo - 1 = k + 1 := ⟨lo - 2, by omega⟩
        rw [hk]
        simp only [hlo1, if_true]
        have e1 : ((0 : Nat) : Int) + 1 = 1 := by omega
        have e2 : ((k + 1 : Nat) : Int) = (lo : Int) - 1 := by omega
        by_cases h2 : hi = n
        · have : ¬ (hi < n) := by omega
          simp only [h2, if_true, List.map_cons, List.map_nil, UserBounds.ofRange, e1, e2]
          simp
        · have : hi < n := by omega
          simp only [h2, if_false, this, if_true, List.map_cons, List.map_nil, UserBounds.ofRange,
            List.cons_append, List.nil_append, e1, e2]
    simp only [complementBof, hcompl]

theorem flatMap_complementBof_eq (n : Nat) : ∀ (l : List BoF), AllNonzero l →
    l.flatMap (complementBof n) = mapBounds (complementBound · n) l
  | [], _ => rfl
  | .filler f :: t, h => by
    simp only [List.flatMap_cons, complementBof, mapBounds, List.singleton_append]
    rw [flatMap_complementBof_eq n t (fun b hb => h b (List.mem_cons_of_mem _ hb))]
  | .bound b :: t, h => by
    simp only [List.flatMap_cons, mapBounds]
    rw [complementBof_eq_spec b n (h b (List.mem_cons_self ..)),
      flatMap_complementBof_eq n t (fun b hb => h b (List.mem_cons_of_mem _ hb))]

theorem mapBounds_complement_nonzero (n : Nat) : ∀ (l : List BoF), AllNonzero l →
    AllNonzero (mapBounds (complementBound · n) l)
  | [], _ => by intro b hb; simp [mapBounds] at hb
  | .filler f :: t, h => by
    intro b hb
    simp only [mapBounds, List.mem_cons, reduceCtorEq, false_or] at hb
    exact mapBounds_complement_nonzero n t (fun b hb => h b (List.mem_cons_of_mem _ hb)) b hb
  | .bound b0 :: t, h => by
    intro b hb
    simp only [mapBounds, List.mem_append, List.mem_map, BoF.bound.injEq] at hb
    rcases hb with ⟨c, hc, rfl⟩ | hb
    · exact complementBound_nonzero b0 n (h b0 (List.mem_cons_self ..)) c hc
    · exact mapBounds_complement_nonzero n t (fun b hb => h b (List.mem_cons_of_mem _ hb)) b hb

theorem mapBounds_complement_noneMarked (n : Nat) : ∀ (l : List BoF),
    NoneMarked (mapBounds (complementBound · n) l)
  | [] => by intro b hb; simp [mapBounds] at hb
  | .filler f :: t => by
    intro b hb
    simp only [mapBounds, List.mem_cons, reduceCtorEq, false_or] at hb
    exact mapBounds_complement_noneMarked n t b hb
  | .bound b0 :: t => by
    intro b hb
    simp only [mapBounds, List.mem_append, List.mem_map, BoF.bound.injEq] at hb
    rcases hb with ⟨c, hc, rfl⟩ | hb
    · unfold complementBound at hc
      cases hres : resolve b0 n with
      | none => simp only [hres, List.mem_singleton] at hc; subst hc; rfl
      | some p =>
        obtain ⟨lo, hi⟩ := p
        simp only [hres, List.mem_append] at hc
        rcases hc with hc | hc
        · split at hc
          · simp only [List.mem_singleton] at hc; subst hc; rfl
          · simp at hc
        · split at hc
          · simp only [List.mem_singleton] at hc; subst hc; rfl
          · simp at hc
    · exact mapBounds_complement_noneMarked n t b hb

theorem boundsOnly_isEmpty_iff : ∀ (l : List BoF), (boundsOnly l).isEmpty = (countBounds l == 0)
  | [] => rfl
  | .filler _ :: t => by simpa [boundsOnly, countBounds] using boundsOnly_isEmpty_iff t
  | .bound _ :: t => by simp [boundsOnly, countBounds]

/-- everything after the ranges are known is the tail of the specification -/
theorem emitRecord_eq_spec (opt : Opt) (line : Bytes) (fields : List Range) (tok : Tok)
    (hR : Refines opt.delimiter line fields tok) (hd : opt.delimiter ≠ [])
    (hre : opt.regexBag = none) (hty : opt.boundsType = .fields ∨ opt.boundsType = .lines)
    (hjson : opt.json = false)
    (hz : AllNonzero opt.bounds.list) (hL : LastMarked opt.bounds.list) :
    emitRecord line fields opt false [opt.eol.byte] =
      if opt.onlyDelimited && tok.numFields == 1 then Run.empty
      else
        if opt.complement && countBounds (specBofs opt tok.numFields) == 0 then Run.fail
        else
          (emit (cfgOf opt) tok (sepOf opt) (opt.replaceDelimiter.getD opt.delimiter)
            (specBofs opt tok.numFields)).seq (Run.ok [opt.eol.byte]) := by
  rw [emitRecord_fields _ _ _ _ hjson hty, ← hR.len]
  have hloop := outputLoop_eq_emit opt line fields tok hR hd hre hty hjson
  by_cases hs : (opt.onlyDelimited && fields.length == 1) = true
  · rw [if_pos hs, if_pos hs]
  · rw [if_neg hs, if_neg hs]
    unfold specBofs
    cases hc : opt.complement with
    | false =>
      simp only [Bool.false_and, Bool.false_eq_true, if_false]
      rw [hloop _ hz hL]
    | true =>
      simp only [if_true, Bool.true_and]
      unfold complementList
      simp only []
      rw [flatMap_complementBof_eq _ _ hz, boundsOnly_isEmpty_iff]
      by_cases h0 : (countBounds (mapBounds (complementBound · fields.length) opt.bounds.list) == 0) = true
      · rw [if_pos h0, if_pos h0]
      · rw [if_neg h0, if_neg h0]
        unfold fromVec
        simp only []
        cases hm : markLast (mapBounds (complementBound · fields.length) opt.bounds.list) with
        | none =>
          have := countBounds_eq_zero_of_markLast_none _ hm
          simp [this] at h0
        | some l' =>
          simp only []
          have he := markLast_eraseLast _ _ hm
          have hnz := allNonzero_of_eraseLast_eq he (mapBounds_complement_nonzero _ _ hz)
          have hlm := markLast_lastMarked _ _ (mapBounds_complement_noneMarked _ _) hm
          rw [hloop l' hnz hlm, ← emit_eraseLast _ _ _ _ l', he, emit_eraseLast]

/-- **C01, one record.**  The general engine in field mode with a literal non-empty delimiter —
    any of `-g -p -t -s -j -r -m`, fallbacks, format fillers; no `--json`, no regex — writes for
    every record exactly what the per-record specification says, and ends as it says (never a
    panic). -/
theorem cutStr_eq_spec_gen (opt : Opt) (line : Bytes) (hd : opt.delimiter ≠ [])
    (hre : opt.regexBag = none) (hty : opt.boundsType = .fields ∨ opt.boundsType = .lines)
    (hjson : opt.json = false)
    (hz : AllNonzero opt.bounds.list) (hL : LastMarked opt.bounds.list) :
    (cutStrCore line opt [opt.eol.byte]).1 = specRecord (cfgOf opt) line := by
  rw [cutStrCore_fields line opt _ hre hty, specRecord_fields line opt hty hjson]
  by_cases he : (trimmed opt line).isEmpty = true
  · rw [if_pos he, if_pos he]
    cases opt.onlyDelimited <;> simp
  · rw [if_neg he, if_neg he]
    have hne : trimmed opt line ≠ [] := by
      intro h; rw [h] at he; exact he rfl
    have hR := refines_engine opt (trimmed opt line) hd hne
    exact emitRecord_eq_spec opt _ _ _ hR hd hre hty hjson hz hL

theorem cutRecords_eq_spec_gen (opt : Opt) (hd : opt.delimiter ≠ [])
    (hre : opt.regexBag = none) (hty : opt.boundsType = .fields ∨ opt.boundsType = .lines)
    (hjson : opt.json = false)
    (hz : AllNonzero opt.bounds.list) (hL : LastMarked opt.bounds.list) :
    ∀ (recs : List Bytes) (f₀ : List Range) (b₀ : Bytes),
      cutRecords opt recs f₀ b₀ = specRunRecords (cfgOf opt) recs
  | [], _, _ => rfl
  | r :: t, f₀, b₀ => by
    have h1 : (cutStr r opt f₀ b₀ [opt.eol.byte]).1 = specRecord (cfgOf opt) r :=
      cutStr_eq_spec_gen opt r hd hre hty hjson hz hL
    simp only [cutRecords, specRunRecords]
    rw [h1, cutRecords_eq_spec_gen opt hd hre hty hjson hz hL t]

/-- **C01, the run.**  On a fault-free reader the general engine in field mode is the
    specification: records in order, each by `specRecord`, stop at the first failure. -/
theorem readAndCutStr_eq_specRun_gen (opt : Opt) (input : Bytes) (hd : opt.delimiter ≠ [])
    (hre : opt.regexBag = none) (hty : opt.boundsType = .fields ∨ opt.boundsType = .lines)
    (hjson : opt.json = false)
    (hz : AllNonzero opt.bounds.list) (hL : LastMarked opt.bounds.list) :
    readAndCutStr opt input = specRun (cfgOf opt) input :=
  cutRecords_eq_spec_gen opt hd hre hty hjson hz hL _ [] []


/-! ## consequence: the engine never panics and never hangs -/

/-- a run that ended as a process can legitimately end: exit 0 or exit 1 -/
def Run.Clean (r : Run) : Prop := r.status = .ok ∨ r.status = .fail

theorem Run.Clean.pre {w : Bytes} {r : Run} (h : r.Clean) : (Run.pre w r).Clean := h

theorem Run.Clean.seq {a b : Run} (ha : a.Clean) (hb : b.Clean) : (a.seq b).Clean := by
  obtain ⟨ao, as⟩ := a
  cases as <;> simp_all [Run.seq, Run.Clean]

theorem emit_clean (cfg : Cfg) (tok : Tok) (sep : Nat → Bytes) (j : Bytes) :
    ∀ (l : List BoF), (emit cfg tok sep j l).Clean
  | [] => Or.inl rfl
  | .filler f :: t => by
    simp only [emit]
    exact (emit_clean cfg tok sep j t).pre
  | .bound b :: t => by
    have ih := emit_clean cfg tok sep j t
    simp only [emit]
    split
    · exact Or.inr rfl
    · split
      · exact Or.inr rfl
      · exact ih.pre

theorem specRecord_clean (opt : Opt) (line : Bytes)
    (hty : opt.boundsType = .fields ∨ opt.boundsType = .lines)
    (hjson : opt.json = false) : (specRecord (cfgOf opt) line).Clean := by
  rw [specRecord_fields line opt hty hjson]
  split
  · split
    · exact Or.inl rfl
    · exact Or.inl rfl
  · split
    · exact Or.inl rfl
    · split
      · exact Or.inr rfl
      · exact (emit_clean _ _ _ _ _).seq (Or.inl rfl)

theorem specRunRecords_clean (opt : Opt) (hty : opt.boundsType = .fields ∨ opt.boundsType = .lines)
    (hjson : opt.json = false) : ∀ (recs : List Bytes), (specRunRecords (cfgOf opt) recs).Clean
  | [] => Or.inl rfl
  | r :: t => (specRecord_clean opt r hty hjson).seq (specRunRecords_clean opt hty hjson t)

/-- **C01 ⇒ C12 for this engine.**  Whatever the input, the general field engine ends with exit
    status 0 or 1: no slice out of range, no `unwrap` on `None`. -/
theorem readAndCutStr_clean_gen (opt : Opt) (input : Bytes) (hd : opt.delimiter ≠ [])
    (hre : opt.regexBag = none) (hty : opt.boundsType = .fields ∨ opt.boundsType = .lines)
    (hjson : opt.json = false)
    (hz : AllNonzero opt.bounds.list) (hL : LastMarked opt.bounds.list) :
    (readAndCutStr opt input).status = .ok ∨ (readAndCutStr opt input).status = .fail := by
  rw [readAndCutStr_eq_specRun_gen opt input hd hre hty hjson hz hL]
  exact specRunRecords_clean opt hty hjson _

/-! ## what the bounds parser delivers satisfies the hypotheses -/


theorem side_nonzero_of_ne (l : Side) (h : ¬ l = .some 0) : l.Nonzero := by
  cases l with
  | cont => trivial
  | some v => intro h0; apply h; rw [h0]

theorem parseUserBounds_good (s : List Char) (b : UserBounds) (h : parseUserBounds s = some b) :
    b.Nonzero ∧ b.isLast = false := by
  unfold parseUserBounds at h
  simp only [] at h
  repeat' split at h
  all_goals try (cases h; done)
  all_goals
    simp only [Option.some.injEq] at h
    subst h
    refine ⟨⟨side_nonzero_of_ne _ ?_, side_nonzero_of_ne _ ?_⟩, rfl⟩ <;> assumption
def AllBounds (P : UserBounds → Prop) (l : List BoF) : Prop := ∀ b, BoF.bound b ∈ l → P b

theorem parseAll_all (P : UserBounds → Prop) (hP : ∀ s b, parseUserBounds s = some b → P b) :
    ∀ (ss : List (List Char)) (bs : List UserBounds), parseAll ss = some bs → ∀ b ∈ bs, P b
  | [], bs, h => by simp [parseAll] at h; subst h; intro b hb; cases hb
  | s :: t, bs, h => by
    simp only [parseAll] at h
    cases h1 : parseUserBounds s with
    | none => simp [h1] at h
    | some b1 =>
      cases h2 : parseAll t with
      | none => simp [h1, h2] at h
      | some bs' =>
        simp only [h1, h2, Option.some.injEq] at h
        subst h
        intro b hb
        rcases List.mem_cons.mp hb with rfl | hb
        · exact hP s _ h1
        · exact parseAll_all P hP t bs' h2 b hb

theorem pushFiller_all {P : UserBounds → Prop} {st : ScanSt} (h : AllBounds P st.bof) :
    AllBounds P st.pushFiller := by
  unfold ScanSt.pushFiller
  split
  · exact h
  · intro b hb
    rcases List.mem_cons.mp hb with hb | hb
    · cases hb
    · exact h b hb

theorem scanStep_all (P : UserBounds → Prop) (hP : ∀ s b, parseUserBounds s = some b → P b)
    (w0 : Char) (st st' : ScanSt) (h : AllBounds P st.bof) (hs : scanStep w0 st = some st') :
    AllBounds P st'.bof := by
  unfold scanStep at hs
  split at hs
  · cases hs
  · split at hs
    · split at hs
      · cases hs
      · simp only [Option.some.injEq] at hs; subst hs; exact pushFiller_all h
    · split at hs
      · split at hs
        · cases hs
        · rename_i bs hbs
          simp only [Option.some.injEq] at hs; subst hs
          intro b hb
          simp only [List.mem_append, List.mem_reverse, List.mem_map, BoF.bound.injEq] at hb
          rcases hb with ⟨c, hc, rfl⟩ | hb
          · exact parseAll_all P hP _ _ hbs c hc
          · exact h b hb
      · simp only [Option.some.injEq] at hs; subst hs; exact h

theorem scanEnd_all {P : UserBounds → Prop} {st : ScanSt} {l : List BoF} (h : AllBounds P st.bof)
    (hs : scanEnd st = some l) : AllBounds P l := by
  unfold scanEnd at hs
  split at hs
  · cases hs
  · simp only [Option.some.injEq] at hs; subst hs
    intro b hb
    exact pushFiller_all h b (List.mem_reverse.mp hb)

theorem scan_all (P : UserBounds → Prop) (hP : ∀ s b, parseUserBounds s = some b → P b) :
    ∀ (s : List Char) (st : ScanSt) (l : List BoF), AllBounds P st.bof → scan s st = some l →
      AllBounds P l := by
  intro s st
  fun_induction scan s st with
  | case1 st => intro l h hs; exact scanEnd_all h hs
  | case2 w0 st hstep => intro l h hs; cases hs
  | case3 w0 st st' hstep => intro l h hs; exact scanEnd_all (scanStep_all P hP w0 st st' h hstep) hs
  | case4 w0 w1 rest st hc ih => intro l h hs; exact ih l h hs
  | case5 w0 w1 rest st hc hstep => intro l h hs; cases hs
  | case6 w0 w1 rest st hc st' hstep ih =>
    intro l h hs; exact ih l (scanStep_all P hP w0 st st' h hstep) hs

theorem parseBoundsList_all (P : UserBounds → Prop) (hP : ∀ s b, parseUserBounds s = some b → P b)
    (s : List Char) (l : List BoF) (h : parseBoundsList s = some l) : AllBounds P l := by
  unfold parseBoundsList at h
  split at h
  · simp only [Option.some.injEq] at h; subst h; intro b hb; cases hb
  · split at h
    · exact scan_all P hP s _ l (by intro b hb; cases hb) h
    · simp only [Option.map_eq_some_iff] at h
      obtain ⟨bs, hbs, rfl⟩ := h
      intro b hb
      simp only [List.mem_map, BoF.bound.injEq] at hb
      obtain ⟨c, hc, rfl⟩ := hb
      exact parseAll_all P hP _ _ hbs c hc

/-- **every accepted `--fields` argument satisfies the hypotheses of `cutStr_eq_spec_gen`** -/
theorem boundsListOfString_good (s : List Char) (ubl : UserBoundsList)
    (h : boundsListOfString s = .ok ubl) : AllNonzero ubl.list ∧ LastMarked ubl.list := by
  unfold boundsListOfString at h
  split at h
  · cases h
  · split at h
    · cases h
    · rename_i l hl
      split at h
      · cases h
      · have hall := parseBoundsList_all (fun b => b.Nonzero ∧ b.isLast = false)
          parseUserBounds_good s l hl
        have hnz : AllNonzero l := fun b hb => (hall b hb).1
        have hnm : NoneMarked l := fun b hb => (hall b hb).2
        refine ⟨?_, fromVec_lastMarked l ubl hnm h⟩
        unfold fromVec at h
        cases hm : markLast l with
        | none => simp [hm] at h
        | some l' =>
          simp only [hm, Res.ok.injEq] at h
          subst h
          exact allNonzero_of_eraseLast_eq (markLast_eraseLast l l' hm) hnz

/-- **C01, for every accepted bounds argument.** -/
theorem readAndCutStr_eq_specRun_of_parsed_gen (opt : Opt) (input : Bytes) (s : List Char)
    (hparse : boundsListOfString s = .ok opt.bounds) (hd : opt.delimiter ≠ [])
    (hre : opt.regexBag = none) (hty : opt.boundsType = .fields ∨ opt.boundsType = .lines)
    (hjson : opt.json = false) :
    readAndCutStr opt input = specRun (cfgOf opt) input :=
  have h := boundsListOfString_good s opt.bounds hparse
  readAndCutStr_eq_specRun_gen opt input hd hre hty hjson h.1 h.2

/-! ## the field-mode statements (`boundsType = .fields`), as corollaries -/

theorem cutStr_eq_spec (opt : Opt) (line : Bytes) (hd : opt.delimiter ≠ [])
    (hre : opt.regexBag = none) (hty : opt.boundsType = .fields) (hjson : opt.json = false)
    (hz : AllNonzero opt.bounds.list) (hL : LastMarked opt.bounds.list) :
    (cutStrCore line opt [opt.eol.byte]).1 = specRecord (cfgOf opt) line :=
  cutStr_eq_spec_gen opt line hd hre (Or.inl hty) hjson hz hL

theorem cutRecords_eq_spec (opt : Opt) (hd : opt.delimiter ≠ [])
    (hre : opt.regexBag = none) (hty : opt.boundsType = .fields) (hjson : opt.json = false)
    (hz : AllNonzero opt.bounds.list) (hL : LastMarked opt.bounds.list)
    (recs : List Bytes) (f₀ : List Range) (b₀ : Bytes) :
    cutRecords opt recs f₀ b₀ = specRunRecords (cfgOf opt) recs :=
  cutRecords_eq_spec_gen opt hd hre (Or.inl hty) hjson hz hL recs f₀ b₀

theorem readAndCutStr_eq_specRun (opt : Opt) (input : Bytes) (hd : opt.delimiter ≠ [])
    (hre : opt.regexBag = none) (hty : opt.boundsType = .fields) (hjson : opt.json = false)
    (hz : AllNonzero opt.bounds.list) (hL : LastMarked opt.bounds.list) :
    readAndCutStr opt input = specRun (cfgOf opt) input :=
  readAndCutStr_eq_specRun_gen opt input hd hre (Or.inl hty) hjson hz hL

theorem readAndCutStr_clean (opt : Opt) (input : Bytes) (hd : opt.delimiter ≠ [])
    (hre : opt.regexBag = none) (hty : opt.boundsType = .fields) (hjson : opt.json = false)
    (hz : AllNonzero opt.bounds.list) (hL : LastMarked opt.bounds.list) :
    (readAndCutStr opt input).status = .ok ∨ (readAndCutStr opt input).status = .fail :=
  readAndCutStr_clean_gen opt input hd hre (Or.inl hty) hjson hz hL

theorem readAndCutStr_eq_specRun_of_parsed (opt : Opt) (input : Bytes) (s : List Char)
    (hparse : boundsListOfString s = .ok opt.bounds) (hd : opt.delimiter ≠ [])
    (hre : opt.regexBag = none) (hty : opt.boundsType = .fields) (hjson : opt.json = false) :
    readAndCutStr opt input = specRun (cfgOf opt) input :=
  readAndCutStr_eq_specRun_of_parsed_gen opt input s hparse hd hre (Or.inl hty) hjson

end Tuc
