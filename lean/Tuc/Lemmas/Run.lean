import Tuc.Model.Basic
/-! # Algebra of `Run.seq` -/
namespace Tuc

theorem Run.seq_assoc (a b c : Run) : (a.seq b).seq c = a.seq (b.seq c) := by
  obtain ⟨ao, as⟩ := a
  obtain ⟨bo, bs⟩ := b
  cases as <;> cases bs <;> simp [Run.seq, List.append_assoc]

@[simp] theorem Run.empty_seq (a : Run) : Run.empty.seq a = a := by
  simp [Run.seq, Run.empty]

@[simp] theorem Run.seq_empty (a : Run) : a.seq Run.empty = a := by
  obtain ⟨ao, as⟩ := a
  cases as <;> simp [Run.seq, Run.empty]

theorem Run.seq_of_not_ok (a b : Run) (h : a.status ≠ .ok) : a.seq b = a := by
  obtain ⟨ao, as⟩ := a
  cases as <;> simp_all [Run.seq]

theorem Run.seq_ok (w : Bytes) (b : Run) : (Run.ok w).seq b = Run.pre w b := by
  simp [Run.seq, Run.ok, Run.pre]

theorem Run.pre_pre (u v : Bytes) (r : Run) : Run.pre u (Run.pre v r) = Run.pre (u ++ v) r := by
  simp [Run.pre, List.append_assoc]

@[simp] theorem Run.pre_nil (r : Run) : Run.pre [] r = r := by
  simp [Run.pre]

theorem Run.pre_seq (w : Bytes) (a b : Run) : (Run.pre w a).seq b = Run.pre w (a.seq b) := by
  obtain ⟨ao, as⟩ := a
  cases as <;> simp [Run.seq, Run.pre, List.append_assoc]

theorem Run.seq_status_ok {a b : Run} (h : (a.seq b).status = .ok) : a.status = .ok ∧ b.status = .ok := by
  obtain ⟨ao, as⟩ := a
  cases as <;> simp_all [Run.seq]

theorem Run.seq_out_of_ok {a b : Run} (h : a.status = .ok) : (a.seq b).out = a.out ++ b.out := by
  obtain ⟨ao, as⟩ := a
  cases as <;> simp_all [Run.seq]

theorem Run.seq_status_of_ok {a b : Run} (h : a.status = .ok) : (a.seq b).status = b.status := by
  obtain ⟨ao, as⟩ := a
  cases as <;> simp_all [Run.seq]

end Tuc
