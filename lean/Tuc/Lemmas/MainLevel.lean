import Tuc.Model.Regex
import Tuc.Lemmas.Total
/-!
# Tuc.Lemmas.MainLevel — support for `Tuc.Props.MainLevel`

`Tuc.Props.MainLevel` lifts C12 to every argument vector, `-e RE` included, and for that needs
"the bag `parse_args` compiles from a modelled regex honours the contract of `find_iter`"
(`Re.bag_ok`).  That theorem lives in `Tuc.Lemmas.RegexSpec`, which at the time could not be imported together
with `Tuc.Props.C12` (a name declared twice, since renamed).  This file therefore repeats the
first section of `Tuc.Lemmas.RegexSpec` (the proof of `Re.bag_ok`, text unchanged) under the
namespace `Tuc.MainLevel`, importing only the regex model and `Tuc.Lemmas.Total` (which defines
`RegexBag.OK`).  Nothing else is here.
-/
namespace Tuc.MainLevel
open Tuc

/-- whatever `Re.run` returns was handed to it by the continuation, on a suffix of its input -/
theorem Re.run_suffix (f : Nat) (r : Re) (s : Bytes) (k : Bytes → Option Bytes) :
    ∀ rest, Re.run f r s k = some rest → ∃ s', s' <:+ s ∧ k s' = some rest := by
  fun_induction Re.run f r s k
  case case1 => intro rest h; exact ⟨_, List.suffix_refl _, h⟩
  case case2 => intro rest h; cases h
  case case3 => intro rest h; exact ⟨_, List.suffix_cons _ _, h⟩
  case case4 => intro rest h; cases h
  case case5 => intro rest h; cases h
  case case6 => intro rest h; exact ⟨_, List.suffix_cons _ _, h⟩
  case case7 => intro rest h; cases h
  case case8 => intro rest h; cases h
  case case9 f a b s k ihb iha =>
    intro rest h
    obtain ⟨s1, hs1, h1⟩ := iha rest h
    obtain ⟨s2, hs2, h2⟩ := ihb s1 rest h1
    exact ⟨s2, hs2.trans hs1, h2⟩
  case case10 f a b s k r hr iha =>
    intro rest h
    cases h
    exact iha _ hr
  case case11 f a b s k hr iha ihb =>
    intro rest h
    exact ihb rest h
  case case12 => intro rest h; cases h
  case case13 f a s k ihp iha =>
    intro rest h
    obtain ⟨s1, hs1, h1⟩ := iha rest (by simpa using h)
    simp only [] at h1
    by_cases hlt : s1.length < s.length
    · rw [dif_pos hlt] at h1
      cases hp : Re.run f (.plus a) s1 k with
      | some r =>
        rw [hp] at h1
        simp only [Option.some.injEq] at h1
        subst h1
        obtain ⟨s2, hs2, h2⟩ := ihp s1 _ hp
        exact ⟨s2, hs2.trans hs1, h2⟩
      | none =>
        rw [hp] at h1
        exact ⟨s1, hs1, h1⟩
    · rw [dif_neg hlt] at h1; cases h1

/-- a match consumes a prefix of the haystack: what is left is a suffix of it -/
theorem Re.matchLen_spec (r : Re) (s : Bytes) (n : Nat) (h : r.matchLen s = some n) :
    ∃ rest, rest <:+ s ∧ n + rest.length = s.length := by
  unfold Re.matchLen at h
  cases hr : Re.run (s.length + 1) r s some with
  | none => rw [hr] at h; cases h
  | some rest =>
    rw [hr] at h
    simp only [Option.map_some, Option.some.injEq] at h
    obtain ⟨s', hs', h'⟩ := Re.run_suffix _ _ _ _ _ hr
    simp only [Option.some.injEq] at h'
    subst h'
    refine ⟨s', hs', ?_⟩
    have := hs'.length_le
    omega

theorem Re.matchLen_le (r : Re) (s : Bytes) (n : Nat) (h : r.matchLen s = some n) :
    n ≤ s.length := by
  obtain ⟨rest, _, h2⟩ := Re.matchLen_spec r s n h
  omega

/-- the contract of `find_iter` for an expression that does not match the empty string: the
    matches are reported in order, do not overlap, lie within the haystack and are never empty -/
def StrictMatches (n : Nat) : Nat → List (Nat × Nat) → Prop
  | _, [] => True
  | lo, (s, e) :: t => lo ≤ s ∧ s < e ∧ e ≤ n ∧ StrictMatches n e t

theorem StrictMatches.mono {n lo lo' : Nat} {ms : List (Nat × Nat)} (h : lo' ≤ lo)
    (hm : StrictMatches n lo ms) : StrictMatches n lo' ms := by
  cases ms with
  | nil => trivial
  | cons m t => obtain ⟨s, e⟩ := m; exact ⟨Nat.le_trans h hm.1, hm.2⟩

theorem StrictMatches.sorted {n : Nat} : ∀ {ms : List (Nat × Nat)} {lo : Nat},
    StrictMatches n lo ms → SortedMatches n lo ms
  | [], _, _ => trivial
  | (_, _) :: _, _, h => ⟨h.1, Nat.le_of_lt h.2.1, h.2.2.1, StrictMatches.sorted h.2.2.2⟩

theorem Re.findIterAux_ok (r : Re) : ∀ (s : Bytes) (skip pos : Nat), skip ≤ s.length →
    StrictMatches (pos + s.length) (pos + skip) (Re.findIterAux r skip pos s) := by
  intro s
  induction s with
  | nil => intro skip pos _; simp only [Re.findIterAux]; trivial
  | cons c t ih =>
    intro skip pos hs
    simp only [List.length_cons] at hs ⊢
    cases skip with
    | succ k =>
      simp only [Re.findIterAux]
      have := ih k (pos + 1) (by omega)
      have e1 : pos + 1 + t.length = pos + (t.length + 1) := by omega
      have e2 : pos + 1 + k = pos + (k + 1) := by omega
      rw [e1, e2] at this; exact this
    | zero =>
      simp only [Re.findIterAux]
      split
      · rename_i n hm
        have hle := Re.matchLen_le r (c :: t) (n + 1) hm
        simp only [List.length_cons] at hle
        have := ih n (pos + 1) (by omega)
        have e1 : pos + 1 + t.length = pos + (t.length + 1) := by omega
        have e2 : pos + 1 + n = pos + n + 1 := by omega
        rw [e1, e2] at this
        exact ⟨by omega, by omega, by omega, this⟩
      · have := ih 0 (pos + 1) (Nat.zero_le _)
        have e1 : pos + 1 + t.length = pos + (t.length + 1) := by omega
        rw [e1] at this
        exact this.mono (by omega)

/-- **the executable matcher honours the contract of `find_iter`**: its matches are non-empty, in
    range, in order and do not overlap -/
theorem Re.findIter_ok (r : Re) (s : Bytes) : StrictMatches s.length 0 (r.findIter s) := by
  have := Re.findIterAux_ok r s 0 0 (Nat.zero_le _)
  simpa [Re.findIter] using this

theorem Re.bag_strict (r : Re) (line : Bytes) :
    StrictMatches line.length 0 ((Re.bag r).normal line) ∧
      StrictMatches line.length 0 ((Re.bag r).greedy line) :=
  ⟨Re.findIter_ok r line, Re.findIter_ok (.plus r) line⟩

/-- the bag `parse_args` builds (`RE`, `(RE)+`) satisfies the hypothesis of every theorem about the
    regex branches of `cut_str` -/
theorem Re.bag_ok (r : Re) : (Re.bag r).OK :=
  fun line => ⟨(Re.findIter_ok r line).sorted, (Re.findIter_ok (.plus r) line).sorted⟩
end Tuc.MainLevel
