import Tuc.Spec.Record
import Tuc.Spec.Lines
import Tuc.Lemmas.Run
import Tuc.Lemmas.Bounds
import Tuc.Lemmas.CutStrSpec
/-!
# Tuc.Lemmas.SpecLaws — the specification in stages, and laws of `emit`

`specRecord` is cut into named stages (`specLine`, `lineTok`, `specBody`) so that laws about the
bounds list can be stated once for a *tokenised* record and transported to every record with that
many fields.  Nothing here mentions an engine.

* `specRecord_eq` — `specRecord` is `specLine → lineTok → specBody` (by `rfl`);
* `HasNFields cfg n r` — "the record `r` has `n` fields", with the specification's tokenizer
  (a record that is empty after `-t` has no field count at all and satisfies it for every `n`);
* `emit_cfg_congr` — `emit` reads of the request only `json`, `join`, `fallback`;
* `emitThen` / `emit_append` — the elements before a bound, printed knowing that a bound follows;
* `specBody_eraseLast` — the specification never reads `is_last`;
* `specRunRecords_congr`, `specRunRecords_append`.
-/
namespace Tuc.Spec
open Tuc

/-! ## `specRecord` in stages -/

/-- the record after `-t` -/
def specLine (cfg : Cfg) (record : Bytes) : Bytes :=
  match cfg.trim with
  | some k => if cfg.chars then record else trimLiteral record k cfg.delimiter
  | none => record

/-- the tokens of a (trimmed, non-empty) record -/
def lineTok (cfg : Cfg) (line : Bytes) : Option Tok :=
  if cfg.chars then tokenizeChars line
  else some (tokenize cfg.delimiter cfg.greedy cfg.compress line)

/-- how a separator of `k` occurrences is rendered -/
def specSep (cfg : Cfg) : Nat → Bytes := fun k =>
  if cfg.chars then []
  else match cfg.replace with
    | some r => repeatBytes r k
    | none => repeatBytes cfg.delimiter k

def specJoiner (cfg : Cfg) : Bytes := cfg.replace.getD cfg.delimiter

def openBracket (cfg : Cfg) : Bytes := if cfg.json then [0x5B] else []
def closeBracket (cfg : Cfg) : Bytes := if cfg.json then [0x5D] else []

/-- the bounds list after `-m` -/
def complemented (cfg : Cfg) (n : Nat) : List BoF :=
  if cfg.complement then mapBounds (complementBound · n) cfg.bofs else cfg.bofs

/-- the bounds list after `-m` and the range expansion of `--json` / `-c` -/
def rewritten (cfg : Cfg) (n : Nat) : List BoF :=
  if cfg.json || cfg.chars then mapBounds (expandBound · n) (complemented cfg n)
  else complemented cfg n

/-- everything after the record is tokenised -/
def specBody (cfg : Cfg) (tok : Tok) : Run :=
  if cfg.onlyDelimited && tok.numFields == 1 then Run.empty
  else if cfg.complement && countBounds (complemented cfg tok.numFields) == 0 then
    ⟨openBracket cfg, .fail⟩
  else
    Run.pre (openBracket cfg)
      ((emit cfg tok (specSep cfg) (specJoiner cfg) (rewritten cfg tok.numFields)).seq
        (Run.ok (closeBracket cfg ++ [cfg.eol])))

/-- **`specRecord` is its stages.** -/
theorem specRecord_eq (cfg : Cfg) (record : Bytes) :
    specRecord cfg record =
      if (specLine cfg record).isEmpty then
        (if cfg.onlyDelimited then Run.empty else Run.ok [cfg.eol])
      else
        match lineTok cfg (specLine cfg record) with
        | none => Run.fail
        | some tok => specBody cfg tok := rfl

/-- the tokens of a record, if it has any: `none` for a record that is empty after `-t`, and for
    `-c` on text that is not UTF-8 -/
def recordTok (cfg : Cfg) (record : Bytes) : Option Tok :=
  if (specLine cfg record).isEmpty then none else lineTok cfg (specLine cfg record)

/-- "the record has `n` fields" — with the specification's tokenizer (after `-t`, `-p`, `-g`).
    A record without tokens (empty after `-t`) satisfies it for every `n`: what is printed for it
    does not depend on the bounds. -/
def HasNFields (cfg : Cfg) (n : Nat) (record : Bytes) : Prop :=
  ∀ tok, recordTok cfg record = some tok → tok.numFields = n

/-- tokenisation reads neither the bounds nor `-m` -/
structure SameTokens (cfg cfg' : Cfg) : Prop where
  delimiter : cfg'.delimiter = cfg.delimiter
  eol : cfg'.eol = cfg.eol
  chars : cfg'.chars = cfg.chars
  onlyDelimited : cfg'.onlyDelimited = cfg.onlyDelimited
  greedy : cfg'.greedy = cfg.greedy
  compress : cfg'.compress = cfg.compress
  trim : cfg'.trim = cfg.trim

theorem SameTokens.specLine {cfg cfg' : Cfg} (h : SameTokens cfg cfg') (r : Bytes) :
    specLine cfg' r = specLine cfg r := by
  unfold Spec.specLine
  rw [h.trim, h.chars, h.delimiter]

theorem SameTokens.lineTok {cfg cfg' : Cfg} (h : SameTokens cfg cfg') (l : Bytes) :
    lineTok cfg' l = lineTok cfg l := by
  unfold Spec.lineTok
  rw [h.chars, h.delimiter, h.greedy, h.compress]

theorem SameTokens.recordTok {cfg cfg' : Cfg} (h : SameTokens cfg cfg') (r : Bytes) :
    recordTok cfg' r = recordTok cfg r := by
  unfold Spec.recordTok
  rw [h.specLine, h.lineTok]

theorem SameTokens.hasNFields {cfg cfg' : Cfg} (h : SameTokens cfg cfg') (n : Nat) (r : Bytes) :
    HasNFields cfg' n r ↔ HasNFields cfg n r := by
  unfold HasNFields
  rw [h.recordTok]

/-- two requests that tokenise alike and whose bodies agree on the tokens of `r` print the same
    for `r` -/
theorem specRecord_congr {cfg cfg' : Cfg} (h : SameTokens cfg cfg') (r : Bytes)
    (hb : ∀ tok, recordTok cfg r = some tok → specBody cfg' tok = specBody cfg tok) :
    specRecord cfg' r = specRecord cfg r := by
  rw [specRecord_eq, specRecord_eq, h.specLine, h.lineTok, h.onlyDelimited, h.eol]
  by_cases he : (specLine cfg r).isEmpty = true
  · rw [if_pos he, if_pos he]
  · rw [if_neg he, if_neg he]
    cases ht : lineTok cfg (specLine cfg r) with
    | none => rfl
    | some tok =>
      exact hb tok (by unfold recordTok; rw [if_neg he, ht])

/-- a record with tokens prints its body -/
theorem specRecord_of_recordTok {cfg : Cfg} {r : Bytes} {tok : Tok}
    (h : recordTok cfg r = some tok) : specRecord cfg r = specBody cfg tok := by
  unfold recordTok at h
  rw [specRecord_eq]
  by_cases he : (specLine cfg r).isEmpty = true
  · rw [if_pos he] at h; cases h
  · rw [if_neg he] at h; rw [if_neg he, h]

/-- two requests that differ in their bounds lists only -/
structure SameButBofs (cfg cfg' : Cfg) : Prop extends SameTokens cfg cfg' where
  replace : cfg'.replace = cfg.replace
  complement : cfg'.complement = cfg.complement
  join : cfg'.join = cfg.join
  json : cfg'.json = cfg.json
  fallback : cfg'.fallback = cfg.fallback

theorem sameButBofs_with (cfg : Cfg) (bs' : List BoF) : SameButBofs cfg { cfg with bofs := bs' } :=
  ⟨⟨rfl, rfl, rfl, rfl, rfl, rfl, rfl⟩, rfl, rfl, rfl, rfl, rfl⟩

/-- the specification's view of two option sets that differ in their bounds only -/
theorem sameButBofs_cfgOf (o : Opt) (bl' : UserBoundsList) :
    SameButBofs (cfgOf o) (cfgOf { o with bounds := bl' }) :=
  ⟨⟨rfl, rfl, rfl, rfl, rfl, rfl, rfl⟩, rfl, rfl, rfl, rfl, rfl⟩

/-! ## `specLines` in stages -/

/-- `-l` once the lines are known -/
def specLinesBody (cfg : Cfg) (tok : Tok) : Run :=
  if tok.rest.isEmpty && tok.first.isEmpty then Run.ok [cfg.eol]
  else if cfg.complement && countBounds (complemented cfg tok.numFields) == 0 then Run.fail
  else
    (emit { cfg with json := false } tok (fun k => repeatBytes [cfg.eol] k) [cfg.eol]
      (complemented cfg tok.numFields)).seq (Run.ok [cfg.eol])

theorem specLines_eq (cfg : Cfg) (input : Bytes) :
    specLines cfg input =
      match tokOfParts 1 (records cfg.eol input) with
      | none => Run.ok [cfg.eol]
      | some tok => specLinesBody cfg tok := rfl

theorem tokOfParts_numFields {k : Nat} {ps : List Bytes} {tok : Tok}
    (h : tokOfParts k ps = some tok) : tok.numFields = ps.length := by
  cases ps with
  | nil => cases h
  | cons p ps =>
    simp only [tokOfParts, Option.some.injEq] at h
    subst h
    simp [Tok.numFields]

/-! ## the run -/

theorem specRunRecords_congr {cfg cfg' : Cfg} : ∀ (rs : List Bytes),
    (∀ r ∈ rs, specRecord cfg' r = specRecord cfg r) →
    specRunRecords cfg' rs = specRunRecords cfg rs
  | [], _ => rfl
  | r :: t, h => by
    simp only [specRunRecords]
    rw [h r (List.mem_cons_self ..),
      specRunRecords_congr t (fun r hr => h r (List.mem_cons_of_mem _ hr))]

theorem specRunRecords_append (cfg : Cfg) : ∀ (xs ys : List Bytes),
    specRunRecords cfg (xs ++ ys) = (specRunRecords cfg xs).seq (specRunRecords cfg ys)
  | [], ys => by simp [specRunRecords]
  | x :: xs, ys => by
    simp only [List.cons_append, specRunRecords]
    rw [specRunRecords_append cfg xs ys, Run.seq_assoc]

/-! ## `emit` -/

/-- `emit` reads of the request only `--json`, the join flag and the generic fallback -/
theorem emit_cfg_congr {cfg cfg' : Cfg} (hj : cfg'.json = cfg.json) (hjoin : cfg'.join = cfg.join)
    (hf : cfg'.fallback = cfg.fallback) (t : Tok) (sep : Nat → Bytes) (j : Bytes) :
    ∀ (l : List BoF), emit cfg' t sep j l = emit cfg t sep j l
  | [] => rfl
  | .filler f :: rest => by
    simp only [emit]; rw [emit_cfg_congr hj hjoin hf t sep j rest]
  | .bound b :: rest => by
    simp only [emit]; rw [emit_cfg_congr hj hjoin hf t sep j rest, hj, hjoin, hf]

theorem countBounds_append : ∀ (xs ys : List BoF),
    countBounds (xs ++ ys) = countBounds xs + countBounds ys
  | [], ys => by simp [countBounds]
  | .filler _ :: xs, ys => by simp [countBounds, countBounds_append xs ys]
  | .bound _ :: xs, ys => by simp [countBounds, countBounds_append xs ys]; omega

theorem mapBounds_append (f : UserBounds → List UserBounds) : ∀ (xs ys : List BoF),
    mapBounds f (xs ++ ys) = mapBounds f xs ++ mapBounds f ys
  | [], ys => rfl
  | .filler _ :: xs, ys => by simp [mapBounds, mapBounds_append f xs ys]
  | .bound _ :: xs, ys => by simp [mapBounds, mapBounds_append f xs ys]

theorem countBounds_map_bound' (l : List UserBounds) : countBounds (l.map .bound) = l.length := by
  induction l with
  | nil => rfl
  | cons _ _ ih => simp [countBounds, ih]

/-- the text a bound contributes: the selected parts if it resolves, else its own fallback, else
    the generic one, else nothing (`none`: the run fails) -/
def boundText (cfg : Cfg) (t : Tok) (sep : Nat → Bytes) (b : UserBounds) : Option Bytes :=
  match resolve b t.numFields with
  | some (lo, hi) => some (pieceText sep t lo hi)
  | none =>
    match b.fallback with
    | some f => some f
    | none => cfg.fallback

/-- `--json` renders a text as a JSON string, and cannot render text that is not UTF-8 -/
def rendered (cfg : Cfg) (x : Bytes) : Option Bytes :=
  if cfg.json then (if validUtf8 x then some (jsonString x) else none) else some x

/-- one step of `emit` on a bound, in closed form -/
theorem emit_bound (cfg : Cfg) (t : Tok) (sep : Nat → Bytes) (j : Bytes) (b : UserBounds)
    (rest : List BoF) :
    emit cfg t sep j (.bound b :: rest) =
      match (boundText cfg t sep b).bind (rendered cfg) with
      | none => Run.fail
      | some x =>
        Run.pre (x ++ (if cfg.join && countBounds rest > 0 then j else []))
          (emit cfg t sep j rest) := by
  rw [emit]
  unfold boundText
  cases resolve b t.numFields with
  | some p => rfl
  | none =>
    cases b.fallback with
    | some f => rfl
    | none =>
      cases cfg.fallback with
      | some f => rfl
      | none => rfl

/-- the elements `pre` of a bounds list, printed knowing that at least one bound follows them
    (so that, when joining, every bound of `pre` is followed by the joiner) -/
def emitThen (cfg : Cfg) (t : Tok) (sep : Nat → Bytes) (j : Bytes) : List BoF → Run
  | [] => Run.empty
  | .filler f :: rest => Run.pre f (emitThen cfg t sep j rest)
  | .bound b :: rest =>
    match (boundText cfg t sep b).bind (rendered cfg) with
    | none => Run.fail
    | some x => Run.pre (x ++ (if cfg.join then j else [])) (emitThen cfg t sep j rest)

/-- `emit` of a list that goes on with a bound splits at any point -/
theorem emit_append (cfg : Cfg) (t : Tok) (sep : Nat → Bytes) (j : Bytes) (post : List BoF)
    (hpost : countBounds post > 0) : ∀ (pre : List BoF),
    emit cfg t sep j (pre ++ post) = (emitThen cfg t sep j pre).seq (emit cfg t sep j post)
  | [] => by simp [emitThen]
  | .filler f :: rest => by
    simp only [List.cons_append, emit, emitThen]
    rw [emit_append cfg t sep j post hpost rest, Run.pre_seq]
  | .bound b :: rest => by
    rw [List.cons_append, emit_bound]
    simp only [emitThen]
    have hc : countBounds (rest ++ post) > 0 := by rw [countBounds_append]; omega
    cases (boundText cfg t sep b).bind (rendered cfg) with
    | none => rfl
    | some x =>
      simp only [hc, decide_true, Bool.and_true]
      rw [emit_append cfg t sep j post hpost rest, Run.pre_seq]

theorem emitThen_clean (cfg : Cfg) (t : Tok) (sep : Nat → Bytes) (j : Bytes) :
    ∀ (l : List BoF), (emitThen cfg t sep j l).Clean
  | [] => Or.inl rfl
  | .filler f :: rest => by
    simp only [emitThen]; exact (emitThen_clean cfg t sep j rest).pre
  | .bound b :: rest => by
    simp only [emitThen]
    cases (boundText cfg t sep b).bind (rendered cfg) with
    | none => exact Or.inr rfl
    | some x => exact (emitThen_clean cfg t sep j rest).pre

/-! ## the specification never reads `is_last` -/

theorem resolve_eraseLast (b : UserBounds) (n : Nat) :
    resolve { b with isLast := false } n = resolve b n := rfl

theorem mapBounds_complement_eraseLast (n : Nat) : ∀ (l : List BoF),
    mapBounds (complementBound · n) (l.map eraseLast) = mapBounds (complementBound · n) l
  | [] => rfl
  | .filler f :: t => by
    simp only [List.map_cons, eraseLast, mapBounds, mapBounds_complement_eraseLast n t]
  | .bound b :: t => by
    simp only [List.map_cons, eraseLast, mapBounds, mapBounds_complement_eraseLast n t]
    congr 2

theorem mapBounds_expand_eraseLast (n : Nat) : ∀ (l : List BoF),
    mapBounds (expandBound · n) (l.map eraseLast) = mapBounds (expandBound · n) l
  | [] => rfl
  | .filler f :: t => by
    simp only [List.map_cons, eraseLast, mapBounds, mapBounds_expand_eraseLast n t]
  | .bound b :: t => by
    simp only [List.map_cons, eraseLast, mapBounds, mapBounds_expand_eraseLast n t]
    congr 2

theorem emit_of_eraseLast_eq (cfg : Cfg) (tok : Tok) (sep : Nat → Bytes) (j : Bytes)
    {l l' : List BoF} (h : l'.map eraseLast = l.map eraseLast) :
    emit cfg tok sep j l' = emit cfg tok sep j l := by
  rw [← emit_eraseLast cfg tok sep j l', h, emit_eraseLast]

theorem countBounds_of_eraseLast_eq {l l' : List BoF} (h : l'.map eraseLast = l.map eraseLast) :
    countBounds l' = countBounds l := by
  rw [← countBounds_map_eraseLast l', h, countBounds_map_eraseLast]

theorem complemented_eraseLast {cfg cfg' : Cfg} (h : SameButBofs cfg cfg') (n : Nat)
    (he : cfg'.bofs.map eraseLast = cfg.bofs.map eraseLast) :
    (complemented cfg' n).map eraseLast = (complemented cfg n).map eraseLast := by
  unfold complemented
  rw [h.complement]
  cases cfg.complement with
  | false => exact he
  | true =>
    simp only [if_true]
    rw [← mapBounds_complement_eraseLast n cfg'.bofs, he, mapBounds_complement_eraseLast]

theorem rewritten_eraseLast {cfg cfg' : Cfg} (h : SameButBofs cfg cfg') (n : Nat)
    (he : cfg'.bofs.map eraseLast = cfg.bofs.map eraseLast) :
    (rewritten cfg' n).map eraseLast = (rewritten cfg n).map eraseLast := by
  have hc := complemented_eraseLast h n he
  unfold rewritten
  rw [h.json, h.chars]
  cases (cfg.json || cfg.chars) with
  | false => exact hc
  | true =>
    simp only [if_true]
    rw [← mapBounds_expand_eraseLast n (complemented cfg' n), hc, mapBounds_expand_eraseLast]

/-- **the specification never reads `is_last`**: two requests whose bounds lists differ in those
    flags only print the same for every tokenised record -/
theorem specBody_eraseLast {cfg cfg' : Cfg} (h : SameButBofs cfg cfg') (tok : Tok)
    (he : cfg'.bofs.map eraseLast = cfg.bofs.map eraseLast) :
    specBody cfg' tok = specBody cfg tok := by
  have e1 : openBracket cfg' = openBracket cfg := by unfold openBracket; rw [h.json]
  have e2 : closeBracket cfg' = closeBracket cfg := by unfold closeBracket; rw [h.json]
  have e3 : specSep cfg' = specSep cfg := by unfold specSep; rw [h.chars, h.replace, h.delimiter]
  have e4 : specJoiner cfg' = specJoiner cfg := by unfold specJoiner; rw [h.replace, h.delimiter]
  unfold specBody
  rw [h.onlyDelimited, h.complement,
    countBounds_of_eraseLast_eq (complemented_eraseLast h tok.numFields he), e1, e2, e3, e4, h.eol,
    emit_cfg_congr h.json h.join h.fallback,
    emit_of_eraseLast_eq cfg tok _ _ (rewritten_eraseLast h tok.numFields he)]

theorem specRecord_eraseLast {cfg cfg' : Cfg} (h : SameButBofs cfg cfg') (r : Bytes)
    (he : cfg'.bofs.map eraseLast = cfg.bofs.map eraseLast) :
    specRecord cfg' r = specRecord cfg r :=
  specRecord_congr h.toSameTokens r fun tok _ => specBody_eraseLast h tok he

theorem specLinesBody_eraseLast {cfg cfg' : Cfg} (h : SameButBofs cfg cfg') (tok : Tok)
    (he : cfg'.bofs.map eraseLast = cfg.bofs.map eraseLast) :
    specLinesBody cfg' tok = specLinesBody cfg tok := by
  have hc := complemented_eraseLast h tok.numFields he
  unfold specLinesBody
  rw [emit_cfg_congr (cfg := { cfg with json := false }) (cfg' := { cfg' with json := false })
      rfl h.join h.fallback, emit_of_eraseLast_eq _ tok _ _ hc, countBounds_of_eraseLast_eq hc,
    h.eol, h.complement]

theorem specLines_eraseLast {cfg cfg' : Cfg} (h : SameButBofs cfg cfg') (input : Bytes)
    (he : cfg'.bofs.map eraseLast = cfg.bofs.map eraseLast) :
    specLines cfg' input = specLines cfg input := by
  rw [specLines_eq, specLines_eq, h.eol]
  cases tokOfParts 1 (records cfg.eol input) with
  | none => rfl
  | some tok => exact specLinesBody_eraseLast h tok he

/-! ## what `resolve` returns -/

/-- a resolved bound lies inside the parts -/
theorem resolve_range {b : UserBounds} {n lo hi : Nat} (h : resolve b n = some (lo, hi)) :
    1 ≤ lo ∧ lo ≤ hi ∧ hi ≤ n := by
  have h1 := resolve_some h
  refine ⟨h1.2, h1.1, ?_⟩
  unfold resolve at h
  cases hl : resolveSide b.l n 1 with
  | none => simp [hl] at h
  | some lo' =>
    cases hr : resolveSide b.r n n with
    | none => simp [hl, hr] at h
    | some hi' =>
      simp only [hl, hr] at h
      by_cases hc : lo' ≤ hi' ∧ 1 ≤ lo'
      · rw [if_pos hc] at h
        simp only [Option.some.injEq, Prod.mk.injEq] at h
        obtain ⟨rfl, rfl⟩ := h
        cases hbr : b.r with
        | cont => rw [hbr] at hr; simp only [resolveSide, Option.some.injEq] at hr; omega
        | some v =>
          rw [hbr] at hr
          exact (resolveSide_bounds (.some v) n n hi' (Or.inr (by simp)) hr).2
      · rw [if_neg hc] at h; cases h

/-! ## every run of the specification ends with exit status 0 or 1 -/

theorem Run.seq_fail_of_clean {a : Run} (h : a.Clean) : a.seq Run.fail = ⟨a.out, .fail⟩ := by
  obtain ⟨ao, as⟩ := a
  rcases h with h | h <;> simp only at h <;> subst h <;> simp [Run.seq, Run.fail]

theorem specBody_clean (cfg : Cfg) (tok : Tok) : (specBody cfg tok).Clean := by
  unfold specBody
  split
  · exact Or.inl rfl
  · split
    · exact Or.inr rfl
    · exact ((emit_clean _ _ _ _ _).seq (Or.inl rfl)).pre

theorem specRecord_clean' (cfg : Cfg) (r : Bytes) : (specRecord cfg r).Clean := by
  rw [specRecord_eq]
  split
  · split
    · exact Or.inl rfl
    · exact Or.inl rfl
  · split
    · exact Or.inr rfl
    · exact specBody_clean cfg _

theorem specRunRecords_clean' (cfg : Cfg) : ∀ (rs : List Bytes), (specRunRecords cfg rs).Clean
  | [] => Or.inl rfl
  | r :: t => (specRecord_clean' cfg r).seq (specRunRecords_clean' cfg t)

/-! ## the rewriting of the bounds list, as a function of the list -/

/-- `-m`, then the range expansion of `--json` / `-c`, applied to any list -/
def rewriteList (cfg : Cfg) (n : Nat) (l : List BoF) : List BoF :=
  let c := if cfg.complement then mapBounds (complementBound · n) l else l
  if cfg.json || cfg.chars then mapBounds (expandBound · n) c else c

theorem rewritten_eq (cfg : Cfg) (n : Nat) : rewritten cfg n = rewriteList cfg n cfg.bofs := rfl

theorem rewriteList_append (cfg : Cfg) (n : Nat) (xs ys : List BoF) :
    rewriteList cfg n (xs ++ ys) = rewriteList cfg n xs ++ rewriteList cfg n ys := by
  unfold rewriteList
  cases cfg.complement <;> cases (cfg.json || cfg.chars) <;> simp [mapBounds_append]

/-- a bound that does not resolve goes through the rewriting untouched (but for `is_last`) -/
theorem rewriteList_unresolved (cfg : Cfg) (n : Nat) (b : UserBounds) (h : resolve b n = none) :
    ∃ b', rewriteList cfg n [.bound b] = [.bound b'] ∧ resolve b' n = none ∧
      b'.fallback = b.fallback := by
  have h' : resolve { b with isLast := false } n = none := h
  unfold rewriteList
  cases cfg.complement <;> cases (cfg.json || cfg.chars)
  · exact ⟨b, by simp, h, rfl⟩
  · exact ⟨{ b with isLast := false }, by simp [mapBounds, expandBound, h], h', rfl⟩
  · exact ⟨{ b with isLast := false }, by simp [mapBounds, complementBound, h], h', rfl⟩
  · exact ⟨{ b with isLast := false },
      by simp [mapBounds, complementBound, expandBound, h, h'], h', rfl⟩

theorem countBounds_complemented_pos (cfg : Cfg) (n : Nat) (pre post : List BoF) (b : UserBounds)
    (hb : cfg.bofs = pre ++ .bound b :: post) (h : resolve b n = none) :
    countBounds (complemented cfg n) ≠ 0 := by
  unfold complemented
  rw [hb]
  cases cfg.complement with
  | false => simp [countBounds_append, countBounds]
  | true =>
    simp only [if_true]
    rw [mapBounds_append]
    simp [mapBounds, complementBound, h, countBounds_append, countBounds]

end Tuc.Spec
