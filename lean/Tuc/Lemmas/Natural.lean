import Tuc.Model.Text
/-!
# Tuc.Lemmas.Natural — naturality of the text primitives under a bytewise injective renaming

For an injective `σ : UInt8 → UInt8` every primitive of `Tuc.Model.Text` commutes with
`List.map σ` applied to *all* its byte-string arguments: the offsets found (`findIter`, the field
ranges) are unchanged, and the byte strings produced are the `σ`-images.  Used by C11 with
`σ := swapByte` (the transposition of LF and NUL).
-/

namespace Tuc

variable {σ : UInt8 → UInt8}

theorem beq_map_inj (hσ : Function.Injective σ) (a b : UInt8) : (σ a == σ b) = (a == b) := by
  rw [Bool.eq_iff_iff, beq_iff_eq, beq_iff_eq]
  exact ⟨fun e => hσ e, fun e => e ▸ rfl⟩

theorem isPrefixOf_map (hσ : Function.Injective σ) :
    ∀ (d l : Bytes), (d.map σ).isPrefixOf (l.map σ) = d.isPrefixOf l
  | [], _ => by simp
  | _ :: _, [] => by simp
  | a :: d, b :: l => by
    simp only [List.map_cons, List.isPrefixOf_cons_cons, beq_map_inj hσ, isPrefixOf_map hσ d l]

theorem isEmpty_map {α β : Type} (f : α → β) (l : List α) : (l.map f).isEmpty = l.isEmpty := by
  cases l <;> rfl

theorem findIterAux_map (hσ : Function.Injective σ) (d : Bytes) :
    ∀ (l : Bytes) (skip pos : Nat),
      findIterAux (d.map σ) skip pos (l.map σ) = findIterAux d skip pos l
  | [], skip, pos => by simp [findIterAux]
  | c :: t, skip + 1, pos => by
    simp only [List.map_cons, findIterAux]
    exact findIterAux_map hσ d t skip (pos + 1)
  | c :: t, 0, pos => by
    have h := isPrefixOf_map hσ d (c :: t)
    simp only [List.map_cons] at h
    simp only [List.map_cons, findIterAux, h, List.length_map,
      findIterAux_map hσ d t]

theorem findIter_map (hσ : Function.Injective σ) (d l : Bytes) :
    findIter (d.map σ) (l.map σ) = findIter d l :=
  findIterAux_map hσ d l 0 0

/-- `rangesBetween` and `rangesBetweenGreedy` take offsets and lengths only; with `findIter_map`
    and `List.length_map` this is the whole naturality statement of the two splitters. -/
theorem fillWithFieldsLocations_map (hσ : Function.Injective σ) (buf : List Range) (l d : Bytes) :
    fillWithFieldsLocations buf (l.map σ) (d.map σ) = fillWithFieldsLocations buf l d := by
  simp [fillWithFieldsLocations, findIter_map hσ]

theorem fillWithFieldsLocationsGreedy_map (hσ : Function.Injective σ) (buf : List Range)
    (l d : Bytes) :
    fillWithFieldsLocationsGreedy buf (l.map σ) (d.map σ) = fillWithFieldsLocationsGreedy buf l d := by
  simp [fillWithFieldsLocationsGreedy, findIter_map hσ, fillWithFieldsLocations_map hσ]

theorem slice_map {α β : Type} (f : α → β) (l : List α) (s e : Nat) :
    slice (l.map f) s e = (slice l s e).map f := by
  simp [slice, List.map_take, List.map_drop]

theorem compressAux_map (f : UInt8 → UInt8) (l d : Bytes) :
    ∀ (ms : List Nat) (prev : Nat),
      compressAux (l.map f) (d.map f) prev ms = (compressAux l d prev ms).map f
  | [], prev => by
    simp only [compressAux, List.length_map]
    split <;> simp [List.map_drop]
  | idx :: t, prev => by
    simp only [compressAux, List.length_map, slice_map, isEmpty_map, compressAux_map f l d t,
      List.map_append]
    congr 1
    split
    · rfl
    · split <;> simp

theorem compressDelimiter_map (hσ : Function.Injective σ) (l d o o' : Bytes) :
    compressDelimiter (l.map σ) (d.map σ) o' = (compressDelimiter l d o).map σ := by
  simp [compressDelimiter, findIter_map hσ, compressAux_map]

theorem replaceMatches_map (f : UInt8 → UInt8) (t r : Bytes) :
    ∀ (ms : List (Nat × Nat)) (prev : Nat),
      replaceMatches (t.map f) (r.map f) prev ms = (replaceMatches t r prev ms).map f
  | [], prev => by simp [replaceMatches, List.map_drop]
  | (s, e) :: ms, prev => by
    simp [replaceMatches, slice_map, replaceMatches_map f t r ms]

theorem replaceAll_map (hσ : Function.Injective σ) (t d r : Bytes) :
    replaceAll (t.map σ) (d.map σ) (r.map σ) = (replaceAll t d r).map σ := by
  simp [replaceAll, findIter_map hσ, replaceMatches_map]

theorem trimStartFuel_map (hσ : Function.Injective σ) (d : Bytes) :
    ∀ (fuel : Nat) (l : Bytes),
      trimStartFuel (d.map σ) fuel (l.map σ) = (trimStartFuel d fuel l).map σ
  | 0, l => by simp [trimStartFuel]
  | fuel + 1, l => by
    simp only [trimStartFuel, isPrefixOf_map hσ, List.length_map]
    split
    · rw [← List.map_drop, trimStartFuel_map hσ d fuel]
    · rfl

theorem trimStart_map (hσ : Function.Injective σ) (d l : Bytes) :
    trimStart (d.map σ) (l.map σ) = (trimStart d l).map σ := by
  simp [trimStart, trimStartFuel_map hσ]

theorem trimEnd_map (hσ : Function.Injective σ) (d l : Bytes) :
    trimEnd (d.map σ) (l.map σ) = (trimEnd d l).map σ := by
  simp only [trimEnd, ← List.map_reverse, trimStart_map hσ]

theorem trimLiteral_map (hσ : Function.Injective σ) (l : Bytes) (k : TrimKind) (d : Bytes) :
    trimLiteral (l.map σ) k (d.map σ) = (trimLiteral l k d).map σ := by
  simp only [trimLiteral, isEmpty_map]
  split
  · rfl
  · cases k <;> simp only [trimStart_map hσ, trimEnd_map hσ]

theorem trimRegex_map (f : UInt8 → UInt8) (line : Bytes) (k : TrimKind) (ms : List (Nat × Nat)) :
    trimRegex (line.map f) k ms = (trimRegex line k ms).map f := by
  simp only [trimRegex, List.length_map, slice_map]

theorem fillWithFieldsLocationsUsingRegex_map (f : UInt8 → UInt8) (buf : List Range) (line : Bytes)
    (ms : List (Nat × Nat)) :
    fillWithFieldsLocationsUsingRegex buf (line.map f) ms =
      fillWithFieldsLocationsUsingRegex buf line ms := by
  simp [fillWithFieldsLocationsUsingRegex]

theorem splitRecords_map (hσ : Function.Injective σ) (eol : UInt8) :
    ∀ (input cur : Bytes),
      splitRecords (σ eol) (cur.map σ) (input.map σ) =
        (splitRecords eol cur input).map (List.map σ)
  | [], cur => by
    simp only [splitRecords, List.map_nil, isEmpty_map]
    split <;> simp
  | c :: t, cur => by
    simp only [List.map_cons, splitRecords]
    by_cases h : c = eol
    · subst h
      have := splitRecords_map hσ c t []
      simp only [List.map_nil] at this
      simp [this]
    · have h' : σ c ≠ σ eol := fun e => h (hσ e)
      have := splitRecords_map hσ eol t (c :: cur)
      simp only [List.map_cons] at this
      simp [h, h', this]

theorem records_map (hσ : Function.Injective σ) (eol : UInt8) (input : Bytes) :
    records (σ eol) (input.map σ) = (records eol input).map (List.map σ) :=
  splitRecords_map hσ eol input []

end Tuc
