import Tuc.Model.Lines
import Tuc.Spec.Lines
import Tuc.Lemmas.Run
import Tuc.Lemmas.Bounds
/-!
# Lemmas for line mode (C05): `is_forward_only` in closed form, `records`, text of a run of lines
-/
namespace Tuc
open Tuc.Spec

/-! ## `is_forward_only` in closed form -/

/-- the left side of a bound as the comparison reads it: an open left side is line 1 -/
def leftOf (b : UserBounds) : Int :=
  match b.l with
  | .cont => 1
  | .some v => v

/-- `prev.r ≤ next.l` where an open right side of `prev` is +∞ (nothing may follow it) and an
    open left side of `next` is 1 -/
def Follows (p q : UserBounds) : Prop :=
  match p.r with
  | .cont => False
  | .some r => r ≤ leftOf q

/-- a side that, if written, is strictly positive -/
def Side.Pos : Side → Prop
  | .cont => True
  | .some v => 0 < v

/-- every written index of the bound is strictly positive -/
def UserBounds.Pos (b : UserBounds) : Prop := b.l.Pos ∧ b.r.Pos

/-- consecutive bounds satisfy `Follows` -/
def Ascending : List UserBounds → Prop
  | [] => True
  | [_] => True
  | p :: q :: t => Follows p q ∧ Ascending (q :: t)

theorem Ascending.tail {p : UserBounds} {t : List UserBounds} (h : Ascending (p :: t)) :
    Ascending t := by
  cases t with
  | nil => trivial
  | cons q t => exact h.2

theorem leftOf_pos {b : UserBounds} (h : b.Pos) : 0 < leftOf b := by
  unfold leftOf
  have := h.1
  cases hl : b.l with
  | cont => simp
  | some v => rw [hl] at this; exact this

theorem UserBounds.partialCmp_eq (p q : UserBounds) :
    p.partialCmp q = p.r.partialCmp (.some (leftOf q)) := by
  unfold UserBounds.partialCmp leftOf
  cases q.l <;> rfl

/-- `prev <= next` of the code, in closed form -/
theorem UserBounds.le_iff (p q : UserBounds) :
    p.le q = true ↔ ∃ s, p.r = .some s ∧ sameSign s (leftOf q) = true ∧ s ≤ leftOf q := by
  unfold UserBounds.le
  rw [UserBounds.partialCmp_eq]
  cases hr : p.r with
  | cont => simp [Side.partialCmp]
  | some s =>
    simp only [Side.partialCmp]
    by_cases hs : sameSign s (leftOf q) = true
    · simp only [hs, Bool.not_true, Bool.false_eq_true, if_false]
      rcases Int.lt_trichotomy s (leftOf q) with h | h | h
      · have : compare s (leftOf q) = .lt := by simp [Int.compare_eq_lt, h]
        rw [this]; simp; exact ⟨hs, by omega⟩
      · have : compare s (leftOf q) = .eq := by simp [h]
        rw [this]; simp; exact ⟨hs, by omega⟩
      · have : compare s (leftOf q) = .gt := by simp [Int.compare_eq_gt, h]
        rw [this]; simp; omega
    · simp [hs]

/-- on positive indexes the comparison of the code is `Follows` -/
theorem UserBounds.le_iff_follows {p q : UserBounds} (hp : p.r.Pos) (hq : 0 < leftOf q) :
    p.le q = true ↔ Follows p q := by
  rw [UserBounds.le_iff]; unfold Follows
  cases hr : p.r with
  | cont => simp
  | some s =>
    have hs : 0 < s := by rw [hr] at hp; exact hp
    have hss : sameSign s (leftOf q) = true := by simp [sameSign, hs, hq]
    simp [hss]

theorem UserBounds.le_follows {p q : UserBounds} (h : p.le q = true) : Follows p q := by
  obtain ⟨s, hs, _, hle⟩ := (UserBounds.le_iff p q).1 h
  unfold Follows; rw [hs]; exact hle

theorem isSortedAux_some_iff (p : UserBounds) (t : List UserBounds) (h : ∀ b ∈ p :: t, b.Pos) :
    isSortedAux (some p) t = true ↔ Ascending (p :: t) := by
  induction t generalizing p with
  | nil => simp [isSortedAux, Ascending]
  | cons q t ih =>
    have hp : p.Pos := h p (by simp)
    have hq : q.Pos := h q (by simp)
    simp only [isSortedAux, Ascending]
    rw [← UserBounds.le_iff_follows hp.2 (leftOf_pos hq)]
    by_cases hle : p.le q = true
    · simp only [hle, if_true, true_and]
      exact ih q (fun b hb => h b (List.mem_cons_of_mem _ hb))
    · simp [hle]

theorem isSortedAux_none_iff (bs : List UserBounds) (h : ∀ b ∈ bs, b.Pos) :
    isSortedAux none bs = true ↔ Ascending bs := by
  cases bs with
  | nil => simp [isSortedAux, Ascending]
  | cons p t => simp only [isSortedAux]; exact isSortedAux_some_iff p t h

theorem Side.pos_flags {s : Side} (h : s.Pos) : s.isNonPos = false ∧ s.isNeg = false := by
  cases s with
  | cont => simp [Side.isNonPos, Side.isNeg]
  | some v =>
    have : 0 < v := h
    simp [Side.isNonPos, Side.isNeg]; omega

theorem Side.pos_of_notNeg {s : Side} (hz : s.Nonzero) (h : s.isNeg = false) : s.Pos := by
  cases s with
  | cont => trivial
  | some v =>
    have h0 : v ≠ 0 := hz
    simp [Side.isNeg] at h
    show 0 < v
    omega

/-- `is_sortable && !has_negative_indices`, for indexes other than 0: every index is positive -/
theorem sortable_noNeg_iff (l : List BoF) (hz : ∀ b ∈ boundsOnly l, b.Nonzero) :
    (isSortable l = true ∧ hasNegativeIndices l = false) ↔ ∀ b ∈ boundsOnly l, b.Pos := by
  unfold isSortable hasNegativeIndices
  generalize boundsOnly l = bs at hz
  constructor
  · rintro ⟨_, hneg⟩ b hb
    rw [List.any_eq_false] at hneg
    have := hneg b hb
    simp only [Bool.or_eq_true, not_or, Bool.not_eq_true] at this
    exact ⟨Side.pos_of_notNeg (hz b hb).1 this.1, Side.pos_of_notNeg (hz b hb).2 this.2⟩
  · intro h
    have h1 : (bs.any fun b => b.l.isNonPos || b.r.isNonPos) = false := by
      rw [List.any_eq_false]
      intro b hb
      simp [(Side.pos_flags (h b hb).1).1, (Side.pos_flags (h b hb).2).1]
    have h2 : (bs.any fun b => b.l.isNeg || b.r.isNeg) = false := by
      rw [List.any_eq_false]
      intro b hb
      simp [(Side.pos_flags (h b hb).1).2, (Side.pos_flags (h b hb).2).2]
    simp [h1, h2]

/-- **`is_forward_only` in closed form** (indexes other than 0, as the parser guarantees): every
    written index is positive and consecutive bounds satisfy `prev.r ≤ next.l`, an open left side
    read as 1 and an open right side as +∞ (nothing may follow an open-right bound). -/
theorem isForwardOnly_spec (l : List BoF) (hz : ∀ b ∈ boundsOnly l, b.Nonzero) :
    isForwardOnly l = true ↔ (∀ b ∈ boundsOnly l, b.Pos) ∧ Ascending (boundsOnly l) := by
  unfold isForwardOnly
  have key := sortable_noNeg_iff l hz
  constructor
  · intro h
    simp only [Bool.and_eq_true, Bool.not_eq_true'] at h
    obtain ⟨⟨h1, h2⟩, h3⟩ := h
    have hp := key.1 ⟨h1, h3⟩
    exact ⟨hp, (isSortedAux_none_iff _ hp).1 h2⟩
  · rintro ⟨hp, ha⟩
    obtain ⟨h1, h3⟩ := key.2 hp
    have h2 : isSorted l = true := (isSortedAux_none_iff _ hp).2 ha
    simp [h1, h2, h3]

/-- the index 0 (which the parser rejects) is why `isForwardOnly_spec` asks for non-zero indexes:
    the lone bound `0` is "forward only" for the code -/
example : isForwardOnly [.bound { l := .some 0, r := .some 0 }] = true := by decide

/-- without any side condition, `is_forward_only` still implies the ordering of the bounds -/
theorem isForwardOnly_ascending (l : List BoF) (h : isForwardOnly l = true) :
    Ascending (boundsOnly l) := by
  unfold isForwardOnly at h
  simp only [Bool.and_eq_true, Bool.not_eq_true'] at h
  have h2 : isSortedAux none (boundsOnly l) = true := h.1.2
  generalize boundsOnly l = bs at h2
  cases bs with
  | nil => trivial
  | cons p t =>
    simp only [isSortedAux] at h2
    induction t generalizing p with
    | nil => trivial
    | cons q t ih =>
      simp only [isSortedAux] at h2
      by_cases hle : p.le q = true
      · simp only [hle, if_true] at h2
        exact ⟨UserBounds.le_follows hle, ih q h2⟩
      · simp [hle] at h2

/-- a side that is open or the (unparsable) index 0 -/
def Side.ZeroOrOpen : Side → Prop
  | .cont => True
  | .some v => v = 0

theorem Side.zeroOrOpen_of_flags {s : Side} (h1 : s.isPos = false) (h2 : s.isNeg = false) :
    s.ZeroOrOpen := by
  cases s with
  | cont => trivial
  | some v =>
    simp [Side.isPos, Side.isNeg] at h1 h2
    show v = 0
    omega

theorem Side.nonzero_or_zero (s : Side) : s.Nonzero ∨ s = .some 0 := by
  cases s with
  | cont => exact Or.inl trivial
  | some v =>
    by_cases h : v = 0
    · right; rw [h]
    · left; exact h

/-- **`is_forward_only` in closed form, no side condition**: either the positive ascending case of
    `isForwardOnly_spec`, or a lone bound whose written indexes are all 0 -/
theorem isForwardOnly_iff (l : List BoF) :
    isForwardOnly l = true ↔
      ((∀ b ∈ boundsOnly l, b.Pos) ∧ Ascending (boundsOnly l)) ∨
      (∃ b, boundsOnly l = [b] ∧ b.l.ZeroOrOpen ∧ b.r.ZeroOrOpen) := by
  constructor
  · intro h
    by_cases hz : ∀ b ∈ boundsOnly l, b.Nonzero
    · exact Or.inl ((isForwardOnly_spec l hz).1 h)
    · right
      unfold isForwardOnly isSortable hasNegativeIndices isSorted at h
      simp only [Bool.and_eq_true, Bool.not_eq_true'] at h
      obtain ⟨⟨hsortable, hsorted⟩, hnoneg⟩ := h
      generalize boundsOnly l = bs at *
      -- some bound has an index 0
      have hex : ∃ b ∈ bs, b.l = .some 0 ∨ b.r = .some 0 := by
        apply Classical.byContradiction
        intro hcon
        apply hz
        intro b hb
        rcases Side.nonzero_or_zero b.l with h1 | h1
        · rcases Side.nonzero_or_zero b.r with h2 | h2
          · exact ⟨h1, h2⟩
          · exact absurd ⟨b, hb, Or.inr h2⟩ hcon
        · exact absurd ⟨b, hb, Or.inl h1⟩ hcon
      obtain ⟨b0, hb0, hzero⟩ := hex
      have hnp : (bs.any fun b => b.l.isNonPos || b.r.isNonPos) = true := by
        rw [List.any_eq_true]
        refine ⟨b0, hb0, ?_⟩
        rcases hzero with h | h <;> simp [h, Side.isNonPos]
      rw [hnp] at hsortable
      simp only [Bool.true_and] at hsortable
      rw [List.any_eq_false] at hsortable hnoneg
      have hall : ∀ b ∈ bs, b.l.ZeroOrOpen ∧ b.r.ZeroOrOpen := by
        intro b hb
        have h1 := hsortable b hb
        have h2 := hnoneg b hb
        simp only [Bool.or_eq_true, not_or, Bool.not_eq_true] at h1 h2
        exact ⟨Side.zeroOrOpen_of_flags h1.1 h2.1, Side.zeroOrOpen_of_flags h1.2 h2.2⟩
      cases bs with
      | nil => simp at hb0
      | cons p t =>
        cases t with
        | nil => exact ⟨p, rfl, hall p (by simp)⟩
        | cons q u =>
          exfalso
          have hp := (hall p (by simp)).2
          simp only [isSortedAux] at hsorted
          by_cases hle : p.le q = true
          · obtain ⟨s, hs, hss, _⟩ := (UserBounds.le_iff p q).1 hle
            rw [hs] at hp
            have : s = 0 := hp
            subst this
            simp [sameSign] at hss
          · simp [hle] at hsorted
  · rintro (⟨hp, ha⟩ | ⟨b, hb, hl, hr⟩)
    · exact (isForwardOnly_spec l (fun b hb => ⟨by
        have := (hp b hb).1
        cases hs : b.l with
        | cont => trivial
        | some v => rw [hs] at this; have : 0 < v := this; show v ≠ 0; omega, by
        have := (hp b hb).2
        cases hs : b.r with
        | cont => trivial
        | some v => rw [hs] at this; have : 0 < v := this; show v ≠ 0; omega⟩)).2 ⟨hp, ha⟩
    · unfold isForwardOnly isSortable hasNegativeIndices isSorted
      rw [hb]
      obtain ⟨bl, br, il, fb⟩ := b
      cases bl with
      | cont =>
        cases br with
        | cont => simp [isSortedAux, Side.isPos, Side.isNonPos, Side.isNeg]
        | some v =>
          have : v = 0 := hr
          subst this
          simp [isSortedAux, Side.isPos, Side.isNonPos, Side.isNeg]
      | some u =>
        have : u = 0 := hl
        subst this
        cases br with
        | cont => simp [isSortedAux, Side.isPos, Side.isNonPos, Side.isNeg]
        | some v =>
          have : v = 0 := hr
          subst this
          simp [isSortedAux, Side.isPos, Side.isNonPos, Side.isNeg]
/-! ## `records`: the empty input, the lone EOL, one trailing EOL -/

theorem splitRecords_eq_nil_iff (eol : UInt8) (cur x : Bytes) :
    splitRecords eol cur x = [] ↔ cur = [] ∧ x = [] := by
  induction x generalizing cur with
  | nil =>
    simp only [splitRecords]
    cases cur <;> simp
  | cons c t ih =>
    simp only [splitRecords]
    by_cases hc : c = eol
    · simp [hc]
    · rw [if_neg hc, ih]; simp

theorem records_eq_nil_iff (eol : UInt8) (x : Bytes) : records eol x = [] ↔ x = [] := by
  unfold records; rw [splitRecords_eq_nil_iff]; simp

theorem splitRecords_eq_lone_iff (eol : UInt8) (cur x : Bytes) :
    splitRecords eol cur x = [[]] ↔ cur = [] ∧ x = [eol] := by
  induction x generalizing cur with
  | nil =>
    simp only [splitRecords]
    cases cur <;> simp
  | cons c t ih =>
    simp only [splitRecords]
    by_cases hc : c = eol
    · rw [if_pos hc]
      simp only [List.cons.injEq, List.reverse_eq_nil_iff, splitRecords_eq_nil_iff, true_and, hc]
    · rw [if_neg hc, ih]; simp [hc]

/-- the lone EOL is the only input whose records are one empty line -/
theorem records_eq_lone_iff (eol : UInt8) (x : Bytes) : records eol x = [[]] ↔ x = [eol] := by
  unfold records; rw [splitRecords_eq_lone_iff]; simp

theorem splitRecords_trailing_eol (eol : UInt8) (cur x : Bytes) (hne : x = [] → cur ≠ [])
    (hlast : x.getLast? ≠ some eol) :
    splitRecords eol cur (x ++ [eol]) = splitRecords eol cur x := by
  induction x generalizing cur with
  | nil =>
    have : cur ≠ [] := hne rfl
    cases cur with
    | nil => exact absurd rfl this
    | cons a t => simp [splitRecords]
  | cons c t ih =>
    have ht : t.getLast? ≠ some eol ∧ (c = eol → t ≠ []) := by
      cases t with
      | nil => simpa using hlast
      | cons d u => simpa [List.getLast?_cons_cons] using hlast
    simp only [List.cons_append, splitRecords]
    by_cases hc : c = eol
    · rw [if_pos hc, if_pos hc, ih [] (fun h => absurd h (ht.2 hc)) ht.1]
    · rw [if_neg hc, if_neg hc, ih (c :: cur) (fun _ => by simp) ht.1]

/-- **a single trailing EOL never counts as an extra empty line**: for a non-empty input that
    does not end with the EOL, adding one EOL leaves the lines unchanged -/
theorem records_trailing_eol (eol : UInt8) (x : Bytes) (hne : x ≠ [])
    (hlast : x.getLast? ≠ some eol) :
    records eol (x ++ [eol]) = records eol x :=
  splitRecords_trailing_eol eol [] x (fun h => absurd h hne) hlast

/-! ## the text of a run of lines -/

/-- lines that follow a line already written: each is preceded by the EOL -/
def contText (eol : UInt8) (xs : List Bytes) : Bytes := xs.flatMap fun g => eol :: g

/-- lines separated by the EOL -/
def joinText (eol : UInt8) : List Bytes → Bytes
  | [] => []
  | f :: more => f ++ contText eol more

@[simp] theorem contText_nil (eol : UInt8) : contText eol [] = [] := rfl
@[simp] theorem contText_cons (eol : UInt8) (x : Bytes) (xs : List Bytes) :
    contText eol (x :: xs) = eol :: x ++ contText eol xs := by
  simp [contText]
@[simp] theorem joinText_nil (eol : UInt8) : joinText eol [] = [] := rfl
@[simp] theorem joinText_cons (eol : UInt8) (x : Bytes) (xs : List Bytes) :
    joinText eol (x :: xs) = x ++ contText eol xs := rfl

theorem drop_succ_of_drop {α : Type} {ls : List α} {i : Nat} {x : α} {t : List α}
    (hd : ls.drop i = x :: t) : ls.drop (i + 1) = t := by
  have : ls.drop (i + 1) = (ls.drop i).drop 1 := by rw [List.drop_drop]
  rw [this, hd]; rfl

theorem slice_cons_of_drop {α : Type} {ls : List α} {i hi : Nat} {x : α} {t : List α}
    (hd : ls.drop i = x :: t) (h : i < hi) : slice ls i hi = x :: slice ls (i + 1) hi := by
  unfold slice
  rw [hd, drop_succ_of_drop hd]
  have : hi - i = (hi - (i + 1)) + 1 := by omega
  rw [this, List.take_succ_cons]

theorem slice_eq_nil_of_le {α : Type} (ls : List α) {i hi : Nat} (h : hi ≤ i) :
    slice ls i hi = [] := by
  unfold slice
  have : hi - i = 0 := by omega
  rw [this, List.take_zero]

theorem slice_eq_nil_of_length_le {α : Type} (ls : List α) {i : Nat} (hi : Nat)
    (h : ls.length ≤ i) : slice ls i hi = [] := by
  unfold slice
  rw [List.drop_eq_nil_of_le h, List.take_nil]

/-- the text of lines `lo … hi` as the specification assembles it -/
theorem pieceText_lines (eol : UInt8) (p : Bytes) (ps : List Bytes) (lo hi : Nat)
    (h1 : 1 ≤ lo) (h2 : lo ≤ hi) :
    pieceText (fun k => repeatBytes [eol] k) ⟨p, ps.map fun x => (1, x)⟩ lo hi
      = joinText eol (slice (p :: ps) (lo - 1) hi) := by
  have aux2 : ∀ xs : List Bytes,
      ((xs.map fun x => ((1 : Nat), x)).flatMap fun (k, g) => repeatBytes [eol] k ++ g)
        = contText eol xs := by
    intro xs
    induction xs with
    | nil => rfl
    | cons f more ih =>
      rw [List.map_cons, List.flatMap_cons, ih, contText_cons]
      simp [repeatBytes]
  have aux : ∀ xs : List Bytes,
      (match xs.map (fun x => ((1 : Nat), x)) with
        | [] => []
        | (_, f) :: more => f ++ more.flatMap fun (k, g) => repeatBytes [eol] k ++ g)
        = joinText eol xs := by
    intro xs
    cases xs with
    | nil => rfl
    | cons f more =>
      rw [List.map_cons]
      simp only [joinText_cons]
      rw [aux2]
  unfold pieceText slice
  have hlen : hi - lo + 1 = hi - (lo - 1) := by omega
  simp only [hlen]
  cases hj : lo - 1 with
  | zero =>
    have : hi - 0 = (hi - 1) + 1 := by omega
    rw [List.drop_zero, List.drop_zero, this, List.take_succ_cons, List.take_succ_cons,
      ← List.map_take]
    simp only [joinText_cons]
    rw [aux2]
  | succ j =>
    rw [List.drop_succ_cons, List.drop_succ_cons, ← List.map_drop, ← List.map_take]
    exact aux _

/-! ## what a positive bound selects among `n` lines -/

/-- `b` (positive indexes) selects lines `lo … hi` among `n`: the facts the walk needs -/
structure LineSel (b : UserBounds) (n lo hi : Nat) : Prop where
  lo_pos : 1 ≤ lo
  lo_le : lo ≤ hi
  hi_le : hi ≤ n
  left : leftOf b = (lo : Int)
  right : b.r = .some (hi : Int) ∨ (b.r = .cont ∧ hi = n)
  matches_iff : ∀ k : Nat, 1 ≤ k →
    ((b.matches (k : Int)).getD false = true ↔ lo ≤ k ∧ (k ≤ hi ∨ b.r = .cont))

theorem LineSel.of_resolve {b : UserBounds} {n lo hi : Nat} (hp : b.Pos)
    (h : resolve b n = some (lo, hi)) : LineSel b n lo hi := by
  obtain ⟨l, r, il, fb⟩ := b
  obtain ⟨hpl, hpr⟩ := hp
  simp only at hpl hpr
  unfold resolve at h
  simp only at h
  cases l with
  | cont =>
    cases r with
    | cont =>
      simp only [resolveSide] at h
      by_cases hc : 1 ≤ n ∧ 1 ≤ 1
      · rw [if_pos hc] at h
        simp only [Option.some.injEq, Prod.mk.injEq] at h
        obtain ⟨rfl, rfl⟩ := h
        refine ⟨by omega, by omega, by omega, rfl, Or.inr ⟨rfl, rfl⟩, ?_⟩
        intro k hk
        simp [UserBounds.matches]; omega
      · rw [if_neg hc] at h; cases h
    | some v =>
      have hv : 0 < v := hpr
      simp only [resolveSide] at h
      by_cases hoob : v = 0 ∨ v > (n : Int) ∨ v < -(n : Int)
      · rw [if_pos hoob] at h; cases h
      · rw [if_neg hoob, if_pos hv] at h
        simp only at h
        by_cases hc : 1 ≤ v.toNat ∧ 1 ≤ 1
        · rw [if_pos hc] at h
          simp only [Option.some.injEq, Prod.mk.injEq] at h
          obtain ⟨rfl, rfl⟩ := h
          refine ⟨by omega, by omega, by omega, rfl, Or.inl (by simp; omega), ?_⟩
          intro k hk
          have : oppSign v (k : Int) = false := by simp [oppSign]; omega
          simp [UserBounds.matches, this]; omega
        · rw [if_neg hc] at h; cases h
  | some u =>
    have hu : 0 < u := hpl
    cases r with
    | cont =>
      simp only [resolveSide] at h
      by_cases hoob : u = 0 ∨ u > (n : Int) ∨ u < -(n : Int)
      · rw [if_pos hoob] at h; cases h
      · rw [if_neg hoob, if_pos hu] at h
        simp only at h
        by_cases hc : u.toNat ≤ n ∧ 1 ≤ u.toNat
        · rw [if_pos hc] at h
          simp only [Option.some.injEq, Prod.mk.injEq] at h
          obtain ⟨rfl, rfl⟩ := h
          refine ⟨by omega, by omega, by omega, by simp [leftOf]; omega, Or.inr ⟨rfl, rfl⟩, ?_⟩
          intro k hk
          have : oppSign u (k : Int) = false := by simp [oppSign]; omega
          simp [UserBounds.matches, this]
        · rw [if_neg hc] at h; cases h
    | some v =>
      have hv : 0 < v := hpr
      simp only [resolveSide] at h
      by_cases hoobu : u = 0 ∨ u > (n : Int) ∨ u < -(n : Int)
      · rw [if_pos hoobu] at h; cases h
      · rw [if_neg hoobu, if_pos hu] at h
        by_cases hoob : v = 0 ∨ v > (n : Int) ∨ v < -(n : Int)
        · rw [if_pos hoob] at h; cases h
        · rw [if_neg hoob, if_pos hv] at h
          simp only at h
          by_cases hc : u.toNat ≤ v.toNat ∧ 1 ≤ u.toNat
          · rw [if_pos hc] at h
            simp only [Option.some.injEq, Prod.mk.injEq] at h
            obtain ⟨rfl, rfl⟩ := h
            refine ⟨by omega, by omega, by omega, by simp [leftOf]; omega,
              Or.inl (by simp; omega), ?_⟩
            intro k hk
            have h1 : oppSign u (k : Int) = false := by simp [oppSign]; omega
            have h2 : oppSign v (k : Int) = false := by simp [oppSign]; omega
            simp [UserBounds.matches, h1, h2]; omega
          · rw [if_neg hc] at h; cases h

/-! ## the specification of `-l` on a plain resolvable request, in closed form -/

/-- the lines a bound selects, separated by the EOL (byte for byte) -/
def selText (eol : UInt8) (ls : List Bytes) (b : UserBounds) : Bytes :=
  match resolve b ls.length with
  | some (lo, hi) => joinText eol (slice ls (lo - 1) hi)
  | none => []

/-- what separates a bound from the next one: the EOL, or nothing under `--no-join` -/
def lineJoinerOf (eol : UInt8) (join : Bool) (t : List UserBounds) : Bytes :=
  if join && !t.isEmpty then [eol] else []

/-- the selected lines in request order -/
def linesOut (eol : UInt8) (join : Bool) (ls : List Bytes) : List UserBounds → Bytes
  | [] => []
  | b :: t => selText eol ls b ++ lineJoinerOf eol join t ++ linesOut eol join ls t

theorem resolve_some_bounds {b : UserBounds} {n lo hi : Nat} (h : resolve b n = some (lo, hi)) :
    1 ≤ lo ∧ lo ≤ hi := by
  unfold resolve at h
  cases hl : resolveSide b.l n 1 with
  | none => simp [hl] at h
  | some lo' =>
    cases hr : resolveSide b.r n n with
    | none => simp [hl, hr] at h
    | some hi' =>
      simp only [hl, hr] at h
      by_cases hc : lo' ≤ hi' ∧ 1 ≤ lo'
      · rw [if_pos hc] at h
        simp only [Option.some.injEq, Prod.mk.injEq] at h
        omega
      · rw [if_neg hc] at h; cases h

/-- a resolvable bound has no index 0 -/
theorem nonzero_of_resolve {b : UserBounds} {n : Nat} (h : resolve b n ≠ none) : b.Nonzero := by
  unfold resolve at h
  constructor
  · cases hl : b.l with
    | cont => trivial
    | some v =>
      show v ≠ 0
      intro hv
      subst hv
      simp [hl, resolveSide] at h
  · cases hr : b.r with
    | cont => trivial
    | some v =>
      show v ≠ 0
      intro hv
      subst hv
      cases hl : resolveSide b.l n 1 with
      | none => simp [hl] at h
      | some lo => simp [hr, resolveSide] at h

theorem countBounds_map_bound (t : List UserBounds) : countBounds (t.map .bound) = t.length := by
  induction t with
  | nil => rfl
  | cons b t ih => simp [countBounds, ih]

/-- the specification's `emit` over the lines, when every bound resolves -/
theorem emit_lines (cfg : Cfg) (hj : cfg.json = false) (eol : UInt8) (p : Bytes) (ps : List Bytes)
    (bs : List UserBounds) (hres : ∀ b ∈ bs, resolve b (p :: ps).length ≠ none) :
    emit cfg ⟨p, ps.map fun x => (1, x)⟩ (fun k => repeatBytes [eol] k) [eol] (bs.map .bound)
      = Run.ok (linesOut eol cfg.join (p :: ps) bs) := by
  induction bs with
  | nil => rfl
  | cons b t ih =>
    have hn : (Tok.mk p (ps.map fun x => ((1 : Nat), x))).numFields = (p :: ps).length := by
      simp [Tok.numFields]
    have iht := ih (fun b' hb' => hres b' (List.mem_cons_of_mem _ hb'))
    rw [List.map_cons]
    simp only [emit]
    rw [hn, iht]
    cases hr : resolve b (p :: ps).length with
    | none => exact absurd hr (hres b (by simp))
    | some lh =>
      obtain ⟨lo, hi⟩ := lh
      obtain ⟨h1, h2⟩ := resolve_some_bounds hr
      simp only [hj, Bool.false_eq_true, if_false]
      rw [pieceText_lines eol p ps lo hi h1 h2, countBounds_map_bound]
      have hjo : (if (cfg.join && decide (t.length > 0)) = true then [eol] else [])
          = lineJoinerOf eol cfg.join t := by
        unfold lineJoinerOf
        cases t <;> simp
      rw [hjo]
      simp only [linesOut, selText, hr, Run.pre, Run.ok, List.append_assoc]

/-- **the specification of `-l` in closed form**: on an input other than the empty one or a lone
    EOL, and a plain request every bound of which resolves, the output is the selected lines in
    request order followed by one EOL, and the status is success. -/
theorem specLines_eq_linesOut (cfg : Cfg) (input : Bytes) (bs : List UserBounds)
    (hb : cfg.bofs = bs.map .bound) (hc : cfg.complement = false)
    (h0 : input ≠ []) (h1 : input ≠ [cfg.eol])
    (hres : ∀ b ∈ bs, resolve b (records cfg.eol input).length ≠ none) :
    specLines cfg input
      = Run.ok (linesOut cfg.eol cfg.join (records cfg.eol input) bs ++ [cfg.eol]) := by
  unfold specLines
  cases hrec : records cfg.eol input with
  | nil => exact absurd ((records_eq_nil_iff _ _).1 hrec) h0
  | cons p ps =>
    rw [hrec] at hres
    simp only [tokOfParts]
    have hne : ((ps.map fun x => ((1 : Nat), x)).isEmpty && p.isEmpty) = false := by
      cases ps with
      | cons _ _ => simp
      | nil =>
        cases p with
        | cons _ _ => simp
        | nil => exact absurd ((records_eq_lone_iff _ _).1 hrec) h1
    simp only [hne, hc, Bool.false_eq_true, if_false, Bool.false_and, hb]
    rw [emit_lines _ rfl cfg.eol p ps bs hres]
    simp [Run.seq, Run.ok]

/-! ## an ASCII EOL never occurs inside a multi-byte scalar value -/

theorem ge80_of_isCont {b : UInt8} (h : isCont b = true) : 0x80 ≤ b := by
  simp [isCont] at h; exact h.1

theorem UInt8.le_of_le_of_le' {a b c : UInt8} (h1 : a ≤ b) (h2 : b ≤ c) : a ≤ c := by
  rw [UInt8.le_iff_toNat_le] at *; omega

/-- a well-formed scalar value is either one ASCII byte or made of bytes ≥ 0x80 -/
theorem charLen_bytes (c : Bytes) (h : charLen c = some c.length) :
    (∃ b, c = [b] ∧ b < 0x80) ∨ ∀ b ∈ c, 0x80 ≤ b := by
  cases c with
  | nil => simp [charLen] at h
  | cons b0 t =>
    simp only [charLen] at h
    by_cases h0 : b0 < 0x80
    · rw [if_pos h0] at h
      simp at h
      left; exact ⟨b0, by simp [h], h0⟩
    · rw [if_neg h0] at h
      have hb0 : 0x80 ≤ b0 := by
        rw [UInt8.not_lt] at h0; exact h0
      right
      split at h
      · -- two bytes
        cases t with
        | nil => simp at h
        | cons b1 t1 =>
          simp only at h
          rw [Option.ite_none_right_eq_some] at h
          obtain ⟨hc, hl⟩ := h
          simp at hl
          subst hl
          intro b hb
          simp at hb
          rcases hb with rfl | rfl
          · exact hb0
          · exact ge80_of_isCont hc
      · split at h
        · -- three bytes
          cases t with
          | nil => simp at h
          | cons b1 t1 =>
            cases t1 with
            | nil => simp at h
            | cons b2 t2 =>
              simp only at h
              rw [Option.ite_none_right_eq_some] at h
              obtain ⟨hok, hl⟩ := h
              simp at hl
              subst hl
              simp only [Bool.and_eq_true] at hok
              have hb1 : 0x80 ≤ b1 := by
                have := hok.1
                split at this
                · simp at this; exact UInt8.le_of_le_of_le' (by decide) this.1
                · split at this
                  · simp at this; exact this.1
                  · exact ge80_of_isCont this
              intro b hb
              simp at hb
              rcases hb with rfl | rfl | rfl
              · exact hb0
              · exact hb1
              · exact ge80_of_isCont hok.2
        · split at h
          · -- four bytes
            cases t with
            | nil => simp at h
            | cons b1 t1 =>
              cases t1 with
              | nil => simp at h
              | cons b2 t2 =>
                cases t2 with
                | nil => simp at h
                | cons b3 t3 =>
                  simp only at h
                  rw [Option.ite_none_right_eq_some] at h
                  obtain ⟨hok, hl⟩ := h
                  simp at hl
                  subst hl
                  simp only [Bool.and_eq_true] at hok
                  have hb1 : 0x80 ≤ b1 := by
                    have := hok.1.1
                    split at this
                    · simp at this; exact UInt8.le_of_le_of_le' (by decide) this.1
                    · split at this
                      · simp at this; exact this.1
                      · exact ge80_of_isCont this
                  intro b hb
                  simp at hb
                  rcases hb with rfl | rfl | rfl | rfl
                  · exact hb0
                  · exact hb1
                  · exact ge80_of_isCont hok.1.2
                  · exact ge80_of_isCont hok.2
          · cases h

/-- splitting does not look inside a run of bytes without the EOL -/
theorem splitRecords_append_noEol (eol : UInt8) (c : Bytes) (hc : eol ∉ c) (cur rest : Bytes) :
    splitRecords eol cur (c ++ rest) = splitRecords eol (c.reverse ++ cur) rest := by
  induction c generalizing cur with
  | nil => rfl
  | cons x t ih =>
    have hx : x ≠ eol := fun h => hc (by simp [h])
    have ht : eol ∉ t := fun h => hc (List.mem_cons_of_mem _ h)
    simp only [List.cons_append, splitRecords, if_neg hx]
    rw [ih ht]
    simp

end Tuc
