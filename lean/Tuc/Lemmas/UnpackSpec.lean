import Tuc.Lemmas.CutStrSpec
/-!
# Tuc.Lemmas.UnpackSpec — range expansion (`--json`, `-c`) against the specification

`UserBounds::unpack` is the specification's `expandBound`; the list-level `unpack` is
`mapBounds (expandBound · n)` (up to the `is_last` flags, which `fromVec` re-marks); where the
engine skips the expansion (no bound is a range) the specification's unconditional expansion
changes nothing that `emit` can see.  Then the output stage of `cut_str` (`emitRecord`) with
`--json` and/or range expansion, against the tail of `specRecord`, for any way the field vector
relates to the tokens (`RefinesText`): the literal-delimiter field engine and the character engine
are the two instances (`Tuc.Props.C08Spec`, `Tuc.Props.C07Spec`).
-/

namespace Tuc
open Tuc.Spec

/-! ## A. one bound -/

/-- **`UserBounds::unpack` is the specification's `expandBound`**: the same list of bounds — same
    sides, same fallbacks, `is_last` clear. -/
theorem unpack_eq_expand (b : UserBounds) (n : Nat) (hz : b.Nonzero) :
    b.unpack n = expandBound b n := by
  have hr := tryIntoRange_eq_resolve b n hz
  unfold UserBounds.unpack expandBound
  cases hres : resolve b n with
  | none =>
    rw [hres] at hr
    simp only [Option.map_none] at hr
    rw [hr]
  | some p =>
    obtain ⟨lo, hi⟩ := p
    rw [hres] at hr
    simp only [Option.map_some] at hr
    rw [hr]
    obtain ⟨h1, h2⟩ := resolve_some hres
    simp only []
    have e : hi - (lo - 1) = hi - lo + 1 := by omega
    rw [e]
    apply List.map_congr_left
    intro i _
    have : lo - 1 + i + 1 = lo + i := by omega
    rw [this]

theorem unpackBof_eq_spec (b : UserBounds) (n : Nat) (hz : b.Nonzero) :
    unpackBof n (.bound b) = (expandBound b n).map .bound := by
  simp only [unpackBof, unpack_eq_expand b n hz]

/-- **the list-level `unpack` is `mapBounds expandBound`** (before `fromVec` marks the last
    bound) -/
theorem flatMap_unpackBof_eq (n : Nat) : ∀ (l : List BoF), AllNonzero l →
    l.flatMap (unpackBof n) = mapBounds (expandBound · n) l
  | [], _ => rfl
  | .filler f :: t, h => by
    simp only [List.flatMap_cons, unpackBof, mapBounds, List.singleton_append]
    rw [flatMap_unpackBof_eq n t (fun b hb => h b (List.mem_cons_of_mem _ hb))]
  | .bound b :: t, h => by
    simp only [List.flatMap_cons, mapBounds]
    rw [unpackBof_eq_spec b n (h b (List.mem_cons_self ..)),
      flatMap_unpackBof_eq n t (fun b hb => h b (List.mem_cons_of_mem _ hb))]

theorem resolve_eraseLast (b : UserBounds) (n : Nat) :
    resolve { b with isLast := false } n = resolve b n := rfl

theorem expandBound_eraseLast (b : UserBounds) (n : Nat) :
    expandBound { b with isLast := false } n = expandBound b n := by
  unfold expandBound
  rw [resolve_eraseLast]

/-- the expansion does not look at `is_last` -/
theorem mapBounds_expand_eraseLast (n : Nat) : ∀ (l : List BoF),
    mapBounds (expandBound · n) (l.map eraseLast) = mapBounds (expandBound · n) l
  | [] => rfl
  | .filler f :: t => by
    simp only [List.map_cons, eraseLast, mapBounds, mapBounds_expand_eraseLast n t]
  | .bound b :: t => by
    simp only [List.map_cons, eraseLast, mapBounds, mapBounds_expand_eraseLast n t,
      expandBound_eraseLast]

theorem mapBounds_expand_congr {n : Nat} {l l' : List BoF} (h : l'.map eraseLast = l.map eraseLast) :
    mapBounds (expandBound · n) l' = mapBounds (expandBound · n) l := by
  rw [← mapBounds_expand_eraseLast n l', h, mapBounds_expand_eraseLast]

theorem expandBound_mem (b : UserBounds) (n : Nat) (c : UserBounds) (hc : c ∈ expandBound b n) :
    c = { b with isLast := false } ∨ ∃ k : Nat, 1 ≤ k ∧ c = UserBounds.single (k : Int) := by
  unfold expandBound at hc
  cases hres : resolve b n with
  | none =>
    simp only [hres, List.mem_singleton] at hc
    exact Or.inl hc
  | some p =>
    obtain ⟨lo, hi⟩ := p
    simp only [hres, List.mem_map, List.mem_range] at hc
    obtain ⟨i, _, rfl⟩ := hc
    obtain ⟨_, h1⟩ := resolve_some hres
    exact Or.inr ⟨lo + i, by omega, rfl⟩

theorem expandBound_nonzero (b : UserBounds) (n : Nat) (hz : b.Nonzero) :
    ∀ c ∈ expandBound b n, c.Nonzero := by
  intro c hc
  rcases expandBound_mem b n c hc with rfl | ⟨k, hk, rfl⟩
  · exact hz
  · constructor <;> (simp only [UserBounds.single, Side.Nonzero]; omega)

theorem expandBound_noneMarked (b : UserBounds) (n : Nat) :
    ∀ c ∈ expandBound b n, c.isLast = false := by
  intro c hc
  rcases expandBound_mem b n c hc with rfl | ⟨k, hk, rfl⟩
  · rfl
  · rfl

theorem mapBounds_expand_nonzero (n : Nat) : ∀ (l : List BoF), AllNonzero l →
    AllNonzero (mapBounds (expandBound · n) l)
  | [], _ => by intro b hb; simp [mapBounds] at hb
  | .filler f :: t, h => by
    intro b hb
    simp only [mapBounds, List.mem_cons, reduceCtorEq, false_or] at hb
    exact mapBounds_expand_nonzero n t (fun b hb => h b (List.mem_cons_of_mem _ hb)) b hb
  | .bound b0 :: t, h => by
    intro b hb
    simp only [mapBounds, List.mem_append, List.mem_map, BoF.bound.injEq] at hb
    rcases hb with ⟨c, hc, rfl⟩ | hb
    · exact expandBound_nonzero b0 n (h b0 (List.mem_cons_self ..)) c hc
    · exact mapBounds_expand_nonzero n t (fun b hb => h b (List.mem_cons_of_mem _ hb)) b hb

theorem mapBounds_expand_noneMarked (n : Nat) : ∀ (l : List BoF),
    NoneMarked (mapBounds (expandBound · n) l)
  | [] => by intro b hb; simp [mapBounds] at hb
  | .filler f :: t => by
    intro b hb
    simp only [mapBounds, List.mem_cons, reduceCtorEq, false_or] at hb
    exact mapBounds_expand_noneMarked n t b hb
  | .bound b0 :: t => by
    intro b hb
    simp only [mapBounds, List.mem_append, List.mem_map, BoF.bound.injEq] at hb
    rcases hb with ⟨c, hc, rfl⟩ | hb
    · exact expandBound_noneMarked b0 n c hc
    · exact mapBounds_expand_noneMarked n t b hb

theorem countBounds_append (a b : List BoF) : countBounds (a ++ b) = countBounds a + countBounds b := by
  induction a with
  | nil => simp [countBounds]
  | cons x t ih =>
    cases x with
    | filler f => simpa [countBounds] using ih
    | bound c => simp only [List.cons_append, countBounds, ih]; omega

theorem countBounds_map_bound (l : List UserBounds) : countBounds (l.map .bound) = l.length := by
  induction l with
  | nil => rfl
  | cons x t ih => simp [countBounds, ih]

theorem expandBound_length_pos (b : UserBounds) (n : Nat) : 1 ≤ (expandBound b n).length := by
  unfold expandBound
  cases resolve b n with
  | none => simp
  | some p => simp

/-- every bound expands to at least one bound -/
theorem countBounds_le_expand (n : Nat) : ∀ (l : List BoF),
    countBounds l ≤ countBounds (mapBounds (expandBound · n) l)
  | [] => Nat.le_refl _
  | .filler f :: t => by simpa [mapBounds, countBounds] using countBounds_le_expand n t
  | .bound b :: t => by
    have := countBounds_le_expand n t
    have h1 := expandBound_length_pos b n
    simp only [mapBounds, countBounds, countBounds_append, countBounds_map_bound]
    omega

/-! ## A. where the engine does not expand -/

theorem resolveSide_some_dflt (v : Int) (n d d' : Nat) :
    resolveSide (.some v) n d = resolveSide (.some v) n d' := rfl

/-- a single index that can be resolved resolves to one part -/
theorem resolve_of_single {b : UserBounds} {n lo hi : Nat} (hlr : b.l = b.r) (hnc : b.l ≠ .cont)
    (h : resolve b n = some (lo, hi)) : lo = hi ∧ 1 ≤ lo ∧ lo ≤ n := by
  cases hl : b.l with
  | cont => exact absurd hl hnc
  | some v =>
    have hr : b.r = .some v := by rw [← hlr, hl]
    unfold resolve at h
    rw [hl, hr, resolveSide_some_dflt v n n 1] at h
    cases hs : resolveSide (.some v) n 1 with
    | none => simp [hs] at h
    | some k =>
      have hb := resolveSide_bounds (.some v) n 1 k (Or.inr (by simp)) hs
      simp only [hs] at h
      split at h
      · simp only [Option.some.injEq, Prod.mk.injEq] at h
        omega
      · cases h

theorem resolve_single (k n : Nat) (h1 : 1 ≤ k) (h2 : k ≤ n) :
    resolve (UserBounds.single (k : Int)) n = some (k, k) := by
  have hs : ∀ d, resolveSide (.some (k : Int)) n d = some k := by
    intro d
    simp only [resolveSide]
    have hno : ¬ ((k : Int) = 0 ∨ (k : Int) > (n : Int) ∨ (k : Int) < -(n : Int)) := by omega
    have hp : (k : Int) > 0 := by omega
    rw [if_neg hno, if_pos hp]
    simp
  unfold resolve
  simp only [UserBounds.single, hs]
  rw [if_pos ⟨Nat.le_refl _, h1⟩]

/-- what the specification prints for one bound: its piece, else its own fallback, else the
    generic one -/
def boundTextS (cfg : Cfg) (t : Tok) (sep : Nat → Bytes) (b : UserBounds) : Option Bytes :=
  match resolve b t.numFields with
  | some (lo, hi) => some (pieceText sep t lo hi)
  | none =>
    match b.fallback with
    | some f => some f
    | none => cfg.fallback

/-- `--json`: the text as a JSON string, if it is UTF-8 -/
def renderS (cfg : Cfg) (x : Bytes) : Option Bytes :=
  if cfg.json then (if validUtf8 x then some (jsonString x) else none) else some x

/-- one bound of `emit` -/
theorem emit_bound (cfg : Cfg) (t : Tok) (sep : Nat → Bytes) (j : Bytes) (b : UserBounds)
    (rest : List BoF) :
    emit cfg t sep j (.bound b :: rest) =
      match (boundTextS cfg t sep b).bind (renderS cfg) with
      | none => Run.fail
      | some x' =>
        Run.pre (x' ++ (if cfg.join && countBounds rest > 0 then j else []))
          (emit cfg t sep j rest) := by
  simp only [emit, boundTextS]
  cases resolve b t.numFields with
  | some p => rfl
  | none =>
    cases b.fallback with
    | some f => rfl
    | none =>
      cases cfg.fallback with
      | some f => rfl
      | none => rfl

/-- a single index prints what its expansion prints -/
theorem boundTextS_expand_single (cfg : Cfg) (t : Tok) (sep : Nat → Bytes) (b : UserBounds)
    (hlr : b.l = b.r) (hnc : b.l ≠ .cont) :
    ∃ c, expandBound b t.numFields = [c] ∧ boundTextS cfg t sep c = boundTextS cfg t sep b := by
  unfold expandBound
  cases hres : resolve b t.numFields with
  | none =>
    refine ⟨_, rfl, ?_⟩
    unfold boundTextS
    rw [resolve_eraseLast]
  | some p =>
    obtain ⟨lo, hi⟩ := p
    obtain ⟨rfl, h1, h2⟩ := resolve_of_single hlr hnc hres
    refine ⟨UserBounds.single (lo : Int), by simp, ?_⟩
    unfold boundTextS
    rw [resolve_single lo _ h1 h2, hres]

theorem needsUnpack_false {b : UserBounds} (h : needsUnpack (.bound b) = false) :
    b.l = b.r ∧ b.l ≠ .cont := by
  simp only [needsUnpack, Bool.or_eq_false_iff, decide_eq_false_iff_not, Decidable.not_not] at h
  exact h

/-- where no bound is a range each bound expands to one bound -/
theorem countBounds_expand_of_no_unpack (n : Nat) : ∀ (l : List BoF), l.any needsUnpack = false →
    countBounds (mapBounds (expandBound · n) l) = countBounds l
  | [], _ => rfl
  | .filler f :: t, h => by
    simp only [List.any_cons, Bool.or_eq_false_iff] at h
    simpa [mapBounds, countBounds] using countBounds_expand_of_no_unpack n t h.2
  | .bound b :: t, h => by
    simp only [List.any_cons, Bool.or_eq_false_iff] at h
    obtain ⟨hlr, hnc⟩ := needsUnpack_false h.1
    have ih := countBounds_expand_of_no_unpack n t h.2
    have hlen : (expandBound b n).length = 1 := by
      unfold expandBound
      cases hres : resolve b n with
      | none => rfl
      | some p =>
        obtain ⟨lo, hi⟩ := p
        obtain ⟨rfl, _, _⟩ := resolve_of_single hlr hnc hres
        simp
    simp only [mapBounds, countBounds, countBounds_append, countBounds_map_bound, hlen, ih]
    omega

/-- **where the engine skips the expansion** (no bound is a range: every bound is one written
    index) **the specification's unconditional expansion prints the same**: a resolvable index
    expands to itself (in its positive form), an unresolvable one is kept. -/
theorem emit_expand_of_no_unpack (cfg : Cfg) (t : Tok) (sep : Nat → Bytes) (j : Bytes) :
    ∀ (l : List BoF), l.any needsUnpack = false →
      emit cfg t sep j (mapBounds (expandBound · t.numFields) l) = emit cfg t sep j l
  | [], _ => rfl
  | .filler f :: rest, h => by
    simp only [List.any_cons, Bool.or_eq_false_iff] at h
    simp only [mapBounds, emit, emit_expand_of_no_unpack cfg t sep j rest h.2]
  | .bound b :: rest, h => by
    simp only [List.any_cons, Bool.or_eq_false_iff] at h
    obtain ⟨hlr, hnc⟩ := needsUnpack_false h.1
    obtain ⟨c, hc, htext⟩ := boundTextS_expand_single cfg t sep b hlr hnc
    have ih := emit_expand_of_no_unpack cfg t sep j rest h.2
    have hcount := countBounds_expand_of_no_unpack t.numFields rest h.2
    simp only [mapBounds, hc, List.map_cons, List.map_nil, List.singleton_append]
    rw [emit_bound, emit_bound, htext, ih, hcount]

end Tuc
