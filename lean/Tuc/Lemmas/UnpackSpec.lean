import Tuc.Lemmas.CutStrSpec
/-!
# Tuc.Lemmas.UnpackSpec — range expansion (`--json`, `-c`) against the specification

`UserBounds::unpack` is the specification's `expandBound`; the list-level `unpack` is
`mapBounds (expandBound · n)` (up to the `is_last` flags, which `fromVec` re-marks); where the
engine skips the expansion (no bound is a range) the specification's unconditional expansion
changes nothing that `emit` can see.  Then the output stage of `cut_str` (`emitRecord`) with
`--json` and/or range expansion, against the tail of `specRecord`, for any way the field vector
relates to the tokens (`RefinesText`): the literal-delimiter field engine and the character engine
are the two instances (`Tuc.Props.C08Spec`, `Tuc.Props.C07Spec`).
-/

namespace Tuc
open Tuc.Spec

/-! ## A. one bound -/

/-- **`UserBounds::unpack` is the specification's `expandBound`**: the same list of bounds — same
    sides, same fallbacks, `is_last` clear. -/
theorem unpack_eq_expand (b : UserBounds) (n : Nat) (hz : b.Nonzero) :
    b.unpack n = expandBound b n := by
  have hr := tryIntoRange_eq_resolve b n hz
  unfold UserBounds.unpack expandBound
  cases hres : resolve b n with
  | none =>
    rw [hres] at hr
    simp only [Option.map_none] at hr
    rw [hr]
  | some p =>
    obtain ⟨lo, hi⟩ := p
    rw [hres] at hr
    simp only [Option.map_some] at hr
    rw [hr]
    obtain ⟨h1, h2⟩ := resolve_some hres
    simp only []
    have e : hi - (lo - 1) = hi - lo + 1 := by omega
    rw [e]
    apply List.map_congr_left
    intro i _
    have : lo - 1 + i + 1 = lo + i := by omega
    rw [this]

theorem unpackBof_eq_spec (b : UserBounds) (n : Nat) (hz : b.Nonzero) :
    unpackBof n (.bound b) = (expandBound b n).map .bound := by
  simp only [unpackBof, unpack_eq_expand b n hz]

/-- **the list-level `unpack` is `mapBounds expandBound`** (before `fromVec` marks the last
    bound) -/
theorem flatMap_unpackBof_eq (n : Nat) : ∀ (l : List BoF), AllNonzero l →
    l.flatMap (unpackBof n) = mapBounds (expandBound · n) l
  | [], _ => rfl
  | .filler f :: t, h => by
    simp only [List.flatMap_cons, unpackBof, mapBounds, List.singleton_append]
    rw [flatMap_unpackBof_eq n t (fun b hb => h b (List.mem_cons_of_mem _ hb))]
  | .bound b :: t, h => by
    simp only [List.flatMap_cons, mapBounds]
    rw [unpackBof_eq_spec b n (h b (List.mem_cons_self ..)),
      flatMap_unpackBof_eq n t (fun b hb => h b (List.mem_cons_of_mem _ hb))]

theorem resolve_eraseLast (b : UserBounds) (n : Nat) :
    resolve { b with isLast := false } n = resolve b n := rfl

theorem expandBound_eraseLast (b : UserBounds) (n : Nat) :
    expandBound { b with isLast := false } n = expandBound b n := by
  unfold expandBound
  rw [resolve_eraseLast]

/-- the expansion does not look at `is_last` -/
theorem mapBounds_expand_eraseLast (n : Nat) : ∀ (l : List BoF),
    mapBounds (expandBound · n) (l.map eraseLast) = mapBounds (expandBound · n) l
  | [] => rfl
  | .filler f :: t => by
    simp only [List.map_cons, eraseLast, mapBounds, mapBounds_expand_eraseLast n t]
  | .bound b :: t => by
    simp only [List.map_cons, eraseLast, mapBounds, mapBounds_expand_eraseLast n t,
      expandBound_eraseLast]

theorem mapBounds_expand_congr {n : Nat} {l l' : List BoF} (h : l'.map eraseLast = l.map eraseLast) :
    mapBounds (expandBound · n) l' = mapBounds (expandBound · n) l := by
  rw [← mapBounds_expand_eraseLast n l', h, mapBounds_expand_eraseLast]

theorem expandBound_mem (b : UserBounds) (n : Nat) (c : UserBounds) (hc : c ∈ expandBound b n) :
    c = { b with isLast := false } ∨ ∃ k : Nat, 1 ≤ k ∧ c = UserBounds.single (k : Int) := by
  unfold expandBound at hc
  cases hres : resolve b n with
  | none =>
    simp only [hres, List.mem_singleton] at hc
    exact Or.inl hc
  | some p =>
    obtain ⟨lo, hi⟩ := p
    simp only [hres, List.mem_map, List.mem_range] at hc
    obtain ⟨i, _, rfl⟩ := hc
    obtain ⟨_, h1⟩ := resolve_some hres
    exact Or.inr ⟨lo + i, by omega, rfl⟩

theorem expandBound_nonzero (b : UserBounds) (n : Nat) (hz : b.Nonzero) :
    ∀ c ∈ expandBound b n, c.Nonzero := by
  intro c hc
  rcases expandBound_mem b n c hc with rfl | ⟨k, hk, rfl⟩
  · exact hz
  · constructor <;> (simp only [UserBounds.single, Side.Nonzero]; omega)

theorem expandBound_noneMarked (b : UserBounds) (n : Nat) :
    ∀ c ∈ expandBound b n, c.isLast = false := by
  intro c hc
  rcases expandBound_mem b n c hc with rfl | ⟨k, hk, rfl⟩
  · rfl
  · rfl

theorem mapBounds_expand_nonzero (n : Nat) : ∀ (l : List BoF), AllNonzero l →
    AllNonzero (mapBounds (expandBound · n) l)
  | [], _ => by intro b hb; simp [mapBounds] at hb
  | .filler f :: t, h => by
    intro b hb
    simp only [mapBounds, List.mem_cons, reduceCtorEq, false_or] at hb
    exact mapBounds_expand_nonzero n t (fun b hb => h b (List.mem_cons_of_mem _ hb)) b hb
  | .bound b0 :: t, h => by
    intro b hb
    simp only [mapBounds, List.mem_append, List.mem_map, BoF.bound.injEq] at hb
    rcases hb with ⟨c, hc, rfl⟩ | hb
    · exact expandBound_nonzero b0 n (h b0 (List.mem_cons_self ..)) c hc
    · exact mapBounds_expand_nonzero n t (fun b hb => h b (List.mem_cons_of_mem _ hb)) b hb

theorem mapBounds_expand_noneMarked (n : Nat) : ∀ (l : List BoF),
    NoneMarked (mapBounds (expandBound · n) l)
  | [] => by intro b hb; simp [mapBounds] at hb
  | .filler f :: t => by
    intro b hb
    simp only [mapBounds, List.mem_cons, reduceCtorEq, false_or] at hb
    exact mapBounds_expand_noneMarked n t b hb
  | .bound b0 :: t => by
    intro b hb
    simp only [mapBounds, List.mem_append, List.mem_map, BoF.bound.injEq] at hb
    rcases hb with ⟨c, hc, rfl⟩ | hb
    · exact expandBound_noneMarked b0 n c hc
    · exact mapBounds_expand_noneMarked n t b hb

theorem countBounds_append (a b : List BoF) : countBounds (a ++ b) = countBounds a + countBounds b := by
  induction a with
  | nil => simp [countBounds]
  | cons x t ih =>
    cases x with
    | filler f => simpa [countBounds] using ih
    | bound c => simp only [List.cons_append, countBounds, ih]; omega

theorem countBounds_map_bound_u (l : List UserBounds) : countBounds (l.map .bound) = l.length := by
  induction l with
  | nil => rfl
  | cons x t ih => simp [countBounds, ih]

theorem expandBound_length_pos (b : UserBounds) (n : Nat) : 1 ≤ (expandBound b n).length := by
  unfold expandBound
  cases resolve b n with
  | none => simp
  | some p => simp

/-- every bound expands to at least one bound -/
theorem countBounds_le_expand (n : Nat) : ∀ (l : List BoF),
    countBounds l ≤ countBounds (mapBounds (expandBound · n) l)
  | [] => Nat.le_refl _
  | .filler f :: t => by simpa [mapBounds, countBounds] using countBounds_le_expand n t
  | .bound b :: t => by
    have := countBounds_le_expand n t
    have h1 := expandBound_length_pos b n
    simp only [mapBounds, countBounds, countBounds_append, countBounds_map_bound_u]
    omega

/-! ## A. where the engine does not expand -/

theorem resolveSide_some_dflt (v : Int) (n d d' : Nat) :
    resolveSide (.some v) n d = resolveSide (.some v) n d' := rfl

/-- a single index that can be resolved resolves to one part -/
theorem resolve_of_single {b : UserBounds} {n lo hi : Nat} (hlr : b.l = b.r) (hnc : b.l ≠ .cont)
    (h : resolve b n = some (lo, hi)) : lo = hi ∧ 1 ≤ lo ∧ lo ≤ n := by
  cases hl : b.l with
  | cont => exact absurd hl hnc
  | some v =>
    have hr : b.r = .some v := by rw [← hlr, hl]
    unfold resolve at h
    rw [hl, hr, resolveSide_some_dflt v n n 1] at h
    cases hs : resolveSide (.some v) n 1 with
    | none => simp [hs] at h
    | some k =>
      have hb := resolveSide_bounds (.some v) n 1 k (Or.inr (by simp)) hs
      simp only [hs] at h
      split at h
      · simp only [Option.some.injEq, Prod.mk.injEq] at h
        omega
      · cases h

theorem resolve_single (k n : Nat) (h1 : 1 ≤ k) (h2 : k ≤ n) :
    resolve (UserBounds.single (k : Int)) n = some (k, k) := by
  have hs : ∀ d, resolveSide (.some (k : Int)) n d = some k := by
    intro d
    simp only [resolveSide]
    have hno : ¬ ((k : Int) = 0 ∨ (k : Int) > (n : Int) ∨ (k : Int) < -(n : Int)) := by omega
    have hp : (k : Int) > 0 := by omega
    rw [if_neg hno, if_pos hp]
    simp
  unfold resolve
  simp only [UserBounds.single, hs]
  rw [if_pos ⟨Nat.le_refl _, h1⟩]

/-- what the specification prints for one bound: its piece, else its own fallback, else the
    generic one -/
def boundTextS (cfg : Cfg) (t : Tok) (sep : Nat → Bytes) (b : UserBounds) : Option Bytes :=
  match resolve b t.numFields with
  | some (lo, hi) => some (pieceText sep t lo hi)
  | none =>
    match b.fallback with
    | some f => some f
    | none => cfg.fallback

/-- `--json`: the text as a JSON string, if it is UTF-8 -/
def renderS (cfg : Cfg) (x : Bytes) : Option Bytes :=
  if cfg.json then (if validUtf8 x then some (jsonString x) else none) else some x

/-- one bound of `emit` -/
theorem emit_bound (cfg : Cfg) (t : Tok) (sep : Nat → Bytes) (j : Bytes) (b : UserBounds)
    (rest : List BoF) :
    emit cfg t sep j (.bound b :: rest) =
      match (boundTextS cfg t sep b).bind (renderS cfg) with
      | none => Run.fail
      | some x' =>
        Run.pre (x' ++ (if cfg.join && countBounds rest > 0 then j else []))
          (emit cfg t sep j rest) := by
  simp only [emit, boundTextS]
  cases resolve b t.numFields with
  | some p => rfl
  | none =>
    cases b.fallback with
    | some f => rfl
    | none =>
      cases cfg.fallback with
      | some f => rfl
      | none => rfl

/-- a single index prints what its expansion prints -/
theorem boundTextS_expand_single (cfg : Cfg) (t : Tok) (sep : Nat → Bytes) (b : UserBounds)
    (hlr : b.l = b.r) (hnc : b.l ≠ .cont) :
    ∃ c, expandBound b t.numFields = [c] ∧ boundTextS cfg t sep c = boundTextS cfg t sep b := by
  unfold expandBound
  cases hres : resolve b t.numFields with
  | none =>
    refine ⟨_, rfl, ?_⟩
    unfold boundTextS
    rw [resolve_eraseLast]
  | some p =>
    obtain ⟨lo, hi⟩ := p
    obtain ⟨rfl, h1, h2⟩ := resolve_of_single hlr hnc hres
    refine ⟨UserBounds.single (lo : Int), by simp, ?_⟩
    unfold boundTextS
    rw [resolve_single lo _ h1 h2, hres]

theorem needsUnpack_false {b : UserBounds} (h : needsUnpack (.bound b) = false) :
    b.l = b.r ∧ b.l ≠ .cont := by
  simp only [needsUnpack, Bool.or_eq_false_iff, decide_eq_false_iff_not, Decidable.not_not] at h
  exact h

/-- where no bound is a range each bound expands to one bound -/
theorem countBounds_expand_of_no_unpack (n : Nat) : ∀ (l : List BoF), l.any needsUnpack = false →
    countBounds (mapBounds (expandBound · n) l) = countBounds l
  | [], _ => rfl
  | .filler f :: t, h => by
    simp only [List.any_cons, Bool.or_eq_false_iff] at h
    simpa [mapBounds, countBounds] using countBounds_expand_of_no_unpack n t h.2
  | .bound b :: t, h => by
    simp only [List.any_cons, Bool.or_eq_false_iff] at h
    obtain ⟨hlr, hnc⟩ := needsUnpack_false h.1
    have ih := countBounds_expand_of_no_unpack n t h.2
    have hlen : (expandBound b n).length = 1 := by
      unfold expandBound
      cases hres : resolve b n with
      | none => rfl
      | some p =>
        obtain ⟨lo, hi⟩ := p
        obtain ⟨rfl, _, _⟩ := resolve_of_single hlr hnc hres
        simp
    simp only [mapBounds, countBounds, countBounds_append, countBounds_map_bound_u, hlen, ih]
    omega

/-- **where the engine skips the expansion** (no bound is a range: every bound is one written
    index) **the specification's unconditional expansion prints the same**: a resolvable index
    expands to itself (in its positive form), an unresolvable one is kept. -/
theorem emit_expand_of_no_unpack (cfg : Cfg) (t : Tok) (sep : Nat → Bytes) (j : Bytes) :
    ∀ (l : List BoF), l.any needsUnpack = false →
      emit cfg t sep j (mapBounds (expandBound · t.numFields) l) = emit cfg t sep j l
  | [], _ => rfl
  | .filler f :: rest, h => by
    simp only [List.any_cons, Bool.or_eq_false_iff] at h
    simp only [mapBounds, emit, emit_expand_of_no_unpack cfg t sep j rest h.2]
  | .bound b :: rest, h => by
    simp only [List.any_cons, Bool.or_eq_false_iff] at h
    obtain ⟨hlr, hnc⟩ := needsUnpack_false h.1
    obtain ⟨c, hc, htext⟩ := boundTextS_expand_single cfg t sep b hlr hnc
    have ih := emit_expand_of_no_unpack cfg t sep j rest h.2
    have hcount := countBounds_expand_of_no_unpack t.numFields rest h.2
    simp only [mapBounds, hc, List.map_cons, List.map_nil, List.singleton_append]
    rw [emit_bound, emit_bound, htext, ih, hcount]

/-! ## B. the output loop, `--json` included -/

/-- what the output loop needs to know about the ranges `fields` into `line`, in terms of the
    tokens of the specification and its rendering `sep` of the separators: as many ranges as
    tokens, slices in range, and the printed text of a range of fields is the specification's
    piece -/
structure RefinesText (opt : Opt) (line : Bytes) (fields : List Range) (tok : Tok)
    (sep : Nat → Bytes) : Prop where
  len : fields.length = tok.numFields
  inb : ∀ (a b : Nat) (hab : a ≤ b) (hb : b < fields.length),
    (fields[a]'(by omega)).start ≤ fields[b].stop ∧ fields[b].stop ≤ line.length
  text : ∀ (a b : Nat) (hab : a ≤ b) (hb : b < fields.length),
    maybeReplaceDelimiter (slice line (fields[a]'(by omega)).start fields[b].stop) opt false =
      pieceText sep tok (a + 1) (b + 1)

theorem writeMaybeAsJson_eq (opt : Opt) (x : Bytes) :
    writeMaybeAsJson x opt.json =
      match renderS (cfgOf opt) x with
      | none => Run.fail
      | some x' => Run.ok x' := by
  unfold writeMaybeAsJson renderS
  have hj : (cfgOf opt).json = opt.json := rfl
  rw [hj]
  cases opt.json <;> cases validUtf8 x <;> rfl

theorem write_joiner_algebra (opt : Opt) (x J : Bytes) (isLast : Bool) (c : Nat) (R : Run)
    (h : isLast = true ↔ c = 0) :
    ((writeMaybeAsJson x opt.json).seq (if opt.join && !isLast then Run.ok J else Run.empty)).seq R =
      match renderS (cfgOf opt) x with
      | none => Run.fail
      | some x' => Run.pre (x' ++ (if opt.join && decide (c > 0) then J else [])) R := by
  rw [writeMaybeAsJson_eq]
  cases renderS (cfgOf opt) x with
  | none => simp [Run.seq, Run.fail]
  | some x' => exact joiner_algebra _ _ _ _ _ _ h

/-- one bound of the output loop, followed by the rest `R` of the run -/
theorem outputBof_bound_gen (opt : Opt) (line : Bytes) (fields : List Range) (tok : Tok)
    (sep : Nat → Bytes) (hR : RefinesText opt line fields tok sep)
    (b : UserBounds) (hz : b.Nonzero) (c : Nat) (hL : b.isLast = true ↔ c = 0) (R : Run) :
    (outputBof line fields fields.length opt false (.bound b)).seq R =
      match (boundTextS (cfgOf opt) tok sep b).bind (renderS (cfgOf opt)) with
      | none => Run.fail
      | some x' =>
        Run.pre (x' ++ (if opt.join && decide (c > 0) then opt.replaceDelimiter.getD opt.delimiter
          else [])) R := by
  unfold outputBof boundTextS
  simp only []
  rw [tryIntoRange_eq_resolve b fields.length hz, hR.len]
  cases hres : resolve b tok.numFields with
  | none =>
    simp only [Option.map_none]
    cases b.fallback with
    | some f => exact write_joiner_algebra _ _ _ _ _ _ hL
    | none =>
      have hf : (cfgOf opt).fallback = opt.fallbackOob := rfl
      rw [hf]
      cases opt.fallbackOob with
      | some f => exact write_joiner_algebra _ _ _ _ _ _ hL
      | none => simp [Run.seq, Run.fail]
  | some p =>
    obtain ⟨lo, hi⟩ := p
    have htr : b.tryIntoRange fields.length = some (lo - 1, hi) := by
      rw [tryIntoRange_eq_resolve b fields.length hz, hR.len, hres]; rfl
    have hzl : b.l ≠ .some 0 := by
      intro h0
      have := hz.1
      rw [h0] at this
      exact this rfl
    obtain ⟨h1, h2⟩ := tryIntoRange_bounds b _ _ _ hzl htr
    obtain ⟨h3, h4⟩ := resolve_some hres
    have hs : lo - 1 < fields.length := by omega
    have he : hi - 1 < fields.length := by omega
    have hin := hR.inb (lo - 1) (hi - 1) (by omega) he
    have htext := hR.text (lo - 1) (hi - 1) (by omega) he
    have e1 : lo - 1 + 1 = lo := by omega
    have e2 : hi - 1 + 1 = hi := by omega
    rw [e1, e2] at htext
    simp only [Option.map_some, List.getElem?_eq_getElem hs, List.getElem?_eq_getElem he]
    rw [if_pos hin, htext]
    exact write_joiner_algebra _ _ _ _ _ _ hL

/-- **the output loop is the specification's `emit`**, with or without `--json`, for any field
    vector that `RefinesText` the tokens -/
theorem outputLoop_eq_emit_gen (opt : Opt) (line : Bytes) (fields : List Range) (tok : Tok)
    (sep : Nat → Bytes) (hR : RefinesText opt line fields tok sep) :
    ∀ (bofs : List BoF), AllNonzero bofs → LastMarked bofs →
      outputLoop line fields fields.length opt false bofs =
        emit (cfgOf opt) tok sep (opt.replaceDelimiter.getD opt.delimiter) bofs
  | [], _, _ => rfl
  | .filler f :: t, hz, hL => by
    have ih := outputLoop_eq_emit_gen opt line fields tok sep hR t
      (fun b hb => hz b (List.mem_cons_of_mem _ hb)) hL
    simp only [outputLoop, outputBof, emit, Run.seq_ok, ih]
  | .bound b :: t, hz, hL => by
    have ih := outputLoop_eq_emit_gen opt line fields tok sep hR t
      (fun b hb => hz b (List.mem_cons_of_mem _ hb)) hL.2
    have hb := outputBof_bound_gen opt line fields tok sep hR b
      (hz b (List.mem_cons_self ..)) (countBounds t) hL.1
      (outputLoop line fields fields.length opt false t)
    simp only [outputLoop]
    rw [hb, ih, emit_bound]
    rfl

/-! ## C. the passes of `emitRecord` -/

/-- the unpack pass (cut_str.rs:369) -/
def stageUnpack (opt : Opt) (n : Nat) : Res UserBoundsList → Res UserBoundsList
  | .fail => .fail
  | .panic => .panic
  | .ok bounds =>
    if (opt.json || (opt.boundsType = .characters && opt.replaceDelimiter.isSome))
        && bounds.list.any needsUnpack
    then unpackList bounds.list n else .ok bounds

/-- the output loop, `]`, the end of line -/
def stageLoop (line : Bytes) (fields : List Range) (opt : Opt) (eol : Bytes) :
    Res UserBoundsList → Run
  | .fail => Run.fail
  | .panic => Run.panic
  | .ok bounds =>
    ((outputLoop line fields fields.length opt false bounds.list).seq
      (if opt.json then Run.ok [0x5D] else Run.empty)).seq (Run.ok eol)

theorem emitRecord_stages (line : Bytes) (fields : List Range) (opt : Opt) (eol : Bytes) :
    emitRecord line fields opt false eol =
      if opt.onlyDelimited && fields.length == 1 then Run.empty
      else
        (if opt.json then Run.ok [0x5B] else Run.empty).seq
          (stageLoop line fields opt eol (stageUnpack opt fields.length
            (if opt.complement then complementList opt.bounds.list fields.length
             else .ok opt.bounds))) := by
  unfold emitRecord
  simp only []
  by_cases hs : (opt.onlyDelimited && fields.length == 1) = true
  · rw [if_pos hs, if_pos hs]
  · rw [if_neg hs, if_neg hs]
    congr 1
    generalize (if opt.complement = true then complementList opt.bounds.list fields.length
      else Res.ok opt.bounds) = r
    cases r with
    | fail => rfl
    | panic => rfl
    | ok bounds =>
      simp only [stageUnpack]
      generalize (if ((opt.json || (decide (opt.boundsType = .characters) && opt.replaceDelimiter.isSome))
        && bounds.list.any needsUnpack) = true then unpackList bounds.list fields.length
        else Res.ok bounds) = r2
      cases r2 <;> rfl

theorem countBounds_pos_of_any_needsUnpack : ∀ (l : List BoF), l.any needsUnpack = true →
    0 < countBounds l
  | [], h => by simp at h
  | .filler f :: t, h => by
    simp only [List.any_cons, needsUnpack, Bool.false_or] at h
    simpa [countBounds] using countBounds_pos_of_any_needsUnpack t h
  | .bound b :: t, _ => by simp [countBounds]

/-- the `-m` pass against the specification's rewriting -/
theorem afterComplement_spec (opt : Opt) (n : Nat) (hz : AllNonzero opt.bounds.list)
    (hL : LastMarked opt.bounds.list) :
    ((opt.complement && countBounds (specBofs opt n) == 0) = true ∧
      (if opt.complement then complementList opt.bounds.list n else .ok opt.bounds) = .fail) ∨
    ((opt.complement && countBounds (specBofs opt n) == 0) = false ∧
      ∃ ubl, (if opt.complement then complementList opt.bounds.list n else .ok opt.bounds) = .ok ubl ∧
        ubl.list.map eraseLast = (specBofs opt n).map eraseLast ∧
        AllNonzero ubl.list ∧ LastMarked ubl.list) := by
  unfold specBofs
  cases hc : opt.complement with
  | false =>
    right
    refine ⟨rfl, opt.bounds, ?_, ?_, hz, hL⟩
    · simp
    · simp
  | true =>
    simp only [if_true, Bool.true_and]
    unfold complementList
    simp only []
    rw [flatMap_complementBof_eq _ _ hz, boundsOnly_isEmpty_iff]
    by_cases h0 : (countBounds (mapBounds (complementBound · n) opt.bounds.list) == 0) = true
    · left
      rw [if_pos h0]
      exact ⟨h0, rfl⟩
    · right
      rw [if_neg h0]
      refine ⟨by simpa using h0, ?_⟩
      unfold fromVec
      simp only []
      cases hm : markLast (mapBounds (complementBound · n) opt.bounds.list) with
      | none =>
        have := countBounds_eq_zero_of_markLast_none _ hm
        simp [this] at h0
      | some l' =>
        have he := markLast_eraseLast _ _ hm
        exact ⟨_, rfl, he, allNonzero_of_eraseLast_eq he (mapBounds_complement_nonzero _ _ hz),
          markLast_lastMarked _ _ (mapBounds_complement_noneMarked _ _) hm⟩

/-- **`UserBoundsList::unpack` never fails on a list with a bound**, and delivers the
    specification's expanded list with `is_last` set on exactly its last bound -/
theorem unpackList_spec (l : List BoF) (n : Nat) (hz : AllNonzero l) (hpos : 0 < countBounds l) :
    ∃ ubl, unpackList l n = .ok ubl ∧
      ubl.list.map eraseLast = (mapBounds (expandBound · n) l).map eraseLast ∧
      AllNonzero ubl.list ∧ LastMarked ubl.list := by
  unfold unpackList
  rw [flatMap_unpackBof_eq n _ hz]
  unfold fromVec
  simp only []
  cases hm : markLast (mapBounds (expandBound · n) l) with
  | none =>
    have h0 := countBounds_eq_zero_of_markLast_none _ hm
    have h1 := countBounds_le_expand n l
    omega
  | some l' =>
    have he := markLast_eraseLast _ _ hm
    exact ⟨_, rfl, he, allNonzero_of_eraseLast_eq he (mapBounds_expand_nonzero _ _ hz),
      markLast_lastMarked _ _ (mapBounds_expand_noneMarked _ _) hm⟩

/-- the unpack pass against the specification's unconditional expansion: it never fails, and what
    it delivers is — for `emit` — the expanded list -/
theorem stageUnpack_spec (opt : Opt) (n : Nat) (ubl : UserBoundsList)
    (hz : AllNonzero ubl.list) (hL : LastMarked ubl.list)
    (hunp : (opt.json || (opt.boundsType = .characters && opt.replaceDelimiter.isSome)) = true) :
    ∃ ubl', stageUnpack opt n (.ok ubl) = .ok ubl' ∧ AllNonzero ubl'.list ∧ LastMarked ubl'.list ∧
      ∀ (cfg : Cfg) (tok : Tok) (sep : Nat → Bytes) (j : Bytes), tok.numFields = n →
        emit cfg tok sep j ubl'.list = emit cfg tok sep j (mapBounds (expandBound · n) ubl.list) := by
  simp only [stageUnpack, hunp, Bool.true_and]
  by_cases hany : ubl.list.any needsUnpack = true
  · rw [if_pos hany]
    unfold unpackList
    rw [flatMap_unpackBof_eq n _ hz]
    unfold fromVec
    simp only []
    cases hm : markLast (mapBounds (expandBound · n) ubl.list) with
    | none =>
      have h0 := countBounds_eq_zero_of_markLast_none _ hm
      have h1 := countBounds_le_expand n ubl.list
      have h2 := countBounds_pos_of_any_needsUnpack _ hany
      omega
    | some l' =>
      have he := markLast_eraseLast _ _ hm
      refine ⟨_, rfl, allNonzero_of_eraseLast_eq he (mapBounds_expand_nonzero _ _ hz),
        markLast_lastMarked _ _ (mapBounds_expand_noneMarked _ _) hm, ?_⟩
      intro cfg tok sep j _
      show emit cfg tok sep j l' = _
      rw [← emit_eraseLast _ _ _ _ l', he, emit_eraseLast]
  · rw [if_neg hany]
    refine ⟨ubl, rfl, hz, hL, ?_⟩
    intro cfg tok sep j hn
    subst hn
    exact (emit_expand_of_no_unpack cfg tok sep j ubl.list (by simpa using hany)).symm

/-- **everything after the ranges are known is the tail of the specification**, when the engine
    expands ranges (`--json`, or character mode with its `-r ''`) -/
theorem emitRecord_eq_spec_expand (opt : Opt) (line : Bytes) (fields : List Range) (tok : Tok)
    (sep : Nat → Bytes) (hR : RefinesText opt line fields tok sep)
    (hunp : (opt.json || (opt.boundsType = .characters && opt.replaceDelimiter.isSome)) = true)
    (hz : AllNonzero opt.bounds.list) (hL : LastMarked opt.bounds.list) :
    emitRecord line fields opt false [opt.eol.byte] =
      if opt.onlyDelimited && tok.numFields == 1 then Run.empty
      else
        Run.pre (if opt.json then [0x5B] else [])
          (if opt.complement && countBounds (specBofs opt tok.numFields) == 0 then Run.fail
           else
            (emit (cfgOf opt) tok sep (opt.replaceDelimiter.getD opt.delimiter)
              (mapBounds (expandBound · tok.numFields) (specBofs opt tok.numFields))).seq
              (Run.ok ((if opt.json then [0x5D] else []) ++ [opt.eol.byte]))) := by
  rw [emitRecord_stages, ← hR.len]
  by_cases hs : (opt.onlyDelimited && fields.length == 1) = true
  · rw [if_pos hs, if_pos hs]
  · rw [if_neg hs, if_neg hs]
    have hopen : ∀ R : Run, (if opt.json then Run.ok [0x5B] else Run.empty).seq R =
        Run.pre (if opt.json then [0x5B] else []) R := by
      intro R; cases opt.json <;> simp [Run.seq_ok]
    rw [hopen]
    congr 1
    rcases afterComplement_spec opt fields.length hz hL with ⟨h0, hfail⟩ | ⟨h0, ubl, hok, he, hz1, hL1⟩
    · rw [if_pos h0, hfail]; rfl
    · rw [h0, hok]
      simp only [Bool.false_eq_true, if_false]
      obtain ⟨ubl', hu, hz2, hL2, hemit⟩ := stageUnpack_spec opt fields.length ubl hz1 hL1 hunp
      rw [hu]
      simp only [stageLoop]
      rw [outputLoop_eq_emit_gen opt line fields tok sep hR _ hz2 hL2,
        hemit _ _ _ _ hR.len.symm, mapBounds_expand_congr he, Run.seq_assoc]
      congr 1
      cases opt.json <;> simp [Run.seq, Run.ok, Run.empty]

/-! ## D. the passes of `specRecord` -/

/-- how the specification renders a separator of `k` occurrences -/
def specSep (cfg : Cfg) : Nat → Bytes := fun k =>
  if cfg.chars then []
  else match cfg.replace with
    | some r => repeatBytes r k
    | none => repeatBytes cfg.delimiter k

/-- the record after `-t` -/
def specLine (cfg : Cfg) (record : Bytes) : Bytes :=
  match cfg.trim with
  | some k => if cfg.chars then record else trimLiteral record k cfg.delimiter
  | none => record

def specTok (cfg : Cfg) (line : Bytes) : Option Tok :=
  if cfg.chars then tokenizeChars line
  else some (tokenize cfg.delimiter cfg.greedy cfg.compress line)

/-- the specification once the tokens are known -/
def specTail (cfg : Cfg) (tok : Tok) : Run :=
  let n := tok.numFields
  if cfg.onlyDelimited && n == 1 then Run.empty
  else
    let openB : Bytes := if cfg.json then [0x5B] else []
    let closeB : Bytes := if cfg.json then [0x5D] else []
    let bofs := if cfg.complement then mapBounds (complementBound · n) cfg.bofs else cfg.bofs
    if cfg.complement && countBounds bofs == 0 then ⟨openB, .fail⟩
    else
      let bofs := if cfg.json || cfg.chars then mapBounds (expandBound · n) bofs else bofs
      Run.pre openB ((emit cfg tok (specSep cfg) (cfg.replace.getD cfg.delimiter) bofs).seq
        (Run.ok (closeB ++ [cfg.eol])))

theorem specRecord_eq (cfg : Cfg) (record : Bytes) :
    specRecord cfg record =
      if (specLine cfg record).isEmpty then (if cfg.onlyDelimited then Run.empty else Run.ok [cfg.eol])
      else
        match specTok cfg (specLine cfg record) with
        | none => Run.fail
        | some tok => specTail cfg tok := rfl

theorem specRecord_of_empty (cfg : Cfg) (record : Bytes) (h : specLine cfg record = []) :
    specRecord cfg record = if cfg.onlyDelimited then Run.empty else Run.ok [cfg.eol] := by
  rw [specRecord_eq, h]; rfl

theorem specRecord_of_tok (cfg : Cfg) (record : Bytes) (tok : Tok) (hne : specLine cfg record ≠ [])
    (htok : specTok cfg (specLine cfg record) = some tok) :
    specRecord cfg record = specTail cfg tok := by
  rw [specRecord_eq, htok]
  have : (specLine cfg record).isEmpty = false := by
    cases h : specLine cfg record with
    | nil => exact absurd h hne
    | cons _ _ => rfl
  rw [this]
  rfl

/-- the tail of the specification when it expands ranges -/
theorem specTail_expand (opt : Opt) (tok : Tok)
    (hx : (opt.json || decide (opt.boundsType = .characters)) = true) :
    specTail (cfgOf opt) tok =
      if opt.onlyDelimited && tok.numFields == 1 then Run.empty
      else
        Run.pre (if opt.json then [0x5B] else [])
          (if opt.complement && countBounds (specBofs opt tok.numFields) == 0 then Run.fail
           else
            (emit (cfgOf opt) tok (specSep (cfgOf opt)) (opt.replaceDelimiter.getD opt.delimiter)
              (mapBounds (expandBound · tok.numFields) (specBofs opt tok.numFields))).seq
              (Run.ok ((if opt.json then [0x5D] else []) ++ [opt.eol.byte]))) := by
  have h1 : (cfgOf opt).onlyDelimited = opt.onlyDelimited := rfl
  have h2 : (cfgOf opt).json = opt.json := rfl
  have h3 : (cfgOf opt).complement = opt.complement := rfl
  have h4 : (cfgOf opt).bofs = opt.bounds.list := rfl
  have h5 : (cfgOf opt).chars = decide (opt.boundsType = .characters) := rfl
  have h6 : (cfgOf opt).replace = opt.replaceDelimiter := rfl
  have h7 : (cfgOf opt).delimiter = opt.delimiter := rfl
  have h8 : (cfgOf opt).eol = opt.eol.byte := rfl
  unfold specTail specBofs
  simp only []
  rw [h1, h2, h3, h4, h5, h6, h7, h8, hx]
  by_cases hs : (opt.onlyDelimited && tok.numFields == 1) = true
  · rw [if_pos hs, if_pos hs]
  · rw [if_neg hs, if_neg hs]
    by_cases h0 : (opt.complement && countBounds (if opt.complement = true then
        mapBounds (fun x => complementBound x tok.numFields) opt.bounds.list
        else opt.bounds.list) == 0) = true
    · rw [if_pos h0, if_pos h0]
      simp [Run.pre, Run.fail]
    · rw [if_neg h0, if_neg h0]
      rfl

/-! ## E. where the elements of the rewritten lists come from -/

theorem mapBounds_bound_mem {g : UserBounds → List UserBounds} : ∀ {l : List BoF} {c : UserBounds},
    BoF.bound c ∈ mapBounds g l → ∃ b, BoF.bound b ∈ l ∧ c ∈ g b
  | [], _, h => by simp [mapBounds] at h
  | .filler f :: t, c, h => by
    simp only [mapBounds, List.mem_cons, reduceCtorEq, false_or] at h
    obtain ⟨b, hb, hc⟩ := mapBounds_bound_mem h
    exact ⟨b, List.mem_cons_of_mem _ hb, hc⟩
  | .bound b0 :: t, c, h => by
    simp only [mapBounds, List.mem_append, List.mem_map, BoF.bound.injEq] at h
    rcases h with ⟨c', hc', rfl⟩ | h
    · exact ⟨b0, List.mem_cons_self .., hc'⟩
    · obtain ⟨b, hb, hc⟩ := mapBounds_bound_mem h
      exact ⟨b, List.mem_cons_of_mem _ hb, hc⟩

theorem mapBounds_filler_mem {g : UserBounds → List UserBounds} : ∀ {l : List BoF} {f : Bytes},
    BoF.filler f ∈ mapBounds g l → BoF.filler f ∈ l
  | [], _, h => by simp [mapBounds] at h
  | .filler f0 :: t, f, h => by
    simp only [mapBounds, List.mem_cons] at h
    rcases h with h | h
    · rw [h]; exact List.mem_cons_self ..
    · exact List.mem_cons_of_mem _ (mapBounds_filler_mem h)
  | .bound b0 :: t, f, h => by
    simp only [mapBounds, List.mem_append, List.mem_map, reduceCtorEq, and_false, exists_false,
      false_or] at h
    exact List.mem_cons_of_mem _ (mapBounds_filler_mem h)

/-- a bound made by `-m` is the (unresolvable) bound itself or has no fallback -/
theorem complementBound_mem (b : UserBounds) (n : Nat) (c : UserBounds)
    (hc : c ∈ complementBound b n) : c = { b with isLast := false } ∨ c.fallback = none := by
  unfold complementBound at hc
  cases hres : resolve b n with
  | none =>
    simp only [hres, List.mem_singleton] at hc
    exact Or.inl hc
  | some p =>
    obtain ⟨lo, hi⟩ := p
    simp only [hres, List.mem_append] at hc
    right
    rcases hc with hc | hc
    · split at hc
      · simp only [List.mem_singleton] at hc; subst hc; rfl
      · simp at hc
    · split at hc
      · simp only [List.mem_singleton] at hc; subst hc; rfl
      · simp at hc

/-- a fallback met in the list `emit` works on is a fallback the user wrote -/
theorem fallback_of_rewritten (opt : Opt) (n : Nat) (c : UserBounds) (f : Bytes)
    (hc : BoF.bound c ∈ mapBounds (expandBound · n) (specBofs opt n)) (hf : c.fallback = some f) :
    ∃ b, BoF.bound b ∈ opt.bounds.list ∧ b.fallback = some f := by
  obtain ⟨b1, hb1, hc1⟩ := mapBounds_bound_mem hc
  have h1 : b1.fallback = some f := by
    rcases expandBound_mem b1 n c hc1 with rfl | ⟨k, _, rfl⟩
    · exact hf
    · cases hf
  unfold specBofs at hb1
  by_cases hm : opt.complement = true
  · rw [if_pos hm] at hb1
    obtain ⟨b0, hb0, hc0⟩ := mapBounds_bound_mem hb1
    rcases complementBound_mem b0 n b1 hc0 with rfl | hnone
    · exact ⟨b0, hb0, h1⟩
    · rw [hnone] at h1; cases h1
  · rw [if_neg hm] at hb1
    exact ⟨b1, hb1, h1⟩

theorem filler_of_rewritten (opt : Opt) (n : Nat) (f : Bytes)
    (hf : BoF.filler f ∈ mapBounds (expandBound · n) (specBofs opt n)) :
    BoF.filler f ∈ opt.bounds.list := by
  have h1 := mapBounds_filler_mem hf
  unfold specBofs at h1
  by_cases hm : opt.complement = true
  · rw [if_pos hm] at h1
    exact mapBounds_filler_mem h1
  · rw [if_neg hm] at h1
    exact h1

end Tuc
