import Tuc.Props.C04
import Tuc.Lemmas.Split
/-!
# Tuc.Lemmas.StreamSpec — the `-M` machine, one field at a time

By `cutBytesStream_canonical` (C04) the run of the chunk machine is the run over the untagged
bytes, where nothing is flushed in the middle of a field.  This file abstracts that run from bytes
to fields: on a record whose fields (split at the one-byte delimiter) are `f₁ … fₙ` the machine
does `fieldsRun`, i.e. one completing `print_bof` per field, the early stop after the field
`last_interesting_field`, and `endOfRecord` on the last field; and the whole input is processed
record by record (`streamRun_records`).
-/
namespace Tuc
open Tuc.Spec

/-- what the machine does on the fields of one (non-empty) record, from `bof_idx = i` and
    `curr_field = k` -/
def fieldsRun (o : StreamOpt) : Nat → Int → List Bytes → Run
  | _, _, [] => Run.empty
  | i, k, [f] => endOfRecord o ⟨i, k, false, f, false, true⟩
  | i, k, f :: g :: t =>
    match printBof o i k false f true with
    | none => Run.panic
    | some (w, i') =>
      if Side.some k = o.lastInterestingField then
        (Run.ok w).seq ((printFillerOrFallbacks o k (o.bounds.drop i')).seq (Run.ok [o.eol.byte]))
      else (Run.ok w).seq (fieldsRun o i' (k + 1) (g :: t))

/-- the specification's splitter for a one-byte delimiter: no skip counter -/
theorem splitAux_single_cons (d c : UInt8) (cur t : Bytes) :
    splitAux [d] 0 cur (c :: t) =
      if c = d then cur :: splitAux [d] 0 [] t else splitAux [d] 0 (cur ++ [c]) t := by
  by_cases h : c = d
  · subst h; simp [splitAux, List.isPrefixOf]
  · have : (d == c) = false := by simpa using fun h' => h h'.symm
    simp [splitAux, List.isPrefixOf, h, this]

def untagged (l : Bytes) : List (UInt8 × Bool) := l.map fun c => (c, false)

@[simp] theorem untagged_nil : untagged [] = [] := rfl
@[simp] theorem untagged_cons (c : UInt8) (l : Bytes) : untagged (c :: l) = (c, false) :: untagged l := rfl
theorem untagged_append (l l' : Bytes) : untagged (l ++ l') = untagged l ++ untagged l' := by
  simp [untagged]

private theorem run_cons (o : StreamOpt) (st : SState) (c : UInt8) (t : Bool)
    (l : List (UInt8 × Bool)) :
    streamRun o st ((c, t) :: l) =
      (streamStep o st c t).1.seq (streamRun o (streamStep o st c t).2 l) := rfl

/-! ## skip mode -/

theorem streamRun_skip_eol (o : StreamOpt) (l : Bytes) (t : Bool) (rest : List (UInt8 × Bool)) :
    ∀ st : SState, st.skip = true → (∀ c ∈ l, c ≠ o.eol.byte) →
    streamRun o st (untagged l ++ (o.eol.byte, t) :: rest) =
      (Run.ok [o.eol.byte]).seq (streamRun o {} rest) := by
  induction l with
  | nil =>
    intro st hs _
    rw [untagged_nil, List.nil_append, run_cons, streamStep_skip _ _ _ _ hs]
    simp
  | cons c l ih =>
    intro st hs hl
    have hc : c ≠ o.eol.byte := hl c (by simp)
    rw [untagged_cons, List.cons_append, run_cons, streamStep_skip _ _ _ _ hs, if_neg hc]
    simp only [Run.empty_seq]
    exact ih _ hs (fun x hx => hl x (by simp [hx]))

theorem streamRun_skip_eof (o : StreamOpt) (l : Bytes) :
    ∀ st : SState, st.skip = true → (st.started = true ∨ l ≠ []) → (∀ c ∈ l, c ≠ o.eol.byte) →
    streamRun o st (untagged l) = Run.ok [o.eol.byte] := by
  induction l with
  | nil =>
    intro st hs hst _
    have : st.started = true := by simpa using hst
    simp [streamRun, streamEof, hs, this]
  | cons c l ih =>
    intro st hs _ hl
    have hc : c ≠ o.eol.byte := hl c (by simp)
    rw [untagged_cons, run_cons, streamStep_skip _ _ _ _ hs, if_neg hc]
    simp only [Run.empty_seq]
    exact ih _ hs (Or.inl rfl) (fun x hx => hl x (by simp [hx]))

/-! ## one record -/

theorem endOfRecord_started (o : StreamOpt) (i : Nat) (k : Int) (tr : Bool) (p : Bytes)
    (sk sd sk' sd' : Bool) :
    endOfRecord o ⟨i, k, tr, p, sk, sd⟩ = endOfRecord o ⟨i, k, tr, p, sk', sd'⟩ := rfl

/-- a record ended by an EOL -/
theorem streamRun_record_eol (o : StreamOpt) (l : Bytes) (t : Bool) (rest : List (UInt8 × Bool)) :
    ∀ (i : Nat) (k : Int) (cur : Bytes) (sd : Bool), 1 ≤ k → (∀ c ∈ l, c ≠ o.eol.byte) →
    ¬ (k = 1 ∧ cur = [] ∧ l = []) →
    streamRun o ⟨i, k, false, cur, false, sd⟩ (untagged l ++ (o.eol.byte, t) :: rest) =
      (fieldsRun o i k (splitAux [o.delimiter] 0 cur l)).seq (streamRun o {} rest) := by
  induction l with
  | nil =>
    intro i k cur sd _ _ hne
    rw [untagged_nil, List.nil_append, run_cons, streamStep_eol _ _ _ _ rfl rfl]
    have : ¬ (k = 1 ∧ (!false) = true ∧ cur.isEmpty = true) := by
      intro ⟨h1, _, h3⟩
      exact hne ⟨h1, by simpa using h3, rfl⟩
    simp only [if_neg this, splitAux, fieldsRun]
    rfl
  | cons c l ih =>
    intro i k cur sd hk hl hne
    have hc : c ≠ o.eol.byte := hl c (by simp)
    have hl' : ∀ x ∈ l, x ≠ o.eol.byte := fun x hx => hl x (by simp [hx])
    rw [untagged_cons, List.cons_append, run_cons, splitAux_single_cons]
    by_cases hd : c = o.delimiter
    · rw [if_pos hd]
      cases hsp : splitAux [o.delimiter] 0 [] l with
      | nil => exact absurd hsp (splitAux_ne_nil _ _ _ _)
      | cons g gs =>
        simp only [fieldsRun]
        cases hp : printBof o i k false cur true with
        | none =>
          rw [streamStep_delim_none _ _ _ _ rfl hc hd hp]
          simp [Run.seq, Run.panic]
        | some x =>
          obtain ⟨w, i'⟩ := x
          rw [streamStep_delim_some _ _ _ _ rfl hc hd w i' hp]
          simp only
          by_cases hli : Side.some k = o.lastInterestingField
          · simp only [if_pos hli]
            rw [streamRun_skip_eol o l t rest _ rfl hl']
            simp only [Run.seq_assoc]
          · simp only [if_neg hli]
            rw [ih i' (k + 1) [] true (by omega) hl' (by omega), hsp, Run.seq_assoc]
    · rw [if_neg hd, streamStep_ord_false _ _ _ rfl hc hd]
      simp only [Run.empty_seq]
      exact ih i k (cur ++ [c]) true hk hl' (by simp)

/-- the last record, ended by EOF -/
theorem streamRun_record_eof (o : StreamOpt) (hwf : NoAdjFillers o.bounds) (l : Bytes) :
    ∀ (i : Nat) (k : Int) (cur : Bytes) (sd : Bool), (∀ c ∈ l, c ≠ o.eol.byte) →
    (sd = true ∨ l ≠ []) →
    streamRun o ⟨i, k, false, cur, false, sd⟩ (untagged l) =
      fieldsRun o i k (splitAux [o.delimiter] 0 cur l) := by
  induction l with
  | nil =>
    intro i k cur sd _ hsd
    have hsd' : sd = true := by simpa using hsd
    subst hsd'
    simp only [untagged_nil, streamRun, streamEof, splitAux, fieldsRun, Bool.not_true,
      Bool.false_eq_true, if_false]
    cases cur with
    | nil => simp
    | cons x xs =>
      simp only [List.isEmpty_cons, Bool.false_eq_true, if_false]
      cases hp : printBof o i k false (x :: xs) false with
      | none =>
        have := printBof_none_indep o i k false false (x :: xs) (x :: xs) false true hp
        simp [endOfRecord, this]
      | some y =>
        obtain ⟨w, i₁⟩ := y
        have := endOfRecord_flushed o hwf i k false (x :: xs) [] w i₁ false true hp
        rw [List.append_nil] at this
        simp only [this, Run.seq_ok]
  | cons c l ih =>
    intro i k cur sd hl _
    have hc : c ≠ o.eol.byte := hl c (by simp)
    have hl' : ∀ x ∈ l, x ≠ o.eol.byte := fun x hx => hl x (by simp [hx])
    rw [untagged_cons, run_cons, splitAux_single_cons]
    by_cases hd : c = o.delimiter
    · rw [if_pos hd]
      cases hsp : splitAux [o.delimiter] 0 [] l with
      | nil => exact absurd hsp (splitAux_ne_nil _ _ _ _)
      | cons g gs =>
        simp only [fieldsRun]
        cases hp : printBof o i k false cur true with
        | none =>
          rw [streamStep_delim_none _ _ _ _ rfl hc hd hp]
          simp [Run.seq, Run.panic]
        | some x =>
          obtain ⟨w, i'⟩ := x
          rw [streamStep_delim_some _ _ _ _ rfl hc hd w i' hp]
          simp only
          by_cases hli : Side.some k = o.lastInterestingField
          · simp only [if_pos hli]
            rw [streamRun_skip_eof o l _ rfl (Or.inl rfl) hl']
            simp only [Run.seq_assoc]
          · simp only [if_neg hli]
            rw [ih i' (k + 1) [] true hl' (Or.inl rfl), hsp]
    · rw [if_neg hd, streamStep_ord_false _ _ _ rfl hc hd]
      simp only [Run.empty_seq]
      exact ih i k (cur ++ [c]) true hl' (Or.inl rfl)

/-! ## the input, record by record -/

theorem splitRecords_noeol (eol : UInt8) (l : Bytes) : ∀ cur : Bytes, (∀ c ∈ l, c ≠ eol) →
    splitRecords eol cur l = if (cur.reverse ++ l).isEmpty then [] else [cur.reverse ++ l] := by
  induction l with
  | nil => intro cur _; cases cur <;> simp [splitRecords]
  | cons c l ih =>
    intro cur hl
    have hc : c ≠ eol := hl c (by simp)
    rw [splitRecords, if_neg hc, ih _ (fun x hx => hl x (by simp [hx]))]
    simp

theorem records_of_noeol (eol : UInt8) (l : Bytes) (h : ∀ c ∈ l, c ≠ eol) :
    records eol l = if l.isEmpty then [] else [l] := by
  unfold records
  rw [splitRecords_noeol eol l [] h]
  rfl


theorem splitRecords_eol (eol : UInt8) (l rest : Bytes) : ∀ cur : Bytes, (∀ c ∈ l, c ≠ eol) →
    splitRecords eol cur (l ++ eol :: rest) = (cur.reverse ++ l) :: splitRecords eol [] rest := by
  induction l with
  | nil => intro cur _; simp [splitRecords]
  | cons c l ih =>
    intro cur hl
    have hc : c ≠ eol := hl c (by simp)
    rw [List.cons_append, splitRecords, if_neg hc, ih _ (fun x hx => hl x (by simp [hx]))]
    simp

theorem records_of_eol (eol : UInt8) (l rest : Bytes) (h : ∀ c ∈ l, c ≠ eol) :
    records eol (l ++ eol :: rest) = l :: records eol rest := by
  unfold records
  rw [splitRecords_eol eol l rest [] h]
  rfl

theorem exists_first_eol (eol : UInt8) (input : Bytes) :
    (∀ c ∈ input, c ≠ eol) ∨
      ∃ l rest, input = l ++ eol :: rest ∧ (∀ c ∈ l, c ≠ eol) := by
  induction input with
  | nil => left; simp
  | cons c t ih =>
    by_cases hc : c = eol
    · right; exact ⟨[], t, by simp [hc], by simp⟩
    · rcases ih with h | ⟨l, rest, h1, h2⟩
      · left; intro x hx
        rcases List.mem_cons.mp hx with rfl | hx
        · exact hc
        · exact h x hx
      · right
        refine ⟨c :: l, rest, by simp [h1], ?_⟩
        intro x hx
        rcases List.mem_cons.mp hx with rfl | hx
        · exact hc
        · exact h2 x hx

/-- every record of the input is free of EOL bytes -/
theorem records_noeol (eol : UInt8) (input : Bytes) :
    ∀ r ∈ records eol input, ∀ c ∈ r, c ≠ eol := by
  generalize hn : input.length = n
  induction n using Nat.strongRecOn generalizing input with
  | _ n ih =>
    rcases exists_first_eol eol input with h | ⟨l, rest, h1, h2⟩
    · intro r hr
      rw [records_of_noeol eol input h] at hr
      split at hr
      · simp at hr
      · simp only [List.mem_singleton] at hr; subst hr; exact h
    · intro r hr
      subst h1
      rw [records_of_eol eol l rest h2] at hr
      simp only [List.mem_cons] at hr
      rcases hr with rfl | hr
      · exact h2
      · exact ih rest.length (by simp at hn; omega) rest rfl r hr

/-- the machine on one record (given without its EOL) -/
def recRun (o : StreamOpt) (r : Bytes) : Run :=
  if r = [] then Run.ok [o.eol.byte] else fieldsRun o 0 1 (splitFields [o.delimiter] r)

def streamRecords (o : StreamOpt) : List Bytes → Run
  | [] => Run.empty
  | r :: t => (recRun o r).seq (streamRecords o t)

/-- **The machine works record by record**: on the records of the input (the specification's
    `records`: split at the EOL, a final unterminated non-empty piece counts) it does `recRun`,
    and stops at the first record that fails. -/
theorem streamRun_records (o : StreamOpt) (hwf : NoAdjFillers o.bounds) (input : Bytes) :
    streamRun o {} (untagged input) = streamRecords o (records o.eol.byte input) := by
  generalize hn : input.length = n
  induction n using Nat.strongRecOn generalizing input with
  | _ n ih =>
    rcases exists_first_eol o.eol.byte input with h | ⟨l, rest, h1, h2⟩
    · rw [records_of_noeol _ input h]
      by_cases hi : input = []
      · subst hi; simp [streamRun, streamEof, streamRecords]
      · have hi' : input.isEmpty = false := by simpa using hi
        rw [hi']
        have := streamRun_record_eof o hwf input 0 1 [] false h (Or.inr hi)
        simp only [Bool.false_eq_true, if_false, streamRecords, recRun, if_neg hi, Run.seq_empty, splitFields]
        exact this
    · subst h1
      rw [records_of_eol _ l rest h2, untagged_append, untagged_cons]
      simp only [streamRecords]
      have ih' := ih rest.length (by simp at hn; omega) rest rfl
      rw [← ih']
      by_cases hl : l = []
      · subst hl
        simp only [untagged_nil, List.nil_append, recRun, if_true]
        rw [run_cons, streamStep_eol _ _ _ _ rfl rfl]
        simp
      · have := streamRun_record_eol o l false (untagged rest) 0 1 [] false (by omega) h2
          (fun ⟨_, _, h3⟩ => hl h3)
        simp only [recRun, if_neg hl, splitFields]
        exact this

/-- the canonical form of the `-M` cutter in terms of records and fields -/
theorem cutBytesStream_records (o : StreamOpt) (hwf : NoAdjFillers o.bounds) (segs : List Bytes) :
    cutBytesStream o segs = streamRecords o (records o.eol.byte segs.flatten) := by
  rw [cutBytesStream_canonical o hwf, ← streamRun_records o hwf]
  rfl

theorem streamRecords_eq_spec (o : StreamOpt) (cfg : Cfg) (rs : List Bytes)
    (h : ∀ r ∈ rs, recRun o r = specRecord cfg r) :
    streamRecords o rs = specRunRecords cfg rs := by
  induction rs with
  | nil => rfl
  | cons r t ih =>
    simp only [streamRecords, specRunRecords]
    rw [h r (by simp), ih (fun x hx => h x (by simp [hx]))]

end Tuc
