import Tuc.Model.CutStr
import Tuc.Model.Regex
import Tuc.Spec.RegexSpec
import Tuc.Lemmas.Run
import Tuc.Lemmas.Bounds
import Tuc.Lemmas.Total
import Tuc.Lemmas.Split
import Tuc.Lemmas.CutStrSpec
/-!
# Tuc.Lemmas.RegexSpec — the regex branches of `cut_str` (property C16)

1. the executable matcher of `Tuc.Model.Regex` honours the contract of `find_iter`
   (`Re.findIter_ok`, `Re.bag_ok`);
2. the ranges `fill_with_fields_locations_using_regex` builds against the tokens of
   `Tuc.Spec.RegexSpec` (gaps between matches, separators verbatim / rendered as `R`);
3. the output loop against `emitWith`, for any way of rendering a piece.
-/
namespace Tuc
open Tuc.Spec

/-! ## 1. the matcher honours the contract of `find_iter` -/

/-- whatever `Re.run` returns was handed to it by the continuation, on a suffix of its input -/
theorem Re.run_suffix (f : Nat) (r : Re) (s : Bytes) (k : Bytes → Option Bytes) :
    ∀ rest, Re.run f r s k = some rest → ∃ s', s' <:+ s ∧ k s' = some rest := by
  fun_induction Re.run f r s k
  case case1 => intro rest h; exact ⟨_, List.suffix_refl _, h⟩
  case case2 => intro rest h; cases h
  case case3 => intro rest h; exact ⟨_, List.suffix_cons _ _, h⟩
  case case4 => intro rest h; cases h
  case case5 => intro rest h; cases h
  case case6 => intro rest h; exact ⟨_, List.suffix_cons _ _, h⟩
  case case7 => intro rest h; cases h
  case case8 => intro rest h; cases h
  case case9 f a b s k ihb iha =>
    intro rest h
    obtain ⟨s1, hs1, h1⟩ := iha rest h
    obtain ⟨s2, hs2, h2⟩ := ihb s1 rest h1
    exact ⟨s2, hs2.trans hs1, h2⟩
  case case10 f a b s k r hr iha =>
    intro rest h
    cases h
    exact iha _ hr
  case case11 f a b s k hr iha ihb =>
    intro rest h
    exact ihb rest h
  case case12 => intro rest h; cases h
  case case13 f a s k ihp iha =>
    intro rest h
    obtain ⟨s1, hs1, h1⟩ := iha rest (by simpa using h)
    simp only [] at h1
    by_cases hlt : s1.length < s.length
    · rw [dif_pos hlt] at h1
      cases hp : Re.run f (.plus a) s1 k with
      | some r =>
        rw [hp] at h1
        simp only [Option.some.injEq] at h1
        subst h1
        obtain ⟨s2, hs2, h2⟩ := ihp s1 _ hp
        exact ⟨s2, hs2.trans hs1, h2⟩
      | none =>
        rw [hp] at h1
        exact ⟨s1, hs1, h1⟩
    · rw [dif_neg hlt] at h1; cases h1

/-- a match consumes a prefix of the haystack: what is left is a suffix of it -/
theorem Re.matchLen_spec (r : Re) (s : Bytes) (n : Nat) (h : r.matchLen s = some n) :
    ∃ rest, rest <:+ s ∧ n + rest.length = s.length := by
  unfold Re.matchLen at h
  cases hr : Re.run (s.length + 1) r s some with
  | none => rw [hr] at h; cases h
  | some rest =>
    rw [hr] at h
    simp only [Option.map_some, Option.some.injEq] at h
    obtain ⟨s', hs', h'⟩ := Re.run_suffix _ _ _ _ _ hr
    simp only [Option.some.injEq] at h'
    subst h'
    refine ⟨s', hs', ?_⟩
    have := hs'.length_le
    omega

theorem Re.matchLen_le (r : Re) (s : Bytes) (n : Nat) (h : r.matchLen s = some n) :
    n ≤ s.length := by
  obtain ⟨rest, _, h2⟩ := Re.matchLen_spec r s n h
  omega

/-- the contract of `find_iter` for an expression that does not match the empty string: the
    matches are reported in order, do not overlap, lie within the haystack and are never empty -/
def StrictMatches (n : Nat) : Nat → List (Nat × Nat) → Prop
  | _, [] => True
  | lo, (s, e) :: t => lo ≤ s ∧ s < e ∧ e ≤ n ∧ StrictMatches n e t

theorem StrictMatches.mono {n lo lo' : Nat} {ms : List (Nat × Nat)} (h : lo' ≤ lo)
    (hm : StrictMatches n lo ms) : StrictMatches n lo' ms := by
  cases ms with
  | nil => trivial
  | cons m t => obtain ⟨s, e⟩ := m; exact ⟨Nat.le_trans h hm.1, hm.2⟩

theorem StrictMatches.sorted {n : Nat} : ∀ {ms : List (Nat × Nat)} {lo : Nat},
    StrictMatches n lo ms → SortedMatches n lo ms
  | [], _, _ => trivial
  | (_, _) :: _, _, h => ⟨h.1, Nat.le_of_lt h.2.1, h.2.2.1, StrictMatches.sorted h.2.2.2⟩

theorem Re.findIterAux_ok (r : Re) : ∀ (s : Bytes) (skip pos : Nat), skip ≤ s.length →
    StrictMatches (pos + s.length) (pos + skip) (Re.findIterAux r skip pos s) := by
  intro s
  induction s with
  | nil => intro skip pos _; simp only [Re.findIterAux]; trivial
  | cons c t ih =>
    intro skip pos hs
    simp only [List.length_cons] at hs ⊢
    cases skip with
    | succ k =>
      simp only [Re.findIterAux]
      have := ih k (pos + 1) (by omega)
      have e1 : pos + 1 + t.length = pos + (t.length + 1) := by omega
      have e2 : pos + 1 + k = pos + (k + 1) := by omega
      rw [e1, e2] at this; exact this
    | zero =>
      simp only [Re.findIterAux]
      split
      · rename_i n hm
        have hle := Re.matchLen_le r (c :: t) (n + 1) hm
        simp only [List.length_cons] at hle
        have := ih n (pos + 1) (by omega)
        have e1 : pos + 1 + t.length = pos + (t.length + 1) := by omega
        have e2 : pos + 1 + n = pos + n + 1 := by omega
        rw [e1, e2] at this
        exact ⟨by omega, by omega, by omega, this⟩
      · have := ih 0 (pos + 1) (Nat.zero_le _)
        have e1 : pos + 1 + t.length = pos + (t.length + 1) := by omega
        rw [e1] at this
        exact this.mono (by omega)

/-- **the executable matcher honours the contract of `find_iter`**: its matches are non-empty, in
    range, in order and do not overlap -/
theorem Re.findIter_ok (r : Re) (s : Bytes) : StrictMatches s.length 0 (r.findIter s) := by
  have := Re.findIterAux_ok r s 0 0 (Nat.zero_le _)
  simpa [Re.findIter] using this

theorem Re.bag_strict (r : Re) (line : Bytes) :
    StrictMatches line.length 0 ((Re.bag r).normal line) ∧
      StrictMatches line.length 0 ((Re.bag r).greedy line) :=
  ⟨Re.findIter_ok r line, Re.findIter_ok (.plus r) line⟩

/-- the bag `parse_args` builds (`RE`, `(RE)+`) satisfies the hypothesis of every theorem about the
    regex branches of `cut_str` -/
theorem Re.bag_ok (r : Re) : (Re.bag r).OK :=
  fun line => ⟨(Re.findIter_ok r line).sorted, (Re.findIter_ok (.plus r) line).sorted⟩

/-! ## 2. the ranges between the matches against the tokens -/

theorem tokFrom_numFields (line : Bytes) (cnt : Nat → Nat → Nat) :
    ∀ (ms : List (Nat × Nat)) (prev : Nat), (tokFrom line cnt prev ms).numFields = ms.length + 1
  | [], _ => rfl
  | (s, e) :: t, prev => by
    have := tokFrom_numFields line cnt t e
    simp only [TokRe.numFields] at this
    simp [tokFrom, TokRe.numFields, this]

theorem pieceTextRe_one_one (sep : Bytes → Nat → Bytes) (tok : TokRe) :
    pieceTextRe sep tok 1 1 = tok.first := by
  simp [pieceTextRe]

theorem pieceTextRe_one_succ (sep : Bytes → Nat → Bytes) (f x g : Bytes) (k : Nat)
    (rest : List (Bytes × Nat × Bytes)) (b : Nat) :
    pieceTextRe sep ⟨f, (x, k, g) :: rest⟩ 1 (b + 2) =
      f ++ sep x k ++ pieceTextRe sep ⟨g, rest⟩ 1 (b + 1) := by
  simp [pieceTextRe, List.append_assoc]

theorem pieceTextRe_succ_succ (sep : Bytes → Nat → Bytes) (f x g : Bytes) (k : Nat)
    (rest : List (Bytes × Nat × Bytes)) (a b : Nat) :
    pieceTextRe sep ⟨f, (x, k, g) :: rest⟩ (a + 2) (b + 2) =
      pieceTextRe sep ⟨g, rest⟩ (a + 1) (b + 1) := by
  have e : b + 2 - (a + 2) = b + 1 - (a + 1) := by omega
  cases a with
  | zero => simp [pieceTextRe]
  | succ a' => simp [pieceTextRe, e]

theorem rangesBetweenMatches_head (L : Nat) (ms : List (Nat × Nat)) (prev : Nat)
    (h : 0 < (rangesBetweenMatches L prev ms).length) :
    ((rangesBetweenMatches L prev ms)[0]).start = prev := by
  cases ms with
  | nil => rfl
  | cons m t => obtain ⟨s, e⟩ := m; rfl

/-- **the printed text of a bound**: the bytes of the record from the start of its first gap to
    the end of its last gap are the gaps with the separators between them, verbatim -/
theorem slice_eq_pieceTextRe (line : Bytes) (cnt : Nat → Nat → Nat) :
    ∀ (ms : List (Nat × Nat)) (prev : Nat), SortedMatches line.length prev ms → prev ≤ line.length →
      ∀ (a b : Nat) (_ : a ≤ b) (hb : b < (rangesBetweenMatches line.length prev ms).length),
        slice line ((rangesBetweenMatches line.length prev ms)[a]'(by omega)).start
            ((rangesBetweenMatches line.length prev ms)[b]).stop =
          pieceTextRe (fun x _ => x) (tokFrom line cnt prev ms) (a + 1) (b + 1) := by
  intro ms
  induction ms with
  | nil =>
    intro prev _ _ a b hab hb
    simp only [rangesBetweenMatches, List.length_singleton] at hb
    have hb0 : b = 0 := by omega
    have ha0 : a = 0 := by omega
    subst hb0; subst ha0
    rw [pieceTextRe_one_one]
    simp only [rangesBetweenMatches, List.getElem_cons_zero, tokFrom]
    exact slice_to_end line prev
  | cons m t ih =>
    obtain ⟨s, e⟩ := m
    intro prev hm hp a b hab hb
    obtain ⟨h1, h2, h3, h4⟩ := hm
    have hin := rangesBetweenMatches_in line.length t e h4 h3
    cases b with
    | zero =>
      have ha0 : a = 0 := by omega
      subst ha0
      rw [pieceTextRe_one_one]
      rfl
    | succ b' =>
      have hb' : b' < (rangesBetweenMatches line.length e t).length := by
        simpa [rangesBetweenMatches] using hb
      cases a with
      | zero =>
        have hge := hin.getElem 0 b' (Nat.zero_le _) hb'
        have hhead := rangesBetweenMatches_head line.length t e (by omega)
        have ihh := ih e h4 h3 0 b' (Nat.zero_le _) hb'
        rw [hhead] at ihh hge
        show slice line prev ((rangesBetweenMatches line.length e t)[b']).stop = _
        rw [← slice_append_slice line (s := prev) (m := s) h1 (by omega),
          ← slice_append_slice line (s := s) (m := e) h2 (by omega), ihh]
        show _ = pieceTextRe _ ⟨slice line prev s,
          (slice line s e, cnt s e, (tokFrom line cnt e t).first) :: (tokFrom line cnt e t).rest⟩ 1 (b' + 2)
        rw [pieceTextRe_one_succ]
        simp [List.append_assoc]
      | succ a' =>
        have ihh := ih e h4 h3 a' b' (by omega) hb'
        show slice line ((rangesBetweenMatches line.length e t)[a']).start
          ((rangesBetweenMatches line.length e t)[b']).stop = _
        rw [ihh]
        show _ = pieceTextRe _ ⟨slice line prev s,
          (slice line s e, cnt s e, (tokFrom line cnt e t).first) :: (tokFrom line cnt e t).rest⟩ (a' + 2) (b' + 2)
        rw [pieceTextRe_succ_succ]

end Tuc
