import Tuc.Model.CutStr
import Tuc.Model.Regex
import Tuc.Spec.RegexSpec
import Tuc.Lemmas.Run
import Tuc.Lemmas.Bounds
import Tuc.Lemmas.Total
import Tuc.Lemmas.Split
import Tuc.Lemmas.CutStrSpec
/-!
# Tuc.Lemmas.RegexSpec — the regex branches of `cut_str` (property C16)

1. the executable matcher of `Tuc.Model.Regex` honours the contract of `find_iter`
   (`Re.findIter_ok`, `Re.bag_ok`);
2. the ranges `fill_with_fields_locations_using_regex` builds against the tokens of
   `Tuc.Spec.RegexSpec` (gaps between matches, separators verbatim / rendered as `R`);
3. the output loop against `emitWith`, for any way of rendering a piece.
-/
namespace Tuc
open Tuc.Spec

/-! ## 1. the matcher honours the contract of `find_iter` -/

/-- whatever `Re.run` returns was handed to it by the continuation, on a suffix of its input -/
theorem Re.run_suffix (f : Nat) (r : Re) (s : Bytes) (k : Bytes → Option Bytes) :
    ∀ rest, Re.run f r s k = some rest → ∃ s', s' <:+ s ∧ k s' = some rest := by
  fun_induction Re.run f r s k
  case case1 => intro rest h; exact ⟨_, List.suffix_refl _, h⟩
  case case2 => intro rest h; cases h
  case case3 => intro rest h; exact ⟨_, List.suffix_cons _ _, h⟩
  case case4 => intro rest h; cases h
  case case5 => intro rest h; cases h
  case case6 => intro rest h; exact ⟨_, List.suffix_cons _ _, h⟩
  case case7 => intro rest h; cases h
  case case8 => intro rest h; cases h
  case case9 f a b s k ihb iha =>
    intro rest h
    obtain ⟨s1, hs1, h1⟩ := iha rest h
    obtain ⟨s2, hs2, h2⟩ := ihb s1 rest h1
    exact ⟨s2, hs2.trans hs1, h2⟩
  case case10 f a b s k r hr iha =>
    intro rest h
    cases h
    exact iha _ hr
  case case11 f a b s k hr iha ihb =>
    intro rest h
    exact ihb rest h
  case case12 => intro rest h; cases h
  case case13 f a s k ihp iha =>
    intro rest h
    obtain ⟨s1, hs1, h1⟩ := iha rest (by simpa using h)
    simp only [] at h1
    by_cases hlt : s1.length < s.length
    · rw [dif_pos hlt] at h1
      cases hp : Re.run f (.plus a) s1 k with
      | some r =>
        rw [hp] at h1
        simp only [Option.some.injEq] at h1
        subst h1
        obtain ⟨s2, hs2, h2⟩ := ihp s1 _ hp
        exact ⟨s2, hs2.trans hs1, h2⟩
      | none =>
        rw [hp] at h1
        exact ⟨s1, hs1, h1⟩
    · rw [dif_neg hlt] at h1; cases h1

/-- a match consumes a prefix of the haystack: what is left is a suffix of it -/
theorem Re.matchLen_spec (r : Re) (s : Bytes) (n : Nat) (h : r.matchLen s = some n) :
    ∃ rest, rest <:+ s ∧ n + rest.length = s.length := by
  unfold Re.matchLen at h
  cases hr : Re.run (s.length + 1) r s some with
  | none => rw [hr] at h; cases h
  | some rest =>
    rw [hr] at h
    simp only [Option.map_some, Option.some.injEq] at h
    obtain ⟨s', hs', h'⟩ := Re.run_suffix _ _ _ _ _ hr
    simp only [Option.some.injEq] at h'
    subst h'
    refine ⟨s', hs', ?_⟩
    have := hs'.length_le
    omega

theorem Re.matchLen_le (r : Re) (s : Bytes) (n : Nat) (h : r.matchLen s = some n) :
    n ≤ s.length := by
  obtain ⟨rest, _, h2⟩ := Re.matchLen_spec r s n h
  omega

/-- the contract of `find_iter` for an expression that does not match the empty string: the
    matches are reported in order, do not overlap, lie within the haystack and are never empty -/
def StrictMatches (n : Nat) : Nat → List (Nat × Nat) → Prop
  | _, [] => True
  | lo, (s, e) :: t => lo ≤ s ∧ s < e ∧ e ≤ n ∧ StrictMatches n e t

theorem StrictMatches.mono {n lo lo' : Nat} {ms : List (Nat × Nat)} (h : lo' ≤ lo)
    (hm : StrictMatches n lo ms) : StrictMatches n lo' ms := by
  cases ms with
  | nil => trivial
  | cons m t => obtain ⟨s, e⟩ := m; exact ⟨Nat.le_trans h hm.1, hm.2⟩

theorem StrictMatches.sorted {n : Nat} : ∀ {ms : List (Nat × Nat)} {lo : Nat},
    StrictMatches n lo ms → SortedMatches n lo ms
  | [], _, _ => trivial
  | (_, _) :: _, _, h => ⟨h.1, Nat.le_of_lt h.2.1, h.2.2.1, StrictMatches.sorted h.2.2.2⟩

theorem Re.findIterAux_ok (r : Re) : ∀ (s : Bytes) (skip pos : Nat), skip ≤ s.length →
    StrictMatches (pos + s.length) (pos + skip) (Re.findIterAux r skip pos s) := by
  intro s
  induction s with
  | nil => intro skip pos _; simp only [Re.findIterAux]; trivial
  | cons c t ih =>
    intro skip pos hs
    simp only [List.length_cons] at hs ⊢
    cases skip with
    | succ k =>
      simp only [Re.findIterAux]
      have := ih k (pos + 1) (by omega)
      have e1 : pos + 1 + t.length = pos + (t.length + 1) := by omega
      have e2 : pos + 1 + k = pos + (k + 1) := by omega
      rw [e1, e2] at this; exact this
    | zero =>
      simp only [Re.findIterAux]
      split
      · rename_i n hm
        have hle := Re.matchLen_le r (c :: t) (n + 1) hm
        simp only [List.length_cons] at hle
        have := ih n (pos + 1) (by omega)
        have e1 : pos + 1 + t.length = pos + (t.length + 1) := by omega
        have e2 : pos + 1 + n = pos + n + 1 := by omega
        rw [e1, e2] at this
        exact ⟨by omega, by omega, by omega, this⟩
      · have := ih 0 (pos + 1) (Nat.zero_le _)
        have e1 : pos + 1 + t.length = pos + (t.length + 1) := by omega
        rw [e1] at this
        exact this.mono (by omega)

/-- **the executable matcher honours the contract of `find_iter`**: its matches are non-empty, in
    range, in order and do not overlap -/
theorem Re.findIter_ok (r : Re) (s : Bytes) : StrictMatches s.length 0 (r.findIter s) := by
  have := Re.findIterAux_ok r s 0 0 (Nat.zero_le _)
  simpa [Re.findIter] using this

theorem Re.bag_strict (r : Re) (line : Bytes) :
    StrictMatches line.length 0 ((Re.bag r).normal line) ∧
      StrictMatches line.length 0 ((Re.bag r).greedy line) :=
  ⟨Re.findIter_ok r line, Re.findIter_ok (.plus r) line⟩

/-- the bag `parse_args` builds (`RE`, `(RE)+`) satisfies the hypothesis of every theorem about the
    regex branches of `cut_str` -/
theorem Re.bag_ok (r : Re) : (Re.bag r).OK :=
  fun line => ⟨(Re.findIter_ok r line).sorted, (Re.findIter_ok (.plus r) line).sorted⟩

/-! ## 2. the ranges between the matches against the tokens -/

theorem tokFrom_numFields (line : Bytes) (cnt : Nat → Nat → Nat) :
    ∀ (ms : List (Nat × Nat)) (prev : Nat), (tokFrom line cnt prev ms).numFields = ms.length + 1
  | [], _ => rfl
  | (s, e) :: t, prev => by
    have := tokFrom_numFields line cnt t e
    simp only [TokRe.numFields] at this
    simp [tokFrom, TokRe.numFields, this]

theorem pieceTextRe_one_one (sep : Bytes → Nat → Bytes) (tok : TokRe) :
    pieceTextRe sep tok 1 1 = tok.first := by
  simp [pieceTextRe]

theorem pieceTextRe_one_succ (sep : Bytes → Nat → Bytes) (f x g : Bytes) (k : Nat)
    (rest : List (Bytes × Nat × Bytes)) (b : Nat) :
    pieceTextRe sep ⟨f, (x, k, g) :: rest⟩ 1 (b + 2) =
      f ++ sep x k ++ pieceTextRe sep ⟨g, rest⟩ 1 (b + 1) := by
  simp [pieceTextRe, List.append_assoc]

theorem pieceTextRe_succ_succ (sep : Bytes → Nat → Bytes) (f x g : Bytes) (k : Nat)
    (rest : List (Bytes × Nat × Bytes)) (a b : Nat) :
    pieceTextRe sep ⟨f, (x, k, g) :: rest⟩ (a + 2) (b + 2) =
      pieceTextRe sep ⟨g, rest⟩ (a + 1) (b + 1) := by
  have e : b + 2 - (a + 2) = b + 1 - (a + 1) := by omega
  cases a with
  | zero => simp [pieceTextRe]
  | succ a' => simp [pieceTextRe, e]

theorem rangesBetweenMatches_head (L : Nat) (ms : List (Nat × Nat)) (prev : Nat)
    (h : 0 < (rangesBetweenMatches L prev ms).length) :
    ((rangesBetweenMatches L prev ms)[0]).start = prev := by
  cases ms with
  | nil => rfl
  | cons m t => obtain ⟨s, e⟩ := m; rfl

/-- **the printed text of a bound**: the bytes of the record from the start of its first gap to
    the end of its last gap are the gaps with the separators between them, verbatim -/
theorem slice_eq_pieceTextRe (line : Bytes) (cnt : Nat → Nat → Nat) :
    ∀ (ms : List (Nat × Nat)) (prev : Nat), SortedMatches line.length prev ms → prev ≤ line.length →
      ∀ (a b : Nat) (_ : a ≤ b) (hb : b < (rangesBetweenMatches line.length prev ms).length),
        slice line ((rangesBetweenMatches line.length prev ms)[a]'(by omega)).start
            ((rangesBetweenMatches line.length prev ms)[b]).stop =
          pieceTextRe (fun x _ => x) (tokFrom line cnt prev ms) (a + 1) (b + 1) := by
  intro ms
  induction ms with
  | nil =>
    intro prev _ _ a b hab hb
    simp only [rangesBetweenMatches, List.length_singleton] at hb
    have hb0 : b = 0 := by omega
    have ha0 : a = 0 := by omega
    subst hb0; subst ha0
    rw [pieceTextRe_one_one]
    simp only [rangesBetweenMatches, List.getElem_cons_zero, tokFrom]
    exact slice_to_end line prev
  | cons m t ih =>
    obtain ⟨s, e⟩ := m
    intro prev hm hp a b hab hb
    obtain ⟨h1, h2, h3, h4⟩ := hm
    have hin := rangesBetweenMatches_in line.length t e h4 h3
    cases b with
    | zero =>
      have ha0 : a = 0 := by omega
      subst ha0
      rw [pieceTextRe_one_one]
      rfl
    | succ b' =>
      have hb' : b' < (rangesBetweenMatches line.length e t).length := by
        simpa [rangesBetweenMatches] using hb
      cases a with
      | zero =>
        have hge := hin.getElem 0 b' (Nat.zero_le _) hb'
        have hhead := rangesBetweenMatches_head line.length t e (by omega)
        have ihh := ih e h4 h3 0 b' (Nat.zero_le _) hb'
        rw [hhead] at ihh hge
        show slice line prev ((rangesBetweenMatches line.length e t)[b']).stop = _
        rw [← slice_append_slice line (s := prev) (m := s) h1 (by omega),
          ← slice_append_slice line (s := s) (m := e) h2 (by omega), ihh]
        show _ = pieceTextRe _ ⟨slice line prev s,
          (slice line s e, cnt s e, (tokFrom line cnt e t).first) :: (tokFrom line cnt e t).rest⟩ 1 (b' + 2)
        rw [pieceTextRe_one_succ]
        simp [List.append_assoc]
      | succ a' =>
        have ihh := ih e h4 h3 a' b' (by omega) hb'
        show slice line ((rangesBetweenMatches line.length e t)[a']).start
          ((rangesBetweenMatches line.length e t)[b']).stop = _
        rw [ihh]
        show _ = pieceTextRe _ ⟨slice line prev s,
          (slice line s e, cnt s e, (tokFrom line cnt e t).first) :: (tokFrom line cnt e t).rest⟩ (a' + 2) (b' + 2)
        rw [pieceTextRe_succ_succ]

/-! ## 3. the output loop, for any way of rendering a piece -/

/-- the literal specification's loop is an instance of `emitWith` -/
theorem emit_eq_emitWith (cfg : Cfg) (tok : Tok) (sep : Nat → Bytes) (j : Bytes) :
    ∀ (l : List BoF), emit cfg tok sep j l = emitWith cfg tok.numFields (pieceText sep tok) j l
  | [] => rfl
  | .filler f :: t => by simp only [emit, emitWith, emit_eq_emitWith cfg tok sep j t]
  | .bound b :: t => by
    simp only [emit, emitWith, emit_eq_emitWith cfg tok sep j t]
    rfl

/-- what the specification prints for a bound: the piece, else the bound's own fallback, else the
    generic one -/
def specTextWith (opt : Opt) (n : Nat) (piece : Nat → Nat → Bytes) (b : UserBounds) : Option Bytes :=
  match resolve b n with
  | some (lo, hi) => some (piece lo hi)
  | none =>
    match b.fallback with
    | some f => some f
    | none => opt.fallbackOob

/-- one bound of the output loop, followed by the rest `R` of the run -/
theorem outputBof_bound_with (opt : Opt) (line : Bytes) (fields : List Range) (cwr : Bool)
    (piece : Nat → Nat → Bytes) (hjson : opt.json = false)
    (hinb : ∀ (a b : Nat) (_ : a ≤ b) (hb : b < fields.length),
      (fields[a]'(by omega)).start ≤ fields[b].stop ∧ fields[b].stop ≤ line.length)
    (hpiece : ∀ (a b : Nat) (_ : a ≤ b) (hb : b < fields.length),
      maybeReplaceDelimiter (slice line (fields[a]'(by omega)).start fields[b].stop) opt cwr =
        piece (a + 1) (b + 1))
    (b : UserBounds) (hz : b.Nonzero) (c : Nat) (hL : b.isLast = true ↔ c = 0) (R : Run) :
    (outputBof line fields fields.length opt cwr (.bound b)).seq R =
      match specTextWith opt fields.length piece b with
      | none => Run.fail
      | some x =>
        Run.pre (x ++ (if opt.join && decide (c > 0) then opt.replaceDelimiter.getD opt.delimiter
          else [])) R := by
  unfold outputBof specTextWith
  simp only []
  rw [tryIntoRange_eq_resolve b fields.length hz]
  cases hres : resolve b fields.length with
  | none =>
    simp only [Option.map_none]
    cases b.fallback with
    | some f => simp only [writeMaybeAsJson, hjson]; exact joiner_algebra _ _ _ _ _ _ hL
    | none =>
      cases opt.fallbackOob with
      | some f => simp only [writeMaybeAsJson, hjson]; exact joiner_algebra _ _ _ _ _ _ hL
      | none => simp [Run.seq, Run.fail]
  | some p =>
    obtain ⟨lo, hi⟩ := p
    have htr : b.tryIntoRange fields.length = some (lo - 1, hi) := by
      rw [tryIntoRange_eq_resolve b fields.length hz, hres]; rfl
    have hzl : b.l ≠ .some 0 := by
      intro h0
      have := hz.1
      rw [h0] at this
      exact this rfl
    obtain ⟨h1, h2⟩ := tryIntoRange_bounds b _ _ _ hzl htr
    obtain ⟨h3, h4⟩ := resolve_some hres
    have hs : lo - 1 < fields.length := by omega
    have he : hi - 1 < fields.length := by omega
    have hin := hinb (lo - 1) (hi - 1) (by omega) he
    have htext := hpiece (lo - 1) (hi - 1) (by omega) he
    have e1 : lo - 1 + 1 = lo := by omega
    have e2 : hi - 1 + 1 = hi := by omega
    rw [e1, e2] at htext
    simp only [Option.map_some, List.getElem?_eq_getElem hs, List.getElem?_eq_getElem he]
    rw [if_pos hin, htext]
    simp only [writeMaybeAsJson, hjson]
    exact joiner_algebra _ _ _ _ _ _ hL

/-- **the output loop is `emitWith`**, whatever the pieces are -/
theorem outputLoop_eq_emitWith (opt : Opt) (line : Bytes) (fields : List Range) (cwr : Bool)
    (piece : Nat → Nat → Bytes) (hjson : opt.json = false)
    (hinb : ∀ (a b : Nat) (_ : a ≤ b) (hb : b < fields.length),
      (fields[a]'(by omega)).start ≤ fields[b].stop ∧ fields[b].stop ≤ line.length)
    (hpiece : ∀ (a b : Nat) (_ : a ≤ b) (hb : b < fields.length),
      maybeReplaceDelimiter (slice line (fields[a]'(by omega)).start fields[b].stop) opt cwr =
        piece (a + 1) (b + 1)) :
    ∀ (bofs : List BoF), AllNonzero bofs → LastMarked bofs →
      outputLoop line fields fields.length opt cwr bofs =
        emitWith (cfgOf opt) fields.length piece (opt.replaceDelimiter.getD opt.delimiter) bofs
  | [], _, _ => rfl
  | .filler f :: t, hz, hL => by
    have ih := outputLoop_eq_emitWith opt line fields cwr piece hjson hinb hpiece t
      (fun b hb => hz b (List.mem_cons_of_mem _ hb)) hL
    simp only [outputLoop, outputBof, emitWith, Run.seq_ok, ih]
  | .bound b :: t, hz, hL => by
    have ih := outputLoop_eq_emitWith opt line fields cwr piece hjson hinb hpiece t
      (fun b hb => hz b (List.mem_cons_of_mem _ hb)) hL.2
    have hb := outputBof_bound_with opt line fields cwr piece hjson hinb hpiece b
      (hz b (List.mem_cons_self ..)) (countBounds t) hL.1
      (outputLoop line fields fields.length opt cwr t)
    simp only [outputLoop]
    rw [hb, ih]
    unfold specTextWith
    simp only [emitWith, cfgOf, hjson]
    cases resolve b fields.length with
    | some p => simp
    | none =>
      cases b.fallback with
      | some f => simp
      | none => cases opt.fallbackOob <;> simp

/-- the specification never looks at `is_last` -/
theorem emitWith_eraseLast (cfg : Cfg) (n : Nat) (piece : Nat → Nat → Bytes) (j : Bytes) :
    ∀ (l : List BoF), emitWith cfg n piece j (l.map eraseLast) = emitWith cfg n piece j l
  | [] => rfl
  | .filler f :: t => by
    simp only [List.map_cons, eraseLast, emitWith, emitWith_eraseLast cfg n piece j t]
  | .bound b :: t => by
    simp only [List.map_cons, eraseLast, emitWith, emitWith_eraseLast cfg n piece j t,
      countBounds_map_eraseLast]
    rfl

/-- without `-j` the joiner is never printed -/
theorem emitWith_joiner (cfg : Cfg) (n : Nat) (piece : Nat → Nat → Bytes) (j j' : Bytes)
    (h : cfg.join = false ∨ j = j') :
    ∀ (l : List BoF), emitWith cfg n piece j l = emitWith cfg n piece j' l := by
  rcases h with h | h
  · intro l
    induction l with
    | nil => rfl
    | cons x t ih =>
      cases x with
      | filler f => simp only [emitWith, ih]
      | bound b => simp only [emitWith, ih, h, Bool.false_and, Bool.false_eq_true, if_false]
  · subst h; intro l; rfl

/-- everything after the ranges are known (no `--json`, field mode, no `-p`), for any rendering of
    the pieces: the tail of the specification -/
theorem emitRecord_eq_emitWith (opt : Opt) (line : Bytes) (fields : List Range)
    (piece : Nat → Nat → Bytes) (hjson : opt.json = false)
    (hty : opt.boundsType = .fields ∨ opt.boundsType = .lines)
    (hinb : ∀ (a b : Nat) (_ : a ≤ b) (hb : b < fields.length),
      (fields[a]'(by omega)).start ≤ fields[b].stop ∧ fields[b].stop ≤ line.length)
    (hpiece : ∀ (a b : Nat) (_ : a ≤ b) (hb : b < fields.length),
      maybeReplaceDelimiter (slice line (fields[a]'(by omega)).start fields[b].stop) opt false =
        piece (a + 1) (b + 1))
    (hz : AllNonzero opt.bounds.list) (hL : LastMarked opt.bounds.list) :
    emitRecord line fields opt false [opt.eol.byte] =
      if opt.onlyDelimited && fields.length == 1 then Run.empty
      else
        if opt.complement && countBounds (specBofs opt fields.length) == 0 then Run.fail
        else
          (emitWith (cfgOf opt) fields.length piece (opt.replaceDelimiter.getD opt.delimiter)
            (specBofs opt fields.length)).seq (Run.ok [opt.eol.byte]) := by
  rw [emitRecord_fields _ _ _ _ hjson hty]
  have hloop := outputLoop_eq_emitWith opt line fields false piece hjson hinb hpiece
  by_cases hs : (opt.onlyDelimited && fields.length == 1) = true
  · rw [if_pos hs, if_pos hs]
  · rw [if_neg hs, if_neg hs]
    unfold specBofs
    cases hc : opt.complement with
    | false =>
      simp only [Bool.false_and, Bool.false_eq_true, if_false]
      rw [hloop _ hz hL]
    | true =>
      simp only [if_true, Bool.true_and]
      unfold complementList
      simp only []
      rw [flatMap_complementBof_eq _ _ hz, boundsOnly_isEmpty_iff]
      by_cases h0 : (countBounds (mapBounds (complementBound · fields.length) opt.bounds.list) == 0) = true
      · rw [if_pos h0, if_pos h0]
      · rw [if_neg h0, if_neg h0]
        unfold fromVec
        simp only []
        cases hm : markLast (mapBounds (complementBound · fields.length) opt.bounds.list) with
        | none =>
          have := countBounds_eq_zero_of_markLast_none _ hm
          simp [this] at h0
        | some l' =>
          simp only []
          have he := markLast_eraseLast _ _ hm
          have hnz := allNonzero_of_eraseLast_eq he (mapBounds_complement_nonzero _ _ hz)
          have hlm := markLast_lastMarked _ _ (mapBounds_complement_noneMarked _ _) hm
          rw [hloop l' hnz hlm, ← emitWith_eraseLast _ _ _ _ l', he, emitWith_eraseLast]

/-! ## 4. `cut_str` with a regex delimiter, passes made explicit -/

/-- `trim_regex` is the specification's `trimRe`, for any list of matches -/
theorem trimRegex_eq_trimRe (line : Bytes) (k : TrimKind) (ms : List (Nat × Nat)) :
    trimRegex line k ms = trimRe line k ms := by
  unfold trimRegex trimRe slice
  simp only []
  rw [List.drop_take]
  have key : ∀ (l s : Nat), max s l - l = s - l := by intro l s; omega
  cases ms.head? with
  | none =>
    cases ms.getLast? with
    | none => rfl
    | some q =>
      obtain ⟨s', e'⟩ := q
      by_cases he : e' = line.length <;> cases k <;> simp [he]
  | some p =>
    obtain ⟨s, e⟩ := p
    cases ms.getLast? with
    | none => cases s <;> rfl
    | some q =>
      obtain ⟨s', e'⟩ := q
      by_cases he : e' = line.length <;> cases s <;> cases k <;> simp [he, key]

/-- the record after `-t`, regex delimiter -/
def trimmedRe (opt : Opt) (bag : RegexBag) (line : Bytes) : Bytes :=
  match opt.trim with
  | some k => trimRe line k (bag.greedy line)
  | none => line

/-- the ranges `cut_str` builds from the matches -/
def fieldsRe (opt : Opt) (bag : RegexBag) (line' : Bytes) : List Range :=
  rangesBetweenMatches line'.length 0 ((if opt.greedyDelimiter then bag.greedy else bag.normal) line')

set_option linter.unusedSimpArgs false in
/-- `cut_str` with a regex delimiter and no `-p`, passes made explicit -/
theorem cutStrCore_regex (line : Bytes) (opt : Opt) (eol : Bytes) (bag : RegexBag)
    (hre : opt.regexBag = some bag) (hp : opt.compressDelimiter = false)
    (hty : opt.boundsType = .fields ∨ opt.boundsType = .lines) :
    (cutStrCore line opt eol).1 =
      if opt.join && opt.replaceDelimiter.isNone then Run.fail
      else if (trimmedRe opt bag line).isEmpty then
        (if !opt.onlyDelimited then Run.ok eol else Run.empty)
      else emitRecord (trimmedRe opt bag line) (fieldsRe opt bag (trimmedRe opt bag line)) opt false eol := by
  have htrim : trimOf opt line = trimmedRe opt bag line := by
    unfold trimOf trimmedRe
    rw [hre]
    cases opt.trim with
    | none => rfl
    | some k => exact trimRegex_eq_trimRe _ _ _
  rw [cutStrCore_eq, htrim]
  generalize trimmedRe opt bag line = line'
  simp only [hre, hp, Option.isSome_some, Bool.true_and, Bool.false_and, Bool.false_eq_true, if_false]
  by_cases hj : (opt.join && opt.replaceDelimiter.isNone) = true
  · rw [if_pos hj, if_pos hj]
  · rw [if_neg hj, if_neg hj]
    unfold afterTrim
    by_cases he : line'.isEmpty = true
    · rw [if_pos he, if_pos he]
    · rw [if_neg he, if_neg he]
      have hf : engineFields opt line' opt.delimiter true = fieldsRe opt bag line' := by
        unfold engineFields fieldsRe fillWithFieldsLocationsUsingRegex
        rcases hty with hty | hty <;>
          simp only [hre, hty, he, Bool.false_eq_true, if_false, Bool.false_and, reduceCtorEq,
            decide_false]
      simp only [hp, hre, Bool.false_and, Bool.false_eq_true, if_false, Option.isSome_some, hf]

/-- the specification with a regex delimiter and no `-p`, no `--json`, passes made explicit -/
theorem specRecordRe_fields (line : Bytes) (opt : Opt) (bag : RegexBag)
    (hp : opt.compressDelimiter = false) (hjson : opt.json = false) :
    specRecordRe (cfgOf opt) bag line =
      if opt.join && opt.replaceDelimiter.isNone then Run.fail
      else if (trimmedRe opt bag line).isEmpty then
        (if opt.onlyDelimited then Run.empty else Run.ok [opt.eol.byte])
      else
        if opt.onlyDelimited &&
          (tokenizeRe bag opt.greedyDelimiter (trimmedRe opt bag line)).numFields == 1
        then Run.empty
        else
          if opt.complement && countBounds (specBofs opt
            (tokenizeRe bag opt.greedyDelimiter (trimmedRe opt bag line)).numFields) == 0
          then Run.fail
          else
            (emitWith (cfgOf opt)
              (tokenizeRe bag opt.greedyDelimiter (trimmedRe opt bag line)).numFields
              (pieceTextRe (sepRe opt.replaceDelimiter)
                (tokenizeRe bag opt.greedyDelimiter (trimmedRe opt bag line)))
              (opt.replaceDelimiter.getD [])
              (specBofs opt
                (tokenizeRe bag opt.greedyDelimiter (trimmedRe opt bag line)).numFields)).seq
              (Run.ok [opt.eol.byte]) := by
  unfold specRecordRe trimmedRe specBofs
  simp only [cfgOf, hp, hjson, Bool.false_and, Bool.false_or]
  cases opt.trim <;> cases opt.complement <;> simp <;> rfl

theorem rangesBetweenMatches_length (L prev : Nat) (ms : List (Nat × Nat)) :
    (rangesBetweenMatches L prev ms).length = ms.length + 1 := by
  induction ms generalizing prev with
  | nil => rfl
  | cons m t ih => obtain ⟨s, e⟩ := m; simp [rangesBetweenMatches, ih]

/-- one gap more than there are matches, on both sides -/
theorem fieldsRe_length (opt : Opt) (bag : RegexBag) (line' : Bytes) :
    (fieldsRe opt bag line').length = (tokenizeRe bag opt.greedyDelimiter line').numFields := by
  unfold fieldsRe tokenizeRe tokOfMatches
  cases opt.greedyDelimiter <;>
    simp [rangesBetweenMatches_length, tokFrom_numFields]

theorem fieldsRe_in (opt : Opt) (bag : RegexBag) (hok : bag.OK) (line' : Bytes) :
    RangesIn line'.length 0 (fieldsRe opt bag line') := by
  unfold fieldsRe
  apply rangesBetweenMatches_in _ _ 0 _ (Nat.zero_le _)
  cases opt.greedyDelimiter
  · exact (hok line').1
  · exact (hok line').2

/-- **the regex engine refines the specification as soon as every printed range is rendered as the
    specification renders it** (the two instances: no `-r`, separators verbatim; `-r R` under
    `SliceStable`) -/
theorem cutStr_regex_eq_spec_of_piece (opt : Opt) (bag : RegexBag) (line : Bytes)
    (hre : opt.regexBag = some bag) (hok : bag.OK) (hp : opt.compressDelimiter = false)
    (hjson : opt.json = false) (hty : opt.boundsType = .fields ∨ opt.boundsType = .lines)
    (hz : AllNonzero opt.bounds.list) (hL : LastMarked opt.bounds.list)
    (hpiece : (trimmedRe opt bag line) ≠ [] →
      ∀ (a b : Nat) (_ : a ≤ b) (hb : b < (fieldsRe opt bag (trimmedRe opt bag line)).length),
      maybeReplaceDelimiter
          (slice (trimmedRe opt bag line)
            ((fieldsRe opt bag (trimmedRe opt bag line))[a]'(by omega)).start
            ((fieldsRe opt bag (trimmedRe opt bag line))[b]).stop) opt false =
        pieceTextRe (sepRe opt.replaceDelimiter)
          (tokenizeRe bag opt.greedyDelimiter (trimmedRe opt bag line)) (a + 1) (b + 1)) :
    (cutStrCore line opt [opt.eol.byte]).1 = specRecordRe (cfgOf opt) bag line := by
  rw [cutStrCore_regex line opt _ bag hre hp hty, specRecordRe_fields line opt bag hp hjson]
  by_cases hj : (opt.join && opt.replaceDelimiter.isNone) = true
  · rw [if_pos hj, if_pos hj]
  · rw [if_neg hj, if_neg hj]
    by_cases he : (trimmedRe opt bag line).isEmpty = true
    · rw [if_pos he, if_pos he]
      cases opt.onlyDelimited <;> simp
    · rw [if_neg he, if_neg he]
      have hne : trimmedRe opt bag line ≠ [] := by
        intro h; rw [h] at he; exact he rfl
      have hin := fieldsRe_in opt bag hok (trimmedRe opt bag line)
      have hmain := emitRecord_eq_emitWith opt (trimmedRe opt bag line)
        (fieldsRe opt bag (trimmedRe opt bag line))
        (pieceTextRe (sepRe opt.replaceDelimiter)
          (tokenizeRe bag opt.greedyDelimiter (trimmedRe opt bag line))) hjson hty
        (fun a b hab hb => (hin.getElem a b hab hb).2) (hpiece hne) hz hL
      rw [hmain, fieldsRe_length]
      have hjoin : opt.join = false ∨
          opt.replaceDelimiter.getD opt.delimiter = opt.replaceDelimiter.getD [] := by
        cases hr : opt.replaceDelimiter with
        | some r => right; rfl
        | none => left; simpa [hr] using hj
      rw [emitWith_joiner (cfgOf opt) _ _ _ _ hjoin]

theorem tokenizeRe_eq (bag : RegexBag) (g : Bool) (line : Bytes) :
    tokenizeRe bag g line =
      tokFrom line (if g then countInside (bag.normal line) else fun _ _ => 1) 0
        ((if g then bag.greedy else bag.normal) line) := by
  cases g <;> rfl

/-- without `-r` the engine prints the slice as it is -/
theorem maybeReplaceDelimiter_none (text : Bytes) (opt : Opt) (cwr : Bool)
    (hr : opt.replaceDelimiter = none) : maybeReplaceDelimiter text opt cwr = text := by
  unfold maybeReplaceDelimiter
  rw [hr]
  split <;> rfl

/-- **C16, one record, no `-r`.**  With `-e RE` (any matcher honouring the contract of
    `find_iter`) and none of `-r -p -j --json`, field (or line) mode — any of `-g -t -s -m`,
    fallbacks, format fillers — `cut_str` writes for every record exactly what the specification
    says: the fields are the gaps between successive matches (`-g`: runs of matches), a printed
    range is the bytes of the record from the start of its first gap to the end of its last gap. -/
theorem cutStr_regex_eq_spec (opt : Opt) (bag : RegexBag) (line : Bytes)
    (hre : opt.regexBag = some bag) (hok : bag.OK)
    (hr : opt.replaceDelimiter = none) (hp : opt.compressDelimiter = false)
    (hjson : opt.json = false) (hty : opt.boundsType = .fields ∨ opt.boundsType = .lines)
    (hz : AllNonzero opt.bounds.list) (hL : LastMarked opt.bounds.list) :
    (cutStrCore line opt [opt.eol.byte]).1 = specRecordRe (cfgOf opt) bag line := by
  apply cutStr_regex_eq_spec_of_piece opt bag line hre hok hp hjson hty hz hL
  intro hne a b hab hb
  rw [maybeReplaceDelimiter_none _ _ _ hr, hr]
  have hsm : SortedMatches (trimmedRe opt bag line).length 0
      ((if opt.greedyDelimiter then bag.greedy else bag.normal) (trimmedRe opt bag line)) := by
    cases opt.greedyDelimiter
    · exact (hok _).1
    · exact (hok _).2
  rw [tokenizeRe_eq]
  exact slice_eq_pieceTextRe _ _ _ 0 hsm (Nat.zero_le _) a b hab hb

/-! ## 5. `-p -r R`: rewrite every run of matches to `R`, then cut on the literal `R` -/

/-- the output loop only looks at these parts of the options -/
theorem outputLoop_congr (opt opt' : Opt) (cwr cwr' : Bool) (line : Bytes) (fields : List Range)
    (n : Nat) (hjoin : opt.join = opt'.join)
    (hJ : opt.replaceDelimiter.getD opt.delimiter = opt'.replaceDelimiter.getD opt'.delimiter)
    (hjson : opt.json = opt'.json) (hfb : opt.fallbackOob = opt'.fallbackOob)
    (hm : ∀ text, maybeReplaceDelimiter text opt cwr = maybeReplaceDelimiter text opt' cwr') :
    ∀ (l : List BoF), outputLoop line fields n opt cwr l = outputLoop line fields n opt' cwr' l := by
  intro l
  induction l with
  | nil => rfl
  | cons x t ih =>
    simp only [outputLoop, ih]
    congr 1
    cases x with
    | filler f => rfl
    | bound b => simp only [outputBof, hjoin, hJ, hjson, hfb, hm]

theorem emitRecord_congr (opt opt' : Opt) (cwr cwr' : Bool) (line : Bytes) (fields : List Range)
    (eol : Bytes) (hjoin : opt.join = opt'.join)
    (hJ : opt.replaceDelimiter.getD opt.delimiter = opt'.replaceDelimiter.getD opt'.delimiter)
    (hjson : opt.json = opt'.json) (hfb : opt.fallbackOob = opt'.fallbackOob)
    (hm : ∀ text, maybeReplaceDelimiter text opt cwr = maybeReplaceDelimiter text opt' cwr')
    (hs : opt.onlyDelimited = opt'.onlyDelimited) (hc : opt.complement = opt'.complement)
    (hb : opt.bounds = opt'.bounds)
    (hty : opt.boundsType ≠ .characters) (hty' : opt'.boundsType ≠ .characters) :
    emitRecord line fields opt cwr eol = emitRecord line fields opt' cwr' eol := by
  unfold emitRecord
  have hl := outputLoop_congr opt opt' cwr cwr' line fields fields.length hjoin hJ hjson hfb hm
  simp only [hs, hc, hb, hjson, hty, hty', hl, decide_false, Bool.false_and, Bool.or_false]

/-- the options of the literal engine that takes over once `-p -r R` has rewritten the record:
    `R` is the delimiter, nothing is trimmed, compressed or replaced any more (the joiner of `-j`
    is the delimiter, i.e. `R`) -/
def literalAfterCompress (opt : Opt) (R : Bytes) : Opt :=
  { opt with regexBag := none, delimiter := R, compressDelimiter := false,
             replaceDelimiter := none, trim := none }

/-- the rewritten record is empty only if the replacement is -/
theorem replaceMatches_ne_nil (text R : Bytes) (hR : R ≠ []) (ms : List (Nat × Nat))
    (htext : text ≠ []) : replaceMatches text R 0 ms ≠ [] := by
  cases ms with
  | nil => simpa [replaceMatches] using htext
  | cons m t =>
    obtain ⟨s, e⟩ := m
    simp [replaceMatches, hR]

/-- **C16, `-p -r R`.**  The record (after `-t`) is rewritten once — every run of matches becomes
    the literal bytes `R` — and the result is cut by the LITERAL engine with delimiter `R`: same
    ranges, same bounds, no second replacement (`compressedWithRegex`), joiner `R`.
    (`hne`: the rewritten record is not empty; it follows from `R ≠ []`, see
    `replaceMatches_ne_nil`.  With `R = []` and a record that is one run of matches the regex path
    goes on with ZERO fields where the literal engine prints an empty line.) -/
theorem cutStrCore_regex_compress (line : Bytes) (opt : Opt) (eol : Bytes) (bag : RegexBag)
    (R : Bytes) (hre : opt.regexBag = some bag) (hr : opt.replaceDelimiter = some R)
    (hp : opt.compressDelimiter = true)
    (hty : opt.boundsType = .fields ∨ opt.boundsType = .lines)
    (hne : trimmedRe opt bag line ≠ [] →
      replaceMatches (trimmedRe opt bag line) R 0 (bag.greedy (trimmedRe opt bag line)) ≠ []) :
    (cutStrCore line opt eol).1 =
      if (trimmedRe opt bag line).isEmpty then
        (if !opt.onlyDelimited then Run.ok eol else Run.empty)
      else
        (cutStrCore (replaceMatches (trimmedRe opt bag line) R 0 (bag.greedy (trimmedRe opt bag line)))
          (literalAfterCompress opt R) eol).1 := by
  have htrim : trimOf opt line = trimmedRe opt bag line := by
    unfold trimOf trimmedRe
    rw [hre]
    cases opt.trim with
    | none => rfl
    | some k => exact trimRegex_eq_trimRe _ _ _
  rw [cutStrCore_eq, htrim]
  generalize trimmedRe opt bag line = line' at hne ⊢
  simp only [hre, hr, hp, Option.isSome_some, Option.isNone_some, Bool.and_false,
    Bool.false_eq_true, if_false]
  by_cases he : line'.isEmpty = true
  · rw [if_pos he]
    unfold afterTrim
    rw [if_pos he]
  · rw [if_neg he]
    have hne := hne (fun h => he (by rw [h]; rfl))
    generalize hl2 : replaceMatches line' R 0 (bag.greedy line') = line2 at hne ⊢
    have he2 : ¬ line2.isEmpty = true := by
      intro h; exact hne (List.isEmpty_iff.mp h)
    rw [cutStrCore_eq]
    have h1 : (literalAfterCompress opt R).regexBag = none := rfl
    have h2 : trimOf (literalAfterCompress opt R) line2 = line2 := rfl
    have h3 : (literalAfterCompress opt R).compressDelimiter = false := rfl
    have h4 : (literalAfterCompress opt R).delimiter = R := rfl
    have hbt : (literalAfterCompress opt R).boundsType = opt.boundsType := rfl
    have hcomp : (opt.compressDelimiter &&
        (decide (opt.boundsType = .fields) || decide (opt.boundsType = .lines))) = true := by
      rcases hty with hty | hty <;> simp [hp, hty]
    have hfields : engineFields (literalAfterCompress opt R) line2 R false =
        engineFields opt line2 R false := by
      unfold engineFields
      simp only [hbt]
      rfl
    have hemit : emitRecord line2 (engineFields opt line2 R false) opt true eol =
        emitRecord line2 (engineFields opt line2 R false) (literalAfterCompress opt R) false eol := by
      apply emitRecord_congr
      · rfl
      · show opt.replaceDelimiter.getD opt.delimiter = R
        rw [hr]; rfl
      · rfl
      · rfl
      · intro text
        have hnc : opt.boundsType ≠ .characters := by
          rcases hty with hty | hty <;> rw [hty] <;> intro h <;> cases h
        have hl : maybeReplaceDelimiter text opt true = text := by
          unfold maybeReplaceDelimiter
          rw [if_neg hnc, hr, hre]
          rfl
        have hr' : maybeReplaceDelimiter text (literalAfterCompress opt R) false = text :=
          maybeReplaceDelimiter_none _ _ _ rfl
        rw [hl, hr']
      · rfl
      · rfl
      · rfl
      · rcases hty with hty | hty <;> rw [hty] <;> intro h <;> cases h
      · rw [hbt]
        rcases hty with hty | hty <;> rw [hty] <;> intro h <;> cases h
    simp only [h1, h2, Option.isSome_none, Bool.false_and, Bool.false_eq_true, if_false]
    unfold afterTrim
    rw [if_neg he, if_neg he2]
    simp only [hcomp, if_true, hre, hr, hl2, h1, h3, h4, Bool.false_and, Bool.false_eq_true,
      if_false, Option.isSome_none, hfields, hemit]

/-- **C16, `-p -r R`, against the specification.**  For `R ≠ []` the regex engine with `-p -r R`
    is the specification: rewrite every run of matches to `R`, then the LITERAL specification
    with delimiter `R` (any of `-g -t -s -j -m`, fallbacks, fillers; no `--json`). -/
theorem cutStr_regex_compress_eq_spec (opt : Opt) (bag : RegexBag) (line : Bytes) (R : Bytes)
    (hre : opt.regexBag = some bag) (hr : opt.replaceDelimiter = some R) (hR : R ≠ [])
    (hp : opt.compressDelimiter = true) (hjson : opt.json = false)
    (hty : opt.boundsType = .fields ∨ opt.boundsType = .lines)
    (hz : AllNonzero opt.bounds.list) (hL : LastMarked opt.bounds.list) :
    (cutStrCore line opt [opt.eol.byte]).1 = specRecordRe (cfgOf opt) bag line := by
  have hspec : specRecordRe (cfgOf opt) bag line =
      if (trimmedRe opt bag line).isEmpty then
        (if opt.onlyDelimited then Run.empty else Run.ok [opt.eol.byte])
      else specRecord (cfgOf (literalAfterCompress opt R))
        (replaceMatches (trimmedRe opt bag line) R 0 (bag.greedy (trimmedRe opt bag line))) := by
    have hcfg : cfgOf (literalAfterCompress opt R) =
        { cfgOf opt with delimiter := R, compress := false, replace := none, trim := none,
                         chars := false } := by
      rcases hty with hty | hty <;> simp [cfgOf, literalAfterCompress, hty]
    rw [hcfg]
    unfold specRecordRe trimmedRe
    rcases hty with hty | hty <;>
      simp only [cfgOf, hp, hr, hty, Option.isNone_some, Bool.and_false, Bool.false_eq_true,
        if_false, decide_true, Bool.or_true, Bool.true_or, Bool.and_self] <;> rfl
  rw [hspec, cutStrCore_regex_compress line opt _ bag R hre hr hp hty
    (fun hne => replaceMatches_ne_nil _ R hR _ hne)]
  by_cases he : (trimmedRe opt bag line).isEmpty = true
  · rw [if_pos he, if_pos he]
    cases opt.onlyDelimited <;> simp
  · rw [if_neg he, if_neg he]
    exact cutStr_eq_spec_gen (literalAfterCompress opt R) _ hR rfl hty hjson hz hL

/-! ## 6. `-r R` without `-p`: every printed range is matched again -/

/-- the matches of `ms` that lie inside `[a, b)`, as offsets into that slice -/
def insideShift (ms : List (Nat × Nat)) (a b : Nat) : List (Nat × Nat) :=
  (ms.filter fun m => decide (a ≤ m.1 ∧ m.2 ≤ b)).map fun m => (m.1 - a, m.2 - a)

/-- **the matcher is context-free on the slices `cut_str` prints**: on a slice of the record that
    starts at offset 0 or where a match (of `RE` or `(RE)+`) ends, and ends at the end of the
    record or where a match starts, `RE` finds exactly the matches it finds there in the whole
    record.  A property of the regex engine for expressions without anchors / look-around
    (`^a` violates it); it is validated by testing, not proved. -/
def SliceStable (bag : RegexBag) (line : Bytes) : Prop :=
  ∀ a b : Nat, (a = 0 ∨ ∃ m ∈ bag.normal line ++ bag.greedy line, m.2 = a) →
    (b = line.length ∨ ∃ m ∈ bag.normal line ++ bag.greedy line, m.1 = b) → a ≤ b →
    bag.normal (slice line a b) = insideShift (bag.normal line) a b

theorem StrictMatches.mem {n : Nat} : ∀ {ms : List (Nat × Nat)} {lo : Nat},
    StrictMatches n lo ms → ∀ m ∈ ms, lo ≤ m.1 ∧ m.1 < m.2 ∧ m.2 ≤ n
  | [], _, _, m, hm => by cases hm
  | (s, e) :: t, lo, h, m, hm => by
    rcases List.mem_cons.mp hm with rfl | hm
    · exact ⟨h.1, h.2.1, h.2.2.1⟩
    · have := StrictMatches.mem h.2.2.2 m hm
      have h1 := h.1
      have h2 := h.2.1
      exact ⟨by omega, this.2⟩

/-- replacing inside a slice, in the coordinates of the whole text -/
theorem replaceMatches_slice (text R : Bytes) (A B : Nat) :
    ∀ (X : List (Nat × Nat)) (p : Nat), (∀ m ∈ X, A ≤ m.2) →
      replaceMatches (slice text A B) R p (X.map fun m => (m.1 - A, m.2 - A)) =
        replaceMatches (text.take B) R (p + A) X := by
  have hdrop : ∀ p, (slice text A B).drop p = (text.take B).drop (p + A) := by
    intro p
    unfold slice
    have h : (text.take B).drop A = (text.drop A).take (B - A) := List.drop_take ..
    rw [Nat.add_comm p A, ← List.drop_drop, h]
  intro X
  induction X with
  | nil => intro p _; simp only [List.map_nil, replaceMatches]; exact hdrop p
  | cons m t ih =>
    obtain ⟨s, e⟩ := m
    intro p hX
    have he : A ≤ e := hX (s, e) (List.mem_cons_self ..)
    have iht := ih (e - A) (fun m hm => hX m (List.mem_cons_of_mem _ hm))
    have e1 : e - A + A = e := by omega
    rw [e1] at iht
    simp only [List.map_cons, replaceMatches, iht]
    congr 2
    unfold slice at hdrop ⊢
    rw [hdrop p]
    congr 1
    omega

theorem slice_take {α : Type} (l : List α) (x y B : Nat) (h : y ≤ B) :
    slice (l.take B) x y = slice l x y := by
  unfold slice
  rw [List.drop_take, List.take_take]
  congr 1
  omega

theorem take_drop_eq_slice {α : Type} (l : List α) (x y : Nat) :
    (l.take y).drop x = slice l x y := by
  unfold slice
  rw [List.drop_take]

/-- the text of a range after `-r R`, in the coordinates of the record: every match between the
    first and the last gap of the range is replaced by `R`, nothing else -/
theorem replace_eq_pieceTextRe (line R : Bytes) :
    ∀ (ms : List (Nat × Nat)) (prev : Nat), StrictMatches line.length prev ms → prev ≤ line.length →
      ∀ (a b : Nat) (_ : a ≤ b) (hb : b < (rangesBetweenMatches line.length prev ms).length),
        replaceMatches (line.take ((rangesBetweenMatches line.length prev ms)[b]).stop) R
            ((rangesBetweenMatches line.length prev ms)[a]'(by omega)).start
            (ms.filter fun m => decide
              (((rangesBetweenMatches line.length prev ms)[a]'(by omega)).start ≤ m.1 ∧
                m.2 ≤ ((rangesBetweenMatches line.length prev ms)[b]).stop)) =
          pieceTextRe (sepRe (some R)) (tokFrom line (fun _ _ => 1) prev ms) (a + 1) (b + 1) := by
  intro ms
  induction ms with
  | nil =>
    intro prev _ _ a b hab hb
    simp only [rangesBetweenMatches, List.length_singleton] at hb
    have hb0 : b = 0 := by omega
    have ha0 : a = 0 := by omega
    subst hb0; subst ha0
    rw [pieceTextRe_one_one]
    simp only [rangesBetweenMatches, List.getElem_cons_zero, tokFrom, List.filter_nil,
      replaceMatches, List.take_length]
  | cons m t ih =>
    obtain ⟨s, e⟩ := m
    intro prev hm hp a b hab hb
    obtain ⟨h1, h2, h3, h4⟩ := hm
    have hmem := StrictMatches.mem h4
    have hin := rangesBetweenMatches_in line.length t e h4.sorted h3
    cases b with
    | zero =>
      have ha0 : a = 0 := by omega
      subst ha0
      rw [pieceTextRe_one_one]
      show replaceMatches (line.take s) R prev
        (((s, e) :: t).filter fun m => decide (prev ≤ m.1 ∧ m.2 ≤ s)) = slice line prev s
      have hnil : (((s, e) :: t).filter fun m => decide (prev ≤ m.1 ∧ m.2 ≤ s)) = [] := by
        rw [List.filter_eq_nil_iff]
        intro m hm
        rcases List.mem_cons.mp hm with rfl | hm
        · simp only [decide_eq_true_eq]; omega
        · have := hmem m hm
          simp only [decide_eq_true_eq]; omega
      rw [hnil]
      simp only [replaceMatches]
      exact take_drop_eq_slice line prev s
    | succ b' =>
      have hb' : b' < (rangesBetweenMatches line.length e t).length := by
        simpa [rangesBetweenMatches] using hb
      cases a with
      | zero =>
        have hge := hin.getElem 0 b' (Nat.zero_le _) hb'
        have hhead := rangesBetweenMatches_head line.length t e (by omega)
        have ihh := ih e h4 h3 0 b' (Nat.zero_le _) hb'
        simp only [hhead] at ihh hge
        show replaceMatches (line.take ((rangesBetweenMatches line.length e t)[b']).stop) R prev
          (((s, e) :: t).filter fun m => decide
            (prev ≤ m.1 ∧ m.2 ≤ ((rangesBetweenMatches line.length e t)[b']).stop)) = _
        have hcons : (((s, e) :: t).filter fun m => decide
            (prev ≤ m.1 ∧ m.2 ≤ ((rangesBetweenMatches line.length e t)[b']).stop)) =
            (s, e) :: (t.filter fun m => decide
              (e ≤ m.1 ∧ m.2 ≤ ((rangesBetweenMatches line.length e t)[b']).stop)) := by
          rw [List.filter_cons_of_pos (by simp only [decide_eq_true_eq]; omega)]
          congr 1
          apply List.filter_congr
          intro m hm
          have := hmem m hm
          simp only [decide_eq_decide]
          constructor
          · intro h; exact ⟨this.1, h.2⟩
          · intro h; exact ⟨by omega, h.2⟩
        rw [hcons]
        simp only [replaceMatches]
        rw [ihh, slice_take _ _ _ _ (by omega)]
        show _ = pieceTextRe _ ⟨slice line prev s,
          (slice line s e, 1, (tokFrom line (fun _ _ => 1) e t).first) ::
            (tokFrom line (fun _ _ => 1) e t).rest⟩ 1 (b' + 2)
        rw [pieceTextRe_one_succ]
        simp [sepRe, repeatBytes]
      | succ a' =>
        have hge := hin.getElem a' b' (by omega) hb'
        have ihh := ih e h4 h3 a' b' (by omega) hb'
        show replaceMatches (line.take ((rangesBetweenMatches line.length e t)[b']).stop) R
          ((rangesBetweenMatches line.length e t)[a']).start
          (((s, e) :: t).filter fun m => decide
            (((rangesBetweenMatches line.length e t)[a']).start ≤ m.1 ∧
              m.2 ≤ ((rangesBetweenMatches line.length e t)[b']).stop)) = _
        rw [List.filter_cons_of_neg (by simp only [decide_eq_true_eq]; omega), ihh]
        show _ = pieceTextRe _ ⟨slice line prev s,
          (slice line s e, 1, (tokFrom line (fun _ _ => 1) e t).first) ::
            (tokFrom line (fun _ _ => 1) e t).rest⟩ (a' + 2) (b' + 2)
        rw [pieceTextRe_succ_succ]

/-- every range starts at `prev` or where a match ends, and stops at the end of the record or
    where a match starts -/
theorem rangesBetweenMatches_boundaries (L : Nat) :
    ∀ (ms : List (Nat × Nat)) (prev i : Nat) (hi : i < (rangesBetweenMatches L prev ms).length),
      (((rangesBetweenMatches L prev ms)[i]).start = prev ∨
          ∃ m ∈ ms, m.2 = ((rangesBetweenMatches L prev ms)[i]).start) ∧
        (((rangesBetweenMatches L prev ms)[i]).stop = L ∨
          ∃ m ∈ ms, m.1 = ((rangesBetweenMatches L prev ms)[i]).stop)
  | [], prev, i, hi => by
    simp only [rangesBetweenMatches, List.length_singleton] at hi
    have : i = 0 := by omega
    subst this
    exact ⟨Or.inl rfl, Or.inl rfl⟩
  | (s, e) :: t, prev, 0, _ => ⟨Or.inl rfl, Or.inr ⟨(s, e), List.mem_cons_self .., rfl⟩⟩
  | (s, e) :: t, prev, i + 1, hi => by
    have hi' : i < (rangesBetweenMatches L e t).length := by
      simpa [rangesBetweenMatches] using hi
    obtain ⟨h1, h2⟩ := rangesBetweenMatches_boundaries L t e i hi'
    show (((rangesBetweenMatches L e t)[i]).start = prev ∨
          ∃ m ∈ (s, e) :: t, m.2 = ((rangesBetweenMatches L e t)[i]).start) ∧
        (((rangesBetweenMatches L e t)[i]).stop = L ∨
          ∃ m ∈ (s, e) :: t, m.1 = ((rangesBetweenMatches L e t)[i]).stop)
    refine ⟨Or.inr ?_, ?_⟩
    · rcases h1 with h1 | ⟨m, hm, h1⟩
      · exact ⟨(s, e), List.mem_cons_self .., h1.symm⟩
      · exact ⟨m, List.mem_cons_of_mem _ hm, h1⟩
    · rcases h2 with h2 | ⟨m, hm, h2⟩
      · exact Or.inl h2
      · exact Or.inr ⟨m, List.mem_cons_of_mem _ hm, h2⟩

/-- **C16, one record, `-r R` without `-p` and `-g`.**  Under the `find_iter` contract with
    non-empty matches and `SliceStable` (on the record after `-t`), `cut_str` with `-e RE -r R`
    (`-j` allowed: the joiner is `R`; any of `-t -s -m`, fallbacks, fillers) writes what the
    specification says: inside a printed range every separator is the literal bytes `R`, once. -/
theorem cutStr_regex_replace_eq_spec (opt : Opt) (bag : RegexBag) (line : Bytes) (R : Bytes)
    (hre : opt.regexBag = some bag) (hok : bag.OK)
    (hr : opt.replaceDelimiter = some R) (hp : opt.compressDelimiter = false)
    (hg : opt.greedyDelimiter = false)
    (hjson : opt.json = false) (hty : opt.boundsType = .fields ∨ opt.boundsType = .lines)
    (hz : AllNonzero opt.bounds.list) (hL : LastMarked opt.bounds.list)
    (hstrict : StrictMatches (trimmedRe opt bag line).length 0 (bag.normal (trimmedRe opt bag line)))
    (hstable : SliceStable bag (trimmedRe opt bag line)) :
    (cutStrCore line opt [opt.eol.byte]).1 = specRecordRe (cfgOf opt) bag line := by
  apply cutStr_regex_eq_spec_of_piece opt bag line hre hok hp hjson hty hz hL
  revert hstrict hstable
  suffices key : ∀ line' : Bytes, StrictMatches line'.length 0 (bag.normal line') →
      SliceStable bag line' → line' ≠ [] →
      ∀ (a b : Nat) (_ : a ≤ b) (hb : b < (fieldsRe opt bag line').length),
        maybeReplaceDelimiter
            (slice line' ((fieldsRe opt bag line')[a]'(by omega)).start
              ((fieldsRe opt bag line')[b]).stop) opt false =
          pieceTextRe (sepRe opt.replaceDelimiter)
            (tokenizeRe bag opt.greedyDelimiter line') (a + 1) (b + 1) from
    key (trimmedRe opt bag line)
  intro line' hstrict hstable
  have hf : fieldsRe opt bag line' = rangesBetweenMatches line'.length 0 (bag.normal line') := by
    unfold fieldsRe; rw [hg]; rfl
  have ht : tokenizeRe bag opt.greedyDelimiter line' =
      tokFrom line' (fun _ _ => 1) 0 (bag.normal line') := by
    rw [hg]; rfl
  rw [ht, hr]
  intro _ a b hab hb
  rw [List.getElem_of_eq hf (by omega : a < _), List.getElem_of_eq hf hb]
  rw [hf] at hb
  have hnc : opt.boundsType ≠ .characters := by
    rcases hty with hty | hty <;> rw [hty] <;> intro h <;> cases h
  have hmrd : ∀ text, maybeReplaceDelimiter text opt false =
      replaceMatches text R 0 (bag.normal text) := by
    intro text
    unfold maybeReplaceDelimiter
    rw [if_neg hnc, hr, hre]
    rfl
  have hin := rangesBetweenMatches_in line'.length (bag.normal line') 0 hstrict.sorted (Nat.zero_le _)
  have hA := (rangesBetweenMatches_boundaries line'.length (bag.normal line') 0 a (by omega)).1
  have hB := (rangesBetweenMatches_boundaries line'.length (bag.normal line') 0 b hb).2
  have hAB := (hin.getElem a b hab hb).2.1
  rw [hmrd, hstable _ _
    (hA.imp id (fun ⟨m, hm, h⟩ => ⟨m, List.mem_append_left _ hm, h⟩))
    (hB.imp id (fun ⟨m, hm, h⟩ => ⟨m, List.mem_append_left _ hm, h⟩)) hAB]
  unfold insideShift
  rw [replaceMatches_slice _ _ _ _ _ 0
    (by
      intro m hm
      have h1 := (List.mem_filter.mp hm).2
      have h2 := hstrict.mem m (List.mem_filter.mp hm).1
      simp only [decide_eq_true_eq] at h1
      omega),
    Nat.zero_add]
  exact replace_eq_pieceTextRe line' R _ 0 hstrict (Nat.zero_le _) a b hab hb

end Tuc
