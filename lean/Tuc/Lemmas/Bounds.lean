import Tuc.Model.Bounds
import Tuc.Spec.Record
/-!
# Lemmas about the bounds arithmetic: `try_into_range` against the specification's `resolve`.
-/
namespace Tuc
open Tuc.Spec

/-- a side the parser can produce: never the index 0 -/
def Side.Nonzero : Side → Prop
  | .some v => v ≠ 0
  | .cont => True

def UserBounds.Nonzero (b : UserBounds) : Prop := b.l.Nonzero ∧ b.r.Nonzero

theorem rangeStart_eq (l : Side) (n : Nat) (h : l.Nonzero) :
    rangeStart l n = (resolveSide l n 1).map (fun (lo : Nat) => Int.ofNat lo - 1) := by
  cases l with
  | cont => simp [rangeStart, resolveSide]
  | some v =>
    have hv : v ≠ 0 := h
    simp only [rangeStart, resolveSide]
    by_cases hoob : v > (n : Int) ∨ v < -(n : Int)
    · have : v = 0 ∨ v > (n : Int) ∨ v < -(n : Int) := Or.inr hoob
      rw [if_pos hoob, if_pos this]; rfl
    · have hno : ¬ (v = 0 ∨ v > (n : Int) ∨ v < -(n : Int)) := by omega
      rw [if_neg hoob, if_neg hno]
      by_cases hneg : v < 0
      · have hp : ¬ (v > 0) := by omega
        rw [if_pos hneg, if_neg hp]
        simp only [Option.map_some, Option.some.injEq, Int.ofNat_eq_natCast]; omega
      · have hp : v > 0 := by omega
        rw [if_neg hneg, if_pos hp]
        simp only [Option.map_some, Option.some.injEq, Int.ofNat_eq_natCast]; omega

theorem rangeEnd_eq (r : Side) (n : Nat) (h : r.Nonzero) :
    rangeEnd r n = (resolveSide r n n).map (fun (hi : Nat) => Int.ofNat hi) := by
  cases r with
  | cont => simp [rangeEnd, resolveSide]
  | some v =>
    have hv : v ≠ 0 := h
    simp only [rangeEnd, resolveSide]
    by_cases hoob : v > (n : Int) ∨ v < -(n : Int)
    · have : v = 0 ∨ v > (n : Int) ∨ v < -(n : Int) := Or.inr hoob
      rw [if_pos hoob, if_pos this]; rfl
    · have hno : ¬ (v = 0 ∨ v > (n : Int) ∨ v < -(n : Int)) := by omega
      rw [if_neg hoob, if_neg hno]
      by_cases hneg : v < 0
      · have hp : ¬ (v > 0) := by omega
        rw [if_pos hneg, if_neg hp]
        simp only [Option.map_some, Option.some.injEq, Int.ofNat_eq_natCast]; omega
      · have hp : v > 0 := by omega
        rw [if_neg hneg, if_pos hp]
        simp only [Option.map_some, Option.some.injEq, Int.ofNat_eq_natCast]; omega

/-- whatever `resolveSide` returns lies in `1 … n` (for a default in that interval) -/
theorem resolveSide_bounds (s : Side) (n dflt k : Nat) (hd : 1 ≤ dflt ∧ dflt ≤ n ∨ s ≠ .cont)
    (h : resolveSide s n dflt = some k) : 1 ≤ k ∧ k ≤ n := by
  cases s with
  | cont =>
    simp only [resolveSide, Option.some.injEq] at h
    subst h
    rcases hd with hd | hd
    · exact hd
    · exact absurd rfl hd
  | some v =>
    simp only [resolveSide] at h
    by_cases hc : v = 0 ∨ v > (n : Int) ∨ v < -(n : Int)
    · rw [if_pos hc] at h; cases h
    · rw [if_neg hc] at h
      by_cases hp : v > 0
      · rw [if_pos hp] at h; simp only [Option.some.injEq] at h; omega
      · rw [if_neg hp] at h; simp only [Option.some.injEq] at h; omega

/-- `try_into_range` succeeds exactly when the specification can resolve the bound, and then
    returns the 0-based half-open form of the same interval. -/
theorem tryIntoRange_eq_resolve (b : UserBounds) (n : Nat) (h : b.Nonzero) :
    b.tryIntoRange n = (resolve b n).map fun (lo, hi) => (lo - 1, hi) := by
  obtain ⟨hl, hr⟩ := h
  unfold UserBounds.tryIntoRange resolve
  rw [rangeStart_eq b.l n hl, rangeEnd_eq b.r n hr]
  cases hlo : resolveSide b.l n 1 with
  | none => simp
  | some lo =>
    cases hhi : resolveSide b.r n n with
    | none => simp
    | some hi =>
      simp only [Option.map_some, Int.ofNat_eq_natCast]
      by_cases hle : lo ≤ hi ∧ 1 ≤ lo
      · have h1 : ¬ ((hi : Int) ≤ (lo : Int) - 1) := by omega
        rw [if_neg h1, if_pos hle]
        simp only [Option.map_some, Option.some.injEq, Prod.mk.injEq]
        omega
      · by_cases hn : n = 0
        · -- no parts: nothing resolves
          subst hn
          have : (hi : Int) ≤ (lo : Int) - 1 := by
            cases hbl : b.l with
            | cont =>
              rw [hbl] at hlo; simp [resolveSide] at hlo
              cases hbr : b.r with
              | cont => rw [hbr] at hhi; simp [resolveSide] at hhi; omega
              | some v =>
                have := resolveSide_bounds (.some v) 0 0 hi (Or.inr (by simp)) (hbr ▸ hhi)
                omega
            | some u =>
              have := resolveSide_bounds (.some u) 0 1 lo (Or.inr (by simp)) (hbl ▸ hlo)
              omega
          rw [if_pos this, if_neg hle]; rfl
        · have hlo1 : 1 ≤ lo := by
            have := resolveSide_bounds b.l n 1 lo (Or.inl (by omega)) hlo
            exact this.1
          have h1 : (hi : Int) ≤ (lo : Int) - 1 := by omega
          rw [if_pos h1, if_neg hle]; rfl

/-- a resolved range lies inside the parts: `0 ≤ start < end ≤ n` -/
theorem tryIntoRange_bounds (b : UserBounds) (n s e : Nat) (hz : b.l ≠ .some 0)
    (h : b.tryIntoRange n = some (s, e)) :
    s < e ∧ e ≤ n := by
  unfold UserBounds.tryIntoRange at h
  cases hs : rangeStart b.l n with
  | none => simp [hs] at h
  | some s' =>
    cases he : rangeEnd b.r n with
    | none => simp [hs, he] at h
    | some e' =>
      simp only [hs, he] at h
      by_cases hle : e' ≤ s'
      · simp [hle] at h
      · simp only [hle, if_false, Option.some.injEq, Prod.mk.injEq] at h
        have hs0 : 0 ≤ s' := by
          cases hl : b.l with
          | cont => rw [hl] at hs; simp [rangeStart] at hs; omega
          | some v =>
            rw [hl] at hs; simp only [rangeStart] at hs
            by_cases c1 : v > (n : Int) ∨ v < -(n : Int)
            · simp [c1] at hs
            · rw [if_neg c1] at hs
              by_cases c2 : v < 0
              · rw [if_pos c2] at hs; simp at hs; omega
              · rw [if_neg c2] at hs; simp at hs
                have : v ≠ 0 := fun h0 => hz (by rw [hl, h0])
                omega
        have hen : e' ≤ n := by
          cases hr : b.r with
          | cont => rw [hr] at he; simp [rangeEnd] at he; omega
          | some v =>
            rw [hr] at he; simp only [rangeEnd] at he
            by_cases c1 : v > (n : Int) ∨ v < -(n : Int)
            · simp [c1] at he
            · rw [if_neg c1] at he
              by_cases c2 : v < 0
              · rw [if_pos c2] at he; simp at he; omega
              · rw [if_neg c2] at he; simp at he; omega
        omega

end Tuc
