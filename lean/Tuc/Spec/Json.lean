import Tuc.Model.Basic
/-!
# Tuc.Spec.Json — an independent, strict reader of the JSON subset "array of strings" (RFC 8259)

This is the *specification side* of property C08: a decoder written from the grammar of RFC 8259
§7 (strings) and §5 (arrays), with no reference to the encoder of `Tuc.Model.Utf8`.

What the reader accepts (and nothing else):

* `jsonDecodeString`: one string literal at the head of the input.
  After the opening `"`:
  - any byte `≥ 0x20` other than `"` and `\` is copied raw (multi-byte UTF-8 goes through byte by
    byte; the reader does not re-validate UTF-8),
  - a raw byte `< 0x20` is an **error** (RFC 8259: control characters MUST be escaped),
  - `\" \\ \/ \b \f \n \r \t` decode to the one byte they denote,
  - `\uXXXX` (exactly four hex digits, either case) decodes to the UTF-8 encoding of the code
    point; a high surrogate `D800–DBFF` must be followed at once by a `\uXXXX` low surrogate
    `DC00–DFFF` and the pair decodes to the 4-byte encoding of the supplementary code point;
    a lone high surrogate, a lone low surrogate and a high surrogate followed by anything else
    are **errors**,
  - any other byte after `\` is an **error**,
  - end of input before the closing `"` is an **error**.
  The result is `(decoded bytes, input after the closing quote)`.
* `jsonDecodeArray`: `ws [ ws ] ws` or `ws [ ws string ws (, ws string ws)* ] ws`, and then the
  end of the input; `ws` is optional JSON whitespace (space, TAB, LF, CR).  Anything else
  (other value types, trailing comma, trailing garbage, missing bracket) is an **error**.

The recursions are structural (`jsonDecodeBody`, on the input) or fuelled by the length of the
input (`jsonDecodeElems`: every element consumes at least the comma).
-/

namespace Tuc.Spec
open Tuc

/-- `sep`-separated concatenation, nothing before the first nor after the last item -/
def joinWith (sep : Bytes) : List Bytes → Bytes
  | [] => []
  | [x] => x
  | x :: y :: t => x ++ sep ++ joinWith sep (y :: t)

/-- value of one hexadecimal digit, either case -/
def jsonHexVal (b : UInt8) : Option Nat :=
  if 0x30 ≤ b ∧ b ≤ 0x39 then some (b.toNat - 0x30)        -- 0-9
  else if 0x41 ≤ b ∧ b ≤ 0x46 then some (b.toNat - 0x37)   -- A-F
  else if 0x61 ≤ b ∧ b ≤ 0x66 then some (b.toNat - 0x57)   -- a-f
  else none

/-- value of four hexadecimal digits -/
def jsonHex4 (h1 h2 h3 h4 : UInt8) : Option Nat :=
  match jsonHexVal h1, jsonHexVal h2, jsonHexVal h3, jsonHexVal h4 with
  | some a, some b, some c, some d => some (((a * 16 + b) * 16 + c) * 16 + d)
  | _, _, _, _ => none

/-- UTF-8 encoding of a code point of the Basic Multilingual Plane (`cp < 0x10000`) -/
def utf8OfBmp (cp : Nat) : Bytes :=
  if cp < 0x80 then [UInt8.ofNat cp]
  else if cp < 0x800 then [UInt8.ofNat (0xC0 + cp / 64), UInt8.ofNat (0x80 + cp % 64)]
  else [UInt8.ofNat (0xE0 + cp / 4096), UInt8.ofNat (0x80 + cp / 64 % 64), UInt8.ofNat (0x80 + cp % 64)]

/-- UTF-8 encoding of a supplementary code point (`0x10000 ≤ cp < 0x110000`) -/
def utf8OfSupplementary (cp : Nat) : Bytes :=
  [UInt8.ofNat (0xF0 + cp / 262144), UInt8.ofNat (0x80 + cp / 4096 % 64),
   UInt8.ofNat (0x80 + cp / 64 % 64), UInt8.ofNat (0x80 + cp % 64)]

/-- the byte denoted by the one-letter escape `\e` -/
def jsonSimpleEscape (e : UInt8) : Option UInt8 :=
  if e = 0x22 then some 0x22        -- \"
  else if e = 0x5C then some 0x5C   -- \\
  else if e = 0x2F then some 0x2F   -- \/
  else if e = 0x62 then some 0x08   -- \b
  else if e = 0x66 then some 0x0C   -- \f
  else if e = 0x6E then some 0x0A   -- \n
  else if e = 0x72 then some 0x0D   -- \r
  else if e = 0x74 then some 0x09   -- \t
  else none

/-- put already decoded bytes in front of what the rest of the string decodes to -/
def jsonPrepend (pre : Bytes) (r : Option (Bytes × Bytes)) : Option (Bytes × Bytes) :=
  r.map fun p => (pre ++ p.1, p.2)

/-- the inside of a string literal, the opening quote being consumed already:
    `(decoded bytes, input after the closing quote)` -/
def jsonDecodeBody : Bytes → Option (Bytes × Bytes)
  | [] => none                                            -- unterminated
  | b :: t =>
    if b = 0x22 then some ([], t)                         -- closing quote
    else if b = 0x5C then
      match t with
      | [] => none
      | e :: t1 =>
        if e = 0x75 then                                  -- \uXXXX
          match t1 with
          | h1 :: h2 :: h3 :: h4 :: t2 =>
            match jsonHex4 h1 h2 h3 h4 with
            | none => none
            | some cp =>
              if cp < 0xD800 ∨ 0xE000 ≤ cp then jsonPrepend (utf8OfBmp cp) (jsonDecodeBody t2)
              else if cp < 0xDC00 then                    -- high surrogate: a low one must follow
                match t2 with
                | b1 :: b2 :: l1 :: l2 :: l3 :: l4 :: t3 =>
                  if b1 = 0x5C ∧ b2 = 0x75 then
                    match jsonHex4 l1 l2 l3 l4 with
                    | none => none
                    | some lo =>
                      if 0xDC00 ≤ lo ∧ lo < 0xE000 then
                        jsonPrepend
                          (utf8OfSupplementary (0x10000 + (cp - 0xD800) * 0x400 + (lo - 0xDC00)))
                          (jsonDecodeBody t3)
                      else none
                  else none
                | _ => none
              else none                                   -- lone low surrogate
          | _ => none
        else
          match jsonSimpleEscape e with
          | some c => jsonPrepend [c] (jsonDecodeBody t1)
          | none => none                                  -- unknown escape
    else if b < 0x20 then none                            -- raw control character
    else jsonPrepend [b] (jsonDecodeBody t)

/-- one string literal at the head of the input: `(decoded bytes, rest of the input)` -/
def jsonDecodeString : Bytes → Option (Bytes × Bytes)
  | [] => none
  | b :: t => if b = 0x22 then jsonDecodeBody t else none

/-- The lexer's view of a string body (the opening quote being consumed already): offset of the
    first *unescaped* `"` — a `\` hides the byte that follows it, whatever it is. -/
def jsonFirstUnescapedQuote : Bytes → Option Nat
  | [] => none
  | b :: t =>
    if b = 0x22 then some 0
    else if b = 0x5C then
      match t with
      | [] => none
      | _ :: t1 => (jsonFirstUnescapedQuote t1).map (· + 2)
    else (jsonFirstUnescapedQuote t).map (· + 1)

def jsonIsWs (b : UInt8) : Bool := b = 0x20 || b = 0x09 || b = 0x0A || b = 0x0D

/-- drop leading JSON whitespace -/
def jsonSkipWs : Bytes → Bytes
  | [] => []
  | b :: t => if jsonIsWs b then jsonSkipWs t else b :: t

/-- what follows an element of the array: `ws ] ws <end>` or `ws , ws string` and again -/
def jsonDecodeElems : Nat → Bytes → Option (List Bytes)
  | 0, _ => none
  | fuel + 1, inp =>
    match jsonSkipWs inp with
    | [] => none
    | b :: t =>
      if b = 0x5D then (if jsonSkipWs t = [] then some [] else none)
      else if b = 0x2C then
        match jsonDecodeString (jsonSkipWs t) with
        | none => none
        | some (s, rest) => (jsonDecodeElems fuel rest).map (s :: ·)
      else none

/-- a complete JSON text that is an array of strings -/
def jsonDecodeArray (inp : Bytes) : Option (List Bytes) :=
  match jsonSkipWs inp with
  | [] => none
  | b :: t =>
    if b = 0x5B then
      match jsonSkipWs t with
      | [] => none
      | c :: t1 =>
        if c = 0x5D then (if jsonSkipWs t1 = [] then some [] else none)
        else
          match jsonDecodeString (c :: t1) with
          | none => none
          | some (s, rest) => (jsonDecodeElems inp.length rest).map (s :: ·)
    else none

end Tuc.Spec
