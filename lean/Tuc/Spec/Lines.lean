import Tuc.Spec.Record
/-!
# Tuc.Spec.Lines — specifications of `-l` and `-b`
-/
namespace Tuc.Spec
open Tuc

def tokOfParts (sepCount : Nat) : List Bytes → Option Tok
  | [] => none
  | p :: ps => some ⟨p, ps.map fun x => (sepCount, x)⟩

/-- `-l`: the lines of the input are the parts; selected lines are separated by the EOL, bounds
    are separated by the EOL unless `--no-join`; one EOL ends the output.  The whole input is
    one "record", so an empty input (or a lone EOL) is an empty record. -/
def specLines (cfg : Cfg) (input : Bytes) : Run :=
  match tokOfParts 1 (records cfg.eol input) with
  | none => Run.ok [cfg.eol]
  | some tok =>
    if tok.rest.isEmpty && tok.first.isEmpty then Run.ok [cfg.eol]
    else
      let n := tok.numFields
      let bofs := if cfg.complement then mapBounds (complementBound · n) cfg.bofs else cfg.bofs
      if cfg.complement && countBounds bofs == 0 then Run.fail
      else
        (emit { cfg with json := false } tok (fun k => repeatBytes [cfg.eol] k) [cfg.eol] bofs).seq
          (Run.ok [cfg.eol])

/-- `-b`: the bytes of the input are the parts; nothing is added -/
def specBytes (cfg : Cfg) (data : Bytes) : Run :=
  match tokOfParts 0 (data.map fun b => [b]) with
  | none => Run.empty
  | some tok => emit { cfg with json := false, join := false } tok (fun _ => []) [] cfg.bofs

end Tuc.Spec
