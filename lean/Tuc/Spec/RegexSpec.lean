import Tuc.Model.Options
import Tuc.Model.Utf8
import Tuc.Spec.Record
/-!
# Tuc.Spec.RegexSpec — the per-record specification with a regex delimiter (`-e RE`, property C16)

Parametric in the matcher: a `RegexBag` is only asked for its two lists of matches (`RE` and
`(RE)+`) over the record.  As in `Tuc.Spec.Record` the answer is written without byte offsets:
the record is tokenised into *contents* — the gaps between successive matches and the texts of the
separators found between them — a bound is resolved to a pair of field numbers (`Spec.resolve`)
and the output is assembled from those (`emitWith`, the loop of `Spec.emit` for any way of
rendering the fields `lo … hi`).

* fields = the gaps between successive matches of `RE` (`-g`: of `(RE)+`, i.e. between maximal
  runs of adjacent matches);
* without `-r` a separator inside a printed range is kept verbatim;
* with `-r R` it is rendered as the literal bytes `R`, once per match of `RE` it is made of
  (exactly once without `-g`); the joiner is `R`;
* `-t` removes the run of matches touching the chosen end(s) of the record, nothing else;
* `-p -r R`: every run of matches is rewritten to `R`, and the rewritten record is cut with the
  LITERAL delimiter `R` (`Spec.specRecord`), no further replacement;
* `-p` or `-j` without `-r` is refused;
* everything else (bounds, fallbacks, `-s`, `-m`, `--json`) is as with a literal delimiter.
-/

namespace Tuc.Spec
open Tuc

/-- A record tokenised by a regex: the first gap, then (separator text, number of matches of `RE`
    the separator is made of, next gap) triples. -/
structure TokRe where
  first : Bytes
  rest : List (Bytes × Nat × Bytes)
  deriving Repr, DecidableEq

def TokRe.numFields (t : TokRe) : Nat := t.rest.length + 1

/-- the tokens of what follows offset `prev`, given the matches after `prev`; `cnt s e` = how many
    matches of `RE` the separator `[s, e)` counts for -/
def tokFrom (line : Bytes) (cnt : Nat → Nat → Nat) : Nat → List (Nat × Nat) → TokRe
  | prev, [] => ⟨line.drop prev, []⟩
  | prev, (s, e) :: t =>
    let r := tokFrom line cnt e t
    ⟨slice line prev s, (slice line s e, cnt s e, r.first) :: r.rest⟩

/-- first gap, then (separator text, next gap) pairs: the tokens of `line` for the matches `ms`,
    every separator counting for one match -/
def tokOfMatches (line : Bytes) (ms : List (Nat × Nat)) : TokRe := tokFrom line (fun _ _ => 1) 0 ms

/-- how many of the matches `ms` lie inside `[s, e)` -/
def countInside (ms : List (Nat × Nat)) (s e : Nat) : Nat :=
  (ms.filter fun m => decide (s ≤ m.1 ∧ m.2 ≤ e)).length

/-- the tokens of a record: gaps of `RE`; with `-g` gaps of `(RE)+`, each separator counting for
    the matches of `RE` inside it -/
def tokenizeRe (bag : RegexBag) (greedy : Bool) (line : Bytes) : TokRe :=
  if greedy then tokFrom line (countInside (bag.normal line)) 0 (bag.greedy line)
  else tokOfMatches line (bag.normal line)

/-- text of fields `lo … hi` with what is between them; `sep x k` renders the separator whose text
    is `x` and which is made of `k` matches -/
def pieceTextRe (sep : Bytes → Nat → Bytes) (t : TokRe) (lo hi : Nat) : Bytes :=
  let all : List (Bytes × Nat × Bytes) := ([], 0, t.first) :: t.rest
  let sel := (all.drop (lo - 1)).take (hi - lo + 1)
  match sel with
  | [] => []
  | (_, _, f) :: more => f ++ more.flatMap fun (x, k, g) => sep x k ++ g

/-- `-t` with a regex: `ms` are the runs of matches (`(RE)+`) of the record.  A run that starts at
    offset 0 is cut off on the left, a run that ends at the end of the record on the right; a run
    covering the whole record leaves nothing. -/
def trimRe (line : Bytes) (k : Trim) (ms : List (Nat × Nat)) : Bytes :=
  let l : Nat :=
    if k = .both ∨ k = .left then
      match ms.head? with
      | some (0, e) => e
      | _ => 0
    else 0
  let r : Nat :=
    if k = .both ∨ k = .right then
      match ms.getLast? with
      | some (s, e) => if e = line.length then s else line.length
      | none => line.length
    else line.length
  (line.take r).drop l

/-- `Spec.emit` for any tokenisation: `n` fields, `piece lo hi` = the text of fields `lo … hi`.
    Fillers verbatim, every bound by the piece / own fallback / generic fallback / failure rule,
    the joiner after every bound but the last. -/
def emitWith (cfg : Cfg) (n : Nat) (piece : Nat → Nat → Bytes) (joiner : Bytes) : List BoF → Run
  | [] => Run.empty
  | .filler f :: rest => Run.pre f (emitWith cfg n piece joiner rest)
  | .bound b :: rest =>
    let text : Option Bytes :=
      match resolve b n with
      | some (lo, hi) => some (piece lo hi)
      | none =>
        match b.fallback with
        | some f => some f
        | none => cfg.fallback
    match text with
    | none => Run.fail
    | some x =>
      let x' : Option Bytes := if cfg.json then (if validUtf8 x then some (jsonString x) else none) else some x
      match x' with
      | none => Run.fail
      | some x' =>
        let j := if cfg.join && countBounds rest > 0 then joiner else []
        Run.pre (x' ++ j) (emitWith cfg n piece joiner rest)

/-- how a separator (text `x`, made of `k` matches) is printed inside a range -/
def sepRe (replace : Option Bytes) : Bytes → Nat → Bytes := fun x k =>
  match replace with
  | some r => repeatBytes r k
  | none => x

/-- The specification of one record in field mode with a regex delimiter.  `cfg.delimiter` and
    `cfg.chars` are not looked at. -/
def specRecordRe (cfg : Cfg) (bag : RegexBag) (record : Bytes) : Run :=
  if (cfg.compress || cfg.join) && cfg.replace.isNone then Run.fail
  else
    let line := match cfg.trim with
      | some k => trimRe record k (bag.greedy record)
      | none => record
    if line.isEmpty then (if cfg.onlyDelimited then Run.empty else Run.ok [cfg.eol])
    else
      match cfg.compress, cfg.replace with
      | true, some r =>
        -- every run of matches becomes `r`; then `r` is an ordinary literal delimiter
        specRecord { cfg with delimiter := r, compress := false, replace := none, trim := none, chars := false }
          (replaceMatches line r 0 (bag.greedy line))
      | _, _ =>
        let tok := tokenizeRe bag cfg.greedy line
        let n := tok.numFields
        if cfg.onlyDelimited && n == 1 then Run.empty
        else
          let openB : Bytes := if cfg.json then [0x5B] else []
          let closeB : Bytes := if cfg.json then [0x5D] else []
          let bofs := if cfg.complement then mapBounds (complementBound · n) cfg.bofs else cfg.bofs
          if cfg.complement && countBounds bofs == 0 then ⟨openB, .fail⟩
          else
            let bofs := if cfg.json then mapBounds (expandBound · n) bofs else bofs
            Run.pre openB
              ((emitWith cfg n (pieceTextRe (sepRe cfg.replace) tok) (cfg.replace.getD []) bofs).seq
                (Run.ok (closeB ++ [cfg.eol])))

/-- the records of a run, in order, stop at the first one that fails -/
def specRunRecordsRe (cfg : Cfg) (bag : RegexBag) : List Bytes → Run
  | [] => Run.empty
  | r :: t => (specRecordRe cfg bag r).seq (specRunRecordsRe cfg bag t)

end Tuc.Spec
