import Tuc.Model.Options
import Tuc.Model.Utf8
/-!
# Tuc.Spec.Record — the abstract per-record specification (DESIGN.md §2.2)

Written without byte offsets: a record is tokenised into *contents* (fields and the separators
actually found between them), a bound is resolved to a 1-based inclusive pair of field numbers,
and the output is assembled from those.  The engines of `Tuc.Model` are proved / checked to
refine this.
-/

namespace Tuc.Spec
open Tuc

/-- contents of the fields of `line`: split at every leftmost non-overlapping occurrence of `d`
    (`skip` = bytes of the current occurrence still to step over) -/
def splitAux (d : Bytes) : Nat → Bytes → Bytes → List Bytes
  | _, cur, [] => [cur]
  | skip + 1, cur, _ :: t => splitAux d skip cur t
  | 0, cur, c :: t =>
    if d.isPrefixOf (c :: t) then cur :: splitAux d (d.length - 1) [] t
    else splitAux d 0 (cur ++ [c]) t

def splitFields (d line : Bytes) : List Bytes := splitAux d 0 [] line

/-- A tokenised record: the first field, then (number of delimiter occurrences in the separator,
    next field) pairs. -/
structure Tok where
  first : Bytes
  rest : List (Nat × Bytes)
  deriving Repr, DecidableEq

def Tok.numFields (t : Tok) : Nat := t.rest.length + 1

/-- `-g`: an empty field between two occurrences is no field; its two separators are one run -/
def greedyMerge : Nat → List Bytes → List (Nat × Bytes)
  | _, [] => []
  | k, [f] => [(k, f)]
  | k, f :: t => if f.isEmpty then greedyMerge (k + 1) t else (k, f) :: greedyMerge 1 t

/-- `-p`: empty fields between occurrences vanish together with one of their separators -/
def compressFields : List Bytes → List Bytes
  | [] => []
  | [f] => [f]
  | f :: t => if f.isEmpty then compressFields t else f :: compressFields t

def tokenize (d : Bytes) (greedy compress : Bool) (line : Bytes) : Tok :=
  match splitFields d line with
  | [] => ⟨[], []⟩
  | f0 :: rest =>
    let rest := if compress then compressFields rest else rest
    if greedy then ⟨f0, greedyMerge 1 rest⟩ else ⟨f0, rest.map fun f => (1, f)⟩

/-- character mode: every scalar value is a field, separators are empty -/
def tokenizeChars (line : Bytes) : Option Tok :=
  match utf8Chars line with
  | some (c :: cs) => some ⟨c, cs.map fun x => (0, x)⟩
  | _ => none

/-- 1-based position of a written index among `n` parts -/
def resolveSide (s : Side) (n : Nat) (dflt : Nat) : Option Nat :=
  match s with
  | .cont => some dflt
  | .some v =>
    if v = 0 ∨ v > (n : Int) ∨ v < -(n : Int) then none
    else if v > 0 then some v.toNat else some ((n : Int) + 1 + v).toNat

/-- the parts `lo … hi` (1-based, inclusive) a bound selects among `n`, if it can be resolved -/
def resolve (b : UserBounds) (n : Nat) : Option (Nat × Nat) :=
  match resolveSide b.l n 1, resolveSide b.r n n with
  | some lo, some hi => if lo ≤ hi ∧ 1 ≤ lo then some (lo, hi) else none
  | _, _ => none

def repeatBytes (x : Bytes) : Nat → Bytes
  | 0 => []
  | k + 1 => x ++ repeatBytes x k

/-- text of fields `lo … hi` with what is between them; `sep k` renders a separator made of `k`
    occurrences -/
def pieceText (sep : Nat → Bytes) (t : Tok) (lo hi : Nat) : Bytes :=
  let all : List (Nat × Bytes) := (0, t.first) :: t.rest
  let sel := (all.drop (lo - 1)).take (hi - lo + 1)
  match sel with
  | [] => []
  | (_, f) :: more => f ++ more.flatMap fun (k, g) => sep k ++ g

/-- the request of one record -/
structure Cfg where
  delimiter : Bytes
  eol : UInt8
  bofs : List BoF
  chars : Bool := false
  onlyDelimited : Bool := false
  greedy : Bool := false
  compress : Bool := false
  replace : Option Bytes := none
  trim : Option Trim := none
  complement : Bool := false
  join : Bool := false
  json : Bool := false
  fallback : Option Bytes := none
  deriving Repr

/-- what `-m` turns a bound into, given `n` parts: the parts before it and the parts after it;
    a bound that cannot be resolved stays -/
def complementBound (b : UserBounds) (n : Nat) : List UserBounds :=
  match resolve b n with
  | none => [{ b with isLast := false }]
  | some (lo, hi) =>
    (if 1 < lo then [{ l := .some 1, r := .some ((lo : Int) - 1) }] else []) ++
    (if hi < n then [{ l := .some ((hi : Int) + 1), r := .some (n : Int) }] else [])

/-- `--json` / `-c`: one element per part -/
def expandBound (b : UserBounds) (n : Nat) : List UserBounds :=
  match resolve b n with
  | none => [{ b with isLast := false }]
  | some (lo, hi) => (List.range (hi - lo + 1)).map fun i => UserBounds.single ((lo + i : Nat) : Int)

def mapBounds (f : UserBounds → List UserBounds) : List BoF → List BoF
  | [] => []
  | .filler x :: t => .filler x :: mapBounds f t
  | .bound b :: t => (f b).map .bound ++ mapBounds f t

def countBounds : List BoF → Nat
  | [] => 0
  | .filler _ :: t => countBounds t
  | .bound _ :: t => countBounds t + 1

/-- assemble the record: fillers verbatim, every bound by the piece / own fallback / generic
    fallback / failure rule, the joiner after every bound but the last -/
def emit (cfg : Cfg) (t : Tok) (sep : Nat → Bytes) (joiner : Bytes) : List BoF → Run
  | [] => Run.empty
  | .filler f :: rest => Run.pre f (emit cfg t sep joiner rest)
  | .bound b :: rest =>
    let text : Option Bytes :=
      match resolve b t.numFields with
      | some (lo, hi) => some (pieceText sep t lo hi)
      | none =>
        match b.fallback with
        | some f => some f
        | none => cfg.fallback
    match text with
    | none => Run.fail
    | some x =>
      let x' : Option Bytes := if cfg.json then (if validUtf8 x then some (jsonString x) else none) else some x
      match x' with
      | none => Run.fail
      | some x' =>
        let j := if cfg.join && countBounds rest > 0 then joiner else []
        Run.pre (x' ++ j) (emit cfg t sep joiner rest)

/-- The specification of one record. -/
def specRecord (cfg : Cfg) (record : Bytes) : Run :=
  let line := match cfg.trim with
    | some k => if cfg.chars then record else trimLiteral record k cfg.delimiter
    | none => record
  if line.isEmpty then (if cfg.onlyDelimited then Run.empty else Run.ok [cfg.eol])
  else
    let tok? : Option Tok :=
      if cfg.chars then tokenizeChars line
      else some (tokenize cfg.delimiter cfg.greedy cfg.compress line)
    match tok? with
    | none => Run.fail     -- character mode on text that is not UTF-8: outside the specification
    | some tok =>
      let n := tok.numFields
      if cfg.onlyDelimited && n == 1 then Run.empty
      else
        let openB : Bytes := if cfg.json then [0x5B] else []
        let closeB : Bytes := if cfg.json then [0x5D] else []
        let bofs := if cfg.complement then mapBounds (complementBound · n) cfg.bofs else cfg.bofs
        if cfg.complement && countBounds bofs == 0 then ⟨openB, .fail⟩
        else
          let bofs := if cfg.json || cfg.chars then mapBounds (expandBound · n) bofs else bofs
          let sep : Nat → Bytes := fun k =>
            if cfg.chars then []
            else match cfg.replace with
              | some r => repeatBytes r k
              | none => repeatBytes cfg.delimiter k
          let joiner : Bytes := cfg.replace.getD cfg.delimiter
          Run.pre openB ((emit cfg tok sep joiner bofs).seq (Run.ok (closeB ++ [cfg.eol])))

/-- records of the input: split at the EOL byte; a final unterminated non-empty piece counts -/
def specRecords (eol : UInt8) (input : Bytes) : List Bytes := records eol input

/-- The specification of a run: records in order, stop at the first one that fails. -/
def specRunRecords (cfg : Cfg) : List Bytes → Run
  | [] => Run.empty
  | r :: t => (specRecord cfg r).seq (specRunRecords cfg t)

def specRun (cfg : Cfg) (input : Bytes) : Run := specRunRecords cfg (specRecords cfg.eol input)

/-- the specification's view of an `Opt` (literal delimiter) -/
def cfgOf (o : Opt) : Cfg :=
  { delimiter := o.delimiter, eol := o.eol.byte, bofs := o.bounds.list,
    chars := o.boundsType = .characters,
    onlyDelimited := o.onlyDelimited, greedy := o.greedyDelimiter,
    compress := o.compressDelimiter && (o.boundsType = .fields || o.boundsType = .lines),
    replace := o.replaceDelimiter, trim := o.trim, complement := o.complement, join := o.join,
    json := o.json, fallback := o.fallbackOob }

end Tuc.Spec
