import Tuc.Model.Bounds
/-!
# Tuc.Spec.Grammar — the bounds mini-language as a grammar (specification side of C18)

An independent, declarative, executable description of what the options `-f`, `-b`, `-c`, `-l` accept:

* `specInt`   — optional single sign, ASCII digits, value inside `i32`;
* `specBound` — `N | N:M | N: | :M`, optionally followed by `=fallback`;
* `lex`       — left-to-right maximal munch into `{{`, `}}`, `{`, `}`, other characters;
* `parseToks` — the token-level format-string grammar;
* `specParse` — the whole argument.

Only the data types (`Side`, `UserBounds`, `BoF`) and `utf8` are shared with the model; none of
the model's parsing functions is used here.
-/

namespace Tuc.Spec
open Tuc

/-! ## integers -/

def isAsciiDigit (c : Char) : Bool := decide (48 ≤ c.toNat) && decide (c.toNat ≤ 57)

/-- value of a string of decimal digits, most significant first -/
def decimalValue (ds : List Char) : Nat :=
  ds.foldl (fun acc c => 10 * acc + (c.toNat - 48)) 0

/-- an unsigned non-empty all-digit string -/
def specNat (ds : List Char) : Option Nat :=
  if ds ≠ [] ∧ ds.all isAsciiDigit then some (decimalValue ds) else none

def inI32 (v : Int) : Bool := decide (-2147483648 ≤ v) && decide (v ≤ 2147483647)

/-- optional single sign `+`/`-`, at least one ASCII digit, value within
    −2147483648 … 2147483647 -/
def specInt (s : List Char) : Option Int :=
  let signed : Option Int :=
    match s with
    | [] => none
    | c :: t =>
      if c = '-' then (specNat t).map fun (n : Nat) => -(n : Int)
      else if c = '+' then (specNat t).map fun (n : Nat) => (n : Int)
      else (specNat s).map fun (n : Nat) => (n : Int)
  match signed with
  | some v => if inI32 v then some v else none
  | none => none

/-! ## splitting -/

/-- the pieces of `s` between occurrences of `sep` (always at least one piece); `cur` is the
    piece being read -/
def piecesFrom (sep : Char) (cur : List Char) : List Char → List (List Char)
  | [] => [cur]
  | c :: t => if c = sep then cur :: piecesFrom sep [] t else piecesFrom sep (cur ++ [c]) t

def pieces (sep : Char) (s : List Char) : List (List Char) := piecesFrom sep [] s

/-- `(text before the first sep, text after it)`; `none` after it when there is no `sep` -/
def cutAtFirst (sep : Char) (s : List Char) : List Char × Option (List Char) :=
  let before := s.takeWhile (fun c => c != sep)
  match s.dropWhile (fun c => c != sep) with
  | [] => (before, none)
  | _ :: rest => (before, some rest)

/-! ## one bound -/

/-- a written index: a non-zero `specInt` -/
def specIndex (s : List Char) : Option Int :=
  match specInt s with
  | some v => if v = 0 then none else some v
  | none => none

/-- both strictly positive or both strictly negative -/
def sameSignP (a b : Int) : Bool :=
  (decide (0 < a) && decide (0 < b)) || (decide (a < 0) && decide (b < 0))

/-- the range part: `N`, `N:M`, `N:`, `:M` -/
def specRange (s : List Char) : Option (Side × Side) :=
  match pieces ':' s with
  | [n] => (specIndex n).map fun v => (Side.some v, Side.some v)
  | [l, r] =>
    if l = [] ∧ r = [] then none
    else if l = [] then (specIndex r).map fun m => (Side.cont, Side.some m)
    else if r = [] then (specIndex l).map fun n => (Side.some n, Side.cont)
    else
      match specIndex l, specIndex r with
      | some n, some m => if sameSignP n m ∧ ¬ n ≤ m then none else some (Side.some n, Side.some m)
      | _, _ => none
  | _ => none

/-- one bound with its optional `=fallback` (everything after the first `=`) -/
def specBound (s : List Char) : Option UserBounds :=
  let (rangePart, fb) := cutAtFirst '=' s
  match specRange rangePart with
  | some (l, r) => some { l := l, r := r, isLast := false, fallback := fb.map utf8 }
  | none => none

/-- all of them, or nothing -/
def allBounds : List (List Char) → Option (List UserBounds)
  | [] => some []
  | s :: t =>
    match specBound s with
    | none => none
    | some b => (allBounds t).map (b :: ·)

/-- a comma-separated list of bounds -/
def specCommaList (s : List Char) : Option (List BoF) :=
  (allBounds (pieces ',' s)).map fun bs => bs.map BoF.bound

/-! ## the format string: lexer -/

inductive LexTok where
  | lbrace2
  | rbrace2
  | lbrace
  | rbrace
  | chr (c : Char)
  deriving DecidableEq, Repr

def tokOfChar (c : Char) : LexTok :=
  if c = '{' then .lbrace else if c = '}' then .rbrace else .chr c

/-- left-to-right, maximal munch -/
def lex : List Char → List LexTok
  | [] => []
  | [c] => [tokOfChar c]
  | c :: d :: t =>
    if c = '{' ∧ d = '{' then .lbrace2 :: lex t
    else if c = '}' ∧ d = '}' then .rbrace2 :: lex t
    else tokOfChar c :: lex (d :: t)
termination_by structural l => l

/-- the characters a token was read from -/
def LexTok.raw : LexTok → List Char
  | .lbrace2 => ['{', '{']
  | .rbrace2 => ['}', '}']
  | .lbrace => ['{']
  | .rbrace => ['}']
  | .chr c => [c]

/-- the character a token of literal text stands for -/
def LexTok.literal : LexTok → Char
  | .lbrace2 => '{'
  | .rbrace2 => '}'
  | .lbrace => '{'
  | .rbrace => '}'
  | .chr c => c

/-! ## the format string: literal text -/

/-- replace every (left-to-right, non-overlapping) occurrence of backslash + `e` by `r` -/
def substEscape (e r : Char) : List Char → List Char
  | [] => []
  | [c] => [c]
  | c :: d :: t =>
    if c = '\\' ∧ d = e then r :: substEscape e r t else c :: substEscape e r (d :: t)
termination_by structural l => l

/-- literal text: braces token-wise, then `\n`, then `\t`, then UTF-8 -/
def unescapeLiteral (lit : List LexTok) : Bytes :=
  utf8 (substEscape 't' '\t' (substEscape 'n' '\n' (lit.map LexTok.literal)))

/-- an empty run of literal text produces nothing -/
def fillerOf (lit : List LexTok) : List BoF :=
  if lit = [] then [] else [BoF.filler (unescapeLiteral lit)]

/-! ## the format string: token-level parser -/

mutual
/-- outside braces; `lit` is the literal text read since the last `}` -/
def parseOutside (lit : List LexTok) : List LexTok → Option (List BoF)
  | [] => some (fillerOf lit)
  | .lbrace2 :: t => parseOutside (lit ++ [.lbrace2]) t
  | .rbrace2 :: t => parseOutside (lit ++ [.rbrace2]) t
  | .chr c :: t => parseOutside (lit ++ [.chr c]) t
  | .rbrace :: _ => none
  | .lbrace :: t => (parseBody [] t).map fun rest => fillerOf lit ++ rest
/-- inside `{ … }`; `body` is the raw text read since the `{` -/
def parseBody (body : List Char) : List LexTok → Option (List BoF)
  | [] => none
  | .lbrace :: _ => none
  | .rbrace :: t =>
    match specCommaList body, parseOutside [] t with
    | some bs, some rest => some (bs ++ rest)
    | _, _ => none
  | .lbrace2 :: t => parseBody (body ++ ['{', '{']) t
  | .rbrace2 :: t => parseBody (body ++ ['}', '}']) t
  | .chr c :: t => parseBody (body ++ [c]) t
end

def parseToks (ts : List LexTok) : Option (List BoF) := parseOutside [] ts

/-! ## the whole argument -/

/-- Rust's `char::is_whitespace` (Unicode `White_Space`) -/
def isWs (c : Char) : Bool :=
  [0x9, 0xA, 0xB, 0xC, 0xD, 0x20, 0x85, 0xA0, 0x1680,
   0x2000, 0x2001, 0x2002, 0x2003, 0x2004, 0x2005, 0x2006, 0x2007, 0x2008, 0x2009, 0x200A,
   0x2028, 0x2029, 0x202F, 0x205F, 0x3000].contains c.toNat

def hasBound : List BoF → Bool
  | [] => false
  | .bound _ :: _ => true
  | .filler _ :: t => hasBound t

/-- `isLast := true` on the last bound of the list (and only there) -/
def flagLast : List BoF → List BoF
  | [] => []
  | .filler f :: t => .filler f :: flagLast t
  | .bound b :: t =>
    if hasBound t then .bound b :: flagLast t else .bound { b with isLast := true } :: t

def hasBrace (s : List Char) : Bool := s.contains '{' || s.contains '}'

/-- the grammar of a bounds argument -/
def specItems (s : List Char) : Option (List BoF) :=
  if hasBrace s then parseToks (lex s) else specCommaList s

def specParse (s : List Char) : Option (List BoF) :=
  if s.all isWs then none
  else
    match specItems s with
    | none => none
    | some l => if hasBound l then some (flagLast l) else none

end Tuc.Spec
