import Tuc.Model.Utf8
import Tuc.Model.Chars
import Tuc.Model.CutStr
/-!
# C07 — character mode cuts by Unicode scalar value and never splits one

* `charLen` (Unicode Table 3-7) decides the head sequence from its own 1–4 bytes
  (`charLen_bounds`, `charLen_append`, `charLen_take`).
* `utf8Chars` never runs out of fuel (`utf8CharsFuel_fuel`) and is characterised exactly
  (`utf8Chars_iff`): `utf8Chars bs = some cs` iff `cs.flatten = bs` and every piece of `cs` is one
  well-formed scalar value.  Nothing is lost, altered, reordered or split (`utf8Chars_flatten`,
  `utf8Chars_each`), and any selection, repetition or reordering of characters of valid records
  is valid UTF-8 again and decodes to exactly those characters (`utf8Chars_of_chars`,
  `utf8Chars_append`, `validUtf8_append`).
* The engine: with the `\b|\B` bag (`charsBag`) the field vector that `cut_str` builds for a
  non-empty record of valid UTF-8 is `rangesOfChars 0 cs` — one range per scalar value, in order
  (`charFields`, `cutStrCore_chars`); the i-th range cuts out the i-th character
  (`slice_rangesOfChars`), a range of fields `s+1 ..= e` cuts out exactly the whole characters
  `s+1 ..= e`, in range, and the result is valid UTF-8 (`charRange_slice`, `charRange_valid`);
  `--trim` is the identity in this mode (`trimRegex_charMatches`).

That `charMatches` is what the real regex engine returns for `\b|\B` is validated by the
correspondence check of C07, not proved here (the regex engine is in the trusted base).
-/
namespace Tuc

/-- 1. the head sequence is 1 to 4 bytes long and lies inside the string -/
theorem charLen_bounds (bs : Bytes) (k : Nat) (h : charLen bs = some k) :
    1 ≤ k ∧ k ≤ 4 ∧ k ≤ bs.length := by
  unfold charLen at h
  repeat' split at h
  all_goals first
    | cases h; done
    | (simp only [Option.ite_none_right_eq_some, Option.some.injEq] at h
       first | subst h | obtain ⟨_, rfl⟩ := h
       simp)

/-- the head sequence is decided by its own bytes: whatever follows them, the answer is the same -/
theorem charLen_take_append (bs : Bytes) (k : Nat) (rest : Bytes) (h : charLen bs = some k) :
    charLen (bs.take k ++ rest) = some k := by
  unfold charLen at h
  repeat' split at h
  all_goals first
    | cases h; done
    | (simp only [Option.ite_none_right_eq_some, Option.some.injEq] at h
       first | subst h | obtain ⟨_, rfl⟩ := h
       simp [charLen, *])

/-- the head sequence, cut out, is a well-formed sequence of exactly its own length -/
theorem charLen_take (bs : Bytes) (k : Nat) (h : charLen bs = some k) :
    charLen (bs.take k) = some (bs.take k).length := by
  have := charLen_take_append bs k [] h
  have hb := charLen_bounds bs k h
  rw [List.append_nil] at this
  rw [this, List.length_take, Nat.min_eq_left hb.2.2]

/-- 2. the head sequence is decided by its own bytes -/
theorem charLen_append (c rest : Bytes) (h : charLen c = some c.length) :
    charLen (c ++ rest) = some c.length := by
  have := charLen_take_append c c.length rest h
  rwa [List.take_length] at this

theorem utf8CharsFuel_fuel_eq (n : Nat) : ∀ (m : Nat) (bs : Bytes), bs.length ≤ n → bs.length ≤ m →
    utf8CharsFuel n bs = utf8CharsFuel m bs := by
  induction n with
  | zero =>
    intro m bs h _
    have : bs = [] := List.eq_nil_of_length_eq_zero (by omega)
    subst this
    cases m <;> rfl
  | succ n ih =>
    intro m bs hn hm
    cases bs with
    | nil => cases m <;> rfl
    | cons b t =>
      cases m with
      | zero => simp at hm
      | succ m =>
        simp only [utf8CharsFuel]
        cases hk : charLen (b :: t) with
        | none => rfl
        | some k =>
          have hb := charLen_bounds _ _ hk
          simp only
          rw [ih m]
          · simp only [List.length_drop, List.length_cons] at hn ⊢; omega
          · simp only [List.length_drop, List.length_cons] at hm ⊢; omega

/-- 3. the fuel never runs out -/
theorem utf8CharsFuel_fuel (n : Nat) (bs : Bytes) (h : bs.length ≤ n) :
    utf8CharsFuel n bs = utf8CharsFuel bs.length bs :=
  utf8CharsFuel_fuel_eq n bs.length bs h (Nat.le_refl _)

/-- one step of the segmentation -/
theorem utf8Chars_cons (c rest : Bytes) (h : charLen c = some c.length) :
    utf8Chars (c ++ rest) = (utf8Chars rest).map (c :: ·) := by
  have hb := charLen_bounds _ _ h
  cases c with
  | nil => simp at hb
  | cons b t =>
    have h' := charLen_append _ rest h
    unfold utf8Chars
    simp only [List.cons_append, List.length_cons] at h' ⊢
    simp only [utf8CharsFuel, h']
    have e1 : List.drop (t.length + 1) (b :: (t ++ rest)) = rest := by simp
    have e2 : List.take (t.length + 1) (b :: (t ++ rest)) = b :: t := by simp
    rw [e1, e2, utf8CharsFuel_fuel _ rest (by simp)]

theorem utf8Chars_nil : utf8Chars [] = some [] := rfl


theorem utf8CharsFuel_sound (n : Nat) : ∀ (bs : Bytes) (cs : List Bytes),
    utf8CharsFuel n bs = some cs → cs.flatten = bs ∧ ∀ c ∈ cs, charLen c = some c.length := by
  induction n with
  | zero =>
    intro bs cs h
    cases bs with
    | nil => simp only [utf8CharsFuel, Option.some.injEq] at h; subst h; simp
    | cons b t => simp [utf8CharsFuel] at h
  | succ n ih =>
    intro bs cs h
    cases bs with
    | nil => simp only [utf8CharsFuel, Option.some.injEq] at h; subst h; simp
    | cons b t =>
      simp only [utf8CharsFuel] at h
      cases hk : charLen (b :: t) with
      | none => simp [hk] at h
      | some k =>
        simp only [hk, Option.map_eq_some_iff] at h
        obtain ⟨cs', hcs', rfl⟩ := h
        obtain ⟨h1, h2⟩ := ih _ _ hcs'
        constructor
        · rw [List.flatten_cons, h1, List.take_append_drop]
        · intro c hc
          rcases List.mem_cons.1 hc with rfl | hc
          · exact charLen_take _ _ hk
          · exact h2 c hc

/-- 4. nothing is lost, altered or reordered, and no character is split -/
theorem utf8Chars_flatten (bs : Bytes) (cs : List Bytes) (h : utf8Chars bs = some cs) :
    cs.flatten = bs := (utf8CharsFuel_sound _ bs cs h).1

/-- 5. every piece is exactly one well-formed scalar value (of 1–4 bytes, `charLen_bounds`) -/
theorem utf8Chars_each (bs : Bytes) (cs : List Bytes) (h : utf8Chars bs = some cs) :
    ∀ c ∈ cs, charLen c = some c.length := (utf8CharsFuel_sound _ bs cs h).2

/-- 6. any list of well-formed scalar values — hence any selection, repetition or reordering of
    characters of valid records — concatenates to valid UTF-8 that decodes to exactly that list -/
theorem utf8Chars_of_chars (cs : List Bytes) (h : ∀ c ∈ cs, charLen c = some c.length) :
    utf8Chars cs.flatten = some cs := by
  induction cs with
  | nil => rfl
  | cons c cs ih =>
    rw [List.flatten_cons, utf8Chars_cons c _ (h c (List.mem_cons_self ..)),
      ih (fun c' hc' => h c' (List.mem_cons_of_mem _ hc'))]
    rfl

/-- the exact characterisation of the segmentation (and its uniqueness) -/
theorem utf8Chars_iff (bs : Bytes) (cs : List Bytes) :
    utf8Chars bs = some cs ↔ cs.flatten = bs ∧ ∀ c ∈ cs, charLen c = some c.length := by
  constructor
  · intro h; exact ⟨utf8Chars_flatten bs cs h, utf8Chars_each bs cs h⟩
  · rintro ⟨rfl, h⟩; exact utf8Chars_of_chars cs h

theorem utf8Chars_append (a b : Bytes) (ca cb : List Bytes) (ha : utf8Chars a = some ca)
    (hb : utf8Chars b = some cb) : utf8Chars (a ++ b) = some (ca ++ cb) := by
  rw [utf8Chars_iff] at ha hb ⊢
  obtain ⟨rfl, ha⟩ := ha
  obtain ⟨rfl, hb⟩ := hb
  refine ⟨List.flatten_append, ?_⟩
  intro c hc
  rcases List.mem_append.1 hc with hc | hc
  · exact ha c hc
  · exact hb c hc

theorem validUtf8_iff (bs : Bytes) : validUtf8 bs = true ↔ ∃ cs, utf8Chars bs = some cs := by
  simp [validUtf8, Option.isSome_iff_exists]

theorem validUtf8_append (a b : Bytes) (ha : validUtf8 a) (hb : validUtf8 b) :
    validUtf8 (a ++ b) := by
  rw [validUtf8_iff] at ha hb ⊢
  obtain ⟨ca, ha⟩ := ha
  obtain ⟨cb, hb⟩ := hb
  exact ⟨_, utf8Chars_append a b ca cb ha hb⟩

/-- any selection, repetition or reordering of characters of valid text is valid text -/
theorem validUtf8_flatten_of_chars (cs : List Bytes) (h : ∀ c ∈ cs, charLen c = some c.length) :
    validUtf8 cs.flatten := by
  rw [validUtf8_iff]; exact ⟨cs, utf8Chars_of_chars cs h⟩

/-- "aé€😎" -/
example : utf8Chars [0x61,0xC3,0xA9,0xE2,0x82,0xAC,0xF0,0x9F,0x98,0x8E] =
    some [[0x61],[0xC3,0xA9],[0xE2,0x82,0xAC],[0xF0,0x9F,0x98,0x8E]] := by decide
/-- "😎a€" rebuilt from characters of the record above, one repeated: valid, same characters -/
example : utf8Chars ([[0xF0,0x9F,0x98,0x8E],[0x61],[0xE2,0x82,0xAC],[0x61]] : List Bytes).flatten =
    some [[0xF0,0x9F,0x98,0x8E],[0x61],[0xE2,0x82,0xAC],[0x61]] := by decide
/-- an overlong form, a surrogate, a value above U+10FFFF, a truncated sequence and a stray
    continuation byte are not UTF-8 -/
example : utf8Chars [0xC0,0x80] = none ∧ utf8Chars [0xED,0xA0,0x80] = none ∧
    utf8Chars [0xF4,0x90,0x80,0x80] = none ∧ utf8Chars [0x61,0xE2,0x82] = none ∧
    utf8Chars [0x80] = none := by decide


/-! ## the engine -/

/-- consecutive ranges of the characters, starting at `pos` -/
def rangesOfChars : Nat → List Bytes → List Range
  | _, [] => []
  | pos, c :: t => ⟨pos, pos + c.length⟩ :: rangesOfChars (pos + c.length) t

theorem rangesOfChars_length (pos : Nat) (cs : List Bytes) :
    (rangesOfChars pos cs).length = cs.length := by
  induction cs generalizing pos with
  | nil => rfl
  | cons c t ih => simp [rangesOfChars, ih]

theorem rangesBetweenMatches_boundaries_c (L : Nat) (cs : List Bytes) : ∀ (prev pos : Nat),
    rangesBetweenMatches L prev ((boundariesFrom pos cs).map fun p => (p, p)) =
      ⟨prev, pos⟩ :: (rangesOfChars pos cs ++ [⟨pos + cs.flatten.length, L⟩]) := by
  induction cs with
  | nil => intro prev pos; simp [boundariesFrom, rangesBetweenMatches, rangesOfChars]
  | cons c t ih =>
    intro prev pos
    simp only [boundariesFrom, List.map_cons, rangesBetweenMatches, ih, rangesOfChars,
      List.flatten_cons, List.length_append, List.cons_append, Nat.add_assoc]

/-- what `fill_with_fields_locations_using_regex` returns for the `\b|\B` bag -/
theorem fill_charMatches (line : Bytes) (cs : List Bytes) (hne : line ≠ [])
    (hcs : utf8Chars line = some cs) :
    fillWithFieldsLocationsUsingRegex [] line (charMatches line) =
      ⟨0, 0⟩ :: (rangesOfChars 0 cs ++ [⟨line.length, line.length⟩]) := by
  have hf := utf8Chars_flatten line cs hcs
  unfold fillWithFieldsLocationsUsingRegex charMatches
  rw [hcs]
  simp only [List.isEmpty_iff, hne, if_false]
  rw [rangesBetweenMatches_boundaries_c, hf, Nat.zero_add]

/-- **the fields of character mode are exactly the scalar values of the record, in order** -/
theorem charFields (line : Bytes) (cs : List Bytes) (hne : line ≠ [])
    (hcs : utf8Chars line = some cs) :
    (fillWithFieldsLocationsUsingRegex [] line (charMatches line)).length > 2 ∧
    (fillWithFieldsLocationsUsingRegex [] line (charMatches line)).dropLast.drop 1 =
      rangesOfChars 0 cs := by
  rw [fill_charMatches line cs hne hcs]
  have hcs' : cs ≠ [] := by
    rintro rfl
    exact hne (utf8Chars_flatten line [] hcs).symm
  constructor
  · have : cs.length > 0 := List.length_pos_iff.2 hcs'
    simp [rangesOfChars_length]; omega
  · rw [← List.cons_append, List.dropLast_concat]; rfl

theorem map_slice_rangesOfChars (cs : List Bytes) : ∀ (pre : Bytes),
    (rangesOfChars pre.length cs).map (fun r => slice (pre ++ cs.flatten) r.start r.stop) = cs := by
  induction cs with
  | nil => intro pre; rfl
  | cons c t ih =>
    intro pre
    simp only [rangesOfChars, List.map_cons, List.flatten_cons]
    have := ih (pre ++ c)
    rw [List.length_append, List.append_assoc] at this
    rw [this]
    congr 1
    simp [slice]

/-- every range of the field vector cuts out exactly its character -/
theorem slice_rangesOfChars (line : Bytes) (cs : List Bytes) (hcs : utf8Chars line = some cs) :
    (rangesOfChars 0 cs).map (fun r => slice line r.start r.stop) = cs := by
  have := map_slice_rangesOfChars cs []
  rwa [List.length_nil, List.nil_append, utf8Chars_flatten line cs hcs] at this


/-- the `i`-th range starts after the first `i` characters and ends after the first `i+1` -/
theorem rangesOfChars_getElem? (cs : List Bytes) : ∀ (pos i : Nat),
    (rangesOfChars pos cs)[i]? =
      if i < cs.length then
        some ⟨pos + (cs.take i).flatten.length, pos + (cs.take (i + 1)).flatten.length⟩
      else none := by
  induction cs with
  | nil => intro pos i; simp [rangesOfChars]
  | cons c t ih =>
    intro pos i
    cases i with
    | zero => simp [rangesOfChars]
    | succ j =>
      simp only [rangesOfChars, List.getElem?_cons_succ, ih, List.length_cons,
        Nat.add_lt_add_iff_right, List.take_succ_cons, List.flatten_cons, List.length_append,
        Nat.add_assoc]

theorem slice_flatten_take (cs : List Bytes) (s e : Nat) (hse : s ≤ e) :
    slice cs.flatten (cs.take s).flatten.length (cs.take e).flatten.length =
      (slice cs s e).flatten := by
  unfold slice
  have h1 : cs.flatten = (cs.take s).flatten ++ (cs.drop s).flatten := by
    rw [← List.flatten_append, List.take_append_drop]
  have h2 : cs.take e = cs.take s ++ (cs.drop s).take (e - s) := by
    have : e = s + (e - s) := by omega
    conv => lhs; rw [this, List.take_add]
  have h3 : (cs.drop s).flatten =
      ((cs.drop s).take (e - s)).flatten ++ ((cs.drop s).drop (e - s)).flatten := by
    rw [← List.flatten_append, List.take_append_drop]
  rw [h2, List.flatten_append, List.length_append, Nat.add_sub_cancel_left]
  conv => lhs; rw [h1, List.drop_left, h3, List.take_left]

/-- **character mode never splits a scalar value**: the bytes that the output loop writes for
    the characters `s+1 ..= e` (`fields[s].start .. fields[e-1].end`, `outputBof`) are exactly
    the whole characters `s+1 ..= e` of the record, and the slice is in range (no panic) -/
theorem charRange_slice (line : Bytes) (cs : List Bytes) (hcs : utf8Chars line = some cs)
    (s e : Nat) (hse : s < e) (he : e ≤ cs.length) (fs fe : Range)
    (hs : (rangesOfChars 0 cs)[s]? = some fs) (hfe : (rangesOfChars 0 cs)[e - 1]? = some fe) :
    fs.start ≤ fe.stop ∧ fe.stop ≤ line.length ∧
      slice line fs.start fe.stop = (slice cs s e).flatten := by
  have hf := utf8Chars_flatten line cs hcs
  rw [rangesOfChars_getElem?, if_pos (by omega)] at hs hfe
  simp only [Option.some.injEq] at hs hfe
  subst hs hfe
  have e1 : e - 1 + 1 = e := by omega
  simp only [Nat.zero_add, e1]
  have hmono : (cs.take s).flatten.length ≤ (cs.take e).flatten.length := by
    have : cs.take e = cs.take s ++ (cs.drop s).take (e - s) := by
      have : e = s + (e - s) := by omega
      conv => lhs; rw [this, List.take_add]
    rw [this, List.flatten_append, List.length_append]; omega
  have hle : (cs.take e).flatten.length ≤ line.length := by
    have : cs.flatten = (cs.take e).flatten ++ (cs.drop e).flatten := by
      rw [← List.flatten_append, List.take_append_drop]
    rw [← hf, this, List.length_append]; omega
  refine ⟨hmono, hle, ?_⟩
  rw [← hf]
  exact slice_flatten_take cs s e (by omega)


/-- what is written for a range of characters is valid UTF-8 and decodes to exactly the selected
    characters -/
theorem charRange_valid (line : Bytes) (cs : List Bytes) (hcs : utf8Chars line = some cs)
    (s e : Nat) (hse : s < e) (he : e ≤ cs.length) (fs fe : Range)
    (hs : (rangesOfChars 0 cs)[s]? = some fs) (hfe : (rangesOfChars 0 cs)[e - 1]? = some fe) :
    utf8Chars (slice line fs.start fe.stop) = some (slice cs s e) := by
  rw [(charRange_slice line cs hcs s e hse he fs fe hs hfe).2.2]
  apply utf8Chars_of_chars
  intro c hc
  exact utf8Chars_each line cs hcs c (List.mem_of_mem_drop (List.mem_of_mem_take hc))

/-- "aé€😎": the field vector of character mode, and the text of characters 2–3 -/
example :
    (fillWithFieldsLocationsUsingRegex [] [0x61,0xC3,0xA9,0xE2,0x82,0xAC,0xF0,0x9F,0x98,0x8E]
      (charMatches [0x61,0xC3,0xA9,0xE2,0x82,0xAC,0xF0,0x9F,0x98,0x8E])).dropLast.drop 1 =
      [⟨0, 1⟩, ⟨1, 3⟩, ⟨3, 6⟩, ⟨6, 10⟩] ∧
    slice [0x61,0xC3,0xA9,0xE2,0x82,0xAC,0xF0,0x9F,0x98,0x8E] 1 6 = [0xC3,0xA9,0xE2,0x82,0xAC] := by
  decide

theorem boundariesFrom_head? (cs : List Bytes) (pos : Nat) :
    (boundariesFrom pos cs).head? = some pos := by
  cases cs <;> rfl

theorem boundariesFrom_getLast? (cs : List Bytes) : ∀ pos : Nat,
    (boundariesFrom pos cs).getLast? = some (pos + cs.flatten.length) := by
  induction cs with
  | nil => intro pos; simp [boundariesFrom]
  | cons c t ih =>
    intro pos
    have hne : boundariesFrom (pos + c.length) t ≠ [] := by cases t <;> simp [boundariesFrom]
    obtain ⟨x, l, hl⟩ := List.exists_cons_of_ne_nil hne
    have := ih (pos + c.length)
    rw [boundariesFrom, hl, List.getLast?_cons_cons, ← hl, this]
    simp [Nat.add_assoc]

/-- `--trim` is the identity in character mode: the matches touching the ends are empty -/
theorem trimRegex_charMatches (line : Bytes) (cs : List Bytes) (k : TrimKind)
    (hcs : utf8Chars line = some cs) : trimRegex line k (charMatches line) = line := by
  have hf := utf8Chars_flatten line cs hcs
  have hh : (charMatches line).head? = some (0, 0) := by
    simp [charMatches, hcs, List.head?_map, boundariesFrom_head?]
  have hl : (charMatches line).getLast? = some (line.length, line.length) := by
    simp [charMatches, hcs, List.getLast?_map, boundariesFrom_getLast?, hf]
  unfold trimRegex
  rw [hh, hl]
  simp [slice]

/-- the whole of `cut_str` in character mode, on a non-empty record of valid UTF-8: the field
    vector handed to the output stage (and left in the scratch buffer) is the list of the
    scalar values of the record -/
theorem cutStrCore_chars (line : Bytes) (opt : Opt) (eol : Bytes) (cs : List Bytes)
    (hbt : opt.boundsType = .characters) (hbag : opt.regexBag = some charsBag)
    (hguard : (opt.compressDelimiter || opt.join) = true → opt.replaceDelimiter.isSome = true)
    (hne : line ≠ []) (hcs : utf8Chars line = some cs) :
    cutStrCore line opt eol =
      (emitRecord line (rangesOfChars 0 cs) opt false eol, some (rangesOfChars 0 cs), none) := by
  obtain ⟨hlen, hfields⟩ := charFields line cs hne hcs
  have hno : charsBag.normal = charMatches := rfl
  have hgr : charsBag.greedy = charMatches := rfl
  have hc1 : ¬(opt.compressDelimiter = true ∧ opt.replaceDelimiter = none) := by
    rintro ⟨h1, h2⟩; simp [h1, h2] at hguard
  have hc2 : ¬(opt.join = true ∧ opt.replaceDelimiter = none) := by
    rintro ⟨h1, h2⟩; simp [h1, h2] at hguard
  have hlen' : 2 < (fillWithFieldsLocationsUsingRegex [] line (charMatches line)).length := hlen
  rw [List.drop_one] at hfields
  unfold cutStrCore
  generalize opt.trim = tr
  cases tr with
  | none => simp [hbag, hbt, hgr, hno, hc1, hc2, hne, hlen', hfields]
  | some k =>
    simp [hbag, hbt, hgr, hno, hc1, hc2, hne, hlen', hfields, trimRegex_charMatches line cs k hcs]

end Tuc
