import Tuc.Model.Utf8
import Tuc.Model.CutStr
/-!
# C07 — character mode cuts by Unicode scalar value and never splits one
(theorems under construction)
-/
namespace Tuc

/-- the head sequence is 1 to 4 bytes long and lies inside the string -/
theorem charLen_bounds (bs : Bytes) (k : Nat) (h : charLen bs = some k) : 1 ≤ k ∧ k ≤ 4 ∧ k ≤ bs.length := by
  unfold charLen at h
  split at h
  · cases h
  · rename_i b0 t
    split at h
    · simp only [Option.some.injEq] at h; subst h; simp
    · split at h
      · split at h
        · split at h
          · simp only [Option.some.injEq] at h; subst h; simp
          · cases h
        · cases h
      · split at h
        · split at h
          · split at h
            · simp only [Option.some.injEq] at h; subst h; simp
            · cases h
          · cases h
        · split at h
          · split at h
            · split at h
              · simp only [Option.some.injEq] at h; subst h; simp
              · cases h
            · cases h
          · cases h

end Tuc
